"""Behavioural digest of the encryption / decryption code paths (property C03).

Run as:  cd <tree> && /venv/bin/python equiv.py
Prints one sha256 digest; it must be identical on the unchanged and on the refactored tree.
Everything that goes into the digest is deterministic: fixture keys / messages, fixed inputs,
and a counter-based replacement for os.urandom where PGPy draws randomness itself.
Outputs that depend on OpenSSL-internal randomness (RSA PKCS#1 padding, ephemeral ECDH keys)
are only digested after they have been decrypted again, together with their structure.
"""
import copy
import glob
import hashlib
import os
import sys
import warnings

sys.path.insert(0, os.getcwd())
warnings.simplefilter('ignore')

import pgpy  # noqa: E402
from pgpy import PGPKey, PGPMessage  # noqa: E402
from pgpy.constants import (CompressionAlgorithm, HashAlgorithm, PubKeyAlgorithm,  # noqa: E402
                            SymmetricKeyAlgorithm, String2KeyType)
from pgpy.packet import fields, packets  # noqa: E402
from pgpy.packet.types import MPI  # noqa: E402

out = []


def rec(label, value):
    if isinstance(value, (bytes, bytearray)):
        value = bytes(value).hex()
    out.append('{}={!r}'.format(label, value))


def attempt(label, fn):
    try:
        with warnings.catch_warnings(record=True) as w:
            warnings.simplefilter('always')
            res = fn()
        rec(label, res)
        rec(label + '.warnings', sorted((type(x.message).__name__, str(x.message)) for x in w))
    except BaseException as e:  # noqa
        rec(label + '.exc', (type(e).__name__, str(e)))


class FakeRandom(object):
    def __init__(self):
        self.n = 0

    def __call__(self, size):
        self.n += 1
        return hashlib.shake_128(b'equiv%d' % self.n).digest(size)


def msgdesc(m, with_bytes=True):
    d = [m.type, m.is_encrypted, m.is_compressed, m.is_signed, sorted(m.encrypters), sorted(m.issuers)]
    if m.type == 'literal':
        d += [m.filename, bytes(m.message) if isinstance(m.message, (bytes, bytearray)) else m.message]
    if with_bytes:
        d.append(hashlib.sha256(bytes(m)).hexdigest())
    return d


# ---- fixtures
seckeys = {}
for f in sorted(glob.glob('tests/testdata/keys/*.sec.asc')):
    seckeys[os.path.basename(f)] = PGPKey.from_file(f)[0]
pubkeys = {}
for f in sorted(glob.glob('tests/testdata/keys/*.pub.asc')):
    pubkeys[os.path.basename(f)] = PGPKey.from_file(f)[0]

messages = {}
for f in sorted(glob.glob('tests/testdata/messages/message.*.asc')):
    messages[os.path.basename(f)] = PGPMessage.from_file(f)

# ---- 1. parse / serialise / copy of the fixture messages
for name, m in messages.items():
    rec('parse.' + name, msgdesc(m))
    for i, sk in enumerate(m._sessionkeys):
        rec('parse.%s.sk%d' % (name, i), (type(sk).__name__, bytes(sk.__bytearray__()), len(sk),
                                          bytes(copy.copy(sk).__bytearray__())))
        if isinstance(sk, packets.PKESessionKeyV3):
            rec('parse.%s.sk%d.pk' % (name, i), (sk.encrypter, sk.pkalg, type(sk.ct).__name__,
                                                 bytes(sk.ct.__bytearray__()) if sk.ct is not None else None))
        if isinstance(sk, packets.SKESessionKeyV4):
            s2k = sk.s2k
            rec('parse.%s.sk%d.s2k' % (name, i), (bytes(s2k.__bytearray__()), len(s2k), bool(s2k), s2k.usage, s2k.encalg,
                                                  s2k.specifier, s2k.halg, bytes(s2k.salt), s2k.count, s2k._count, s2k.iv,
                                                  bytes(copy.copy(s2k).__bytearray__()), bytes(sk.ct), sk.symalg))

# ---- 2. decrypt every fixture message with every fixture key and with passphrases
for mname, m in messages.items():
    if not m.is_encrypted:
        continue
    for kname, k in seckeys.items():
        if k.is_protected:
            continue
        attempt('dec.%s.%s' % (mname, kname), lambda: msgdesc(k.decrypt(m)))
        for skid, sub in k.subkeys.items():
            attempt('dec.%s.%s.%s' % (mname, kname, skid), lambda: msgdesc(sub.decrypt(m)))
    for pw in ('QwertyUiop', 'TheWrongPassword', b'QwertyUiop', u'Paßwort'):
        attempt('decpw.%s.%r' % (mname, pw), lambda: msgdesc(m.decrypt(pw)))

# ---- 3. passphrase encryption is fully deterministic once os.urandom is pinned
bodies = [b'', b'hello', 'This is stored, tëxt', bytes(bytearray(range(256))) * 40]
real_urandom = os.urandom
try:
    os.urandom = FakeRandom()
    for bi, body in enumerate(bodies):
        for comp in (CompressionAlgorithm.Uncompressed, CompressionAlgorithm.ZIP, CompressionAlgorithm.ZLIB,
                     CompressionAlgorithm.BZ2):
            msg = PGPMessage.new(body, compression=comp, filename='f%d.bin' % bi)
            msg._message.mtime = 1500000000 if hasattr(msg._message, 'mtime') else None
            for cipher in (SymmetricKeyAlgorithm.AES256, SymmetricKeyAlgorithm.CAST5, SymmetricKeyAlgorithm.TripleDES,
                           SymmetricKeyAlgorithm.Camellia192, SymmetricKeyAlgorithm.IDEA, SymmetricKeyAlgorithm.Twofish256):
                for halg in (HashAlgorithm.SHA256, HashAlgorithm.SHA1, HashAlgorithm.SHA512):
                    if (comp is not CompressionAlgorithm.ZIP or bi != 1) and halg is not HashAlgorithm.SHA256:
                        continue
                    if bi != 1 and (comp not in (CompressionAlgorithm.ZIP, CompressionAlgorithm.Uncompressed)
                                    or cipher not in (SymmetricKeyAlgorithm.AES256, SymmetricKeyAlgorithm.CAST5)):
                        continue
                    label = 'pw.%d.%s.%s.%s' % (bi, comp.name, cipher.name, halg.name)
                    for sessionkey in (None, b'\x42' * (cipher.key_size // 8)):
                        def run():
                            enc = msg.encrypt('QwertyUiop', sessionkey=sessionkey, cipher=cipher, hash=halg)
                            dec = enc.decrypt('QwertyUiop')
                            enc2 = enc.encrypt(b'second')  # adds a second passphrase to an already encrypted message
                            return (msgdesc(enc), msgdesc(dec), msgdesc(PGPMessage.from_blob(bytes(enc))),
                                    msgdesc(PGPMessage.from_blob(str(enc))), msgdesc(enc2),
                                    [type(s).__name__ for s in enc2._sessionkeys])
                        attempt(label + ('.gen' if sessionkey is None else '.given'), run)
finally:
    os.urandom = real_urandom

# ---- 4. public-key encryption: digest structure and the result of decrypting again
body = PGPMessage.new(b'public key round trip \x00\x01\x02', filename='pk.bin')
body._message.mtime = 1500000000
signed = None
for kname, sec in seckeys.items():
    if sec.is_protected:
        continue
    pub = sec.pubkey
    for cipher in (None, SymmetricKeyAlgorithm.AES128, SymmetricKeyAlgorithm.Camellia256):
        for user in (None, 'nobody-by-that-name'):
            for sessionkey in (None, b'\x17' * ((cipher or SymmetricKeyAlgorithm.AES256).key_size // 8)):
                prefs = {}
                if cipher is not None:
                    prefs['cipher'] = cipher
                if user is not None:
                    prefs['user'] = user
                label = 'pk.%s.%s.%s.%s' % (kname, cipher, user, sessionkey is None)

                def run():
                    pub._require_usage_flags = False
                    enc = pub.encrypt(body, sessionkey=sessionkey, **prefs)
                    sk = enc._sessionkeys[0]
                    dec = sec.decrypt(enc)
                    re = PGPMessage.from_blob(bytes(enc))
                    dec2 = sec.decrypt(re)
                    return (enc.type, sorted(enc.encrypters), type(sk).__name__, sk.encrypter, sk.pkalg, type(sk.ct).__name__,
                            len(sk.__bytearray__()) - len(sk.header.__bytearray__()) == sk.header.length, msgdesc(dec, False), msgdesc(dec2, False), bytes(re) == bytes(enc),
                            bytes(copy.copy(sk).__bytearray__()) == bytes(sk.__bytearray__()))
                attempt(label, run)
    # subkeys as recipients
    for skid, sub in sec.subkeys.items():
        def run():
            enc = sub.pubkey.encrypt(body, cipher=SymmetricKeyAlgorithm.AES192)
            return (sorted(enc.encrypters), msgdesc(sec.decrypt(enc), False), msgdesc(sub.decrypt(enc), False))
        attempt('pksub.%s.%s' % (kname, skid), run)

# ---- 5. field level: cipher text containers, KDF parameters, S2K specifiers
ct = fields.RSACipherText.encrypt(lambda *a: b'\x00\x01\x02' + b'\xfe' * 61, 'ignored')
rec('rsact', (bytes(ct.__bytearray__()), len(ct), int(ct.me_mod_n), ct.decrypt(lambda *a: a, 1, 2)))
rct = fields.RSACipherText()
rct.parse(bytearray(b'\x00\x11\x01\x23\x45tail'))
rec('rsact.parse', (int(rct.me_mod_n), bytes(rct.__bytearray__()), bytes(copy.copy(rct).__bytearray__())))
ect = fields.ElGCipherText()
buf = bytearray(b'\x00\x09\x01\xff\x00\x01\x01rest')
ect.parse(buf)
rec('elgct', (bytes(ect.__bytearray__()), bytes(buf), len(ect)))
attempt('elgct.enc', lambda: fields.ElGCipherText.encrypt(None))
attempt('elgct.dec', lambda: ect.decrypt(None))

for raw in (b'\x00\x07\x40\x05\x06\x03abcXYZ', b'\x00\x13\x04\x01\x02\x03\x04\x00', b'\x00\x07\x40\x09\x09\x09xx', b'\x00\x07\x40\x01',
            b'\x00\x0b\x04\x01\x02\x03\x02zzrest'):
    def run():
        buf = bytearray(raw)
        c = fields.ECDHCipherText()
        c.parse(buf)
        first = bytes(c.__bytearray__())
        c.parse(bytearray(raw))  # parsing twice accumulates c
        return (first, bytes(c.c), bytes(buf), bytes(c.__bytearray__()), c.p.format, len(c))
    attempt('ecdhct.%s' % raw.hex(), run)

kdf = fields.ECKDF()
rec('eckdf.default', (bytes(kdf.__bytearray__()), len(kdf)))
for raw in (b'\x03\x01\x08\x07tail', b'\x03\x01\x0a\x09', b'\x03\x01\x63\x07', b'\x03\x01\x08', b'\x03\x02\x08\x07', b''):
    def run():
        buf = bytearray(raw)
        k = fields.ECKDF()
        k.parse(buf)
        return (k.halg, k.encalg, bytes(k.__bytearray__()), bytes(buf))
    attempt('eckdf.%s' % raw.hex(), run)

for kname, sec in seckeys.items():
    for k in [sec] + list(sec.subkeys.values()):
        if k.key_algorithm == PubKeyAlgorithm.ECDH and not k.is_protected:
            km = k._key.keymaterial
            rec('kdf.%s.%s' % (kname, k.fingerprint.keyid),
                (bytes(km.kdf.__bytearray__()), km.kdf.derive_key(b'\x55' * 32, km.oid, PubKeyAlgorithm.ECDH, k.fingerprint)))

for raw in (b'\x00', b'\xff\x09\x03\x08saltsalt\x60' + b'I' * 16 + b'rest', b'\xfe\x07\x01\x02saltsalt' + b'J' * 16, b'\xff\x03\x00\x02' + b'K' * 8 + b'r',
            b'\xff\x00\x65\x00GNU\x01', b'\xff\x00\x65\x00GNU\x02\x04abcdrest', b'\xff\x09\x03\x08salt', b'\xff\x63\x03\x08', b'\xff\x09\x02\x08x', b''):
    for iv in (True, False):
        def run():
            buf = bytearray(raw)
            s = fields.String2Key()
            r = s.parse(buf, iv=iv)
            c = copy.copy(s)
            return (r, bool(s), len(s), bytes(s.__bytearray__()), bytes(c.__bytearray__()), s.usage, s.encalg, s.specifier, s.halg,
                    bytes(s.salt), s.count, s._count, None if s.iv is None else bytes(s.iv), s.gnuext, s.scserial, bytes(buf))
        attempt('s2k.%s.%s' % (raw.hex(), iv), run)

for c in (0, 1, 15, 16, 96, 255):
    s = fields.String2Key()
    s.count = c
    rec('s2k.count.%d' % c, (s.count, s._count))
attempt('s2k.count.bad', lambda: setattr(fields.String2Key(), 'count', 256))
attempt('s2k.count.neg', lambda: setattr(fields.String2Key(), 'count', -1))

for spec in (String2KeyType.Simple, String2KeyType.Salted, String2KeyType.Iterated):
    for halg in (HashAlgorithm.MD5, HashAlgorithm.SHA1, HashAlgorithm.SHA256, HashAlgorithm.SHA512):
        for alg in (SymmetricKeyAlgorithm.AES256, SymmetricKeyAlgorithm.TripleDES, SymmetricKeyAlgorithm.CAST5):
            s = fields.String2Key()
            s.usage = 255
            s.specifier = spec
            s.halg = halg
            s.encalg = alg
            s.salt = bytearray(b'12345678')
            s.count = 17
            attempt('s2k.derive.%s.%s.%s' % (spec.name, halg.name, alg.name), lambda: (s.derive_key('passé'), s.derive_key(b'pw'), bytes(s.__bytearray__())))

# ---- 6. session key packets built by hand
sk4 = packets.SKESessionKeyV4()
rec('skesk.empty', (bytes(sk4.__bytearray__()), bytes(sk4.ct), sk4.symalg))
pk3 = packets.PKESessionKeyV3()
rec('pkesk.empty', (pk3.encrypter, pk3.pkalg, pk3.ct))
for alg in (1, 2, 16, 18, 20, 17, 22):
    pk3.pkalg = alg
    rec('pkesk.ct.%d' % alg, (pk3.pkalg, type(pk3.ct).__name__))
pk3.encrypter = bytearray(b'\x01\xab\xcd\xef\x00\x11\x22\xfe')
rec('pkesk.encrypter', pk3.encrypter)
attempt('pkesk.unsupported.enc', lambda: pk3.encrypt_sk(None, SymmetricKeyAlgorithm.AES128, b'k' * 16))
attempt('pkesk.unsupported.dec', lambda: pk3.decrypt_sk(None))

print(hashlib.sha256('\n'.join(out).encode('utf-8')).hexdigest())
if '-v' in sys.argv:
    print('\n'.join(out))
