"""Equivalence probe for property C16 (key-usage policy).

Run as:  cd <tree> && /venv/bin/python equiv.py
Prints a digest of the observable outcomes of sign / certify / encrypt / decrypt
over the fixture keys: chosen component (signer id, issuer fingerprint, encrypters),
exceptions (type and message), warnings and log records.
"""
import sys, os
sys.path.insert(0, os.getcwd())

import glob
import hashlib
import logging
import warnings

import pgpy
from pgpy import PGPKey, PGPMessage, PGPUID
from pgpy.constants import (KeyFlags, HashAlgorithm, SymmetricKeyAlgorithm, CompressionAlgorithm,
                            PubKeyAlgorithm, EllipticCurveOID)

out = []


class ListHandler(logging.Handler):
    def emit(self, record):
        out.append('LOG %s %s' % (record.levelname, record.getMessage()))


root = logging.getLogger()
root.setLevel(logging.DEBUG)
root.addHandler(ListHandler())


def attempt(label, fn):
    with warnings.catch_warnings(record=True) as w:
        warnings.simplefilter('always')
        try:
            res = fn()
        except Exception as e:  # noqa
            out.append('%s -> EXC %s: %s' % (label, type(e).__name__, e))
            res = None
        else:
            out.append('%s -> %s' % (label, describe(res)))
        for x in w:
            if x.category.__name__ == 'CryptographyDeprecationWarning':
                continue   # noise from the crypto backend, unrelated to the code under test
            out.append('%s    WARN %s: %s' % (label, x.category.__name__, x.message))
    return res


def describe(res):
    if isinstance(res, pgpy.PGPSignature):
        return 'SIG type=%s signer=%s fpr=%s alg=%s' % (res.type.name, res.signer, res.signer_fingerprint,
                                                     res.key_algorithm.name)
    if isinstance(res, PGPMessage):
        if res.is_encrypted:
            pk = [(p.pkalg.name, p.encrypter) for p in res._sessionkeys if hasattr(p, 'pkalg')]
            return 'ENCMSG encrypters=%s pkesk=%s' % (sorted(res.encrypters), pk)
        return 'MSG %r' % (res.message,)
    return repr(res)


keyfiles = sorted(glob.glob('tests/testdata/keys/*.asc'))
keys = {}
for f in keyfiles:
    k, _ = PGPKey.from_file(f)
    keys[os.path.basename(f)] = k

msgfiles = sorted(glob.glob('tests/testdata/messages/message.*.asc'))
sessionkey = bytes(range(32))

for name, k in keys.items():
    uidname = k.userids[0].name
    out.append('== %s' % name)
    # flag view
    attempt(name + ' flags(None)', lambda: sorted(f.name for f in k._get_key_flags()))
    attempt(name + ' flags(uid)', lambda: sorted(f.name for f in k._get_key_flags(uidname)))
    attempt(name + ' flags(bogus)', lambda: sorted(f.name for f in k._get_key_flags('no such user')))
    for sid, sk in k.subkeys.items():
        attempt(name + ' sub %s flags' % sid, lambda: sorted(f.name for f in sk._get_key_flags()))
        attempt(name + ' sub %s flags(user)' % sid, lambda: sorted(f.name for f in sk._get_key_flags(uidname)))

    # sign
    attempt(name + ' sign', lambda: k.sign('hello'))
    attempt(name + ' sign(user)', lambda: k.sign('hello', user=uidname))
    attempt(name + ' sign(no issuer fpr)', lambda: k.sign('hello', include_issuer_fingerprint=False))
    attempt(name + ' sign(sha512)', lambda: k.sign('hello', hash=HashAlgorithm.SHA512))
    for sid, sk in k.subkeys.items():
        attempt(name + ' sub %s sign' % sid, lambda: sk.sign('hello'))
    # certify
    attempt(name + ' certify', lambda: k.certify(k.userids[0]))
    attempt(name + ' certify other', lambda: k.certify(keys['targette.pub.rsa.asc'].userids[0]))
    # encrypt
    msg = PGPMessage.new('secret text', compression=CompressionAlgorithm.Uncompressed)
    for enforce in (True, False):
        k._require_usage_flags = enforce
        for sk in k.subkeys.values():
            sk._require_usage_flags = enforce
        enc = attempt(name + ' encrypt enforce=%s' % enforce,
                      lambda: k.encrypt(msg, sessionkey=sessionkey, cipher=SymmetricKeyAlgorithm.AES256))
        attempt(name + ' encrypt(user) enforce=%s' % enforce,
                lambda: k.encrypt(msg, sessionkey=sessionkey, cipher=SymmetricKeyAlgorithm.AES256, user=uidname))
        attempt(name + ' sign enforce=%s' % enforce, lambda: k.sign('x'))
        for sid, sk in k.subkeys.items():
            attempt(name + ' sub %s encrypt enforce=%s' % (sid, enforce),
                    lambda: sk.encrypt(msg, sessionkey=sessionkey, cipher=SymmetricKeyAlgorithm.AES256))
        if enc is not None:
            # round trip with the matching secret key(s)
            for n2, k2 in keys.items():
                if not k2.is_public and k2.fingerprint == k.fingerprint:
                    attempt(name + ' roundtrip via ' + n2, lambda: k2.decrypt(enc))
                    for sid, sk in k2.subkeys.items():
                        attempt(name + ' roundtrip via %s sub %s' % (n2, sid), lambda: sk.decrypt(enc))
    k._require_usage_flags = True
    for sk in k.subkeys.values():
        sk._require_usage_flags = True

    # decrypt fixture messages
    for mf in msgfiles:
        m = PGPMessage.from_file(mf)
        attempt(name + ' decrypt ' + os.path.basename(mf), lambda: k.decrypt(m))
    attempt(name + ' decrypt plain', lambda: k.decrypt(PGPMessage.new('not encrypted')))

# locked key that gets unlocked
for name in ('rsa.1.enc.asc', 'dsa.1.enc.asc'):
    k = keys[name]
    with k.unlock('QwertyUiop'):
        attempt(name + ' unlocked sign', lambda: k.sign('hello'))
        attempt(name + ' unlocked certify', lambda: k.certify(k.userids[0]))
        m = PGPMessage.from_file('tests/testdata/messages/message.rsa.cast5.asc')
        attempt(name + ' unlocked decrypt', lambda: k.decrypt(m))

# a key under construction: no identity
nk = PGPKey.new(PubKeyAlgorithm.ECDSA, EllipticCurveOID.NIST_P256)
attempt('newkey sign no uid', lambda: nk.sign('hello') and None)
attempt('newkey encrypt no uid', lambda: nk.pubkey.encrypt(PGPMessage.new('x')) and None)
attempt('newkey decrypt no uid', lambda: nk.decrypt(PGPMessage.new('x')) and None)
attempt('newkey flags', lambda: sorted(f.name for f in nk._get_key_flags()))
uid = PGPUID.new('Nobody Special', email='nobody@example.com')
attempt('newkey add_uid', lambda: nk.add_uid(uid, usage={KeyFlags.Sign}, hashes=[HashAlgorithm.SHA256],
                                             ciphers=[SymmetricKeyAlgorithm.AES256],
                                             compression=[CompressionAlgorithm.Uncompressed]))
attempt('newkey flags after uid', lambda: sorted(f.name for f in nk._get_key_flags()))
sig = attempt('newkey sign', lambda: 'ok' if nk.sign('hello').signer == nk.fingerprint.keyid else 'MISMATCH')
attempt('newkey sign fpr', lambda: 'ok' if nk.sign('hello').signer_fingerprint == nk.fingerprint else 'MISMATCH')
attempt('newkey encrypt (no enc flag)', lambda: nk.pubkey.encrypt(PGPMessage.new('x')) and None)
# subkey with encryption capability
sub = PGPKey.new(PubKeyAlgorithm.ECDH, EllipticCurveOID.NIST_P256)
attempt('newkey add_subkey', lambda: nk.add_subkey(sub, usage={KeyFlags.EncryptCommunications}))
em = attempt('newkey encrypt via subkey',
             lambda: nk.pubkey.encrypt(PGPMessage.new('x', compression=CompressionAlgorithm.Uncompressed),
                                       cipher=SymmetricKeyAlgorithm.AES256))
if em is not None:
    out.pop()   # contains random key ids; replace with a relation
    out.append('newkey encrypt via subkey names subkey: %s' % (set(em.encrypters) == {sub.fingerprint.keyid}))
    attempt('newkey decrypt via primary', lambda: nk.decrypt(em))
    attempt('newkey decrypt via sub', lambda: sub.decrypt(em))

# random key ids of the fresh key would make the digest unstable: mask them
fresh = [nk.fingerprint.keyid, sub.fingerprint.keyid, str(nk.fingerprint), str(sub.fingerprint)]
text = '\n'.join(out)
for i, s in enumerate(fresh):
    text = text.replace(s, '<FRESH%d>' % i)

if '-v' in sys.argv:
    print(text)
print('lines', len(out))
print('digest', hashlib.sha256(text.encode('utf-8')).hexdigest())
