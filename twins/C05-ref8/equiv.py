"""Prints a digest of everything observable about the hashed-subpacket code paths.

Run as:  cd <tree> && /venv/bin/python equiv.py
The digest must be the same on the unchanged tree and on the refactored one.
"""
import glob
import hashlib
import os
import sys
import warnings

sys.path.insert(0, os.getcwd())
warnings.simplefilter('ignore')

from datetime import datetime, timezone

import pgpy
from pgpy.constants import HashAlgorithm, KeyFlags, RevocationKeyClass, PubKeyAlgorithm
from pgpy.packet.fields import SubPackets
from pgpy.packet.subpackets import Signature as SignatureSP
from pgpy.packet.subpackets.types import Header as HeaderSP

out = []


def rec(label, val):
    if isinstance(val, (bytes, bytearray)):
        val = type(val).__name__ + ':' + bytes(val).hex()
    out.append('{}={}'.format(label, val))


def attempt(label, fn):
    try:
        rec(label, fn())
    except Exception as e:  # noqa
        rec(label, 'EXC {} {}'.format(type(e).__name__, e))


def new_len(n, form):
    if form == 1:
        return bytes([n])
    if form == 2:
        n -= 192
        return bytes([(n >> 8) + 192, n & 0xFF])
    return b'\xff' + n.to_bytes(4, 'big')


def subpkt(typeoctet, body, form=1):
    return new_len(len(body) + 1, form) + bytes([typeoctet]) + body


# ---------------------------------------------------------------- 1. subpacket headers
for form in (1, 2, 5):
    for n in (1, 2, 5, 191, 192, 193, 300, 8383, 8384, 70000):
        if (form == 1 and n > 191) or (form == 2 and not 192 <= n <= 8383):
            continue
        for t in (0x00, 0x02, 0x14, 0x65, 0x7f, 0x80, 0x82, 0x94, 0xff):
            raw = bytearray(new_len(n, form) + bytes([t]) + b'REST')
            h = HeaderSP()
            h.parse(raw)
            rec('hdr.{}.{}.{:02x}'.format(form, n, t),
                (h.length, h.llen, h.typeid, h.critical, len(h), bytes(h.__bytearray__()).hex(), bytes(raw)))
h = HeaderSP()
rec('hdr.fresh', (h.typeid, h.critical))
attempt('hdr.fresh.bytes', lambda: HeaderSP().__bytearray__())
h.typeid = 0x9b
rec('hdr.int', (h.typeid, h.critical))
h.typeid = b'\x9b'
rec('hdr.bin', (h.typeid, h.critical, bytes(h.__bytearray__() if h.length is not None else b'')) if hasattr(h, '_len') else (h.typeid, h.critical))

# ---------------------------------------------------------------- 2. single subpackets, parsed and re-serialised
fp20 = bytes(range(1, 21))
bodies = [
    (0x02, b'\x5f\x00\x00\x01'),
    (0x03, b'\x00\x01\x51\x80'),
    (0x04, b'\x00'), (0x04, b'\x01'), (0x04, b'\x02'), (0x84, b'\xff'),
    (0x05, b'\x3c\x78'),
    (0x06, b'<[^>]+[@.]example\\.com>$\x00'), (0x06, b'caf\xc3\xa9'), (0x06, b'caf\xe9'),
    (0x07, b'\x00'), (0x07, b'\x01'),
    (0x09, b'\x00\x01\x51\x80'),
    (0x0b, b'\x09\x08\x07\x03\x02'), (0x0b, b''),
    (0x0c, b'\x80\x01' + fp20), (0x0c, b'\xc0\x11' + fp20), (0x0c, b'\xff\x16' + fp20), (0x0c, b'\x00\x01' + fp20),
    (0x0c, b'\x80\x01' + fp20[:7]),
    (0x10, b'\x01\x02\x03\x04\xaa\xbb\xcc\xdd'),
    (0x14, b'\x80\x00\x00\x00\x00\x04\x00\x05namevalue'),
    (0x14, b'\x80\x00\x00\x00\x00\x05\x00\x06n\xc3\xa4mev\xc3\xa4lue'),
    (0x14, b'\x80\x00\x00\x00\x00\x04\x00\x03nam\xe9v\xe9l'),
    (0x14, b'\x00\x00\x00\x00\x00\x04\x00\x04name\x00\xff\x80\x01'),
    (0x14, b'\xc1\x02\x03\x04\x00\x04\x00\x05nameVALUE'),
    (0x14, b'\x80\x00\x00\x00\x00\x00\x00\x00'),
    (0x14, b'\x80\x00\x00\x00\x00\x09\x00\x09short'),
    (0x14, b'\x80\x00\x00\x00\x00\x02\x00\x09ab'),
    (0x14, b'\x80\x00\x00'),
    (0x94, b'\x80\x00\x00\x00\x00\x01\x00\x01xy'),
    (0x15, b'\x08\x0a\x09\x0b\x02'),
    (0x16, b'\x02\x03\x01\x00'),
    (0x17, b'\x80'), (0x17, b'\xff'), (0x17, b'\x00'), (0x17, b'\x80\x00\x01'),
    (0x18, b'hkp://keys.example.com'), (0x18, b'hkp://k\xc3\xbcys'), (0x18, b'hkp://k\xfcys'), (0x18, b''),
    (0x19, b'\x00'), (0x19, b'\x01'), (0x19, b'\x07'),
    (0x1a, b'https://example.com/policy'), (0x9a, b'\xff\xfe'),
    (0x1b, b'\x03'), (0x1b, b'\xff'), (0x1b, b'\x2f\x00\x80'), (0x1b, b''),
    (0x1c, b'user@example.com'), (0x1c, b'\xfcser'),
    (0x1d, b'\x00'), (0x1d, b'\x03gone'), (0x1d, b'\x20r\xc3\xa9tir\xc3\xa9'), (0x1d, b'\x01\xe9'),
    (0x1e, b'\x01'), (0x1e, b'\xff'), (0x1e, b'\x07\x00'),
    (0x21, b'\x04' + fp20),
    (0x23, b'\x04' + fp20),
    (0x25, bytes(range(40))),
    (0x00, b''), (0x01, b'x'), (0x0a, b'placeholder'), (0x26, b'\x01\x02'), (0x64, b'private'), (0x6e, b'\x00' * 300),
    (0x7f, b'\xff' * 5), (0xe5, b'crit-private'),
]
for i, (t, body) in enumerate(bodies):
    for form in (1, 2, 5):
        if form == 1 and len(body) + 1 > 191:
            continue
        if form == 2:
            # the two-octet form cannot express lengths below 192; use it only where legal
            if len(body) + 1 < 192:
                continue
        raw = bytearray(subpkt(t, body, form) + b'TAIL')

        def one(raw=raw):
            sp = SignatureSP(raw)
            res = [type(sp).__name__, sp.header.typeid, sp.header.critical, sp.header.length, len(sp),
                   bytes(sp.__bytearray__()).hex(), type(sp.__bytearray__()).__name__, bytes(raw).hex()]
            for attr in ('flags', 'bflag', 'uri', 'name', 'value', 'keyclass', 'algorithm', 'fingerprint', 'issuer',
                         'created', 'expires', 'regex', 'string', 'code', 'userid', 'level', 'amount', 'primary',
                         'payload', 'attested_certifications', 'intended_recipient', 'issuer_fingerprint', 'version'):
                if hasattr(sp, attr):
                    try:
                        v = getattr(sp, attr)
                        if isinstance(v, set):
                            v = sorted(v)
                        res.append((attr, repr(v)))
                    except Exception as e:  # noqa
                        res.append((attr, 'EXC', type(e).__name__, str(e)))
            sp.update_hlen()
            res.append((sp.header.length, bytes(sp.__bytearray__()).hex()))
            return res
        attempt('sp.{}.{}'.format(i, form), one)

# ---------------------------------------------------------------- 3. whole subpacket areas
def area(items, declared=None):
    body = b''.join(subpkt(t, b, f) for t, b, f in items)
    n = len(body) if declared is None else declared
    return n.to_bytes(2, 'big') + body


areas = {
    'empty': area([]) + area([]),
    'plain': area([(0x02, b'\x5f\x00\x00\x01', 1), (0x1b, b'\x03', 1)]) + area([(0x10, b'\x01' * 8, 1)]),
    'forms': area([(0x02, b'\x5f\x00\x00\x01', 5), (0x1b, b'\xff', 5), (0x14, b'\x80\x00\x00\x00\x00\x04\x00\x03nam\xe9v\xe9l', 5),
                   (0x6e, b'\x07' * 300, 2), (0x04, b'\x02', 1), (0x18, b'hkp://k\xfcys', 1)]) + area([(0x10, b'\x02' * 8, 5), (0x65, b'zz', 1)]),
    'dups': area([(0x14, b'\x80\x00\x00\x00\x00\x01\x00\x01ab', 1)] * 3 + [(0x1b, b'\x01', 1), (0x1b, b'\x02', 1)]) + area([(0x10, b'\x03' * 8, 1)] * 2),
    'unknowncrit': area([(0xe5, b'abc', 1), (0x80 | 0x1b, b'\x83', 1), (0x7f, b'', 1)]) + area([]),
    'underdeclared': area([(0x02, b'\x5f\x00\x00\x01', 1), (0x1b, b'\x03', 1)], declared=7) + area([(0x10, b'\x04' * 8, 1)]),
    'revkey': area([(0x0c, b'\xc0\x11' + fp20, 1), (0x0c, b'\xff\x01' + fp20, 1)]) + area([]),
    'truncated': area([(0x02, b'\x5f\x00\x00\x01', 1)])[:-2],
    'nounhashed': area([(0x02, b'\x5f\x00\x00\x01', 1)]),
    'overdeclared': area([(0x02, b'\x5f\x00\x00\x01', 1)], declared=9) + area([]),
}
for name in sorted(areas):
    def whole(name=name):
        raw = bytearray(areas[name] + b'MPIS')
        sps = SubPackets()
        sps.parse(raw)
        res = [bytes(raw).hex(), list(sps._hashed_sp.keys()), list(sps._unhashed_sp.keys()),
               bytes(sps.__hashbytearray__()).hex(), type(sps.__hashbytearray__()).__name__,
               bytes(sps.__unhashbytearray__()).hex(), type(sps.__unhashbytearray__()).__name__,
               bytes(sps.__bytearray__()).hex(), None if sps._hashed_raw is None else bytes(sps._hashed_raw).hex(),
               [type(sp).__name__ for sp in sps], 'Issuer' in sps, 'h_CreationTime' in sps, 'CreationTime' in sps]
        first = sps.__hashbytearray__()
        first += b'!'
        res.append(bytes(sps.__hashbytearray__()).hex())
        import copy
        cp = copy.copy(sps)
        res.append(bytes(cp.__bytearray__()).hex())
        # forget the received octets: the area is now re-encoded from the parsed objects
        sps._hashed_raw = None
        res.append(bytes(sps.__hashbytearray__()).hex())
        sps.update_hlen()
        res.append(bytes(sps.__bytearray__()).hex())
        sps.addnew('Features', hashed=True, flags={pgpy.constants.Features.ModificationDetection})
        sps.addnew('Issuer', hashed=False, _issuer='00112233AABBCCDD')
        res.append((sps._hashed_raw, bytes(sps.__hashbytearray__()).hex(), bytes(sps.__unhashbytearray__()).hex()))
        return res
    attempt('area.' + name, whole)

# ---------------------------------------------------------------- 4. fixture keys and signatures
def walk(key):
    yield ('self', key, key)
    for uid in key.userids + key.userattributes:
        for sig in uid._signatures:
            yield ('uid', sig, uid)
    for sig in key._signatures:
        yield ('key', sig, key)
    for skid, sk in key.subkeys.items():
        for sig in sk._signatures:
            yield ('sub', sig, sk)


keyfiles = sorted(glob.glob('tests/testdata/keys/*.asc') + glob.glob('tests/testdata/signatures/*.key.asc') + ['tests/testdata/pubtest.asc', 'tests/testdata/sectest.asc'])
keys = {}
for kf in keyfiles:
    def load(kf=kf):
        blob = pgpy.PGPKey.from_file(kf)
        obj = blob[0]
        res = [hashlib.sha256(bytes(obj)).hexdigest()]
        if isinstance(obj, pgpy.PGPKey):
            keys[kf] = obj
            for kind, sig, subject in walk(obj):
                if kind == 'self':
                    continue
                sp = sig._signature.subpackets
                item = [kind, sig.type.name, bytes(sp.__hashbytearray__()).hex(), bytes(sp.__unhashbytearray__()).hex(),
                        hashlib.sha256(bytes(sig)).hexdigest()]
                try:
                    item.append(hashlib.sha256(sig.hashdata(subject)).hexdigest())
                except Exception as e:  # noqa
                    item.append('EXC {} {}'.format(type(e).__name__, e))
                res.append(item)
            if obj.is_public or True:
                try:
                    pub = obj.pubkey if not obj.is_public else obj
                    sv = pub.verify(pub)
                    res.append((bool(sv), sorted((str(s.issues if hasattr(s, 'issues') else ''), s.by.fingerprint.keyid if s.by else None) for s in sv.good_signatures), len(list(sv.bad_signatures))))
                except Exception as e:  # noqa
                    res.append('EXC {} {}'.format(type(e).__name__, e))
        else:
            sp = obj._signature.subpackets
            res += [obj.type.name, bytes(sp.__hashbytearray__()).hex(), bytes(sp.__unhashbytearray__()).hex()]
        return res
    attempt('file.' + kf, load)

for sf in sorted(glob.glob('tests/testdata/signatures/*.sig.asc')):
    def detached(sf=sf):
        base = sf[:-len('.sig.asc')]
        sig = pgpy.PGPSignature.from_file(sf)
        with open(base + '.subj', 'rb') as f:
            subj = f.read()
        key, _ = pgpy.PGPKey.from_file(base + '.key.asc')
        res = [hashlib.sha256(sig.hashdata(subj)).hexdigest(), bool(key.verify(subj, sig))]
        # flip one bit inside the hashed area: the signature must stop verifying
        raw = bytearray(bytes(sig))
        hashed = bytes(sig._signature.subpackets.__hashbytearray__())
        at = bytes(raw).find(hashed)
        raw[at + len(hashed) - 1] ^= 0x01
        try:
            bad = pgpy.PGPSignature.from_blob(bytes(raw))
            res.append(bool(key.verify(subj, bad)))
        except Exception as e:  # noqa
            res.append('EXC {} {}'.format(type(e).__name__, e))
        return res
    attempt('detached.' + sf, detached)

# ---------------------------------------------------------------- 5. freshly made signatures (RSA PKCS#1 v1.5 is deterministic)
def fresh():
    sec, _ = pgpy.PGPKey.from_file('tests/testdata/keys/rsa.1.sec.asc')
    when = datetime(2020, 1, 2, 3, 4, 5, tzinfo=timezone.utc)
    res = []
    sig = sec.sign('some text to sign', created=when, hash=HashAlgorithm.SHA256,
                   notation={'näme@example.com': 'välue', 'plain': 'text'},
                   policy_uri='https://example.com/pölicy', revocable=False)
    res += [bytes(sig).hex(), sig.hashdata('some text to sign').hex(), bool(sec.pubkey.verify('some text to sign', sig))]
    again = pgpy.PGPSignature.from_blob(bytes(sig))
    res += [again.hashdata('some text to sign').hex(), bool(sec.pubkey.verify('some text to sign', again)),
            sorted(again.notation.items()), again.policy_uri, again.revocable]
    uid = sec.userids[0]
    cert = sec.certify(uid, created=when, usage={KeyFlags.Sign, KeyFlags.Certify}, keyserver='hkp://küys.example.com',
                       primary=True, hashes=[HashAlgorithm.SHA512, HashAlgorithm.SHA256],
                       keyserver_flags={pgpy.constants.KeyServerPreferences.NoModify})
    res += [bytes(cert).hex(), cert.hashdata(uid).hex()]
    rk = sec.revoker(sec.pubkey, created=when, sensitive=True) if hasattr(sec, 'revoker') else None
    if rk is not None:
        res += [bytes(rk).hex(), rk.hashdata(sec).hex()]
    return hashlib.sha256(repr(res).encode()).hexdigest(), res[2], res[4]


attempt('fresh', fresh)

if '-v' in sys.argv:
    for line in out:
        print(line[:300])
print(len(out), hashlib.sha256('\n'.join(out).encode()).hexdigest())
