"""Digest of the public twin that PrivKeyV4.pubkey() / PGPKey.pubkey build, next to the private key's own fingerprint."""
import copy
import glob
import hashlib
import os
import sys
import warnings
from datetime import datetime, timezone

sys.path.insert(0, os.getcwd())
warnings.simplefilter('ignore')

import pgpy  # noqa: E402
from pgpy.constants import PubKeyAlgorithm, EllipticCurveOID  # noqa: E402
from pgpy.packet.packets import PrivKeyV4, PrivSubKeyV4, PubKeyV4, PubSubKeyV4  # noqa: E402

out = []


def rec(*a):
    out.append(repr(a))


def attempt(label, fn):
    try:
        rec(label, 'ok', fn())
    except Exception as e:  # the exception type and message are part of the behaviour
        rec(label, 'exc', type(e).__name__, str(e))


def material(km):
    d = {}
    for k, v in vars(km).items():
        if hasattr(v, '__bytearray__'):
            d[k] = (type(v).__name__, bytes(v.__bytearray__()))
        elif hasattr(v, 'to_mpibytes'):
            d[k] = (type(v).__name__, bytes(v.to_mpibytes()))
        else:
            d[k] = (type(v).__name__, repr(v))
    return sorted(d.items())


def twin_of(pkt):
    pub = pkt.pubkey()
    same_objects = [name for name in vars(pub.keymaterial)
                    if getattr(pub.keymaterial, name) is getattr(pkt.keymaterial, name, object())
                    and not isinstance(getattr(pub.keymaterial, name), (int, type(None)))]
    return (type(pub).__name__, type(pub.keymaterial).__name__, str(pub.fingerprint), str(pkt.fingerprint),
            pub.created.isoformat(), int(pub.pkalg), pub.header.tag, pub.header.length, pub.header.version,
            hashlib.sha256(bytes(pub.__bytearray__())).hexdigest(), material(pub.keymaterial), sorted(same_objects),
            pub.public, pkt.public)


for path in sorted(glob.glob('tests/testdata/keys/*.sec.asc') + glob.glob('tests/testdata/keys/*.enc.asc')
                   + ['tests/testdata/keys/targette.sec.rsa.asc', 'tests/testdata/sectest.asc']):
    if not os.path.exists(path):
        continue
    key, _ = pgpy.PGPKey.from_file(path)
    for k in [key] + list(key.subkeys.values()):
        attempt((path, k.fingerprint.keyid, 'pkt'), lambda: twin_of(k._key))
        attempt((path, k.fingerprint.keyid, 'copy'), lambda: (str(copy.copy(k._key).fingerprint), hashlib.sha256(bytes(copy.copy(k._key).__bytearray__())).hexdigest()))
    pub = key.pubkey
    rec(path, 'pgpkey', str(pub.fingerprint), [(kid, str(sk.fingerprint), type(sk._key).__name__) for kid, sk in pub.subkeys.items()],
        hashlib.sha256(bytes(pub)).hexdigest(), pub is key.pubkey, pub.pubkey is pub)
    # the stored public file must be what the private key exports as its public half
    pubpath = path.replace('.sec.', '.pub.').replace('.enc.', '.pub.')
    if pubpath != path and os.path.exists(pubpath):
        stored, _ = pgpy.PGPKey.from_file(pubpath)
        rec(path, 'matches-stored', str(stored.fingerprint) == str(pub.fingerprint),
            bytes(stored._key.__bytearray__()) == bytes(pub._key.__bytearray__()))

# blank / odd packets
attempt('blank-priv', lambda: twin_of(PrivKeyV4()))
attempt('blank-privsub', lambda: twin_of(PrivSubKeyV4()))


def opaque_alg():
    pkt = PrivKeyV4()
    pkt.created = datetime(2001, 2, 3, 4, 5, 6, tzinfo=timezone.utc)
    pkt.pkalg = 100
    pkt.keymaterial.data = bytearray(b'secret-ish')
    return twin_of(pkt)


attempt('opaque-alg', opaque_alg)
attempt('pubkey-has-no-pubkey', lambda: PubKeyV4().pubkey())
attempt('blank-pub-fields', lambda: (PubKeyV4().pkalg, PubKeyV4().keymaterial, PubSubKeyV4().header.tag, PubKeyV4().public, PrivKeyV4().public))

# freshly generated keys: only relations are digested, never the random material
when = datetime(1999, 12, 31, 23, 59, 59, tzinfo=timezone.utc)
for alg, param in ((PubKeyAlgorithm.ECDSA, EllipticCurveOID.NIST_P256), (PubKeyAlgorithm.EdDSA, EllipticCurveOID.Ed25519),
                   (PubKeyAlgorithm.ECDH, EllipticCurveOID.Curve25519), (PubKeyAlgorithm.ECDH, EllipticCurveOID.NIST_P384)):
    for cls in (PrivKeyV4, PrivSubKeyV4):
        pkt = cls.new(alg, param, created=when) if cls is PrivKeyV4 else None
        if pkt is None:
            pkt = PrivSubKeyV4()
            pkt.pkalg = alg
            pkt.keymaterial._generate(param)
            pkt.created = when
            pkt.update_hlen()
        pub = pkt.pubkey()
        km, pkm = pkt.keymaterial, pub.keymaterial
        rec(alg.name, param.name, cls.__name__, type(pub).__name__, type(pkm).__name__, pub.fingerprint == pkt.fingerprint,
            pub.created.isoformat(), pub.header.length == 6 + km.publen(), pkm.oid is km.oid,
            bytes(pkm.__bytearray__()) == bytes(km.__bytearray__())[:km.publen()], pkm.p is km.p,
            (pkm.kdf is km.kdf, bytes(pkm.kdf.__bytearray__()) == bytes(km.kdf.__bytearray__())) if alg == PubKeyAlgorithm.ECDH else None,
            sorted(vars(pkm)))

if os.environ.get("EQUIV_DUMP"):
    print("\n".join(out))
print(hashlib.sha256('\n'.join(out).encode()).hexdigest(), len(out))
