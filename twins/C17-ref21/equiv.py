"""Deterministic probe for property C17 (coherent verification verdicts).

Run as:  cd <tree> && PYTHONHASHSEED=0 /venv/bin/python equiv.py
Prints only deterministic facts: verdicts, issue flags, counts, exception class names.
"""
import glob
import hashlib
import itertools
import os
import sys
import warnings
from datetime import datetime, timedelta, timezone

sys.path.insert(0, os.getcwd())
warnings.simplefilter('ignore')

import pgpy
from pgpy import PGPKey, PGPMessage, PGPSignature, PGPUID
from pgpy.constants import (EllipticCurveOID, HashAlgorithm, KeyFlags, PubKeyAlgorithm,
                            SecurityIssues, SignatureType, SymmetricKeyAlgorithm, CompressionAlgorithm)
from pgpy.errors import PGPError
from pgpy.types import SignatureVerification

assert os.path.dirname(os.path.dirname(os.path.abspath(pgpy.__file__))) == os.getcwd(), pgpy.__file__

TD = os.path.join('tests', 'testdata')
FIXED = datetime(2020, 1, 2, 3, 4, 5, tzinfo=timezone.utc)


def out(*a):
    print(*a)


def flags(i):
    if i is None:
        return 'None'
    i = int(i)
    names = [f.name for f in SecurityIssues if f.value and (f.value & (f.value - 1)) == 0 and i & f.value]
    return '%d[%s]' % (i, '|'.join(names))


def entry(s):
    subj = s.subject
    if isinstance(subj, PGPKey):
        sd = 'key:' + str(subj.fingerprint.keyid)
    elif isinstance(subj, PGPUID):
        sd = 'uid:' + hashlib.sha1(bytes(subj.__bytearray__()) if hasattr(subj, '__bytearray__') else b'').hexdigest()[:8]
    elif isinstance(subj, (bytes, bytearray)):
        sd = 'bytes:' + hashlib.sha1(bytes(subj)).hexdigest()[:8]
    elif isinstance(subj, str):
        sd = 'str:' + hashlib.sha1(subj.encode('utf-8')).hexdigest()[:8]
    else:
        sd = type(subj).__name__
    sig = s.signature
    return '(%s by=%s sig=%s/%s/%s/%s subj=%s)' % (
        flags(s.issues), s.by.fingerprint.keyid, sig.type.name, sig.key_algorithm.name,
        sig.hash_algorithm.name, sig.signer, sd)


def describe(label, fn):
    """Run fn() -> SignatureVerification and print everything observable about it."""
    try:
        with warnings.catch_warnings():
            warnings.simplefilter('ignore')
            sv = fn()
    except Exception as e:
        out(label, 'EXC', type(e).__name__)
        return None
    good = list(sv.good_signatures)
    bad = list(sv.bad_signatures)
    allsubj = list(sv._subjects)
    # coherence facts
    gi = [id(x) for x in good]
    bi = [id(x) for x in bad]
    once = sorted(gi + bi) == sorted(id(x) for x in allsubj) and not (set(gi) & set(bi))
    out(label, 'bool=%s' % bool(sv), 'len=%d' % len(sv), 'good=%d' % len(good), 'bad=%d' % len(bad),
        'partition=%s' % once, 'truthy_iff_nobad=%s' % (bool(sv) == (len(bad) == 0)),
        'nonzero=%s' % sv.__nonzero__())
    for g in good:
        out('   G', entry(g))
    for b in bad:
        out('   B', entry(b))
    return sv


def load_key(path):
    k, _ = PGPKey.from_file(path)
    return k


# ---------------------------------------------------------------------------
out('== 1. SecurityIssues.causes_signature_verify_to_fail over all 2^11 flag sets')
bits = ''.join('1' if SecurityIssues(v).causes_signature_verify_to_fail else '0' for v in range(0, 1 << 11))
out('sha256', hashlib.sha256(bits.encode()).hexdigest(), 'ones', bits.count('1'))
for f in SecurityIssues:
    out(' ', f.name, int(f), f.causes_signature_verify_to_fail, type(f.causes_signature_verify_to_fail).__name__)
for a, b in itertools.combinations([f for f in SecurityIssues if f.value], 2):
    c = a | b
    out(' ', a.name, b.name, c.causes_signature_verify_to_fail)
out('OK-type', type(SecurityIssues.OK.causes_signature_verify_to_fail).__name__,
    SecurityIssues(0) is SecurityIssues.OK)

# ---------------------------------------------------------------------------
out('== 2. PubKeyAlgorithm.validate_params')
sizes = [0, 1, 511, 512, 1023, 1024, 1536, 2047, 2048, 2049, 3072, 4096, 8192, 16384]
for alg in PubKeyAlgorithm:
    row = []
    for s in sizes + list(EllipticCurveOID):
        try:
            r = alg.validate_params(s)
            row.append('%s:%s' % (getattr(s, 'name', s), flags(r)))
        except Exception as e:
            row.append('%s:EXC-%s' % (getattr(s, 'name', s), type(e).__name__))
    out(' ', alg.name, ' '.join(row))
    for s in (None, '2048', 2048.0, 2047.5):
        try:
            r = alg.validate_params(s)
            out('    odd', repr(s), flags(r), type(r).__name__)
        except Exception as e:
            out('    odd', repr(s), 'EXC', type(e).__name__)

# ---------------------------------------------------------------------------
out('== 3. SignatureVerification object coherence (synthetic entries)')


class _Tok(object):
    def __init__(self, n):
        self.n = n

    def __hash__(self):
        return self.n

    def __eq__(self, o):
        return isinstance(o, _Tok) and o.n == self.n


summary = []
for v in range(0, 1 << 11):
    sv = SignatureVerification()
    sv.add_sigsubj(_Tok(1), None, _Tok(2), SecurityIssues(v))
    g = len(list(sv.good_signatures))
    b = len(list(sv.bad_signatures))
    summary.append('%d%d%d' % (bool(sv), g, b))
out('single-entry sha256', hashlib.sha256(''.join(summary).encode()).hexdigest(),
    'true', sum(1 for s in summary if s[0] == '1'))
for v in [0, 1, 2, 4, 8, 16, 32, 64, 128, 256, 512, 1024, 8 | 32, 64 | 256, 2 | 64, 1024 | 512, 0x7ff, 0xff]:
    sv = SignatureVerification()
    sv.add_sigsubj(_Tok(1), None, _Tok(2), SecurityIssues(v))
    out(' ', flags(v), bool(sv), len(list(sv.good_signatures)), len(list(sv.bad_signatures)), len(sv))

# pairs / triples combined with &
vals = [0, 1, 2, 4, 8, 16, 32, 64, 128, 256, 512, 1024, 8 | 64, 2 | 256]
acc = []
for combo in itertools.product(vals, repeat=2):
    parts = []
    for n, v in enumerate(combo):
        p = SignatureVerification()
        p.add_sigsubj(_Tok(10 + n), 'k', _Tok(20 + n), SecurityIssues(v))
        parts.append(p)
    sv = SignatureVerification()
    for p in parts:
        r = sv & p
        assert r is sv
    g = [x.signature.n for x in sv.good_signatures]
    b = [x.signature.n for x in sv.bad_signatures]
    acc.append('%s:%d:%s:%s' % (combo, bool(sv), g, b))
out('pairs sha256', hashlib.sha256('\n'.join(acc).encode()).hexdigest())
for line in acc[::13]:
    out('  ', line)
acc = []
for combo in itertools.product([0, 1, 8, 64, 2, 1024, 256], repeat=3):
    sv = SignatureVerification()
    for n, v in enumerate(combo):
        p = SignatureVerification()
        p.add_sigsubj(_Tok(10 + n), 'k', _Tok(20 + n), SecurityIssues(v))
        sv &= p
    g = [x.signature.n for x in sv.good_signatures]
    b = [x.signature.n for x in sv.bad_signatures]
    acc.append('%s:%d:%d:%s:%s' % (combo, bool(sv), len(sv), g, b))
out('triples sha256', hashlib.sha256('\n'.join(acc).encode()).hexdigest())

sv = SignatureVerification()
out('empty', bool(sv), len(sv), list(sv.good_signatures), list(sv.bad_signatures), _Tok(1) in sv)
sv.add_sigsubj(_Tok(1), 'by', _Tok(2))
e = sv._subjects[0]
out('default issues', flags(e.issues), type(e.issues).__name__, bool(sv), len(list(sv.bad_signatures)),
    _Tok(1) in sv, _Tok(2) in sv, _Tok(3) in sv, e.by, e._fields)
sv.add_sigsubj(_Tok(3), 'by')
out('no subject', sv._subjects[1].subject, len(sv), bool(sv))
for other in (12, None, 'x', [], True):
    try:
        SignatureVerification() & other
        out('and', type(other).__name__, 'ok')
    except Exception as ex:
        out('and', type(other).__name__, 'EXC', type(ex).__name__)
out('slots', SignatureVerification.__slots__, isinstance(SignatureVerification.good_signatures, property))

# ---------------------------------------------------------------------------
out('== 4. keys: soundness checks')
keyfiles = sorted(glob.glob(os.path.join(TD, 'keys', '*.asc'))) + \
    sorted(glob.glob(os.path.join(TD, 'blocks', '*key*.asc'))) + \
    [os.path.join(TD, 'blocks', 'expyro.asc'), os.path.join(TD, 'blocks', 'revochiio.asc'),
     os.path.join(TD, 'pubtest.asc'), os.path.join(TD, 'sectest.asc')] + \
    sorted(glob.glob(os.path.join(TD, 'signatures', '*.key.asc')))
KEYS = {}
for kf in keyfiles:
    try:
        with warnings.catch_warnings():
            warnings.simplefilter('ignore')
            k = load_key(kf)
    except Exception as e:
        out(' ', kf, 'LOAD-EXC', type(e).__name__)
        continue
    KEYS[kf] = k
    with warnings.catch_warnings():
        warnings.simplefilter('ignore')
        row = [kf, k.key_algorithm.name, str(getattr(k.key_size, 'name', k.key_size)), 'pub' if k.is_public else 'sec',
               'prot' if k.is_protected else 'open', 'expired=%s' % k.is_expired,
               'revs=%d' % len(list(k.revocation_signatures)),
               'prim=' + flags(k.check_primitives()), 'mgmt=' + flags(k.check_management()),
               'mgmt(sv)=' + flags(k.check_management(True)),
               'sound=' + flags(k.check_soundness()), 'sound(sv)=' + flags(k.check_soundness(True)),
               'insecure=' + flags(k.is_considered_insecure()),
               'selfv=' + flags(k.self_verified)]
        for kid, sk in k.subkeys.items():
            row.append('sub %s %s %s prim=%s sound=%s' % (kid, sk.key_algorithm.name,
                                                        getattr(sk.key_size, 'name', sk.key_size),
                                                        flags(sk.check_primitives()), flags(sk.check_soundness())))
    out(' ', ' '.join(row))

# ---------------------------------------------------------------------------
out('== 5. every key verifies itself / every other key (self- and third-party subjects)')
for kf, k in KEYS.items():
    describe('self %s' % kf, lambda: k.verify(k))
    for uid in k.userids:
        describe('  uid %s' % hashlib.sha1(uid.name.encode('utf-8')).hexdigest()[:8], lambda: k.verify(uid))
    for kid, sk in k.subkeys.items():
        describe('  subkey %s' % kid, lambda: k.verify(sk))
pubs = [(kf, k) for kf, k in KEYS.items()]
for (fa, a), (fb, b) in itertools.permutations(pubs, 2):
    try:
        with warnings.catch_warnings():
            warnings.simplefilter('ignore')
            sv = a.verify(b)
    except PGPError:
        continue
    except Exception as e:
        out('cross', fa, fb, 'EXC', type(e).__name__)
        continue
    describe('cross %s -> %s' % (fa, fb), lambda: a.verify(b))

# ---------------------------------------------------------------------------
out('== 6. stored messages / signatures')
msgfiles = sorted(glob.glob(os.path.join(TD, 'messages', '*.asc'))) + sorted(glob.glob(os.path.join(TD, 'blocks', '*.asc')))
for mf in msgfiles:
    try:
        with warnings.catch_warnings():
            warnings.simplefilter('ignore')
            m = PGPMessage.from_file(mf)
    except Exception:
        continue
    if not m.is_signed:
        continue
    for kf, k in KEYS.items():
        try:
            with warnings.catch_warnings():
                warnings.simplefilter('ignore')
                k.verify(m)
        except PGPError:
            continue
        except Exception as e:
            out('msg', mf, kf, 'EXC', type(e).__name__)
            continue
        describe('msg %s by %s' % (mf, kf), lambda: k.verify(m))

for base in ('aptapproval-test', 'debian-sid', 'ubuntu-precise'):
    k = KEYS[os.path.join(TD, 'signatures', base + '.key.asc')]
    sig = PGPSignature.from_file(os.path.join(TD, 'signatures', base + '.sig.asc'))
    with open(os.path.join(TD, 'signatures', base + '.subj'), 'rb') as f:
        subj = f.read()
    describe('detached %s' % base, lambda: k.verify(subj, sig))
    describe('detached %s tampered' % base, lambda: k.verify(subj + b'x', sig))
    describe('detached %s empty' % base, lambda: k.verify(b'', sig))
    describe('detached %s None' % base, lambda: k.verify(None, sig))

for sf in ('rsasignature.asc', 'signature.expired.asc', 'signature.non-exportable.asc'):
    sig = PGPSignature.from_file(os.path.join(TD, 'blocks', sf))
    out('sig', sf, sig.type.name, sig.key_algorithm.name, sig.hash_algorithm.name, sig.signer, 'expired=%s' % sig.is_expired)
    for kf, k in KEYS.items():
        if sig.signer == k.fingerprint.keyid or sig.signer in k.subkeys:
            describe('  %s by %s' % (sf, kf), lambda: k.verify('This is stored, literally\\!\n\n', sig))
            describe('  %s by %s (None)' % (sf, kf), lambda: k.verify(None, sig))

ecc2sig = PGPSignature.from_file(os.path.join(TD, 'signatures', 'ecc.2.sig.asc'))
for kf, k in KEYS.items():
    if ecc2sig.signer == k.fingerprint.keyid or ecc2sig.signer in k.subkeys:
        describe('ecc.2.sig by %s' % kf, lambda: k.verify("This is a test signature message", ecc2sig))
        describe('ecc.2.sig by %s wrong' % kf, lambda: k.verify("This is a test signature messagE", ecc2sig))

# ---------------------------------------------------------------------------
out('== 7. fresh signatures: algorithm x hash x correct/incorrect')
SEC = {}
for name in ('rsa.1', 'dsa.1', 'ecc.1', 'ecc.2', 'mixed.1'):
    SEC[name] = (KEYS[os.path.join(TD, 'keys', name + '.sec.asc')], KEYS[os.path.join(TD, 'keys', name + '.pub.asc')])
SEC['targette'] = (KEYS[os.path.join(TD, 'keys', 'targette.sec.rsa.asc')], KEYS[os.path.join(TD, 'keys', 'targette.pub.rsa.asc')])
SEC['sectest'] = (KEYS[os.path.join(TD, 'sectest.asc')], KEYS[os.path.join(TD, 'pubtest.asc')])
HASHES = [HashAlgorithm.MD5, HashAlgorithm.SHA1, HashAlgorithm.RIPEMD160, HashAlgorithm.SHA224,
          HashAlgorithm.SHA256, HashAlgorithm.SHA384, HashAlgorithm.SHA512]
TEXT = 'The quick brown fox jumps over the lazy dog'
made = {}
for name, (sec, pub) in SEC.items():
    for h in HASHES:
        label = 'fresh %s %s' % (name, h.name)
        try:
            with warnings.catch_warnings():
                warnings.simplefilter('ignore')
                if sec.is_protected:
                    out(label, 'protected-skip')
                    break
                sig = sec.sign(TEXT, hash=h, created=FIXED)
        except Exception as e:
            out(label, 'SIGN-EXC', type(e).__name__)
            continue
        made[(name, h)] = sig
        describe(label + ' ok(pub)', lambda: pub.verify(TEXT, sig))
        describe(label + ' ok(sec)', lambda: sec.verify(TEXT, sig))
        describe(label + ' ok(bytes)', lambda: pub.verify(TEXT.encode('ascii'), sig))
        describe(label + ' ok(bytearray)', lambda: pub.verify(bytearray(TEXT.encode('ascii')), sig))
        describe(label + ' wrong', lambda: pub.verify(TEXT + '.', sig))
        describe(label + ' wrong-none', lambda: pub.verify(None, sig))
    # foreign key: signer id not matching -> PGPError
for (na, (seca, puba)), (nb, (secb, pubb)) in itertools.permutations(SEC.items(), 2):
    sig = made.get((na, HashAlgorithm.SHA256))
    if sig is None:
        continue
    describe('foreign %s sig under %s' % (na, nb), lambda: pubb.verify(TEXT, sig))

out('== 8. several signatures examined in one call (messages)')
signers = [n for n in ('rsa.1', 'dsa.1', 'ecc.1', 'targette', 'sectest') if not SEC[n][0].is_protected]
for r in (1, 2, 3):
    for combo in itertools.combinations(signers, r):
        with warnings.catch_warnings():
            warnings.simplefilter('ignore')
            msg = PGPMessage.new(TEXT, compression=CompressionAlgorithm.Uncompressed)
            try:
                for n, nm in enumerate(combo):
                    msg |= SEC[nm][0].sign(msg, hash=[HashAlgorithm.SHA256, HashAlgorithm.SHA1, HashAlgorithm.MD5][n], created=FIXED)
            except Exception as e:
                out('multi', combo, 'SIGN-EXC', type(e).__name__)
                continue
        for nm in signers:
            describe('multi %s verified by %s' % ('+'.join(combo), nm), lambda: SEC[nm][1].verify(msg))
        # same key signs twice (two entries in one call)
    with warnings.catch_warnings():
        warnings.simplefilter('ignore')
        try:
            msg = PGPMessage.new(TEXT, compression=CompressionAlgorithm.Uncompressed)
            for n in range(r + 1):
                msg |= SEC['rsa.1'][0].sign(msg, hash=[HashAlgorithm.SHA512, HashAlgorithm.SHA1, HashAlgorithm.MD5, HashAlgorithm.SHA224][n], created=FIXED)
        except Exception as e:
            out('same-key x%d' % (r + 1), 'SIGN-EXC', type(e).__name__)
            continue
    describe('same-key x%d' % (r + 1), lambda: SEC['rsa.1'][1].verify(msg))

# one good + one cryptographically wrong signature examined in one call via &
with warnings.catch_warnings():
    warnings.simplefilter('ignore')
    sec, pub = SEC['rsa.1']
    s_ok = made[('rsa.1', HashAlgorithm.SHA256)]
    describe('and ok&ok', lambda: pub.verify(TEXT, s_ok) & pub.verify(TEXT, made[('rsa.1', HashAlgorithm.SHA1)]))
    describe('and ok&wrong', lambda: pub.verify(TEXT, s_ok) & pub.verify(TEXT + '!', s_ok))
    describe('and wrong&ok', lambda: pub.verify(TEXT + '!', s_ok) & pub.verify(TEXT, s_ok))
    describe('and wrong&wrong', lambda: pub.verify(TEXT + '!', s_ok) & pub.verify(TEXT + '?', s_ok))

# ---------------------------------------------------------------------------
out('== 9. disqualifying conditions: expiry, revocation; advisory ones added on top')


def fresh(name):
    """fresh, independent (sec, pub) copies parsed from disk"""
    paths = {'targette': ('targette.sec.rsa.asc', 'targette.pub.rsa.asc')}.get(name, (name + '.sec.asc', name + '.pub.asc'))
    with warnings.catch_warnings():
        warnings.simplefilter('ignore')
        return load_key(os.path.join(TD, 'keys', paths[0])), load_key(os.path.join(TD, 'keys', paths[1]))


def pubof(sec):
    with warnings.catch_warnings():
        warnings.simplefilter('ignore')
        return sec.pubkey


for name in ('rsa.1', 'dsa.1', 'ecc.1', 'targette'):
    sec, pub = fresh(name)
    if sec.is_protected:
        out('expiry', name, 'protected-skip')
        continue
    for exp_label, exp in (('none', None), ('past-1s', timedelta(seconds=1)), ('past-1d', timedelta(days=1)),
                           ('past-365d', timedelta(days=365)), ('future', timedelta(days=365 * 200))):
        sec, pub = fresh(name)
        with warnings.catch_warnings():
            warnings.simplefilter('ignore')
            uid = PGPUID.new('Expiry Probe %s' % exp_label, email='probe@example.com')
            kwargs = dict(usage={KeyFlags.Sign, KeyFlags.Certify}, hashes=[HashAlgorithm.SHA256],
                          ciphers=[SymmetricKeyAlgorithm.AES256], compression=[CompressionAlgorithm.ZIP], created=FIXED)
            if exp is not None:
                kwargs['key_expiration'] = exp
            # remove the existing uids so the new self-signature decides the expiry
            for u in list(sec.userids):
                sec.del_uid(u.name)
            try:
                sec.add_uid(uid, **kwargs)
            except Exception as e:
                out('expiry', name, exp_label, 'ADD-UID-EXC', type(e).__name__)
                continue
            p = pubof(sec)
            out('expiry', name, exp_label, 'expired=%s' % p.is_expired, 'sound=' + flags(p.check_soundness()),
                'mgmt=' + flags(p.check_management()), 'insecure=' + flags(p.is_considered_insecure()))
        for h in (HashAlgorithm.SHA256, HashAlgorithm.SHA1, HashAlgorithm.MD5):
            try:
                with warnings.catch_warnings():
                    warnings.simplefilter('ignore')
                    sig = sec.sign(TEXT, hash=h, created=FIXED)
            except Exception as e:
                out('  sign', h.name, 'EXC', type(e).__name__)
                continue
            describe('  %s %s %s correct' % (name, exp_label, h.name), lambda: p.verify(TEXT, sig))
            describe('  %s %s %s incorrect' % (name, exp_label, h.name), lambda: p.verify(TEXT + 'x', sig))
            describe('  %s %s %s correct(sec)' % (name, exp_label, h.name), lambda: sec.verify(TEXT, sig))
        describe('  %s %s self' % (name, exp_label), lambda: p.verify(p))
        describe('  %s %s uid' % (name, exp_label), lambda: p.verify(p.userids[0]))
        # a message carrying two signatures of this key
        with warnings.catch_warnings():
            warnings.simplefilter('ignore')
            try:
                msg = PGPMessage.new(TEXT, compression=CompressionAlgorithm.Uncompressed)
                msg |= sec.sign(msg, hash=HashAlgorithm.SHA256, created=FIXED)
                msg |= sec.sign(msg, hash=HashAlgorithm.SHA1, created=FIXED)
            except Exception as e:
                out('  msg2 SIGN-EXC', type(e).__name__)
                msg = None
        if msg is not None:
            describe('  %s %s msg-two-sigs' % (name, exp_label), lambda: p.verify(msg))

# revocation present on the key (advisory in this library: Revoked is not in the fail set)
for name in ('rsa.1', 'dsa.1', 'ecc.1', 'targette'):
    sec, pub = fresh(name)
    if sec.is_protected:
        out('revocation', name, 'protected-skip')
        continue
    try:
        with warnings.catch_warnings():
            warnings.simplefilter('ignore')
            rev = sec.revoke(pub, sigtype=SignatureType.KeyRevocation, hash=HashAlgorithm.SHA256, created=FIXED)
            out('revocation', name, rev.type.name, rev.signer, rev.hash_algorithm.name)
            before = flags(pub.check_soundness())
            pub |= rev
            out('  sound before', before, 'after', flags(pub.check_soundness()),
                'revs=%d' % len(list(pub.revocation_signatures)), 'insecure=' + flags(pub.is_considered_insecure()))
    except Exception as e:
        out('revocation', name, 'EXC', type(e).__name__)
        continue
    if not sec.is_protected:
        with warnings.catch_warnings():
            warnings.simplefilter('ignore')
            sig = sec.sign(TEXT, hash=HashAlgorithm.SHA256, created=FIXED)
        describe('  revoked %s correct' % name, lambda: pub.verify(TEXT, sig))
        describe('  revoked %s incorrect' % name, lambda: pub.verify(TEXT + 'x', sig))
    describe('  revoked %s self' % name, lambda: pub.verify(pub))
    describe('  revoked %s rev-sig' % name, lambda: pub.verify(pub, rev))

for kf in (os.path.join(TD, 'blocks', 'expyro.asc'), os.path.join(TD, 'blocks', 'revochiio.asc')):
    k = KEYS.get(kf)
    if k is None:
        continue
    with warnings.catch_warnings():
        warnings.simplefilter('ignore')
        out('stored', kf, 'expired=%s' % k.is_expired, 'expires_at=%s' % k.expires_at, 'sound=' + flags(k.check_soundness()))
    describe('  stored self', lambda: k.verify(k))
    for sig in k.__sig__:
        describe('  stored direct sig %s' % sig.type.name, lambda: k.verify(k, sig))
    for uid in k.userids:
        for sig in uid.__sig__:
            if sig.signer == k.fingerprint.keyid:
                describe('  stored uid sig %s' % sig.type.name, lambda: k.verify(uid, sig))

# ---------------------------------------------------------------------------
out('== 10. argument checking of PGPKey.verify')
sec, pub = SEC['rsa.1']
s_ok = made[('rsa.1', HashAlgorithm.SHA256)]
for subj in (12, 1.5, [], {}, object(), True, memoryview(b'abc'), None, '', b'', bytearray()):
    describe('subject %s' % type(subj).__name__, lambda: pub.verify(subj))
    describe('subject %s +sig' % type(subj).__name__, lambda: pub.verify(subj, s_ok))
for sg in (12, 'sig', b'sig', [], object(), pub):
    describe('signature %s' % type(sg).__name__, lambda: pub.verify(TEXT, sg))
describe('literal msg unsigned', lambda: pub.verify(PGPMessage.new(TEXT)))
describe('signature-as-subject', lambda: pub.verify(s_ok))

out('== done')
