import copy
import glob
import hashlib
import os
import sys
import warnings

sys.path.insert(0, os.getcwd())
warnings.simplefilter('ignore')

import pgpy
from pgpy.packet import Packet
from pgpy.packet.fields import SubPackets
from pgpy.errors import PGPError

out = []


def note(*a):
    out.append(repr(a))


def describe(sps):
    note('bytes', bytes(sps.__bytearray__()))
    note('hashed', bytes(sps.__hashbytearray__()))
    note('unhashed', bytes(sps.__unhashbytearray__()))
    note('iter', [(sp.__class__.__name__, bytes(sp.__bytearray__())) for sp in sps])
    note('keys_h', list(sps._hashed_sp.keys()), 'keys_u', list(sps._unhashed_sp.keys()))
    note('raw', None if sps._hashed_raw is None else bytes(sps._hashed_raw))
    note('len', len(sps))
    for k in ('Issuer', 'h_Issuer', 'CreationTime', 'h_CreationTime', 'Nope', 'h_KeyFlags', 'NotationData'):
        note(k, k in sps, [bytes(v.__bytearray__()) for v in sps[k]])


# 1. every signature packet of the packet fixtures, with trailing data
for fn in sorted(glob.glob('tests/testdata/packets/02.v4.*')):
    data = bytearray(open(fn, 'rb').read()) + b'TRAILING'
    pkt = Packet(data)
    note(os.path.basename(fn), bytes(data), bytes(pkt.__bytearray__()))
    describe(pkt.subpackets)
    cp = copy.copy(pkt.subpackets)
    describe(cp)
    # mutate: hashed and unhashed additions
    cp.addnew('Policy', hashed=True, uri='https://example.com/ü')
    cp.addnew('Policy', hashed=False, uri='second')
    cp.addnew('Revocable', hashed=True, bhflag=False)
    cp.addnew('Issuer', issuer=bytearray(b'\x01\x23\x45\x67\x89\xab\xcd\xef'))
    cp.update_hlen()
    describe(cp)
    describe(pkt.subpackets)
    re = SubPackets()
    buf = bytearray(cp.__bytearray__()) + b'\x01\x02\x03'
    re.parse(buf)
    note('reparse left', bytes(buf))
    describe(re)

# 2. signatures inside key fixtures
for fn in sorted(glob.glob('tests/testdata/keys/*.pub.asc')):
    key, _ = pgpy.PGPKey.from_file(fn)
    for uid in key.userids:
        for sig in uid.__sig__:
            describe(sig._signature.subpackets)
    note(fn, hashlib.sha256(bytes(key)).hexdigest())

# 3. hand-made areas: empty, over-long subpacket header, truncated, bad counts
cases = [
    b'\x00\x00\x00\x00',
    b'\x00\x00\x00\x00tail',
    b'\x00\x05\x05\x02\x5b\x00\x00\x00\x00\x0a\x09\x10\x01\x02\x03\x04\x05\x06\x07\x08',
    b'\x00\x09\xff\x00\x00\x00\x05\x02\x5b\x00\x00\x00\x00\x00',
    b'\x00\x03\x05\x02\x5b\x00\x00\x00\x00\x00rest',
    b'\x00\x06\x05\x02\x5b\x00\x00\x00\x00\x00',
    b'\x00\x06\x05\x02\x5b\x00\x00\x00',
    b'\x00\x00\x00\x04\x03\x65\xaa\xbb\x00',
    b'\x00\x04\x03\xe5\xaa\xbb\x00\x04\x03\x65\xcc\xdd',
    b'\x00',
    b'',
    b'\x00\x02\x00\x10\x00\x00',
]
for c in cases:
    buf = bytearray(c)
    sps = SubPackets()
    try:
        sps.parse(buf)
    except Exception as e:
        note('exc', type(e).__name__, str(e), bytes(buf))
        note('raw after exc', sps._hashed_raw, list(sps._hashed_sp.keys()), list(sps._unhashed_sp.keys()))
    else:
        note('ok', bytes(buf))
        describe(sps)

print(len(out), hashlib.sha256('\n'.join(out).encode()).hexdigest())
