"""Equivalence probe for property C13 (fresh randomness in encrypt / protect).

Run as:  cd <tree> && /venv/bin/python equiv.py

os.urandom is replaced by a deterministic counter based generator so that every
value that depends on it (session keys, salts, IVs, random prefixes) is reproducible.
Everything that depends on the OpenSSL random source (RSA padding, ECDH ephemeral
keys) is only observed through round trips and lengths.
"""
import hashlib
import os
import sys
import warnings

sys.path.insert(0, os.getcwd())
warnings.simplefilter('ignore')

_calls = []
_ctr = [0]


def _fake_urandom(n):
    _ctr[0] += 1
    _calls.append(n)
    out = b''
    i = 0
    while len(out) < n:
        out += hashlib.sha256(b'urandom-%d-%d' % (_ctr[0], i)).digest()
        i += 1
    return out[:n]


import pgpy  # noqa: E402
from pgpy import PGPKey, PGPMessage  # noqa: E402
from pgpy.constants import HashAlgorithm, SymmetricKeyAlgorithm  # noqa: E402
from pgpy.packet.packets import IntegrityProtectedSKEDataV1, SKESessionKeyV4  # noqa: E402

os.urandom = _fake_urandom

out = []


def rec(label, value):
    if isinstance(value, (bytes, bytearray)):
        value = hashlib.sha256(bytes(value)).hexdigest()
    out.append('%s=%s' % (label, value))


def mark(label):
    rec(label + '.urandom', list(_calls))
    del _calls[:]


TD = os.path.join('tests', 'testdata')
text = open(os.path.join(TD, 'files', 'literal.1.txt'), 'rb').read()
lit, _ = PGPMessage.from_file(os.path.join(TD, 'messages', 'message.signed.asc')), None
if isinstance(lit, tuple):
    lit = lit[0]
mark('load')

ciphers = [SymmetricKeyAlgorithm.AES256, SymmetricKeyAlgorithm.AES192, SymmetricKeyAlgorithm.AES128,
           SymmetricKeyAlgorithm.CAST5, SymmetricKeyAlgorithm.TripleDES, SymmetricKeyAlgorithm.Blowfish,
           SymmetricKeyAlgorithm.Camellia128, SymmetricKeyAlgorithm.Camellia192, SymmetricKeyAlgorithm.Camellia256]

# ---- passphrase encryption, generated and supplied session key, twice each
for c in ciphers:
    for rep in range(2):
        for hsh in (HashAlgorithm.SHA256, HashAlgorithm.SHA1):
            try:
                enc = lit.encrypt('pass phrase', cipher=c, hash=hsh)
                rec('sym.%s.%s.%d' % (c.name, hsh.name, rep), bytes(enc))
                rec('sym.%s.%s.%d.rt' % (c.name, hsh.name, rep), bytes(enc.decrypt('pass phrase')))
            except Exception as e:
                rec('sym.%s.%s.%d' % (c.name, hsh.name, rep), '%s:%s' % (type(e).__name__, e))
            mark('sym.%s.%s.%d' % (c.name, hsh.name, rep))
    try:
        enc = lit.encrypt(b'bytes pass', sessionkey=bytes(range(c.key_size // 8)), cipher=c)
        rec('symsk.%s' % c.name, bytes(enc))
    except Exception as e:
        rec('symsk.%s' % c.name, '%s:%s' % (type(e).__name__, e))
    mark('symsk.%s' % c.name)

# passphrase-encrypting an already encrypted message (second passphrase, same session key)
for c in (SymmetricKeyAlgorithm.AES256, SymmetricKeyAlgorithm.CAST5):
    try:
        skey = bytes(range(7, 7 + c.key_size // 8))
        enc = lit.encrypt('first', sessionkey=skey, cipher=c)
        enc2 = enc.encrypt('second', sessionkey=skey, cipher=c)
        rec('sym2.%s' % c.name, bytes(enc2))
        rec('sym2.%s.pkts' % c.name, [type(x).__name__ for x in enc2])
        rec('sym2.%s.rt1' % c.name, bytes(enc2.decrypt('first')))
        rec('sym2.%s.rt2' % c.name, bytes(enc2.decrypt('second')))
    except Exception as e:
        rec('sym2.%s' % c.name, '%s:%s' % (type(e).__name__, e))
    mark('sym2.%s' % c.name)

# error cases
for c in (SymmetricKeyAlgorithm.IDEA, SymmetricKeyAlgorithm.Plaintext, SymmetricKeyAlgorithm.Twofish256):
    try:
        enc = lit.encrypt('pw', cipher=c)
        rec('symerr.%s' % c.name, bytes(enc))
    except Exception as e:
        rec('symerr.%s' % c.name, '%s:%s' % (type(e).__name__, e))
    mark('symerr.%s' % c.name)

# ---- the two packets directly
for c in ciphers:
    sk = SKESessionKeyV4()
    sk.s2k.usage = 255
    sk.s2k.specifier = 3
    sk.s2k.halg = HashAlgorithm.SHA256
    sk.s2k.encalg = c
    sk.s2k.count = 96
    try:
        r = sk.encrypt_sk('pw', bytes(range(1, 1 + c.key_size // 8)))
        rec('skesk.%s' % c.name, bytes(sk))
        rec('skesk.%s.ret' % c.name, repr(r))
        rec('skesk.%s.dec' % c.name, repr(sk.decrypt_sk('pw')))
    except Exception as e:
        rec('skesk.%s' % c.name, '%s:%s' % (type(e).__name__, e))
    mark('skesk.%s' % c.name)

    for data in (b'', b'x', text, bytearray(text)):
        sed = IntegrityProtectedSKEDataV1()
        key = bytes(range(c.key_size // 8))
        try:
            r = sed.encrypt(key, c, data)
            rec('seipd.%s.%d' % (c.name, len(data)), bytes(sed))
            rec('seipd.%s.%d.ret' % (c.name, len(data)), repr(r))
            rec('seipd.%s.%d.type' % (c.name, len(data)), type(sed.ct).__name__)
            rec('seipd.%s.%d.dec' % (c.name, len(data)), bytes(sed.decrypt(key, c)))
        except Exception as e:
            rec('seipd.%s.%d' % (c.name, len(data)), '%s:%s' % (type(e).__name__, e))
        mark('seipd.%s.%d' % (c.name, len(data)))

for bad in ('text', None, 5):
    sed = IntegrityProtectedSKEDataV1()
    try:
        sed.encrypt(bytes(16), SymmetricKeyAlgorithm.AES128, bad)
        rec('seipd.bad.%r' % (bad,), bytes(sed))
    except Exception as e:
        rec('seipd.bad.%r' % (bad,), '%s:%s' % (type(e).__name__, e))
    mark('seipd.bad.%r' % (bad,))

# ---- public key encryption
for kn in ('rsa.1', 'ecc.1', 'ecc.2', 'mixed.1', 'dsa.1'):
    pub, _ = PGPKey.from_file(os.path.join(TD, 'keys', kn + '.pub.asc'))
    sec, _ = PGPKey.from_file(os.path.join(TD, 'keys', kn + '.sec.asc'))
    mark('pk.%s.load' % kn)
    cands = [(pub, sec)] + [(pub.subkeys[k], sec.subkeys[k]) for k in pub.subkeys]
    for i, (p, s) in enumerate(cands):
        for kw in ({}, {'cipher': SymmetricKeyAlgorithm.AES128},
                   {'cipher': SymmetricKeyAlgorithm.Camellia256, 'sessionkey': bytes(range(32))}):
            tag = 'pk.%s.%d.%s' % (kn, i, sorted(k for k in kw))
            try:
                with warnings.catch_warnings(record=True) as w:
                    warnings.simplefilter('always')
                    enc = p.encrypt(lit, **kw)
                rec(tag + '.warn', sorted(str(x.message) for x in w))
                rec(tag + '.pkts', [type(x).__name__ for x in enc])
                rec(tag + '.len', len(bytes(enc)))
                # the SEIPD packet only depends on os.urandom
                rec(tag + '.seipd', bytes(enc._message.__bytearray__()) if hasattr(enc._message, '__bytearray__') else '')
                dec = s.decrypt(enc)
                rec(tag + '.rt', bytes(dec))
                rec(tag + '.msg', bytes(dec.message, 'latin-1') if isinstance(dec.message, str) else bytes(dec.message))
            except Exception as e:
                rec(tag, '%s:%s' % (type(e).__name__, e))
            mark(tag)

    # recipient selected through user=
    for user in ([u.name for u in pub.userids][:1] + ['nobody at all']):
        tag = 'pkuser.%s.%s' % (kn, user)
        for p, s_ in cands:
            try:
                enc = p.encrypt(lit, user=user, cipher=SymmetricKeyAlgorithm.AES192)
                rec(tag + '.seipd', bytes(enc._message.__bytearray__()))
                rec(tag + '.rt', bytes(s_.decrypt(enc)))
            except Exception as e:
                rec(tag, '%s:%s' % (type(e).__name__, e))
            mark(tag)

# ---- key protection
for kn in ('rsa.1', 'ecc.1', 'ecc.2', 'mixed.1', 'dsa.1'):
    for enc_alg, h in ((SymmetricKeyAlgorithm.AES256, HashAlgorithm.SHA256),
                       (SymmetricKeyAlgorithm.CAST5, HashAlgorithm.SHA1),
                       (SymmetricKeyAlgorithm.Camellia192, HashAlgorithm.SHA512),
                       (SymmetricKeyAlgorithm.IDEA, HashAlgorithm.SHA256)):
        sec, _ = PGPKey.from_file(os.path.join(TD, 'keys', kn + '.sec.asc'))
        tag = 'prot.%s.%s.%s' % (kn, enc_alg.name, h.name)
        for rep in range(2):
            try:
                if rep == 0:
                    sec.protect('QwertyUiop', enc_alg, h)
                else:
                    # re-protect while unlocked: new salt / IV expected for every (sub)key
                    with sec.unlock('QwertyUiop'):
                        sec.protect('QwertyUiop', enc_alg, h)
                rec('%s.%d' % (tag, rep), bytes(sec))
                rec('%s.%d.unlocked' % (tag, rep), sec.is_unlocked)
                with sec.unlock('QwertyUiop'):
                    rec('%s.%d.sig' % (tag, rep), len(bytes(sec.sign('x'))) > 0)
            except Exception as e:
                rec('%s.%d' % (tag, rep), '%s:%s' % (type(e).__name__, e))
                try:
                    rec('%s.%d.after' % (tag, rep), bytes(sec))
                except Exception as e2:
                    rec('%s.%d.after' % (tag, rep), '%s:%s' % (type(e2).__name__, e2))
            mark('%s.%d' % (tag, rep))

digest = hashlib.sha256('\n'.join(out).encode('utf-8')).hexdigest()
if '-v' in sys.argv:
    print('\n'.join(out))
print(len(out), digest)
