"""Behaviour digest for the PGPMessage composition / codec path (property C20).

Run as:  cd <tree> && /venv/bin/python equiv.py
Prints one sha256 digest over every observable output collected below.  Only
deterministic values are digested (fixed inputs, fixed timestamps, RSA signers).
"""
import os
import sys
import glob
import hashlib
import warnings
from datetime import datetime, timezone

sys.path.insert(0, os.getcwd())
warnings.simplefilter('ignore')

import pgpy  # noqa: E402
from pgpy import PGPMessage, PGPKey  # noqa: E402
from pgpy.constants import CompressionAlgorithm, HashAlgorithm  # noqa: E402
from pgpy.packet import Packet  # noqa: E402
from pgpy.packet.packets import (OnePassSignatureV3, LiteralData, CompressedData)  # noqa: E402

OUT = []


def rec(*items):
    OUT.append(repr(items))


def attempt(label, fn):
    try:
        rec(label, 'ok', fn())
    except Exception as e:  # exception type and message are observable too
        rec(label, 'exc', type(e).__name__, str(e))


def describe(msg):
    d = [msg.type, msg.is_compressed, msg.is_encrypted, msg.is_signed, msg.filename,
         sorted(msg.signers), sorted(msg.encrypters), int(msg._compression)]
    if not msg.is_encrypted:
        m = msg.message
        d.append((type(m).__name__, bytes(m) if isinstance(m, (bytes, bytearray)) else m))
    if msg.type == 'literal':
        d.append((msg._message.format, msg._message.mtime.isoformat(), bytes(msg._message._contents)))
    pk = []
    for p in msg:
        e = [type(p).__name__]
        if isinstance(p, OnePassSignatureV3):
            e += [int(p.sigtype), int(p.halg), int(p.pubalg), p.signer, p.nested, bytes(p.__bytearray__())]
        elif isinstance(p, pgpy.PGPSignature):
            e += [int(p.type), p.signer, bytes(p.__bytearray__())]
        else:
            e += [bytes(p.__bytearray__())]
        pk.append(e)
    d.append(pk)
    d.append(bytes(msg))
    d.append(str(msg))
    return d


def packets_of(blob):
    data = bytearray(blob)
    seq = []
    while data:
        p = Packet(data)
        e = [type(p).__name__, p.header.length, bytes(p.__bytearray__())]
        if isinstance(p, CompressedData):
            e.append([(type(q).__name__, bytes(q.__bytearray__())) for q in p.packets])
        if isinstance(p, LiteralData):
            e += [p.format, p.filename, p.mtime.isoformat(), repr(p.contents)]
        seq.append(e)
    return seq


T0 = datetime(2020, 2, 3, 4, 5, 6, tzinfo=timezone.utc)
T1 = datetime(2021, 3, 4, 5, 6, 7, tzinfo=timezone.utc)

def _fix(msg):
    if msg.type == 'literal':
        msg._message.mtime = T0
        msg._message.update_hlen()
    return msg


# 1. fixture messages: import, describe, re-export, re-import
for fn in sorted(glob.glob('tests/testdata/messages/*')):
    def _one(fn=fn):
        msg = PGPMessage.from_file(fn)
        d = describe(msg)
        again = PGPMessage.from_blob(bytes(msg)) if msg.type != 'cleartext' else PGPMessage.from_blob(str(msg))
        return d, describe(again)
    attempt(fn, _one)

# 2. raw packet fixtures for the codecs touched
for fn in sorted(glob.glob('tests/testdata/packets/04.*') + glob.glob('tests/testdata/packets/08.*') +
                 glob.glob('tests/testdata/packets/11.*')):
    def _pk(fn=fn):
        with open(fn, 'rb') as f:
            raw = f.read()
        return packets_of(raw)
    attempt(fn, _pk)

# 3. freshly built messages
rsa = PGPKey.from_file('tests/testdata/keys/rsa.1.sec.asc')[0]
tgt = PGPKey.from_file('tests/testdata/keys/targette.sec.rsa.asc')[0]

contents = [
    ('empty-str', ''),
    ('ascii', 'hello world\r\nsecond line  \n- dash\n'),
    ('utf8', u'grüße ☃ \U0001f600\n'),
    ('ascii-bytes', b'plain ascii bytes\n'),
    ('binary', bytes(range(256)) * 5),
    ('bytearray', bytearray(b'\x00\xff\x80 mixed')),
    ('big', b'0123456789abcdef' * 20000),
]

for cname, content in contents:
    for comp in CompressionAlgorithm:
        for kw in ({}, {'sensitive': True}, {'format': 'b'}, {'format': 't'}, {'format': 'u'}):
            def _new(content=content, comp=comp, kw=kw):
                msg = PGPMessage.new(content, compression=comp, **kw)
                msg._message.mtime = T0
                msg._message.update_hlen()
                d = describe(msg)
                back = PGPMessage.from_blob(bytes(msg))
                back2 = PGPMessage.from_blob(str(msg))
                return d, packets_of(bytes(msg)), describe(back), describe(back2)
            attempt(('new', cname, comp.name, sorted(kw.items())), _new)

# charset / cleartext / file variants
attempt('latin1', lambda: describe(_fix(PGPMessage.new(u'café'.encode('latin-1'), encoding='latin-1', format='t'))))
attempt('badcharset', lambda: PGPMessage.new('x', encoding='no-such-codec'))
attempt('badformat', lambda: bytes(_fix(PGPMessage.new(b'\xff\xfe', format='u'))))
attempt('none', lambda: PGPMessage.new(None))
attempt('int', lambda: PGPMessage.new(5))
attempt('cleartext', lambda: describe(PGPMessage.new('clear\n- text \t\nend', cleartext=True)))
attempt('cleartext-bytes', lambda: describe(PGPMessage.new(b'clear bytes', cleartext=True)))


for fn in sorted(glob.glob('tests/testdata/files/*')):
    def _file(fn=fn):
        msg = PGPMessage.new(fn, file=True)
        msg._message.mtime = T0
        msg._message.update_hlen()
        return describe(msg), describe(PGPMessage.from_blob(bytes(msg)))
    attempt(('file', fn), _file)
attempt('file-missing', lambda: describe(_fix(PGPMessage.new('tests/testdata/files/does-not-exist', file=True))))

# 4. signed messages: 0..3 RSA signers (deterministic PKCS#1 v1.5), equal and differing times, any order
plans = {
    'one': [(rsa, T0, HashAlgorithm.SHA256)],
    'two': [(rsa, T0, HashAlgorithm.SHA256), (tgt, T1, HashAlgorithm.SHA512)],
    'two-rev': [(tgt, T1, HashAlgorithm.SHA512), (rsa, T0, HashAlgorithm.SHA256)],
    'two-same-time': [(rsa, T0, HashAlgorithm.SHA1), (tgt, T0, HashAlgorithm.SHA384)],
    'three': [(rsa, T1, HashAlgorithm.SHA256), (tgt, T0, HashAlgorithm.SHA512), (rsa, T0, HashAlgorithm.SHA224)],
}
for pname, plan in sorted(plans.items()):
    for comp in (CompressionAlgorithm.Uncompressed, CompressionAlgorithm.ZIP, CompressionAlgorithm.BZ2):
        for clear in (False, True):
            def _signed(plan=plan, comp=comp, clear=clear):
                msg = PGPMessage.new('signed text\nline 2 \n', compression=comp, cleartext=clear)
                _fix(msg)
                for key, when, h in plan:
                    msg |= key.sign(msg, created=when, hash=h)
                d = describe(msg)
                back = PGPMessage.from_blob(str(msg))
                ok = [bool(k.pubkey.verify(back)) for k in (rsa, tgt) if k.fingerprint.keyid in back.signers]
                cp = __import__('copy').copy(msg)
                return d, describe(back), ok, describe(cp), packets_of(bytes(msg)) if not clear else None
            attempt(('signed', pname, comp.name, clear), _signed)


# 5. composition through | of odd things
def _or_cases():
    res = []
    base = _fix(PGPMessage.new('abc', compression=CompressionAlgorithm.Uncompressed))
    sig = rsa.sign(base, created=T0)
    m = PGPMessage()
    m |= sig
    m |= sig._signature  # raw Signature packet
    m |= base._message
    res.append(describe(m))
    # a second literal / str when a message is already present
    for extra in ('text', b'bytes', bytearray(b'ba'), base._message, 5, None, [], object):
        try:
            m2 = PGPMessage()
            m2 |= base._message
            m2 |= extra
            res.append(('no-exc', describe(m2)))
        except Exception as e:
            res.append((type(e).__name__, str(e)))
    # str first
    m3 = PGPMessage()
    m3 |= 'clear first'
    m3 |= sig
    res.append(describe(m3))
    m4 = PGPMessage()
    m4 |= base
    m4 |= base
    res.append(describe(m4))
    return res


attempt('or-cases', _or_cases)


# 6. empty message object
attempt('empty-iter', lambda: list(PGPMessage()))
attempt('empty-bytes', lambda: bytes(PGPMessage()))


# 7. parse error paths
attempt('parse-key-as-msg', lambda: PGPMessage.from_file('tests/testdata/keys/rsa.1.pub.asc'))
attempt('parse-garbage', lambda: PGPMessage.from_blob(b'\xff\xff\xff'))
attempt('parse-empty', lambda: describe(PGPMessage.from_blob(b'')))
attempt('parse-trunc-literal', lambda: describe(PGPMessage.from_blob(b'\xcb\x03b\x00')))
attempt('parse-trunc-ops', lambda: packets_of(b'\xc4\x0d\x03\x00\x08\x01' + b'\x11' * 8))
attempt('parse-bad-ops', lambda: packets_of(b'\xc4\x0d\x03\xee\x08\x01' + b'\x11' * 8 + b'\x01'))
attempt('parse-bad-calg', lambda: packets_of(b'\xc8\x03\x63ab'))
attempt('parse-empty-comp', lambda: packets_of(b'\xc8\x01\x00'))

# 8. codec objects in odd states
attempt('ops-default', lambda: bytes(OnePassSignatureV3().__bytearray__()))


def _ops_partial():
    o = OnePassSignatureV3()
    o.sigtype = 0
    o.halg = 99
    o.pubalg = 1
    o.signer = 'ZZ'
    return bytes(o.__bytearray__())


attempt('ops-partial', _ops_partial)


def _lit_odd():
    res = []
    for fmt, fname in (('b', u'näme'), ('t', 'x' * 255), ('u', 'y' * 256), ('l', ''), ('', '')):
        lit = LiteralData()
        lit.format = fmt
        lit.filename = fname
        lit.mtime = T1
        lit._contents = bytearray(b'\xe2\x98\x83 data')
        try:
            lit.update_hlen()
            raw = bytes(lit.__bytearray__())
            res.append((raw, packets_of(raw), repr(lit.contents)))
        except Exception as e:
            res.append((type(e).__name__, str(e)))
    return res


attempt('lit-odd', _lit_odd)


def _comp_odd():
    c = CompressedData()
    try:
        return bytes(c.__bytearray__())
    except Exception as e:
        return type(e).__name__, str(e)


attempt('comp-none', _comp_odd)

h = hashlib.sha256()
for line in OUT:
    h.update(line.encode('utf-8', 'backslashreplace'))
    h.update(b'\n')
print(len(OUT), h.hexdigest())
