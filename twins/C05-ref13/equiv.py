"""Digest of the observable behaviour of the hashed-subpacket / signature-trailer code.

Run as:  cd <tree> && /venv/bin/python equiv.py
Prints the same digest on the unchanged and on the refactored tree.
"""
import copy
import glob
import hashlib
import os
import sys
import warnings

sys.path.insert(0, os.getcwd())
warnings.simplefilter('ignore')

import pgpy  # noqa: E402
from datetime import datetime, timezone  # noqa: E402
from pgpy.packet.fields import SubPackets  # noqa: E402
from pgpy.packet.subpackets.types import Header as SPHeader, Signature as SPSignature  # noqa: E402
from pgpy.types import Header as BaseHeader  # noqa: E402

H = hashlib.sha256()
N = [0]


def put(*items):
    for it in items:
        N[0] += 1
        if isinstance(it, (bytes, bytearray)):
            H.update(b'B' + bytes(it))
        else:
            H.update(b'R' + repr(it).encode('utf-8', 'backslashreplace'))
        H.update(b'|')


def attempt(fn, *a, **kw):
    try:
        return fn(*a, **kw)
    except Exception as e:  # exception type and message are part of the observable behaviour
        return ('EXC', type(e).__name__, str(e))


# ---- 1. every signature on every fixture key: hashed area, hashdata, re-serialisation, verification
def sigs_of(key):
    for uid in key.userids + key.userattributes:
        for s in uid._signatures:
            yield uid, s
    for s in key._signatures:
        yield key, s
    for sk in key.subkeys.values():
        for s in sk._signatures:
            yield sk, s


keyfiles = sorted(glob.glob('tests/testdata/keys/*.asc') + glob.glob('tests/testdata/blocks/*.asc')
                  + glob.glob('tests/testdata/signatures/*.key.asc') + ['tests/testdata/pubtest.asc'])
keys = {}
for kf in keyfiles:
    r = attempt(pgpy.PGPKey.from_file, kf)
    if isinstance(r, tuple) and r and r[0] == 'EXC':
        put(kf, r)
        continue
    key = r[0]
    keys[kf] = key
    put(kf, str(key.fingerprint))
    for subj, sig in sigs_of(key):
        sps = sig._signature.subpackets
        put(bytes(sps.__hashbytearray__()), bytes(sps.__unhashbytearray__()), bytes(sps.__bytearray__()))
        put(attempt(sig.hashdata, subj))
        put(bytes(sig), str(sig))
        c = copy.copy(sig)
        put(bytes(c), attempt(c.hashdata, subj))
        csp = copy.copy(sps)
        put(bytes(csp.__bytearray__()), sorted(csp._hashed_sp.keys()) == sorted(sps._hashed_sp.keys()))
        for sp in sps:
            put(sp.__class__.__name__, sp.header.typeid, sp.header.critical, sp.header.length, len(sp),
                bytes(sp.__bytearray__()), bytes(sp.header.__bytearray__()))
    pub = key.pubkey if not key.is_public else key
    for uid in pub.userids:
        for s in uid.selfsig and [uid.selfsig] or []:
            put(bool(attempt(pub.verify, uid, s)))

# ---- 2. detached signatures over fixture subjects, intact and with one bit of the hashed area flipped
for sf in sorted(glob.glob('tests/testdata/signatures/*.sig.asc')):
    base = sf[:-len('.sig.asc')]
    kf, subjf = base + '.key.asc', base + '.subj'
    if not (os.path.exists(kf) and os.path.exists(subjf)):
        continue
    key = pgpy.PGPKey.from_file(kf)[0]
    sig = pgpy.PGPSignature.from_file(sf)
    with open(subjf, 'rb') as f:
        subj = f.read()
    put(sf, attempt(sig.hashdata, subj))
    r = attempt(key.verify, subj, sig)
    put(bool(r) if not isinstance(r, tuple) else r)
    raw = bytearray(bytes(sig))
    body_off = 2 if raw[0] & 0x40 == 0 and (raw[0] & 3) == 0 else 3
    for off in (body_off + 1, body_off + 6, body_off + 8):
        mutated = bytearray(raw)
        mutated[off] ^= 0x01
        msig = attempt(pgpy.PGPSignature.from_blob, bytes(mutated))
        if isinstance(msig, tuple):
            put(off, msig)
            continue
        put(off, attempt(msig.hashdata, subj))
        r = attempt(key.verify, subj, msig)
        put(bool(r) if not isinstance(r, tuple) else r)

# ---- 3. hand-made subpacket areas: unknown types, critical bits, all length encodings, odd values
def sp(typ, body, lenenc=1):
    n = len(body) + 1
    if lenenc == 1:
        assert n < 192
        ln = bytes([n])
    elif lenenc == 2:
        v = n - 192 if n >= 192 else None
        assert v is not None
        ln = bytes([(v >> 8) + 192, v & 0xff])
    else:
        ln = b'\xff' + n.to_bytes(4, 'big')
    return ln + bytes([typ]) + body


areas = [
    [sp(2, b'\x50\x00\x00\x00')],
    [sp(2, b'\x50\x00\x00\x00', 5), sp(16, b'\x01\x02\x03\x04\x05\x06\x07\x08')],
    [sp(0x80 | 2, b'\x50\x00\x00\x00'), sp(27, b'\xff'), sp(27, b'\x03\x80\x00'), sp(30, b'\xff\x01')],
    [sp(4, b'\x01'), sp(4, b'\x00'), sp(4, b'\x02'), sp(7, b'\x07'), sp(25, b'\x80')],
    [sp(26, 'https://exämple.org/'.encode('utf-8')), sp(24, b'\xff\xfe latin'), sp(28, b'\xc3\x28')],
    [sp(20, b'\x80\x00\x00\x00\x00\x03\x00\x03a@bxyz'), sp(20, b'\x00\x00\x00\x01\x00\x01\x00\x02k\xff\xfe'),
     sp(20, b'\x40\x00\x00\x00\x00\x01\x00\x00n')],
    [sp(12, b'\x80\x01' + bytes(range(20))), sp(12, b'\xc0\x11' + bytes(range(20, 40)))],
    [sp(29, b'\x02oops \xe2\x82\xac'), sp(29, b'\x7f\xff'), sp(6, b'<[^>]+[@.]example\\.com>$\x00')],
    [sp(100, b''), sp(101, b'\x00' * 5), sp(0x80 | 110, bytes(range(200)), 2), sp(55, bytes(300), 2)],
    [sp(11, b'\x09\x08\x07\x63'), sp(21, b'\x08\x0a\x6e'), sp(22, b'\x02\x01\x00\x09'), sp(23, b'\x80\x01')],
    [sp(9, b'\x00\x01\x51\x80'), sp(3, b'\x00\x00\x0e\x10'), sp(5, b'\x01\x78'), sp(33, b'\x04' + bytes(range(20)))],
    [sp(127, bytes(range(190)), 1), sp(1, b'x', 2) if False else sp(1, b'x', 5)],
]
unhashed = sp(16, b'\xaa' * 8)
for parts in areas:
    harea = b''.join(parts)
    wire = len(harea).to_bytes(2, 'big') + harea + len(unhashed).to_bytes(2, 'big') + unhashed
    sps = SubPackets()
    buf = bytearray(wire + b'TAIL')
    r = attempt(sps.parse, buf)
    put(r, bytes(buf))
    put(bytes(sps.__hashbytearray__()), bytes(sps.__hashbytearray__()) == wire[:2 + len(harea)])
    put(bytes(sps.__unhashbytearray__()), bytes(sps.__bytearray__()))
    put([(k, type(v).__name__, v.header.typeid, v.header.critical, v.header.length, bytes(v.__bytearray__()))
         for k, v in sps._hashed_sp.items()])
    for v in sps:
        for attr in ('uri', 'flags', 'bflag', 'name', 'value', 'regex', 'userid', 'string', 'comment', 'code',
                     'keyclass', 'algorithm', 'fingerprint', 'payload', 'created', 'expires', 'level', 'amount'):
            if hasattr(v, attr):
                put(attr, attempt(getattr, v, attr))
    c = copy.copy(sps)
    put(bytes(c.__hashbytearray__()), bytes(c.__bytearray__()))
    # touching the hashed area falls back to re-encoding the parsed objects
    c.addnew('Revocable', hashed=True, bflag=True)
    put(bytes(c.__hashbytearray__()), bytes(c.__bytearray__()), bytes(sps.__hashbytearray__()))
    c2 = copy.copy(sps)
    c2.addnew('Issuer', hashed=False, issuer=bytearray(b'\x01' * 8))
    put(bytes(c2.__hashbytearray__()), bytes(c2.__bytearray__()))

# truncated / inconsistent areas
for wire in (b'', b'\x00', b'\x00\x00', b'\x00\x00\x00\x00', b'\x00\x05\x05\x02\x00\x00', b'\x00\x02\x05\x02\x50\x00\x00\x00\x00\x00',
             b'\x00\x06\x05\x02\x50\x00\x00\x00', b'\x00\x01\x00\x00\x00', b'\x00\x03\x02\x04\x01\x00\x00'):
    sps = SubPackets()
    buf = bytearray(wire)
    put(attempt(sps.parse, buf), bytes(buf), attempt(lambda: bytes(sps.__bytearray__())))

# freshly built (never parsed) areas
sps = SubPackets()
put(bytes(sps.__hashbytearray__()), bytes(sps.__bytearray__()))
sps.addnew('CreationTime', hashed=True, created=datetime(2020, 1, 2, 3, 4, 5, tzinfo=timezone.utc))
sps.addnew('KeyFlags', hashed=True, flags={pgpy.constants.KeyFlags.Sign, pgpy.constants.KeyFlags.Certify})
sps.addnew('Policy', hashed=True, uri='https://example.org/ü')
sps.addnew('NotationData', hashed=True, flags=[pgpy.constants.NotationDataFlags.HumanReadable], name='a@b', value='v€')
sps.addnew('Issuer', issuer=bytearray(b'\x11' * 8))
put(bytes(sps.__hashbytearray__()), bytes(sps.__unhashbytearray__()), bytes(sps.__bytearray__()),
    bytes(copy.copy(sps).__bytearray__()))

# ---- 4. subpacket header codec
for length in (1, 2, 100, 191, 192, 193, 255, 256, 1000, 8383, 8384, 65535, 70000):
    for t in (0, 2, 27, 100, 127, 0x80, 0x82, 0xff):
        h = SPHeader()
        h.length = length
        h.typeid = bytearray([t])
        b = bytes(h.__bytearray__())
        put(b, h.typeid, h.critical, len(h), h.llen if hasattr(h, 'llen') else None)
        h2 = SPHeader()
        buf = bytearray(b + b'rest')
        put(attempt(h2.parse, buf), bytes(buf), h2.length, h2.typeid, h2.critical, bytes(h2.__bytearray__()))
for raw in (b'\xff\x00\x00\x00\x05\x82abcd', b'\xc0\x00\x10', b'\x05', b'', b'\xe1\x02'):
    h = SPHeader()
    buf = bytearray(raw)
    put(attempt(h.parse, buf), bytes(buf), attempt(lambda: bytes(h.__bytearray__())))
h = SPHeader()
put(attempt(setattr, h, 'typeid', 300), h.typeid, attempt(setattr, h, 'critical', 1), h.critical,
    attempt(setattr, h, 'typeid', 'x'))

# ---- 5. text decoding helper used by the URI / notation / regex / reason / signer-id setters
for raw in (b'', b'plain', 'grüß'.encode('utf-8'), b'\xff\xfe', b'\xc3\x28', b'\xe2\x82', bytes(range(256))):
    put(attempt(SPSignature._decode_text, bytearray(raw)), attempt(SPSignature._decode_text, raw))
put(attempt(SPSignature._decode_text, 'already text'), attempt(SPSignature._decode_text, None))

# ---- 6. a new signature with fixed inputs (RSA PKCS#1 v1.5 is deterministic)
sec = pgpy.PGPKey.from_file('tests/testdata/keys/rsa.1.sec.asc')[0]
when = datetime(2021, 5, 6, 7, 8, 9, tzinfo=timezone.utc)
for subject in ('hello world', b'\x00\x01binary\xff', ''):
    sig = attempt(sec.sign, subject, created=when, notation={'n@example.org': 'välue'},
                  policy_uri='https://example.org/policy', revocable=False)
    if isinstance(sig, tuple):
        put(sig)
        continue
    put(bytes(sig), sig.hashdata(subject), bytes(sig._signature.subpackets.__hashbytearray__()),
        bool(sec.pubkey.verify(subject, sig)))
    again = pgpy.PGPSignature.from_blob(bytes(sig))
    put(bytes(again), again.hashdata(subject), bool(sec.pubkey.verify(subject, again)),
        bytes(again._signature.subpackets.__hashbytearray__()))
uid = sec.userids[0]
csig = attempt(sec.certify, uid, created=when, trust=(1, 60), regex='<[^>]+@example\\.com>$', exportable=False)
if isinstance(csig, tuple):
    put(csig)
else:
    put(bytes(csig), csig.hashdata(uid), bool(sec.pubkey.verify(uid, csig)))

print('items', N[0])
print('digest', H.hexdigest())
