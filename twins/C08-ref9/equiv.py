"""Behavioural digest for the C08 (packet codec round-trip) refactorings.

Run as:  cd <tree> && /venv/bin/python equiv.py
Prints one sha256 digest (and a few counters); it must be identical on the
unchanged and on the refactored tree.  Only fixed inputs are used.
"""
import glob
import hashlib
import os
import sys
import warnings

sys.path.insert(0, os.getcwd())
warnings.simplefilter('ignore')

import pgpy  # noqa: E402
from pgpy.packet import Packet  # noqa: E402
from pgpy.packet.fields import String2Key  # noqa: E402
from pgpy.packet.types import Header, VersionedHeader  # noqa: E402
from pgpy.packet.subpackets import Signature as SignatureSP  # noqa: E402
from pgpy.packet.subpackets import UserAttribute as UserAttributeSP  # noqa: E402
from pgpy.types import Armorable  # noqa: E402
from pgpy.types import Header as BaseHeader  # noqa: E402

out = []
counts = {'ok': 0, 'err': 0}


def rec(*items):
    out.append('|'.join(str(i) for i in items))


def describe(p):
    d = [type(p).__name__, p.header.tag if hasattr(p.header, 'tag') else p.header.typeid, p.header.length, len(p.header),
         getattr(p.header, '_lenfmt', None), getattr(p.header, '_llen', None), p.header.llen,
         getattr(p.header, 'version', None)]
    return d


def attempt(label, fn, *args):
    try:
        r = fn(*args)
        counts['ok'] += 1
        rec(label, 'OK', r)
        return r
    except Exception as ex:  # the type and the message are both observable
        counts['err'] += 1
        rec(label, 'EXC', type(ex).__name__, str(ex), type(ex.__cause__).__name__, str(ex.__cause__))
        return None


def roundtrip(label, raw, cls=Packet, trail=b'\xde\xad\xbe\xef'):
    def _go():
        data = bytearray(raw) + bytearray(trail)
        p = cls(data)
        b1 = bytes(p)
        res = describe(p) + [b1.hex(), bytes(data).hex()]
        # second pass: own output must be a fixed point
        data2 = bytearray(b1) + bytearray(trail)
        p2 = cls(data2)
        res += describe(p2) + [bytes(p2) == b1, bytes(data2).hex()]
        # recompute the length after the fact
        p2.update_hlen()
        res += describe(p2) + [bytes(p2).hex()]
        return res
    return attempt(label, _go)


# 1. every fixture packet, with trailing data
for fn in sorted(glob.glob('tests/testdata/packets/*')):
    with open(fn, 'rb') as f:
        raw = f.read()
    roundtrip('pkt:' + os.path.basename(fn), raw)
    # truncated variants exercise the error paths (type and message)
    for cut in (0, 1, 2, 3, 5, 9, len(raw) // 2, len(raw) - 1):
        roundtrip('pkt-cut%d:%s' % (cut, os.path.basename(fn)), raw[:cut], trail=b'')

# 2. all packets of every fixture key / message / signature, parsed sequentially
for pattern in ('tests/testdata/keys/*.asc', 'tests/testdata/messages/*.asc', 'tests/testdata/signatures/*.asc',
                'tests/testdata/blocks/*.asc', 'tests/testdata/*.asc'):
    for fn in sorted(glob.glob(pattern)):
        def _seq(fn=fn):
            with open(fn, 'rb') as f:
                un = Armorable.ascii_unarmor(f.read())
            data = bytearray(un['body'])
            res = []
            while data:
                before = len(data)
                p = Packet(data)
                b = bytes(p)
                res.append((type(p).__name__, before - len(data), len(p), hashlib.sha256(b).hexdigest()[:16]))
                p.update_hlen()
                res.append((p.header.length, hashlib.sha256(bytes(p)).hexdigest()[:16]))
            return res
        attempt('seq:' + fn, _seq)

# 3. synthetic headers: unknown / known tags x every length encoding x several body sizes
def new_hdr(tag, n, form):
    first = bytes([0xC0 | tag])
    if form == 1:
        return first + bytes([n])
    if form == 2:
        v = n - 192
        return first + bytes([192 + (v >> 8), v & 0xFF])
    return first + b'\xff' + n.to_bytes(4, 'big')


def old_hdr(tag, n, lt):
    first = bytes([0x80 | (tag << 2) | lt])
    if lt == 3:
        return first
    return first + n.to_bytes({0: 1, 1: 2, 2: 4}[lt], 'big')


def body(n):
    return bytes((i * 7 + 3) & 0xFF for i in range(n))


for tag in (0, 10, 13, 15, 16, 20, 60, 63):
    for n in (0, 1, 3, 191, 192, 193, 255, 256, 8383, 8384, 70000):
        for form in (1, 2, 5):
            if form == 1 and n > 191:
                continue
            if form == 2 and not (192 <= n <= 8383):
                continue
            roundtrip('new:%d:%d:%d' % (tag, n, form), new_hdr(tag, n, form) + body(n))
        if tag < 16:
            for lt in (0, 1, 2, 3):
                if lt == 0 and n > 255:
                    continue
                if lt == 1 and n > 65535:
                    continue
                roundtrip('old:%d:%d:%d' % (tag, n, lt), old_hdr(tag, n, lt) + body(n), trail=b'' if lt == 3 else b'\x01\x02')

# partial body lengths (new format only)
for tag in (11, 60):
    lit = b'b\x03abc\x00\x00\x00\x01'
    for chunks in ((512, 5), (1, 1, 0), (2, 4, 8, 200), (1024, 8384), (512, 512, 70000)):
        payload = lit + body(sum(chunks) - len(lit)) if sum(chunks) >= len(lit) else body(sum(chunks))
        raw = bytearray([0xC0 | tag])
        off = 0
        for c in chunks[:-1]:
            raw.append(224 + c.bit_length() - 1)
            raw += payload[off:off + c]
            off += c
        last = chunks[-1]
        raw += BaseHeader.encode_length(last)
        raw += payload[off:off + last]
        roundtrip('partial:%d:%s' % (tag, chunks), bytes(raw))

# malformed / empty input
for raw in (b'', b'\xc0', b'\xcd', b'\xcd\x05ab', b'\xff\xff', b'\xcb\xff\x00\x00', b'\xc2\x04\x04\x00', b'\x88', b'\x89\x00',
            b'\xc6\x01\x04', b'\xc6\x01\x63', b'\xc2\x01\x07', b'\xd1\x03\x02\x01\x00', b'\xc8\x01\x09', b'\xc3\x04\x04\x09\x03\x02'):
    roundtrip('bad:' + raw.hex(), raw, trail=b'')

# 4. length codec directly
for n in (0, 1, 100, 191, 192, 193, 1000, 8383, 8384, 65535, 65536, 2 ** 32 - 1):
    attempt('enc-new:%d' % n, lambda n=n: bytes(BaseHeader.encode_length(n)).hex())
    for ll in (0, 1, 2, 4):
        attempt('enc-old:%d:%d' % (n, ll), lambda n=n, ll=ll: bytes(BaseHeader.encode_length(n, False, ll)).hex())


def hdr_rt(raw, hcls=Header):
    data = bytearray(raw)
    h = hcls()
    h.parse(data)
    res = [h.tag, h.length, h.llen, len(h), h._lenfmt, h._llen, bytes(h.__bytearray__()).hex(), bytes(data).hex()]
    # grow and shrink the body afterwards: the header has to follow
    for newlen in (0, 255, 256, 65535, 65536, 191, 192, 8384):
        h.length = newlen
        res += [h.llen, len(h), bytes(h.__bytearray__()).hex()]
    return res


for first in range(0x80, 0x100, 3):
    for rest in (b'', b'\x00', b'\x05hello', b'\xbf', b'\xc0\x00', b'\xdf\xff', b'\xe0a\x00', b'\xe1ab\xe0c\x02de', b'\xff\x00\x00\x01\x00',
                 b'\xff\x00', b'\xe3abcdefgh'):
        attempt('hdr:%02x:%s' % (first, rest.hex()), hdr_rt, bytes([first]) + rest)
for rest in (b'\x04rest', b'', b'\x00'):
    attempt('vhdr:%s' % rest.hex(), lambda rest=rest: (lambda d, h: (h.parse(d), h.tag, h.version, h.length, bytes(h.__bytearray__()).hex(), bytes(d).hex())[1:])(bytearray(b'\xc2\x0a' + rest), VersionedHeader()))

# 5. S2K specifier codec
def s2k_rt(raw, iv=True):
    data = bytearray(raw)
    s = String2Key()
    s.parse(data, iv) if iv is not None else s.parse(data)
    return [s.usage, int(s.encalg), int(s.specifier), int(s.halg), bytes(s.salt).hex(), s.count, None if s.iv is None else bytes(s.iv).hex(),
            s.gnuext, None if s.scserial is None else bytes(s.scserial).hex(), bool(s), len(s), bytes(s.__bytearray__()).hex(), bytes(data).hex()]


salt = bytes(range(8))
ivs = bytes(range(16, 48))
for usage in (0, 1, 7, 9, 253, 254, 255):
    for enc in (2, 3, 7, 9, 10):
        for spec, extra in ((0, b'\x02'), (1, b'\x08' + salt), (3, b'\x0a' + salt + b'\x60'), (3, b'\x02' + salt + b'\xff'),
                            (101, b'\x00GNU\x01'), (101, b'\x00GNU\x02\x04abcdXY'), (101, b'\x00GNU\x02\x14' + ivs), (101, b'\x00GNX\x01'),
                            (2, b'\x02'), (3, b'\x02' + salt[:3])):
            raw = bytes([usage, enc, spec]) + extra + ivs
            for iv in (True, False, None):
                attempt('s2k:%d:%d:%d:%s:%s' % (usage, enc, spec, extra.hex(), iv), s2k_rt, raw, iv)
for raw in (b'', b'\xfe', b'\xfe\x09', b'\xff\x09\x03', b'\xfe\x09\x03\x08', b'\xfe\x63\x03\x08'):
    attempt('s2k-short:' + raw.hex(), s2k_rt, raw)

# 6. keys: whole-object serialisation, plus unprotecting a fixture key and re-serialising its packets
for fn in sorted(glob.glob('tests/testdata/keys/*.asc')):
    def _key(fn=fn):
        k, _ = pgpy.PGPKey.from_file(fn)
        res = [hashlib.sha256(bytes(k)).hexdigest(), k.is_protected]
        res.append(hashlib.sha256(bytes(k._key)).hexdigest())
        res.append([(n, len(getattr(k._key.keymaterial, n, b'') or b'')) for n in ('encbytes', 'chksum')])
        for sk in k.subkeys.values():
            res.append(hashlib.sha256(bytes(sk._key)).hexdigest())
            res.append(len(sk._key.keymaterial))
        res.append(len(k._key.keymaterial))
        if k.is_protected:
            with k.unlock('QwertyUiop'):
                res.append(hashlib.sha256(bytes(k._key)).hexdigest())
                res.append([int(x) if isinstance(x, int) else repr(x)[:40] for x in k._key.keymaterial][:3])
        if not k.is_public:
            res.append(hashlib.sha256(bytes(k.pubkey)).hexdigest())
        return res
    attempt('key:' + fn, _key)

# 7. dispatch without data, and the subpacket roots
for cls in (Packet, SignatureSP, UserAttributeSP, pgpy.packet.packets.PubKeyV4, pgpy.packet.packets.UserID, pgpy.packet.packets.LiteralData,
            pgpy.packet.packets.Trust, pgpy.packet.types.Opaque):
    attempt('new:' + cls.__name__, lambda cls=cls: (lambda o: (type(o).__name__, type(o.header).__name__, bytes(o.header.__bytearray__()).hex()))(cls()))
for raw in (b'\x05\x02\x00\x00\x00\x01XX', b'\x02\x87\x01', b'\x03\x65ab', b'\x09\x10' + bytes(8), b'\x16\x21\x04' + bytes(20), b'\x16\x21\x05' + bytes(20),
            b'\x06\x21\x04abcd', b'\xc0\x01\x64' + bytes(190), b'\xff\x00\x00\x00\x03\x1ba', b'', b'\x00', b'\x01', b'\x05\x02\x00'):
    roundtrip('sigsp:' + raw.hex(), raw, cls=SignatureSP, trail=b'ZZ')
for raw in (b'\x13\x01\x10\x00\x01\x01' + bytes(12) + b'JP', b'\x03\x07ab', b'\x13\x01\x10\x00\x02\x05' + bytes(12) + b'JP', b'\x05\x01\x10\x00\x01'):
    roundtrip('uasp:' + raw.hex(), raw, cls=UserAttributeSP, trail=b'ZZ')

blob = '\n'.join(out).encode('utf-8', 'backslashreplace')
print('records=%d ok=%d err=%d' % (len(out), counts['ok'], counts['err']))
print(hashlib.sha256(blob).hexdigest())
if os.environ.get('EQUIV_DUMP'):
    with open(os.environ['EQUIV_DUMP'], 'wb') as f:
        f.write(blob)
