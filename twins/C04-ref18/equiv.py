"""equiv.py (C04 / ref2) - IntegrityProtectedSKEDataV1 (__init__/__bytearray__/parse/encrypt) and the MDC packet.

run as:  cd <tree> && /venv/bin/python equiv.py
prints one digest of all observable outputs; must be identical on the unchanged and on the refactored tree.
os.urandom is replaced by a deterministic counter stream so that prefix / salt / session keys (and therefore the
ciphertexts of passphrase encryption) are reproducible.
"""
import copy
import glob
import hashlib
import itertools
import os
import pickle
import sys
import warnings

sys.path.insert(0, os.getcwd())

_ctr = itertools.count()


def _fake_urandom(n):
    return hashlib.sha512(b'seed %d' % next(_ctr)).digest()[:n] if n <= 64 else bytes(n)


os.urandom = _fake_urandom

import pgpy  # noqa: E402
from pgpy import PGPKey, PGPMessage  # noqa: E402
from pgpy.constants import CompressionAlgorithm, HashAlgorithm, SymmetricKeyAlgorithm  # noqa: E402
from pgpy.packet import Packet  # noqa: E402
from pgpy.packet.packets import IntegrityProtectedSKEDataV1, MDC  # noqa: E402

warnings.simplefilter('ignore')
out = []


def rec(tag, fn):
    try:
        r = fn()
        if isinstance(r, (bytes, bytearray)):
            r = type(r).__name__ + ':' + bytes(r).hex()
        out.append('{}: OK {!r}'.format(tag, r))
    except BaseException as e:  # noqa
        out.append('{}: EXC {} {}'.format(tag, type(e).__name__, e))


# 1. the packet on its own: deterministic prefix, every cipher, several plaintext types / sizes
key32 = bytes(range(32))
for alg in SymmetricKeyAlgorithm:
    for data in (b'', b'x', b'hello world' * 100, bytearray(b'mutable'), memoryview(b'view'), 'text', None):
        pkt = IntegrityProtectedSKEDataV1()

        def enc():
            pkt.encrypt(key32[:alg.key_size // 8], alg, data)
            return pkt.__bytearray__()
        rec('seipd enc {} {!r}'.format(int(alg), type(data).__name__), enc)
        rec('seipd len', lambda: (len(pkt), pkt.header.length, type(pkt.ct).__name__, bytes(pkt.__bytes__()).hex()))
        rec('seipd dec', lambda: pkt.decrypt(key32[:alg.key_size // 8], alg))
        rec('seipd copy', lambda: (bytes(copy.copy(pkt).ct).hex(), copy.copy(pkt).header.length))
        rec('seipd reparse', lambda: Packet(pkt.__bytearray__()).__bytearray__())

# odd ct values
for ct in (b'bytes', bytearray(b'ba'), memoryview(b'mv'), 'str', [1, 2], None):
    pkt = IntegrityProtectedSKEDataV1()
    pkt.ct = ct
    rec('ct {!r}'.format(type(ct).__name__), lambda: pkt.__bytearray__())
    rec('ct copy {!r}'.format(type(ct).__name__), lambda: type(copy.copy(pkt).ct).__name__)

# 2. MDC packet
m = MDC()
rec('mdc empty', lambda: m.__bytearray__())
m.mdc = hashlib.sha1(b'abc').hexdigest()
m.update_hlen()
rec('mdc str', lambda: (m.__bytearray__(), len(m), m.header.length))
m.mdc = hashlib.sha1(b'abc').hexdigest().encode()
rec('mdc bytes', lambda: m.__bytearray__())
m.mdc = 'zz'
rec('mdc bad', lambda: m.__bytearray__())
for raw in (b'\xd3\x14' + bytes(range(20)), b'\xd3\x14' + bytes(range(20)) + b'trailing', b'\xd3\x14' + bytes(5), b'\xd3\x05' + bytes(5)):
    buf = bytearray(raw)

    def parse():
        p = Packet(buf)
        return (type(p).__name__, getattr(p, 'mdc', None), p.header.length, bytes(buf).hex(), bytes(p.__bytearray__()).hex())
    rec('mdc parse {}'.format(raw.hex()), parse)
rec('mdc pickle', lambda: pickle.loads(pickle.dumps(m)).mdc)

# 3. whole messages: passphrase encryption is fully deterministic with the fake urandom
for comp in (CompressionAlgorithm.Uncompressed, CompressionAlgorithm.ZIP):
    for cipher in (SymmetricKeyAlgorithm.AES256, SymmetricKeyAlgorithm.CAST5, SymmetricKeyAlgorithm.TripleDES,
                   SymmetricKeyAlgorithm.Camellia128, SymmetricKeyAlgorithm.IDEA, SymmetricKeyAlgorithm.Twofish256):
        msg = PGPMessage.new('The quick brown fox jumps over the lazy dog', compression=comp)
        msg._message.mtime = 1577836800  # fixed literal-data timestamp
        res = {}

        def enc():
            res['e'] = msg.encrypt('QwertyUiop', cipher=cipher, hash=HashAlgorithm.SHA256)
            return bytes(res['e'])
        rec('msg enc {} {}'.format(int(comp), int(cipher)), enc)
        if 'e' in res:
            rec('msg str', lambda: str(res['e']))
            rec('msg dec', lambda: bytes(res['e'].decrypt('QwertyUiop')))
            rec('msg dec wrong', lambda: bytes(res['e'].decrypt('qwertyUiop')))
            rec('msg copy', lambda: bytes(copy.copy(res['e'])))
            rec('msg reparse', lambda: bytes(PGPMessage.from_blob(bytes(res['e']))))

# 4. tampering with one small message: every single-bit flip of the encrypted body, every truncation
msg = PGPMessage.new('tamper me', compression=CompressionAlgorithm.Uncompressed)
msg._message.mtime = 1577836800
enc = msg.encrypt('pw', cipher=SymmetricKeyAlgorithm.AES128)
body = bytes(enc._message.ct)
for bit in range(len(body) * 8):
    mut = bytearray(body)
    mut[bit // 8] ^= 1 << (bit % 8)
    e2 = copy.copy(enc)
    e2._message.ct = mut
    rec('flip {}'.format(bit), lambda: bytes(e2.decrypt('pw')))
for cut in range(len(body) + 1):
    e2 = copy.copy(enc)
    e2._message.ct = bytearray(body[:cut])
    rec('trunc {}'.format(cut), lambda: bytes(e2.decrypt('pw')))

# 5. fixture messages encrypted to keys / passphrases still decrypt to the same plaintext
rsa, _ = PGPKey.from_file('tests/testdata/keys/rsa.1.sec.asc')
ecc, _ = PGPKey.from_file('tests/testdata/keys/ecc.1.sec.asc')
ecc2, _ = PGPKey.from_file('tests/testdata/keys/ecc.2.sec.asc')
for fn in sorted(glob.glob('tests/testdata/messages/message*.asc')):
    em = PGPMessage.from_file(fn)
    rec('fx bytes ' + os.path.basename(fn), lambda: bytes(em))
    if em.is_encrypted:
        rec('fx rsa ' + os.path.basename(fn), lambda: bytes(rsa.decrypt(em)))
        rec('fx ecc ' + os.path.basename(fn), lambda: bytes(ecc.decrypt(em)))
        rec('fx ecc2 ' + os.path.basename(fn), lambda: bytes(ecc2.decrypt(em)))
        rec('fx pw ' + os.path.basename(fn), lambda: bytes(em.decrypt('QwertyUiop')))

print(len(out), hashlib.sha256('\n'.join(out).encode('utf-8')).hexdigest())
