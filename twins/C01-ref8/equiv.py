import glob
import hashlib
import os
import sys
import warnings
from datetime import datetime, timezone

sys.path.insert(0, os.getcwd())
warnings.simplefilter('ignore')

import pgpy  # noqa: E402
from pgpy import PGPKey, PGPMessage, PGPSignature  # noqa: E402
from pgpy.constants import HashAlgorithm, SignatureType  # noqa: E402
from pgpy.packet.packets import SignatureV4  # noqa: E402

out = []


def rec(*items):
    out.append(repr(items))


def sigid(sig):
    # type, issuer, hash algorithm and the leading signature octets (not the packet header: an unhashed embedded
    # cross-signature made "now" may change the packet length)
    return (sig.type.name, sig.signer, sig.hash_algorithm.name, bytes(sig.__sig__).hex()[:24])


def describe(sigv):
    return (bool(sigv), len(sigv),
            [(int(s.issues), s.by.fingerprint, sigid(s.signature), type(s.subject).__name__)
             for s in sigv._subjects],
            [sigid(s.signature) for s in sigv.good_signatures],
            [sigid(s.signature) for s in sigv.bad_signatures],
            repr(sigv))


def attempt(label, fn):
    try:
        rec(label, 'ok', fn())
    except Exception as e:  # record type and message
        rec(label, 'exc', type(e).__name__, str(e))


def allsigs(key):
    yield from ((s, key) for s in key.__sig__)
    for uid in list(key.userids) + list(key.userattributes):
        yield from ((s, uid) for s in uid.__sig__)
    for sk in key.subkeys.values():
        yield from ((s, sk) for s in sk.__sig__)


td = 'tests/testdata/'
keys = {}
for path in sorted(glob.glob(td + 'keys/*.pub.asc') + glob.glob(td + 'signatures/*.key.asc') + [td + 'pubtest.asc']):
    key, _ = PGPKey.from_file(path)
    keys[path] = key
    # the hashed octets of every signature carried by the key
    for sig, subj in allsigs(key):
        attempt(('hashdata', path, sig.type.name), lambda: hashlib.sha256(sig.hashdata(subj)).hexdigest())
        # parse round trip of the signature packet
        attempt(('reparse', path), lambda: bytes(PGPSignature.from_blob(bytes(sig))).hex()[-32:])
        # wrong subject for this signature type
        attempt(('hashdata-wrong-subject', path, sig.type.name), lambda: hashlib.sha256(sig.hashdata(b'abc')).hexdigest())
    # self verification, certifications carried inside keys
    attempt(('selfverify', path), lambda: describe(key.verify(key)))
    for uid in key.userids:
        attempt(('uidverify', path, uid.name), lambda: describe(key.verify(uid)))

# cross verification: every key against every other key (mostly "No signatures to verify")
names = sorted(keys)
for a in names[:6]:
    for b in names[:6]:
        if a != b:
            attempt(('cross', a, b), lambda: describe(keys[a].verify(keys[b])))

# detached signatures, good and tampered
for stem in ('aptapproval-test', 'debian-sid', 'ubuntu-precise'):
    key = keys[td + 'signatures/%s.key.asc' % stem]
    sig = PGPSignature.from_file(td + 'signatures/%s.sig.asc' % stem)
    with open(td + 'signatures/%s.subj' % stem, 'rb') as f:
        subj = f.read()
    attempt(('detached', stem), lambda: describe(key.verify(subj, sig)))
    attempt(('detached-tampered', stem), lambda: describe(key.verify(subj + b'x', sig)))
    attempt(('detached-str', stem), lambda: describe(key.verify(subj.decode('latin-1'), sig)))
    attempt(('detached-bytearray', stem), lambda: describe(key.verify(bytearray(subj), sig)))
    attempt(('detached-wrongkey', stem), lambda: describe(keys[td + 'keys/rsa.1.pub.asc'].verify(subj, sig)))
    for other in (SignatureType.CanonicalDocument, SignatureType.Standalone, SignatureType.Timestamp):
        sig2 = PGPSignature.from_blob(bytes(sig))
        sig2._signature.sigtype = other
        attempt(('detached-type', stem, other.name), lambda: describe(key.verify(subj, sig2)))
    sig3 = PGPSignature.from_blob(bytes(sig))
    sig3._signature.halg = HashAlgorithm.SHA224
    attempt(('detached-halg', stem), lambda: describe(key.verify(subj, sig3)))
    attempt(('bad-subject-type', stem), lambda: key.verify(12, sig))
    attempt(('bad-signature-type', stem), lambda: key.verify(subj, 12))
    attempt(('none-subject', stem), lambda: describe(key.verify(None, sig)))

# signatures carried inside messages
msgkeys = [keys[k] for k in names]
for path in sorted(glob.glob(td + 'messages/*signed*.asc')):
    msg = PGPMessage.from_file(path)
    for n, key in zip(names, msgkeys):
        attempt(('message', path, n), lambda: describe(key.verify(msg)))

# a fresh (deterministic: RSA PKCS#1 v1.5, fixed creation time) signature: exercises the update_hlen path
sec, _ = PGPKey.from_file(td + 'keys/rsa.1.sec.asc')
when = datetime(2020, 1, 2, 3, 4, 5, tzinfo=timezone.utc)
for text in ('hello\nworld\n', 'café ☃', ''):
    for kw in ({}, {'inline': True}, {'hash': HashAlgorithm.SHA512}):
        def signit():
            sig = sec.sign(text, created=when, **kw)
            return (bytes(sig).hex(), describe(sec.pubkey.verify(text, sig)),
                    describe(sec.pubkey.verify(text + '!', sig)))
        attempt(('sign', text, sorted(kw)), signit)

# the other signature types, made with the RSA fixture key at a fixed time (deterministic octets)
pub = sec.pubkey
other, _ = PGPKey.from_file(td + 'keys/dsa.1.pub.asc')


def guarded(fn):
    try:
        return fn()
    except Exception as e:
        return ('exc', type(e).__name__, str(e))


def sv(sig, good, bad):
    return (sig.type.name, bytes(sig).hex()[-48:],
            guarded(lambda: hashlib.sha256(sig.hashdata(good)).hexdigest()),
            guarded(lambda: hashlib.sha256(sig.hashdata(bad)).hexdigest()),
            guarded(lambda: describe(pub.verify(good, sig))),
            guarded(lambda: describe(pub.verify(bad, sig))))


uid = sec.userids[0]
ouid = other.userids[0]
for level in (SignatureType.Generic_Cert, SignatureType.Persona_Cert, SignatureType.Casual_Cert, SignatureType.Positive_Cert):
    attempt(('certify', level.name), lambda: sv(sec.certify(ouid, level=level, created=when), ouid, other.userids[-1] if len(other.userids) > 1 else uid))
attempt(('certify-own', ), lambda: sv(sec.certify(uid, created=when), uid, ouid))
attempt(('certrevoke', ), lambda: sv(sec.revoke(uid, created=when), uid, ouid))
attempt(('keyrevoke', ), lambda: sv(sec.revoke(sec, created=when), pub, other))
attempt(('directkey', ), lambda: sv(sec.certify(other, created=when), other, pub))
for skid, sk in sec.subkeys.items():
    attempt(('subkeyrevoke', skid), lambda: sv(sec.revoke(sk, created=when), sk, sec))
    attempt(('bind', skid), lambda: sv(sec.bind(sk, created=when), sk, sec))
attempt(('timestamp', ), lambda: sv(sec.sign(None, created=when), None, b'x'))
# truncated / corrupted signature packets
blob = bytes(PGPSignature.from_file(td + 'signatures/debian-sid.sig.asc'))
for cut in (3, 4, 5, 6, 7, 10, 30, len(blob) - 1):
    attempt(('truncated', cut), lambda: bytes(PGPSignature.from_blob(blob[:cut])).hex())
for pos in (3, 4, 5, 6):
    for val in (0x00, 0x63, 0xff):
        b2 = bytearray(blob)
        b2[pos] = val
        attempt(('corrupt', pos, val), lambda: bytes(PGPSignature.from_blob(bytes(b2))).hex()[:64])

print(len(out), hashlib.sha256('\n'.join(out).encode('utf-8', 'replace')).hexdigest())
if '-v' in sys.argv:
    print('\n'.join(out))
