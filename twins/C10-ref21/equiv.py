"""C10 probe: ASCII armor is a faithful, checksummed, correctly labelled envelope.

Run as:  cd <tree> && PYTHONHASHSEED=0 /venv/bin/python equiv.py
Prints a deterministic transcript; must be byte-identical before and after the patch.
"""
import binascii
import glob
import hashlib
import os
import re
import sys
import tempfile
import time
import warnings

sys.path.insert(0, os.getcwd())

import pgpy
from pgpy import PGPKey, PGPMessage, PGPSignature
from pgpy.errors import PGPError
from pgpy.types import Armorable

assert os.path.dirname(os.path.dirname(os.path.abspath(pgpy.__file__))) == os.getcwd(), pgpy.__file__

OUT = []


T0 = time.time()


def say(*a):
    line = ' '.join(str(x) for x in a)
    if line.startswith('=='):
        sys.stderr.write('[%.1fs] %s\n' % (time.time() - T0, line[:40]))
    OUT.append(line)
    print(line)


# ---------------------------------------------------------------- reference implementations
def ref_crc24(octets):
    reg = 0xB704CE
    for o in bytes(octets):
        for bit in range(7, -1, -1):
            top = (reg >> 23) & 1
            reg = ((reg << 1) & 0xFFFFFF)
            if top ^ ((o >> bit) & 1):
                reg ^= 0x864CFB
    return reg


def ref_dearmor(text):
    """independent RFC 4880 section 6 decoder of the *last* armor block in text"""
    lines = text.replace('\r\n', '\n').split('\n')
    begins = [i for i, l in enumerate(lines) if l.startswith('-----BEGIN PGP ') and l.endswith('-----')
              and l != '-----BEGIN PGP SIGNED MESSAGE-----']
    b = begins[-1]
    label = lines[b][len('-----BEGIN PGP '):-5]
    i = b + 1
    headers = []
    while lines[i] != '':
        k, _, v = lines[i].partition(': ')
        headers.append((k, v))
        i += 1
    i += 1
    body = []
    while not lines[i].startswith('=') or len(lines[i]) != 5:
        body.append(lines[i])
        i += 1
    crcline = lines[i]
    tail = lines[i + 1]
    assert tail == '-----END PGP ' + label + '-----', tail
    payload = binascii.a2b_base64(''.join(body))
    crc = int.from_bytes(binascii.a2b_base64(crcline[1:]), 'big')
    return {'label': label, 'headers': headers, 'payload': payload, 'crc': crc,
            'maxline': max(len(l) for l in lines), 'bodylines': body}


def det_bytes(n, seed):
    out = bytearray()
    c = 0
    while len(out) < n:
        out += hashlib.sha256(b'%d/%d' % (seed, c)).digest()
        c += 1
    return bytes(out[:n])


def outcome(fn):
    """run fn, return (tag, warnings list, value)"""
    with warnings.catch_warnings(record=True) as ws:
        warnings.simplefilter('always')
        try:
            v = fn()
            tag = 'ok'
        except Exception as e:  # noqa
            v = None
            tag = type(e).__name__
    # object addresses in reprs are the only run-dependent text; blank them
    return tag, [re.sub(r'0x[0-9A-Fa-f]+', '0x?', '%s:%s@%s' % (w.category.__name__, w.message, os.path.basename(w.filename)))
                 for w in ws], v


def digest(items):
    h = hashlib.sha256()
    for it in items:
        h.update(repr(it).encode('utf-8'))
        h.update(b'\n')
    return h.hexdigest()


# ---------------------------------------------------------------- 1. crc24 against the reference
say('== crc24')
facts = []
for n in list(range(0, 130)) + [191, 192, 193, 1000, 4096]:
    for kind, data in (('zero', bytes(n)), ('ff', b'\xff' * n), ('rnd', det_bytes(n, 1))):
        a = Armorable.crc24(bytearray(data))
        b = Armorable.crc24(data)
        r = ref_crc24(data)
        facts.append((n, kind, a, b, r, a == b == r))
say('crc24 cases', len(facts), 'all_equal_ref', all(f[-1] for f in facts), digest(facts))
say('crc24 rfc-init-only', hex(Armorable.crc24(b'')), 'abc', hex(Armorable.crc24(b'abc')),
    'list-input', hex(Armorable.crc24([1, 2, 3])))
say('crc24 str-input', outcome(lambda: Armorable.crc24('abc'))[0])


# ---------------------------------------------------------------- 2. generic Armorable with arbitrary payloads
class Blob(Armorable):
    def __init__(self, payload=b'', label='MESSAGE'):
        super().__init__()
        self.payload = bytes(payload)
        self.label = label

    @property
    def magic(self):
        return self.label

    def __bytes__(self):
        return self.payload

    def parse(self, data):
        self.payload = bytes(Armorable.ascii_unarmor(data)['body'])


say('== stub payloads')
lengths = list(range(1, 301)) + [383, 384, 385, 767, 768, 769, 1000, 3071, 3072, 3073, 4095, 4096, 4097, 5000]
facts = []
bad = 0
for n in lengths:
    for kind, data in (('zero', bytes(n)), ('ff', b'\xff' * n), ('rnd', det_bytes(n, n))):
        for label in ('MESSAGE', 'PUBLIC KEY BLOCK', 'PRIVATE KEY BLOCK', 'SIGNATURE'):
            if label != 'MESSAGE' and n % 7:
                continue
            blob = Blob(data, label)
            text = str(blob)
            ref = ref_dearmor(text)
            tag, ws, un = outcome(lambda: Armorable.ascii_unarmor(text))
            ok = (ref['payload'] == data and ref['label'] == label and ref['maxline'] <= 76
                  and ref['crc'] == ref_crc24(data) and tag == 'ok' and not ws
                  and bytes(un['body']) == data and un['magic'] == label and un['crc'] == ref['crc']
                  and all(len(l) == 64 for l in ref['bodylines'][:-1]) and 1 <= len(ref['bodylines'][-1]) <= 64
                  and text.endswith('-----END PGP %s-----\n' % label) and Armorable.is_armor(text))
            bad += not ok
            facts.append((n, kind, label, hashlib.sha256(text.encode()).hexdigest(), ok, un['headers'] if un else None))
say('stub cases', len(facts), 'bad', bad, digest(facts))
say('stub sample n=1', repr(str(Blob(b'\x00'))))
say('stub sample n=49', repr(str(Blob(det_bytes(49, 49), 'SIGNATURE'))))
say('stub empty payload', repr(str(Blob(b''))), outcome(lambda: Armorable.ascii_unarmor(str(Blob(b''))))[0])

say('== stub headers')
HEADER_SETS = [
    [],
    [('Version', 'PGPy v0.6.0')],
    [('Comment', 'hello world')],
    [('Version', 'X 1'), ('Comment', 'a: b'), ('Charset', 'utf-8')],
    [('Comment', 'first'), ('MessageID', 'abcDEF0123456789'), ('Hash', 'SHA256')],
    [('Comment', 'trailing space '), ('X-Custom', '1')],
    [('Comment', 'caf\xe9 latin')],
    [('K%d' % i, 'v%d' % i) for i in range(12)],
]
for hs in HEADER_SETS:
    blob = Blob(det_bytes(100, 5))
    for k, v in hs:
        blob.ascii_headers[k] = v
    text = str(blob)
    ref = ref_dearmor(text)
    tag, ws, un = outcome(lambda: Armorable.ascii_unarmor(text))
    say('hdr', len(hs), ref['headers'] == hs, tag, ws, list(un['headers'].items()) if un and un['headers'] else None,
        bytes(un['body']) == blob.payload if un else None, hashlib.sha256(text.encode('utf-8')).hexdigest()[:16])
    for enc in ('crlf', 'bytes', 'bytearray', 'wrapped'):
        t2 = {'crlf': text.replace('\n', '\r\n'), 'bytes': text.encode('latin-1'),
              'bytearray': bytearray(text.encode('latin-1')),
              'wrapped': 'Dear all,\nsee below\n\n' + text + '\nregards\n-- \nme\n'}[enc]
        tag, ws, un = outcome(lambda: Armorable.ascii_unarmor(t2))
        say('  ', enc, tag, ws, list(un['headers'].items()) if un and un['headers'] else None,
            bytes(un['body']) == blob.payload if un else None, un['magic'] if un else None)
blob = Blob(b'xyz')
blob.charset = 'latin1'
say('charset', blob.charset, repr(str(blob)))
c = blob.__copy__()
say('copy headers', list(c.ascii_headers.items()), c.ascii_headers is not blob.ascii_headers)

say('== is_ascii / is_armor / ascii_unarmor edge inputs')
for name, val in (('str-empty', ''), ('bytes-empty', b''), ('str-text', 'hello\n'), ('bytes-bin', b'\x99\x01\x02'),
                  ('bytearray-bin', bytearray(b'\xc0\xff')), ('str-nonascii', 'caf\xe9'), ('int', 5), ('none', None),
                  ('list', [1, 2])):
    say('is_ascii', name, outcome(lambda: Armorable.is_ascii(val))[::2])
    say('is_armor', name, outcome(lambda: Armorable.is_armor(val))[::2])
    t, w, v = outcome(lambda: Armorable.ascii_unarmor(val))
    say('unarmor ', name, t, w, None if v is None else (v['magic'], v['headers'], bytes(v['body']).hex(), v['crc']))
say('malformed b64', outcome(lambda: Armorable.ascii_unarmor(
    '-----BEGIN PGP SOMETHING-----\n\nYXNkZg=\n=ZEO6\n-----END PGP SOMETHING-----\n'))[:2])
say('mismatched tail', outcome(lambda: Armorable.ascii_unarmor(
    '-----BEGIN PGP MESSAGE-----\n\nYXNkZg==\n=ZEO6\n-----END PGP SIGNATURE-----\n'))[:2])
say('no crc line', outcome(lambda: Armorable.ascii_unarmor(
    '-----BEGIN PGP MESSAGE-----\n\nYXNkZg==\n-----END PGP MESSAGE-----\n'))[:2])
say('77-col line', outcome(lambda: Armorable.ascii_unarmor(
    '-----BEGIN PGP MESSAGE-----\n\n' + 'A' * 77 + '\n=AAAA\n-----END PGP MESSAGE-----\n'))[:2])
t, w, v = outcome(lambda: Armorable.ascii_unarmor(
    '-----BEGIN PGP MESSAGE-----\n\n' + 'A' * 76 + '\n=AAAA\n-----END PGP MESSAGE-----\n'))
say('76-col line', t, w, len(v['body']) if v else None)


# ---------------------------------------------------------------- 3. real objects from tests/testdata
def load(cls, path):
    with warnings.catch_warnings():
        warnings.simplefilter('ignore')
        r = cls.from_file(path)
    return r[0] if isinstance(r, tuple) else r


def blob_load(cls, data):
    r = cls.from_blob(data)
    return r[0] if isinstance(r, tuple) else r


def describe(obj):
    if isinstance(obj, PGPKey):
        return ('key', obj.is_public, str(obj.fingerprint), len(obj.subkeys), [u.name for u in obj.userids])
    if isinstance(obj, PGPSignature):
        return ('sig', obj.type.name, obj.signer, obj.hash_algorithm.name)
    return ('msg', obj.type, sorted(obj.signers), sorted(obj.encrypters), len(obj.signatures))


def expected_label(obj):
    if isinstance(obj, PGPKey):
        return 'PUBLIC KEY BLOCK' if obj.is_public else 'PRIVATE KEY BLOCK'
    if isinstance(obj, PGPSignature):
        return 'SIGNATURE'
    return 'SIGNATURE' if obj.type == 'cleartext' else 'MESSAGE'


def classify(path):
    with open(path, 'r', encoding='latin-1') as f:
        head = f.read(400)
    if 'KEY BLOCK' in head:
        return PGPKey
    if 'BEGIN PGP SIGNED MESSAGE' in head or 'BEGIN PGP MESSAGE' in head:
        return PGPMessage
    if 'BEGIN PGP SIGNATURE' in head:
        return PGPSignature
    return None


say('== real objects')
paths = sorted(glob.glob('tests/testdata/keys/*.asc') + glob.glob('tests/testdata/blocks/*.asc')
               + glob.glob('tests/testdata/messages/*.asc') + glob.glob('tests/testdata/signatures/*.asc')
               + glob.glob('tests/testdata/revocations/*.asc') + glob.glob('tests/testdata/*.asc'))
objects = []
for path in paths:
    cls = classify(path)
    if cls is None:
        say('skip', path)
        continue
    tag, ws, obj = outcome(lambda: load(cls, path))
    if tag != 'ok':
        say('load', path, cls.__name__, tag)
        continue
    objects.append((path, cls, obj))
    binary = bytes(obj)
    text = str(obj)
    ref = ref_dearmor(text)
    tag2, ws2, un = outcome(lambda: Armorable.ascii_unarmor(text))
    # reload from armored text in every input flavour and from the binary export
    flavours = {'str': text, 'bytes': text.encode('utf-8'), 'bytearray': bytearray(text.encode('utf-8')),
                'crlf': text.replace('\n', '\r\n'), 'wrapped': 'prefix text\n\n' + text + '\ntrailer\n', 'binary': binary,
                'binary-ba': bytearray(binary)}
    reload_facts = []
    for fl in sorted(flavours):
        if cls is PGPMessage and obj.type == 'cleartext' and fl.startswith('binary'):
            continue
        t3, w3, o3 = outcome(lambda: blob_load(cls, flavours[fl]))
        reload_facts.append((fl, t3, w3, None if o3 is None else (bytes(o3) == binary, describe(o3) == describe(obj),
                                                                  list(o3.ascii_headers.items()) if not fl.startswith('binary') else None,
                                                                  str(o3) == text if not fl.startswith('binary') else None)))
    say(os.path.relpath(path, 'tests/testdata'), cls.__name__, describe(obj))
    say('   label', ref['label'], ref['label'] == expected_label(obj) == obj.magic, 'maxline', ref['maxline'],
        'payload==bytes', ref['payload'] == binary, 'crc', '%06x' % ref['crc'], ref['crc'] == ref_crc24(binary),
        'hdrs', ref['headers'] == list(obj.ascii_headers.items()), ref['headers'])
    say('   unarmor', tag2, ws2, un['magic'], bytes(un['body']) == binary, un['crc'] == ref['crc'],
        'sha', hashlib.sha256(text.encode('utf-8')).hexdigest()[:20], hashlib.sha256(binary).hexdigest()[:20])
    say('   reload', digest(reload_facts)[:20], all(f[1] == 'ok' and not f[2] and f[3][0] and f[3][1] for f in reload_facts),
        [(f[0], f[1], f[2]) for f in reload_facts if f[1] != 'ok' or f[2]])

say('== supplied headers on real objects')
for path, cls, obj in objects[::4]:
    keep = obj.ascii_headers.copy()
    for hs in HEADER_SETS[:6]:
        obj.ascii_headers.clear()
        for k, v in hs:
            obj.ascii_headers[k] = v
        text = str(obj)
        ref = ref_dearmor(text)
        t, w, o2 = outcome(lambda: blob_load(cls, text))
        say('hdr', os.path.basename(path), len(hs), ref['headers'] == hs, t, w,
            list(o2.ascii_headers.items()) if o2 is not None else None, bytes(o2) == bytes(obj) if o2 is not None else None)
    obj.ascii_headers = keep

say('== from_file binary / armored')
tmpd = tempfile.mkdtemp()
for path, cls, obj in objects[::5]:
    if cls is PGPMessage and obj.type == 'cleartext':
        continue
    p1 = os.path.join(tmpd, 'x.bin')
    with open(p1, 'wb') as f:
        f.write(bytes(obj))
    p2 = os.path.join(tmpd, 'x.asc')
    with open(p2, 'w') as f:
        f.write(str(obj))
    a = load(cls, p1)
    b = load(cls, p2)
    say('from_file', os.path.basename(path), bytes(a) == bytes(obj), bytes(b) == bytes(obj), describe(a) == describe(b) == describe(obj),
        list(a.ascii_headers.items()), list(b.ascii_headers.items()) == list(obj.ascii_headers.items()))
    os.unlink(p1)
    os.unlink(p2)
os.rmdir(tmpd)
say('from_file missing', outcome(lambda: PGPKey.from_file('/nonexistent/none.asc'))[0])

say('== from_blob unusual inputs')
for cls in (PGPKey, PGPMessage, PGPSignature):
    for name, val in (('int', 5), ('none', None), ('list', [1, 2, 3]), ('empty-str', ''), ('empty-bytes', b''),
                      ('text', 'just some text\n'), ('non-latin1', 'snow ☃ man'), ('latin1', 'caf\xe9')):
        t, w, v = outcome(lambda: cls.from_blob(val))
        say('from_blob', cls.__name__, name, t, w)

say('== wrong kind is rejected')
pick = {}
for path, cls, obj in objects:
    pick.setdefault(expected_label(obj) + ('/clear' if cls is PGPMessage and obj.type == 'cleartext' else ''), (path, cls, obj))
for kind in sorted(pick):
    path, cls, obj = pick[kind]
    text = str(obj)
    binary = bytes(obj)
    for target in (PGPKey, PGPMessage, PGPSignature):
        t, w, o2 = outcome(lambda: blob_load(target, text))
        t_direct, w_direct, _ = outcome(lambda: target().parse(text))
        tb, wb, _ = outcome(lambda: blob_load(target, binary))
        say('kind', kind, os.path.basename(path), '->', target.__name__, t, w, 'direct', t_direct, w_direct, 'binary', tb)
    for fake in ('EKY BLOCK', 'ARMORED FILE', 'MESSAGE, PART 1/2', 'PUBLIC KEY BLOCK', 'PRIVATE KEY BLOCK', 'MESSAGE', 'SIGNATURE'):
        t2 = text.replace('PGP ' + ref_dearmor(text)['label'] + '-----', 'PGP ' + fake + '-----')
        for target in (PGPKey, PGPMessage, PGPSignature):
            with warnings.catch_warnings(record=True):
                warnings.simplefilter('always')
                try:
                    blob_load(target, t2)
                    r = 'ok'
                except Exception as e:  # noqa
                    r = '%s(%s)' % (type(e).__name__, str(e)[:60])
            say('   relabel', fake, '->', target.__name__, r)

say('== single-character corruption')
B64 = 'ABCDEFGHIJKLMNOPQRSTUVWXYZabcdefghijklmnopqrstuvwxyz0123456789+/'


def corrupt_all(cls, text, stride=1, direct=False):
    lines = text.split('\n')
    begin = max(i for i, l in enumerate(lines) if l.startswith('-----BEGIN PGP '))
    start = lines.index('', begin) + 1
    crc_i = max(i for i, l in enumerate(lines) if len(l) == 5 and l.startswith('='))
    orig = bytes(blob_load(cls, text))
    facts = []
    counts = {}
    pos = 0
    for li in range(start, crc_i + 1):
        for ci in range(len(lines[li])):
            pos += 1
            if li != crc_i and pos % stride:
                continue
            ch = lines[li][ci]
            if ch in B64:
                subs = [B64[(B64.index(ch) + 1) % 64], B64[(B64.index(ch) + 32) % 64], '*', '=']
            else:
                subs = ['A', '*']
            for s in subs:
                l2 = list(lines)
                l2[li] = lines[li][:ci] + s + lines[li][ci + 1:]
                t2 = '\n'.join(l2)
                if direct:
                    inst = cls()
                    t, w, _ = outcome(lambda: inst.parse(t2))
                    o = inst if t == 'ok' else None
                else:
                    t, w, o = outcome(lambda: blob_load(cls, t2))
                same = None
                if o is not None:
                    try:
                        same = bytes(o) == orig
                    except Exception as e:  # noqa
                        same = type(e).__name__
                crcwarn = any('Incorrect crc24' in x for x in w)
                key = (('crc' if li == crc_i else 'body'), 'b64' if s in B64 else s, t, crcwarn, same)
                counts[key] = counts.get(key, 0) + 1
                facts.append((li, ci, s, t, w, same))
    return facts, counts


for rel, cls, stride, direct in (('tests/testdata/blocks/rsasignature.asc', PGPSignature, 1, False),
                                 ('tests/testdata/blocks/rsasignature.asc', PGPSignature, 3, True),
                                 ('tests/testdata/blocks/message.literal.asc', PGPMessage, 1, False),
                                 ('tests/testdata/blocks/cleartext.asc', PGPMessage, 2, False),
                                 ('tests/testdata/blocks/eccpubkey.asc', PGPKey, 1, False),
                                 ('tests/testdata/blocks/eccseckey.asc', PGPKey, 2, True)):
    if not os.path.exists(rel):
        say('missing', rel)
        continue
    text = str(load(cls, rel))
    facts, counts = corrupt_all(cls, text, stride, direct)
    sys.stderr.write('[%.1fs] %s\n' % (time.time() - T0, rel))
    say('corrupt', rel, 'direct' if direct else 'from_blob', 'cases', len(facts), digest(facts))
    for k in sorted(counts, key=repr):
        say('   ', k, counts[k])
    silent = [f for f in facts if f[3] == 'ok' and not any('Incorrect crc24' in x for x in f[4])]
    say('    silently accepted', len(silent), [(f[2], f[5]) for f in silent][:8])

say('== the crc warning points at the caller of parse()')
keytext = open('tests/testdata/keys/rsa.1.sec.asc').read().splitlines()
keytext[-2] = '=abcd'
keytext = '\n'.join(keytext)
k = PGPKey()
t, w, _ = outcome(lambda: k.parse(keytext))
say('direct parse', t, w)
t, w, _ = outcome(lambda: PGPKey.from_blob(keytext))
say('from_blob', t, w)

say('== transcript', len(OUT), hashlib.sha256('\n'.join(OUT).encode('utf-8')).hexdigest())
