import hashlib
import os
import sys
sys.path.insert(0, os.getcwd())

import pgpy  # noqa: E402
from pgpy.constants import HashAlgorithm, String2KeyType, SymmetricKeyAlgorithm  # noqa: E402
from pgpy.packet.fields import String2Key  # noqa: E402

out = hashlib.sha256()


def emit(*parts):
    for p in parts:
        out.update(repr(p).encode('utf-8'))
        out.update(b'\x1f')
    out.update(b'\n')


def attempt(fn, *a, **kw):
    try:
        return ('ok', fn(*a, **kw))
    except Exception as e:  # digest the exception type only
        return ('exc', type(e).__name__)


halgs = [HashAlgorithm.MD5, HashAlgorithm.SHA1, HashAlgorithm.RIPEMD160, HashAlgorithm.SHA256,
         HashAlgorithm.SHA384, HashAlgorithm.SHA512, HashAlgorithm.SHA224]
ciphers = [SymmetricKeyAlgorithm.CAST5, SymmetricKeyAlgorithm.TripleDES, SymmetricKeyAlgorithm.AES128,
           SymmetricKeyAlgorithm.AES192, SymmetricKeyAlgorithm.AES256, SymmetricKeyAlgorithm.Camellia256]
specs = [String2KeyType.Simple, String2KeyType.Salted, String2KeyType.Iterated]
salts = [bytearray(b'\x00' * 8), bytearray(range(1, 9)), bytearray(b'\xff\xfe\xfd\xfc\xfb\xfa\xf9\xf8')]
passphrases = ['', b'', 'a', 'QwertyUiop', u'paßwört ☃', b'\x00\xff\x80raw', 'x' * 70, b'y' * 1500,
               'long' * 1200, bytearray(b'not-bytes'), None, 5]
ccounts = [0, 1, 15, 16, 47, 96, 0xC0, 238, 255]

# 1. count decode over all 256 coded counts (+ invalid values)
for c in list(range(256)) + [-1, 256, 1000, True]:
    def setc(v):
        k = String2Key()
        k.count = v
        return (k._count, k.count)
    emit('count', c, attempt(setc, c))

# 2. derive_key
for spec in specs:
    for halg in halgs:
        for enc in ciphers:
            for si, salt in enumerate(salts):
                for cc in (ccounts if spec == String2KeyType.Iterated else [96]):
                    # keep the volume reasonable: vary passphrase by a deterministic stride
                    for pi, pw in enumerate(passphrases):
                        if cc > 96 and not (si == 1 and pi in (3, 8) and enc == SymmetricKeyAlgorithm.AES256):
                            continue  # large octet counts only for a few combinations (run time)
                        if (si + pi + cc + int(halg) + int(enc)) % 3 and len(pw if hasattr(pw, '__len__') else b'') > 100:
                            continue
                        s2k = String2Key()
                        s2k.usage = 254
                        s2k.encalg = enc
                        s2k.specifier = spec
                        s2k.halg = halg
                        s2k.salt = bytearray(salt)
                        s2k.count = cc
                        r = attempt(s2k.derive_key, pw)
                        emit('derive', int(spec), int(halg), int(enc), si, cc, pi, r)
                        emit('salt-after', bytes(s2k.salt), s2k._count)

# 3. unknown / unusable algorithms
for enc in [0, 5, 6, 100]:
    for halg in [0, 4, 2]:
        def mk(enc=enc, halg=halg):
            s2k = String2Key()
            s2k.usage = 254
            s2k.encalg = enc
            s2k.halg = halg
            s2k.specifier = 3
            s2k.salt = bytearray(8)
            s2k.count = 96
            return s2k.derive_key('abc')
        emit('odd', enc, halg, attempt(mk))

# 4. parse / __bytearray__ / __len__ / __copy__ round trips
blobs = []
for usage in [0, 1, 9, 254, 255]:
    for enc in [3, 7, 9, 2, 0, 100]:
        for spec in [0, 1, 3, 2, 101, 100]:
            body = bytearray([usage, enc, spec, 8]) + bytearray(range(0x10, 0x18)) + bytearray([0x60]) + \
                bytearray(range(0xA0, 0xC0))
            blobs.append(body)
blobs.append(bytearray([254, 0, 101]) + b'\x00GNU\x01' + b'tail')
blobs.append(bytearray([254, 0, 101]) + b'\x00GNU\x02\x05serialtail')
blobs.append(bytearray([254, 0, 101]) + b'\x00GNU\x02\x20' + bytearray(range(40)))
blobs.append(bytearray([255, 0, 101]) + b'\x00GNX\x01')
blobs.append(bytearray([254, 9, 3, 8, 1, 2, 3]))
blobs.append(bytearray([254, 9, 3]))
blobs.append(bytearray([254]))
blobs.append(bytearray())

import copy  # noqa: E402
for blob in blobs:
    for iv in (True, False):
        def rt(blob=blob, iv=iv):
            pkt = bytearray(blob)
            s2k = String2Key()
            ret = s2k.parse(pkt, iv=iv) if iv is False else s2k.parse(pkt)
            c = copy.copy(s2k)
            return (ret, bytes(pkt), int(s2k.usage), int(s2k.encalg), int(s2k.specifier), int(s2k.halg),
                    bytes(s2k.salt), s2k._count, s2k.count, None if s2k.iv is None else bytes(s2k.iv),
                    int(s2k.gnuext), None if s2k.scserial is None else bytes(s2k.scserial),
                    bytes(s2k.__bytearray__()), len(s2k), bool(s2k), bytes(c.__bytearray__()), c._count)
        emit('parse', bytes(blob), iv, attempt(rt))

# 5. end to end with fixture material: unlock protected keys, decrypt passphrase-protected messages
import glob  # noqa: E402


def unlock(path, pw):
    key, _ = pgpy.PGPKey.from_file(path)
    with key.unlock(pw):
        return bytes(key._key.keymaterial.__bytearray__())


for path in sorted(glob.glob('tests/testdata/keys/*.enc.asc')):
    for pw in ['QwertyUiop', 'ClearlyTheWrongPassword']:
        emit('unlock', path, pw, attempt(unlock, path, pw))


def decmsg(path, pw):
    msg = pgpy.PGPMessage.from_file(path)
    m = msg.decrypt(pw).message
    return bytes(m) if isinstance(m, (bytes, bytearray)) else m.encode('utf-8')


for path in sorted(glob.glob('tests/testdata/messages/message*.pass*.asc')):
    for pw in ['QwertyUiop', 'nope']:
        emit('decmsg', path, attempt(decmsg, path, pw))

print(out.hexdigest())
