"""Equivalence probe for the EC curve-OID codec refactoring (C08 ref1).

Run as: cd <tree> && /venv/bin/python equiv.py
Prints one digest; it must be identical on the unchanged and on the refactored tree.
"""
import copy
import glob
import hashlib
import os
import sys
import warnings

sys.path.insert(0, os.getcwd())
warnings.simplefilter('ignore')

import pgpy  # noqa: E402
from pgpy.packet import Packet  # noqa: E402
from pgpy.packet import fields  # noqa: E402

out = []


def rec(*items):
    out.append(repr(items))


TRAILER = b'\xde\xca\xff\xba\xdd'

# 1. every packet fixture, with trailing data
for fn in sorted(glob.glob('tests/testdata/packets/[0-9]*')):
    with open(fn, 'rb') as f:
        buf = bytearray(f.read()) + TRAILER
    p = Packet(buf)
    rec(os.path.basename(fn), type(p).__name__, bytes(p).hex(), bytes(buf).hex(), len(p), p.header.length)
    km = getattr(p, 'keymaterial', None)
    if km is not None:
        rec('km', type(km).__name__, len(km), km.publen(), bytes(km).hex(), getattr(km, 'oid', 'n/a'))
        c = copy.copy(km)
        rec('kmcopy', type(c).__name__, len(c), bytes(c).hex(), getattr(c, 'oid', 'n/a'))
        b2 = bytearray(bytes(p)) + TRAILER
        p2 = Packet(b2)
        rec('again', bytes(p2) == bytes(p), bytes(b2).hex())

# 2. EC keys from the key fixtures
for fn in sorted(glob.glob('tests/testdata/keys/*.asc')) + sorted(glob.glob('tests/testdata/blocks/*key.asc')):
    key, _ = pgpy.PGPKey.from_file(fn)
    for k in [key] + list(key.subkeys.values()):
        km = k._key.keymaterial
        rec(os.path.basename(fn), type(km).__name__, str(k.fingerprint), len(km), km.publen(),
            hashlib.sha256(bytes(km)).hexdigest(), repr(getattr(km, 'oid', None)))
        if hasattr(km, 'oid'):
            rec('oidfield', km.oid.name, bytes(km)[:12].hex(), type(km.p).__name__, km.p.format, len(km.p))
    rec('keybytes', hashlib.sha256(bytes(key)).hexdigest())
    if key.is_public is False:
        rec('pubbytes', hashlib.sha256(bytes(key.pubkey)).hexdigest())

# 3. direct codec calls, including malformed input
P256 = bytes.fromhex('082a8648ce3d030107')
ED = bytes.fromhex('092b06010401da470f01')
CV = bytes.fromhex('0a2b060104019755010501')
point_std = bytes.fromhex('0203') + b'\x04' + bytes(range(1, 65))[:64]
point_std = (515).to_bytes(2, 'big') + b'\x04' + bytes(range(1, 65))
point_nat = (263).to_bytes(2, 'big') + b'\x40' + bytes(range(1, 33))
cases = [
    P256 + point_std + b'rest',
    P256 + point_nat + b'rest',
    ED + point_nat + b'rest',
    ED + point_std + b'rest',
    CV + point_nat + b'\x03\x01\x08\x07' + b'rest',
    CV + point_std + b'\x03\x01\x08\x07' + b'rest',
    P256 + point_std + b'\x03\x01\x08\x07' + b'rest',
    b'',
    b'\x00',
    b'\x00' + point_std,
    b'\x05\x2a\x86',                        # truncated OID
    b'\x03\x2b\x65\x70' + point_nat,        # well-formed OID, not a known curve
    b'\x08\xff\xff\xff\xff\xff\xff\xff\xff' + point_std,
    b'\xff' + bytes(300),
    b'\x01\x80' + point_std,
]
for cls in (fields.ECDSAPub, fields.EdDSAPub, fields.ECDHPub, fields.ECDSAPriv, fields.EdDSAPriv, fields.ECDHPriv):
    for i, raw in enumerate(cases):
        buf = bytearray(raw)
        km = cls()
        try:
            km.parse(buf)
            rec(cls.__name__, i, 'ok', repr(km.oid), bytes(km).hex(), len(km), km.publen(), bytes(buf).hex())
            c = copy.copy(km)
            rec('copy', bytes(c).hex(), repr(c.oid), len(c))
        except Exception as e:
            rec(cls.__name__, i, type(e).__name__, str(e), repr(km.oid), bytes(buf).hex())
    # unparsed object
    km = cls()
    for fn_ in (len, bytes):
        try:
            rec(cls.__name__, 'blank', fn_.__name__, fn_(km))
        except Exception as e:
            rec(cls.__name__, 'blank', fn_.__name__, type(e).__name__, str(e))

print(hashlib.sha256('\n'.join(out).encode()).hexdigest(), len(out))
