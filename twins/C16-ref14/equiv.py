"""Equivalence probe for property C16 (key-usage policy).

Run as:  cd <tree> && /venv/bin/python equiv.py
Prints a digest of the observable outcomes (chosen component, issuer / recipient ids, subpacket layout,
exceptions, warnings with the file they are attributed to, log records) of sign / certify / encrypt / decrypt
on the fixture keys.  Nothing random is digested (no signature / ciphertext octets, no timestamps).
"""
import hashlib
import logging
import os
import sys
import warnings

sys.path.insert(0, os.getcwd())
warnings.simplefilter('ignore')  # import-time deprecation noise of the crypto backend

import pgpy  # noqa: E402
from pgpy import PGPKey, PGPMessage, PGPUID  # noqa: E402
from pgpy.constants import (HashAlgorithm, KeyFlags, PubKeyAlgorithm, SignatureType,  # noqa: E402
                            SymmetricKeyAlgorithm)
from pgpy.decorators import KeyAction  # noqa: E402

OUT = []


def emit(*parts):
    OUT.append(' | '.join(str(p) for p in parts))


class Capture(logging.Handler):
    def __init__(self):
        super().__init__(level=logging.DEBUG)
        self.records = []

    def emit(self, record):
        self.records.append((record.levelname, record.getMessage()))


LOG = Capture()
root = logging.getLogger()
root.addHandler(LOG)
root.setLevel(logging.DEBUG)


def attempt(label, fn):
    """Run fn; record result summary, exception, warnings (category, message, file) and log records."""
    del LOG.records[:]
    with warnings.catch_warnings(record=True) as caught:
        warnings.simplefilter('always')
        try:
            res = fn()
            outcome = ('ok', res)
        except BaseException as exc:  # noqa: B902
            outcome = ('raise', type(exc).__name__, str(exc))
    ws = [(w.category.__name__, str(w.message), os.path.basename(w.filename)) for w in caught]
    emit(label, outcome, ws, list(LOG.records))


def key(name):
    k, _ = PGPKey.from_file('tests/testdata/keys/' + name)
    return k


def flagnames(flags):
    return sorted(f.name for f in flags)


def sigsummary(sig):
    sp = sig._signature.subpackets
    return (sig.signer, str(sig.signer_fingerprint), sig.type.name, sig.key_algorithm.name,
            [(k[0], type(v).__name__) for k, v in sp._hashed_sp.items()],
            [(k[0], type(v).__name__) for k, v in sp._unhashed_sp.items()])


def msgsummary(msg):
    def wire(sk):
        # version octet, the eight key id octets and the algorithm octet as serialised (the MPIs that follow are random)
        raw = bytes(sk.__bytearray__())
        at = raw.index(bytes.fromhex(sk.encrypter))
        return raw[at - 1:at + 9].hex()

    return (sorted(msg.encrypters), sorted(msg.issuers),
            [(type(sk).__name__, getattr(sk, 'encrypter', None), getattr(getattr(sk, 'pkalg', None), 'name', None),
              wire(sk) if hasattr(sk, 'encrypter') else None) for sk in msg._sessionkeys])


def signed_message(k):
    m = PGPMessage.new(TEXT)
    m |= k.sign(m)
    return (sorted(m.signers), sorted(m.issuers), [sigsummary(s) for s in m.signatures])


FIXTURES = ['rsa.1.sec.asc', 'rsa.1.pub.asc', 'rsa.1.enc.asc', 'dsa.1.sec.asc', 'dsa.1.pub.asc', 'dsa.1.enc.asc',
            'ecc.1.sec.asc', 'ecc.1.pub.asc', 'ecc.2.sec.asc', 'ecc.2.pub.asc', 'mixed.1.sec.asc', 'mixed.1.pub.asc',
            'targette.sec.rsa.asc', 'targette.pub.rsa.asc']

# ---- static facts: flags, self signatures -------------------------------------------------------------------------
for name in FIXTURES:
    k = key(name)
    emit('flags', name, k.fingerprint, flagnames(k._get_key_flags()),
         [(kid, flagnames(s._get_key_flags()), flagnames(s._get_key_flags('nobody'))) for kid, s in k.subkeys.items()])
    uid = k.userids[0]
    attempt('flags-user ' + name, lambda: (flagnames(k._get_key_flags(uid.name)),
                                           flagnames(k._get_key_flags(uid.email)) if uid.email else None))
    attempt('flags-nouser ' + name, lambda: flagnames(k._get_key_flags('no such user')))
    emit('selfsigs', name,
         [(s.signer, s.type.name, flagnames(s.key_flags)) for s in k.self_signatures],
         [(s.signer, s.type.name) for s in k.revocation_signatures],
         [(kid, [(s.signer, s.type.name, flagnames(s.key_flags)) for s in sk.self_signatures],
           [(s.signer, s.type.name) for s in sk.revocation_signatures]) for kid, sk in k.subkeys.items()])
    for u in k.userids:
        ss = u.selfsig
        emit('uid-selfsig', name, (u.name, u.comment, u.email), None if ss is None else (ss.signer, str(ss.signer_fingerprint),
                                                                  flagnames(ss.key_flags)))

# ---- the precondition / selection matrix ------------------------------------------------------------------------
TEXT = 'The quick brown fox'
OTHER_PUB = key('targette.pub.rsa.asc')
RSA_PUB = key('rsa.1.pub.asc')
SK = bytes(range(32))

for name in FIXTURES:
    k = key(name)
    uid = k.userids[0]

    attempt('sign ' + name, lambda: sigsummary(k.sign(TEXT)))
    attempt('sign-user ' + name, lambda: sigsummary(k.sign(TEXT, user=uid.name)))
    attempt('sign-nofpr ' + name, lambda: sigsummary(k.sign(TEXT, include_issuer_fingerprint=False,
                                                              hash=HashAlgorithm.SHA512)))
    attempt('sign-msg ' + name, lambda: signed_message(k))
    attempt('sign-ts ' + name, lambda: sigsummary(k.sign(None)))
    attempt('certify ' + name, lambda: sigsummary(k.certify(uid, SignatureType.Positive_Cert)))
    attempt('certify-other ' + name, lambda: sigsummary(k.certify(OTHER_PUB.userids[0])))
    attempt('bind ' + name, lambda: [sigsummary(k.bind(s)) for s in k.subkeys.values()])
    attempt('revoke ' + name, lambda: sigsummary(k.revoke(uid)))
    attempt('encrypt ' + name, lambda: msgsummary(k.encrypt(PGPMessage.new(TEXT), sessionkey=SK,
                                                            cipher=SymmetricKeyAlgorithm.AES256)))
    attempt('encrypt-user ' + name, lambda: msgsummary(k.encrypt(PGPMessage.new(TEXT), user=uid.name)))
    attempt('encrypt-baduser ' + name, lambda: msgsummary(k.encrypt(PGPMessage.new(TEXT), user='no such user')))
    attempt('decrypt-plain ' + name, lambda: k.decrypt(PGPMessage.new(TEXT)).message)
    for kid, s in k.subkeys.items():
        attempt('sub-sign %s %s' % (name, kid), lambda: sigsummary(s.sign(TEXT)))
        attempt('sub-encrypt %s %s' % (name, kid), lambda: msgsummary(s.encrypt(PGPMessage.new(TEXT))))

    # flag enforcement off
    k._require_usage_flags = False
    for s in k.subkeys.values():
        s._require_usage_flags = False
    attempt('noflags-sign ' + name, lambda: sigsummary(k.sign(TEXT)))
    attempt('noflags-encrypt ' + name, lambda: msgsummary(k.encrypt(PGPMessage.new(TEXT))))

# ---- round trips: encrypt to the public key, decrypt with the private one (primary and subkey entry points) -------
for stem, pw in [('rsa.1', None), ('ecc.1', None), ('mixed.1', None), ('rsa.1', 'QwertyUiop')]:
    pub = key(stem + '.pub.asc')
    sec = key(stem + ('.enc.asc' if pw else '.sec.asc'))
    with warnings.catch_warnings():
        warnings.simplefilter('ignore')
        enc = pub.encrypt(PGPMessage.new(TEXT + stem), sessionkey=SK, cipher=SymmetricKeyAlgorithm.AES256)
    other = key('targette.sec.rsa.asc')
    attempt('decrypt %s locked=%s' % (stem, bool(pw)), lambda: sec.decrypt(enc).message)
    attempt('decrypt-wrongkey ' + stem, lambda: other.decrypt(enc).message)
    attempt('decrypt-pub ' + stem, lambda: pub.decrypt(enc).message)
    for kid, s in sec.subkeys.items():
        attempt('decrypt-sub %s %s' % (stem, kid), lambda: s.decrypt(enc).message)
    if pw:
        def unlocked():
            with sec.unlock(pw):
                return (sec.decrypt(enc).message, sigsummary(sec.sign(TEXT)),
                        [sigsummary(s.sign(TEXT)) if KeyFlags.Sign in s._get_key_flags() else None
                         for s in sec.subkeys.values()])
        attempt('unlocked ' + stem, unlocked)
        attempt('relocked ' + stem, lambda: sigsummary(sec.sign(TEXT)))

    # two recipients
    with warnings.catch_warnings():
        warnings.simplefilter('ignore')
        enc2 = key('ecc.1.pub.asc').encrypt(enc, sessionkey=SK, cipher=SymmetricKeyAlgorithm.AES256) \
            if stem != 'ecc.1' else enc
    attempt('two-recipients ' + stem, lambda: (msgsummary(enc2), None if pw else sec.decrypt(enc2).message))

# ---- deterministic signers: the complete signature packets, octet for octet --------------------------------------
from datetime import datetime, timezone  # noqa: E402
WHEN = datetime(2020, 1, 2, 3, 4, 5, tzinfo=timezone.utc)
for name in ['rsa.1.sec.asc', 'targette.sec.rsa.asc', 'mixed.1.sec.asc', 'ecc.2.sec.asc']:
    k = key(name)
    uid = k.userids[0]
    attempt('bytes sign ' + name, lambda: bytes(k.sign(TEXT, created=WHEN)).hex())
    attempt('bytes sign-user ' + name, lambda: bytes(k.sign(TEXT, created=WHEN, user=uid.name,
                                                             notation={'a@b': 'c'}, policy_uri='http://x')).hex())
    attempt('bytes sign-nofpr ' + name, lambda: bytes(k.sign(TEXT, created=WHEN,
                                                              include_issuer_fingerprint=False)).hex())
    attempt('bytes certify ' + name, lambda: bytes(k.certify(OTHER_PUB.userids[0], created=WHEN)).hex())
    attempt('new ' + name, lambda: bytes(pgpy.PGPSignature.new(SignatureType.BinaryDocument, k.key_algorithm,
                                                               HashAlgorithm.SHA256, k.fingerprint.keyid,
                                                               created=WHEN)._signature.subpackets.__bytearray__()).hex())

# ---- stored messages ----------------------------------------------------------------------------------------------
attempt('stored cv25519', lambda: bytes(key('ecc.2.sec.asc').decrypt(
    PGPMessage.from_file('tests/testdata/messages/message.ecdh.cv25519.asc')).message))

# ---- incomplete keys ----------------------------------------------------------------------------------------------
attempt('empty key sign', lambda: PGPKey().sign(TEXT))
attempt('empty key encrypt', lambda: PGPKey().encrypt(PGPMessage.new(TEXT)))
attempt('empty key decrypt', lambda: PGPKey().decrypt(PGPMessage.new(TEXT)))

bare = key('targette.sec.rsa.asc')
bare._uids.clear()
attempt('no-uid flags', lambda: flagnames(bare._get_key_flags()))
attempt('no-uid sign', lambda: bare.sign(TEXT))
attempt('no-uid encrypt', lambda: bare.pubkey.encrypt(PGPMessage.new(TEXT)))
attempt('no-uid decrypt', lambda: bare.decrypt(PGPMessage.new(TEXT)))
newuid = PGPUID.new('Probe User', comment='c16', email='probe@example.com')
attempt('no-uid add_uid (first self-certification)', lambda: (
    bare.add_uid(newuid, usage={KeyFlags.Sign}, hashes=[HashAlgorithm.SHA256],
                 ciphers=[SymmetricKeyAlgorithm.AES256]),
    sigsummary(newuid.selfsig), flagnames(bare._get_key_flags()))[1:])
attempt('after add_uid sign', lambda: sigsummary(bare.sign(TEXT)))
attempt('after add_uid certify', lambda: sigsummary(bare.certify(RSA_PUB.userids[0])))
attempt('after add_uid encrypt', lambda: msgsummary(bare.pubkey.encrypt(PGPMessage.new(TEXT))))

# ---- KeyAction used directly --------------------------------------------------------------------------------------
ka = KeyAction(KeyFlags.Sign, is_public=False)
emit('KeyAction', type(ka).__mro__, sorted(vars(ka)), flagnames(ka.flags), ka.conditions)


def use(action_obj, k, user=None):
    with action_obj.usage(k, user) as chosen:
        return chosen.fingerprint


for name in FIXTURES:
    k = key(name)
    for flags in [(), (KeyFlags.Sign,), (KeyFlags.Certify,), (KeyFlags.EncryptStorage,), (KeyFlags.Authentication,),
                  (KeyFlags.Split,)]:
        a = KeyAction(*flags, is_public=k.is_public)
        attempt('usage %s %s' % (name, [f.name for f in flags]), lambda: use(a, k))
        attempt('check_attributes %s' % name, lambda: a.check_attributes(k))
    attempt('check_attributes-mismatch %s' % name,
            lambda: KeyAction(is_public=not k.is_public, is_unlocked=True).check_attributes(k))


@KeyAction(KeyFlags.Sign, is_public=False)
def probe(self, *args, **kwargs):
    """probe doc"""
    warnings.warn('probe warning', stacklevel=3)
    return (self.fingerprint.keyid, args, sorted(kwargs.items()))


emit('wrapper', probe.__name__, probe.__doc__, probe.__wrapped__.__name__)
attempt('probe rsa sec', lambda: probe(key('rsa.1.sec.asc'), 1, 2, x=3))
attempt('probe rsa sec user', lambda: probe(key('rsa.1.sec.asc'), user=RSA_PUB.userids[0].name))
attempt('probe rsa pub', lambda: probe(key('rsa.1.pub.asc')))
attempt('probe dup key', lambda: probe(key('rsa.1.sec.asc'), key=1))


@KeyAction(is_public=False)
def stopper(self):
    raise StopIteration('from the action')


attempt('stopiteration in action', lambda: stopper(key('rsa.1.sec.asc')))

# a subkey without any binding signature: the flag lookup runs dry inside the selection
orphan = key('rsa.1.sec.asc')
for s in orphan.subkeys.values():
    s._signatures.clear()
attempt('orphan subkey flags', lambda: [flagnames(s._get_key_flags()) for s in orphan.subkeys.values()])
attempt('orphan sign', lambda: sigsummary(orphan.sign(TEXT)))
attempt('orphan encrypt', lambda: msgsummary(orphan.pubkey.encrypt(PGPMessage.new(TEXT))))

blob = '\n'.join(OUT)
if '--dump' in sys.argv:
    print(blob)
print(len(OUT), hashlib.sha256(blob.encode('utf-8')).hexdigest())
