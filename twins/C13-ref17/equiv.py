"""Behaviour digest for the C13 refactorings (symenc helpers, PKESessionKeyV3.encrypt_sk,
String2Key).  Run as: cd <tree> && /venv/bin/python equiv.py
Everything that is digested is deterministic: os.urandom is replaced by a counter stream for
the duration of the run, and where OpenSSL-side randomness is involved (RSA padding, ECDH
ephemeral keys) only the decrypted / structural results are digested.
"""
import copy
import glob
import hashlib
import os
import sys
import warnings

sys.path.insert(0, os.getcwd())
warnings.simplefilter('ignore')

import pgpy  # noqa: E402
from pgpy import PGPKey, PGPMessage  # noqa: E402
from pgpy.constants import (HashAlgorithm, PubKeyAlgorithm, String2KeyType,  # noqa: E402
                            SymmetricKeyAlgorithm)
from pgpy.packet import Packet  # noqa: E402
from pgpy.packet.fields import String2Key  # noqa: E402
from pgpy.packet.packets import (IntegrityProtectedSKEDataV1, PKESessionKeyV3,  # noqa: E402
                                 SKESessionKeyV4)
from pgpy.symenc import _decrypt, _encrypt  # noqa: E402

out = []


def rec(label, value):
    if isinstance(value, (bytes, bytearray)):
        value = type(value).__name__ + ':' + bytes(value).hex()
    out.append('{}={!r}'.format(label, value))


def attempt(label, fn):
    try:
        rec(label, fn())
    except BaseException as e:  # noqa
        rec(label, ('EXC', type(e).__name__, str(e), type(e.__cause__).__name__))


class Counter(object):
    def __init__(self):
        self.n = 0
        self.calls = []

    def __call__(self, size):
        self.calls.append(size)
        chunks = b''
        while len(chunks) < size:
            chunks += hashlib.sha256(b'ctr%d' % self.n).digest()
            self.n += 1
        return chunks[:size]


_real_urandom = os.urandom
ctr = Counter()
os.urandom = ctr

# ---- 1. symenc helpers -------------------------------------------------------------------
for alg in SymmetricKeyAlgorithm:
    def _ks(a=alg):
        return a.key_size // 8
    try:
        klen = _ks()
    except NotImplementedError:
        klen = 16
    key = bytes(range(klen))
    for pt in (b'', b'x', b'The quick brown fox jumps over the lazy dog' * 3):
        for iv in (None, 'blk'):
            def enc(a=alg, pt=pt, iv=iv, key=key):
                _iv = None if iv is None else bytes(range(100, 100 + a.block_size // 8))
                ct = _encrypt(pt, key, a, _iv)
                back = _decrypt(bytes(ct), key, a, _iv)
                return (type(ct).__name__, bytes(ct).hex(), type(back).__name__, bytes(back) == pt)
            attempt('symenc.%s.%d.%s' % (alg.name, len(pt), iv), enc)
    attempt('symdec.%s' % alg.name, lambda a=alg, key=key: _decrypt(b'\x01' * 19, key, a))
attempt('symenc.badkey', lambda: _encrypt(b'abc', b'short', SymmetricKeyAlgorithm.AES128))
attempt('symdec.badkey', lambda: _decrypt(b'abc', b'short', SymmetricKeyAlgorithm.AES128))
attempt('symenc.bytearray', lambda: _encrypt(bytearray(b'abc'), bytes(16), SymmetricKeyAlgorithm.AES128, bytes(16)))

# ---- 2. integrity protected data packet --------------------------------------------------
for alg in (SymmetricKeyAlgorithm.AES256, SymmetricKeyAlgorithm.CAST5, SymmetricKeyAlgorithm.TripleDES,
            SymmetricKeyAlgorithm.Camellia192):
    def ipd(a=alg):
        sk = a.gen_key()
        p = IntegrityProtectedSKEDataV1()
        p.encrypt(sk, a, b'hello world' * 7)
        q = Packet(bytearray(p.__bytes__()))
        pt = q.decrypt(sk, a)
        return (bytes(p.__bytes__()).hex(), type(pt).__name__, bytes(pt))
    attempt('ipd.%s' % alg.name, ipd)


def ipd_bad():
    a = SymmetricKeyAlgorithm.AES128
    p = IntegrityProtectedSKEDataV1()
    p.encrypt(bytes(16), a, b'data')
    p.ct[5] ^= 1
    return p.decrypt(bytes(16), a)


attempt('ipd.tampered', ipd_bad)
attempt('ipd.wrongkey', lambda: (lambda p: (p.encrypt(bytes(16), SymmetricKeyAlgorithm.AES128, b'data'),
                                            p.decrypt(bytes([1] * 16), SymmetricKeyAlgorithm.AES128)))(IntegrityProtectedSKEDataV1()))

# ---- 3. String2Key ----------------------------------------------------------------------
specimens = []
for usage in (0, 254, 255, 1):
    for spec in (String2KeyType.Simple, String2KeyType.Salted, String2KeyType.Iterated, String2KeyType.GNUExtension):
        for iv in (None, bytes(range(16))):
            s = String2Key()
            s.usage = usage
            s.encalg = SymmetricKeyAlgorithm.AES128
            s.specifier = spec
            s.halg = HashAlgorithm.SHA256
            s.salt = bytearray(b'saltsalt')
            s.count = 96
            s.iv = iv
            specimens.append(s)
g = String2Key()
g.usage = 254
g.specifier = String2KeyType.GNUExtension
g.gnuext = 2
g.scserial = bytearray(b'0123456789abcdefXYZ')
specimens.append(g)

for i, s in enumerate(specimens):
    def s2k(s=s):
        b = s.__bytearray__()
        c = copy.copy(s)
        res = [type(b).__name__, bytes(b).hex(), len(s), bool(s), s.__nonzero__(), bytes(c.__bytearray__()).hex(),
               c.salt is s.salt, c.salt == s.salt, c.iv is s.iv, c._count, c.count, c.scserial is s.scserial,
               sorted(c.__dict__) == sorted(s.__dict__)]
        for ivflag in (True, False):
            pkt = bytearray(b) + bytearray(b'TRAILERTRAILERTRAILER')
            n = String2Key()
            r = n.parse(pkt, iv=ivflag)
            res.append((r, bytes(pkt), bytes(n.__bytearray__()).hex(), n.usage, int(n.encalg), int(n.specifier),
                        int(n.halg), bytes(n.salt), n._count, n.iv if n.iv is None else bytes(n.iv),
                        int(n.gnuext), n.scserial if n.scserial is None else bytes(n.scserial)))
        if s:
            res.append(s.derive_key('passphrase').hex() if s.specifier != String2KeyType.GNUExtension else None)
        return res
    attempt('s2k.%d' % i, s2k)

attempt('s2k.badmagic', lambda: String2Key().parse(bytearray(b'\xfe\x00\x65\x00GNX\x01')))
attempt('s2k.short', lambda: String2Key().parse(bytearray(b'\xfe\x07')))
attempt('s2k.empty', lambda: String2Key().parse(bytearray()))
attempt('s2k.badalg', lambda: String2Key().parse(bytearray(b'\xfe\x63\x03\x08aaaaaaaa\x60' + bytes(16))))
attempt('s2k.plainalg', lambda: String2Key().parse(bytearray(b'\xfe\x00\x03\x08aaaaaaaa\x60' + bytes(16))))
attempt('s2k.twofish', lambda: (lambda n, p: (n.parse(p), bytes(p), bytes(n.iv)))(String2Key(), bytearray(b'\xfe\x0a\x03\x08aaaaaaaa\x60' + bytes(20))))

for f in sorted(glob.glob('tests/testdata/packets/05.v4.enc.*.privkey')) + ['tests/testdata/packets/03.v4.symesk']:
    def pktfile(f=f):
        data = bytearray(open(f, 'rb').read())
        p = Packet(data)
        s = p.keymaterial.s2k if hasattr(p, 'keymaterial') else p.s2k
        return (bytes(p.__bytes__()).hex() == open(f, 'rb').read().hex(), bytes(s.__bytearray__()).hex(), len(s),
                bytes(copy.copy(p).__bytes__()) == bytes(p.__bytes__()))
    attempt('pkt.%s' % os.path.basename(f), pktfile)

# ---- 4. passphrase messages -------------------------------------------------------------
for f in sorted(glob.glob('tests/testdata/messages/message*.pass*.asc')):
    attempt('dec.%s' % os.path.basename(f), lambda f=f: PGPMessage.from_file(f).decrypt('QwertyUiop').message)
    attempt('decbad.%s' % os.path.basename(f), lambda f=f: PGPMessage.from_file(f).decrypt('wrong').message)

for cipher in (SymmetricKeyAlgorithm.AES256, SymmetricKeyAlgorithm.CAST5, SymmetricKeyAlgorithm.Camellia128,
               SymmetricKeyAlgorithm.IDEA, SymmetricKeyAlgorithm.Twofish256):
    def pmsg(c=cipher):
        m = PGPMessage.new('some text to protect', compression=pgpy.constants.CompressionAlgorithm.Uncompressed)
        m._message._mtime = m._message.mtime.replace(year=2020, month=1, day=1, hour=0, minute=0, second=0)
        before = len(ctr.calls)
        e = m.encrypt('QwertyUiop', cipher=c)
        calls = ctr.calls[before:]
        fixed = bytes(range(c.key_size // 8))
        e2 = m.encrypt('QwertyUiop', sessionkey=fixed, cipher=c).encrypt('Another', sessionkey=fixed, cipher=c)
        return (calls, bytes(e.__bytes__()).hex(), e.decrypt('QwertyUiop').message, bytes(e2.__bytes__()).hex(),
                e2.decrypt('Another').message, e2.decrypt('QwertyUiop').message)
    attempt('pmsg.%s' % cipher.name, pmsg)

# ---- 5. session key packets -------------------------------------------------------------
rsa_sec = PGPKey.from_file('tests/testdata/keys/rsa.1.sec.asc')[0]
rsa_pub = PGPKey.from_file('tests/testdata/keys/rsa.1.pub.asc')[0]
ecc_sec = PGPKey.from_file('tests/testdata/keys/ecc.1.sec.asc')[0]
ecc2_sec = PGPKey.from_file('tests/testdata/keys/ecc.2.sec.asc')[0]
dsa_pub = PGPKey.from_file('tests/testdata/keys/dsa.1.pub.asc')[0]


def enc_subkey(k):
    for sk in k.subkeys.values():
        if sk.key_algorithm in (PubKeyAlgorithm.ECDH, PubKeyAlgorithm.RSAEncryptOrSign):
            return sk
    return k


for name, k in (('rsa', rsa_sec), ('ecc1', enc_subkey(ecc_sec)), ('ecc2', enc_subkey(ecc2_sec))):
    for alg in (SymmetricKeyAlgorithm.AES128, SymmetricKeyAlgorithm.AES256, SymmetricKeyAlgorithm.TripleDES):
        for keyform in ('bytes', 'bytearray', 'ff', 'zero'):
            def pk(k=k, alg=alg, keyform=keyform):
                n = alg.key_size // 8
                symkey = {'bytes': bytes(range(n)), 'bytearray': bytearray(range(n)), 'ff': b'\xff' * n,
                          'zero': bytes(n)}[keyform]
                p = PKESessionKeyV3()
                p.pkalg = k.key_algorithm
                r = p.encrypt_sk(k._key, alg, symkey)
                q = Packet(bytearray(p.__bytes__()))
                a, s = q.decrypt_sk(k._key)
                return (r, len(p.__bytes__()) - p.header.length, len(p) == len(p.__bytes__()), type(p.ct).__name__, a, type(s).__name__, bytes(s),
                        bytes(copy.copy(p).__bytes__()) == bytes(p.__bytes__()))
            attempt('pkesk.%s.%s.%s' % (name, alg.name, keyform), pk)


def pk_unsupported(alg, key, symkey=b'k' * 16):
    p = PKESessionKeyV3()
    p.pkalg = alg
    return p.encrypt_sk(key._key, SymmetricKeyAlgorithm.AES128, symkey)


attempt('pkesk.dsa', lambda: pk_unsupported(PubKeyAlgorithm.DSA, dsa_pub))
attempt('pkesk.elg', lambda: pk_unsupported(PubKeyAlgorithm.ElGamal, dsa_pub))
attempt('pkesk.rsaenc', lambda: pk_unsupported(PubKeyAlgorithm.RSAEncrypt, rsa_pub))
attempt('pkesk.invalid', lambda: pk_unsupported(PubKeyAlgorithm.Invalid, rsa_pub))
attempt('pkesk.strkey', lambda: pk_unsupported(PubKeyAlgorithm.RSAEncryptOrSign, rsa_pub, 'not bytes'))
attempt('pkesk.nonekey', lambda: pk_unsupported(PubKeyAlgorithm.DSA, rsa_pub, None))
attempt('pkesk.strkey.dsa', lambda: pk_unsupported(PubKeyAlgorithm.DSA, rsa_pub, 'not bytes'))
attempt('pkesk.mismatch', lambda: pk_unsupported(PubKeyAlgorithm.ECDH, rsa_pub))

for name, pub, sec in (('rsa', rsa_pub, rsa_sec), ('ecc1', ecc_sec.pubkey, ecc_sec), ('ecc2', ecc2_sec.pubkey, ecc2_sec)):
    def kmsg(pub=pub, sec=sec):
        m = PGPMessage.new('text for a key recipient')
        before = len(ctr.calls)
        with warnings.catch_warnings(record=True) as w:
            warnings.simplefilter('always')
            e = pub.encrypt(m, cipher=SymmetricKeyAlgorithm.AES192)
        calls = ctr.calls[before:]
        return (calls, [str(x.message) for x in w], [type(p).__name__ for p in e], sec.decrypt(e).message)
    attempt('kmsg.%s' % name, kmsg)

for f in ('message.rsa.cast5.asc', 'message.ecdh.cv25519.asc', 'message.ecdh.encrypted.aes.asc'):
    for kname, k in (('rsa', rsa_sec), ('ecc1', ecc_sec), ('ecc2', ecc2_sec)):
        attempt('fixturedec.%s.%s' % (f, kname),
                lambda f=f, k=k: k.decrypt(PGPMessage.from_file('tests/testdata/messages/' + f)).message)

# ---- 6. key protection ------------------------------------------------------------------
for f in ('rsa.1.sec.asc', 'ecc.1.sec.asc', 'dsa.1.sec.asc'):
    for enc in (SymmetricKeyAlgorithm.AES256, SymmetricKeyAlgorithm.CAST5):
        def prot(f=f, enc=enc):
            k = PGPKey.from_file('tests/testdata/keys/' + f)[0]
            before = len(ctr.calls)
            k.protect('QwertyUiop', enc, HashAlgorithm.SHA256)
            calls = ctr.calls[before:]
            blob = bytes(k.__bytes__())
            k2 = PGPKey()
            k2.parse(blob)
            with k2.unlock('QwertyUiop') as uk:
                unlocked = uk.is_unlocked
            s = k._key.keymaterial.s2k
            return (calls, hashlib.sha256(blob).hexdigest(), k.is_protected, k.is_unlocked, unlocked,
                    bytes(s.__bytearray__()).hex(), len(s), bytes(copy.copy(k).__bytes__()) == blob)
        attempt('protect.%s.%s' % (f, enc.name), prot)

os.urandom = _real_urandom

if '-v' in sys.argv:
    for line in out:
        print(line)
print(len(out), hashlib.sha256('\n'.join(out).encode('utf-8')).hexdigest())
