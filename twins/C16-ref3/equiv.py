"""Equivalence probe for the key-usage policy code (KeyAction, _get_key_flags, encrypt, decrypt, new/_sign).

Run as:  cd <tree> && /venv/bin/python equiv.py
Prints one digest; it must be the same on the unchanged and the refactored tree.
Only deterministic observables are digested (which component was used, ids written to the output,
exception types and messages, log messages, decrypted plaintext) - never random ciphertext or timestamps.
"""
import glob
import hashlib
import logging
import os
import sys
import warnings

sys.path.insert(0, os.getcwd())

import pgpy  # noqa: E402
from pgpy import PGPKey, PGPMessage, PGPUID  # noqa: E402
from pgpy.constants import KeyFlags, HashAlgorithm, SymmetricKeyAlgorithm, CompressionAlgorithm  # noqa: E402
from pgpy.decorators import KeyAction  # noqa: E402

warnings.simplefilter('ignore')

out = []


def emit(*a):
    out.append(' | '.join(str(x) for x in a))


class Grab(logging.Handler):
    def __init__(self):
        logging.Handler.__init__(self, level=logging.DEBUG)
        self.msgs = []

    def emit(self, record):
        self.msgs.append('{}:{}'.format(record.levelname, record.getMessage()))


grab = Grab()
root = logging.getLogger()
root.addHandler(grab)
root.setLevel(logging.DEBUG)


def attempt(label, fn):
    del grab.msgs[:]
    try:
        res = fn()
    except BaseException as e:  # noqa
        res = 'EXC {}: {}'.format(type(e).__name__, e)
    emit(label, '<PGPMessage>' if isinstance(res, PGPMessage) else res, list(grab.msgs))
    return res


def load(path):
    k, _ = PGPKey.from_file(path)
    return k


def fl(s):
    return sorted(int(f) for f in s)


KD = 'tests/testdata/keys/'
keyfiles = sorted(glob.glob(KD + '*.asc')) + ['tests/testdata/pubtest.asc', 'tests/testdata/sectest.asc']
PASS = 'QwertyUiop'
SK = bytes(bytearray(range(32)))

for kf in keyfiles:
    key = load(kf)
    emit('KEY', kf, key.fingerprint.keyid, key.is_public, key.is_protected, key.is_unlocked)

    # --- _get_key_flags on every component, with and without a user selector
    attempt('flags primary', lambda: fl(key._get_key_flags()))
    attempt('flags primary None', lambda: fl(key._get_key_flags(None)))
    for uid in key.userids:
        attempt('flags primary user=' + uid.name, lambda: fl(key._get_key_flags(uid.name)))
        if uid.email:
            attempt('flags primary email', lambda: fl(key._get_key_flags(uid.email)))
    attempt('flags primary bogus user', lambda: fl(key._get_key_flags('nobody-by-that-name')))
    for sid, sub in key.subkeys.items():
        attempt('flags sub ' + sid, lambda: fl(sub._get_key_flags()))
        attempt('flags sub user ' + sid, lambda: fl(sub._get_key_flags('whatever')))

    # --- KeyAction.usage directly: which component is picked for each flag set
    for flags in [(), (KeyFlags.Sign,), (KeyFlags.Certify,), (KeyFlags.EncryptCommunications, KeyFlags.EncryptStorage),
                  (KeyFlags.Authentication,), (KeyFlags.Split,), (KeyFlags.Sign, KeyFlags.Authentication)]:
        for req in (True, False):
            key._require_usage_flags = req

            def pick():
                with KeyAction(*flags).usage(key, None) as k:
                    return k.fingerprint.keyid
            attempt('usage {} req={}'.format([int(f) for f in flags], req), pick)
    key._require_usage_flags = True

    # --- check_attributes
    for cond in [dict(is_public=True), dict(is_public=False), dict(is_unlocked=True),
                 dict(is_unlocked=True, is_public=False), dict(is_primary=True), dict()]:
        attempt('check_attributes {}'.format(sorted(cond.items())),
                lambda: KeyAction(**cond).check_attributes(key))

    # --- operations
    def do_sign(k, **kw):
        sig = k.sign('the quick brown fox', **kw)
        fp = sig.signer_fingerprint
        return ('sig', sig.signer, str(fp), sig.key_algorithm.name, sig.type.name,
                sorted(sig._signature.subpackets._hashed_sp.keys() if hasattr(sig._signature.subpackets._hashed_sp, 'keys') else []),
                [type(sp).__name__ for sp in sig._signature.subpackets._hashed_sp.values()],
                [type(sp).__name__ for sp in sig._signature.subpackets._unhashed_sp.values()])

    def do_certify(k, **kw):
        sig = k.certify(k.userids[0], **kw)
        return ('cert', sig.signer, str(sig.signer_fingerprint), sig.type.name)

    def do_encrypt(k, **kw):
        msg = PGPMessage.new('secret text', compression=CompressionAlgorithm.Uncompressed)
        enc = k.encrypt(msg, sessionkey=SK, cipher=SymmetricKeyAlgorithm.AES256, **kw)
        return ('enc', sorted(enc.encrypters), [(pk.encrypter, pk.pkalg.name) for pk in enc._sessionkeys], enc.is_encrypted)

    def run_ops(tag, k):
        attempt(tag + ' sign', lambda: do_sign(k))
        attempt(tag + ' sign nofpr', lambda: do_sign(k, include_issuer_fingerprint=False))
        attempt(tag + ' sign user', lambda: do_sign(k, user=k.userids[0].name))
        attempt(tag + ' sign bogus user', lambda: do_sign(k, user='nobody-by-that-name'))
        attempt(tag + ' certify', lambda: do_certify(k))
        attempt(tag + ' encrypt', lambda: do_encrypt(k))
        attempt(tag + ' encrypt user', lambda: do_encrypt(k, user=k.userids[0].name))
        attempt(tag + ' decrypt plain', lambda: str(k.decrypt(PGPMessage.new('not encrypted')).message))
        attempt(tag + ' pubkey encrypt', lambda: do_encrypt(k.pubkey) if not k.is_public else 'n/a')

    if 'elgamal' in kf.lower():
        continue

    run_ops('asis', key)
    if key.is_protected:
        with key.unlock(PASS):
            emit('unlocked', key.is_unlocked)
            run_ops('unlocked', key)

    # flag enforcement off
    key._require_usage_flags = False
    attempt('noenforce sign', lambda: do_sign(key))
    attempt('noenforce encrypt', lambda: do_encrypt(key))
    key._require_usage_flags = True

    # every subkey used directly
    for sid, sub in key.subkeys.items():
        if sub.key_algorithm.name == 'ElGamal':
            attempt('sub {} encrypt (elgamal, flags only)'.format(sid), lambda: fl(sub._get_key_flags()))
            continue
        attempt('sub {} sign'.format(sid), lambda: do_sign(sub))
        attempt('sub {} encrypt'.format(sid), lambda: do_encrypt(sub))

    # key without identity refuses everything but its first self-certification
    bare = load(kf)
    bare._uids.clear()
    attempt('bare sign', lambda: do_sign(bare))
    attempt('bare encrypt', lambda: do_encrypt(bare))
    attempt('bare decrypt', lambda: bare.decrypt(PGPMessage.new('x')))
    attempt('bare flags', lambda: fl(bare._get_key_flags()))
    if not bare.is_public and not bare.is_protected:
        uid = PGPUID.new('Bare Bones', email='bare@example.com')
        attempt('bare add_uid', lambda: bare.add_uid(uid, usage={KeyFlags.Sign}, hashes=[HashAlgorithm.SHA256],
                                                   ciphers=[SymmetricKeyAlgorithm.AES256],
                                                   compression=[CompressionAlgorithm.Uncompressed]))
        attempt('bare after uid: signer', lambda: (uid.selfsig.signer, str(uid.selfsig.signer_fingerprint),
                                                   fl(bare._get_key_flags())))
        attempt('bare after uid: sign', lambda: do_sign(bare))
        attempt('bare after uid: encrypt pub', lambda: do_encrypt(bare.pubkey))

# --- a subkey with two binding signatures: the most recent one is in effect
hist = load(KD + 'rsa.1.sec.asc')
hsub = list(hist.subkeys.values())[0]
emit('history before', fl(hsub._get_key_flags()), len(list(hsub.self_signatures)))


def rebind():
    hsub.__or__(hist.bind(hsub, usage={KeyFlags.Authentication}))


attempt('history bind', rebind)
emit('history after', fl(hsub._get_key_flags()), len(list(hsub.self_signatures)))
for flags in [(KeyFlags.Sign,), (KeyFlags.Authentication,)]:
    def pick2():
        with KeyAction(*flags).usage(hist, None) as k:
            return k.fingerprint.keyid
    attempt('history usage {}'.format([int(f) for f in flags]), pick2)
attempt('history sign', lambda: (lambda sg: (sg.signer, str(sg.signer_fingerprint)))(hist.sign('abc')))

# --- encrypt / decrypt round trips and the recipient-id match
pairs = [('rsa.1.pub.asc', 'rsa.1.sec.asc'), ('ecc.1.pub.asc', 'ecc.1.sec.asc'), ('ecc.2.pub.asc', 'ecc.2.sec.asc'),
         ('mixed.1.pub.asc', 'mixed.1.sec.asc'), ('targette.pub.rsa.asc', 'targette.sec.rsa.asc')]
secs = [load(KD + s) for _, s in pairs] + [load(KD + 'rsa.1.enc.asc')]
for pubf, secf in pairs:
    pub = load(KD + pubf)
    pub._require_usage_flags = False
    msg = PGPMessage.new('round trip via ' + pubf, compression=CompressionAlgorithm.Uncompressed)
    enc = attempt('rt encrypt ' + pubf, lambda: pub.encrypt(msg, sessionkey=SK, cipher=SymmetricKeyAlgorithm.AES256))
    if not isinstance(enc, PGPMessage):
        continue
    emit('rt encrypters', sorted(enc.encrypters))
    enc2 = PGPMessage.from_blob(str(enc))
    for sec in secs:
        attempt('rt decrypt {} with {}'.format(pubf, sec.fingerprint.keyid),
                lambda: str(sec.decrypt(enc2).message))
        for sid, sub in sec.subkeys.items():
            attempt('rt decrypt {} with sub {}'.format(pubf, sid), lambda: str(sub.decrypt(enc2).message))
    attempt('rt decrypt with public', lambda: str(pub.decrypt(enc2).message))

# two recipients, one message
rsa_pub, ecc_pub = load(KD + 'rsa.1.pub.asc'), load(KD + 'ecc.1.pub.asc')
m = PGPMessage.new('for two', compression=CompressionAlgorithm.Uncompressed)
m = rsa_pub.encrypt(m, sessionkey=SK, cipher=SymmetricKeyAlgorithm.AES256)
m = ecc_pub.encrypt(m, sessionkey=SK, cipher=SymmetricKeyAlgorithm.AES256)
emit('two encrypters', sorted(m.encrypters), [pk.encrypter for pk in m._sessionkeys])
for sec in secs:
    attempt('two decrypt ' + sec.fingerprint.keyid, lambda: str(sec.decrypt(m).message))
locked = load(KD + 'rsa.1.enc.asc')
with locked.unlock(PASS):
    attempt('two decrypt unlocked', lambda: str(locked.decrypt(m).message))

# one message addressed to two subkeys of the same key (flag enforcement off for the signing subkey)
both = load(KD + 'rsa.1.pub.asc')
m2 = PGPMessage.new('for both subkeys', compression=CompressionAlgorithm.Uncompressed)
for sub in both.subkeys.values():
    sub._require_usage_flags = False
    m2 = sub.encrypt(m2, sessionkey=SK, cipher=SymmetricKeyAlgorithm.AES256)
emit('both encrypters', sorted(m2.encrypters), [pk.encrypter for pk in m2._sessionkeys])
m2 = PGPMessage.from_blob(str(m2))
for sec in secs:
    attempt('both decrypt ' + sec.fingerprint.keyid, lambda: str(sec.decrypt(m2).message))

# stored encrypted fixtures
for mf in sorted(glob.glob('tests/testdata/messages/message.*.asc')):
    em = PGPMessage.from_file(mf)
    emit('fixture', mf, em.is_encrypted, sorted(em.encrypters))
    if not em.encrypters:
        continue
    for sec in secs + [load('tests/testdata/sectest.asc')]:
        attempt('fixture decrypt {} {}'.format(os.path.basename(mf), sec.fingerprint.keyid),
                lambda: hashlib.sha256(bytes(sec.decrypt(em).message if not isinstance(sec.decrypt(em).message, str)
                                             else sec.decrypt(em).message.encode('utf-8'))).hexdigest())

# PGPSignature.new directly
for halg in (None, HashAlgorithm.SHA512):
    s = pgpy.PGPSignature.new(pgpy.constants.SignatureType.BinaryDocument, pgpy.constants.PubKeyAlgorithm.RSAEncryptOrSign,
                              halg, '0123456789ABCDEF',
                              created=__import__('datetime').datetime(2020, 1, 2, 3, 4, 5))
    emit('new', s.signer, s.type.name, s.key_algorithm.name, s.hash_algorithm, s.created,
         [type(sp).__name__ for sp in s._signature.subpackets._hashed_sp.values()],
         [type(sp).__name__ for sp in s._signature.subpackets._unhashed_sp.values()],
         s._signature.header.tag, s._signature.header.version)

blob = '\n'.join(out).encode('utf-8')
if '--dump' in sys.argv:
    sys.stdout.write(blob.decode('utf-8') + '\n')
print(len(out), hashlib.sha256(blob).hexdigest())
