"""Digest of the observable behaviour of the helpers in pgpy/types.py that verification relies on:
PGPObject.int_to_bytes / bytes_to_int / int_byte_len, Fingerprint comparison / repr, and
SignatureVerification (__contains__, __repr__, __len__, truthiness) as returned by PGPKey.verify.
Run as: cd <tree> && /venv/bin/python equiv.py"""
import os
import sys
sys.path.insert(0, os.getcwd())

import copy
import glob
import hashlib
import pickle
import re
import warnings

warnings.simplefilter('ignore')

import pgpy
from pgpy.types import PGPObject, Fingerprint, SignatureVerification
from pgpy.constants import SecurityIssues, HashAlgorithm, SignatureType
from pgpy.packet.types import MPI

out = []


def emit(*a):
    out.append(' | '.join(str(x) for x in a))


def noid(s):
    return re.sub(r'0x[0-9a-fA-F]+', '0x?', str(s))


def safe(o):
    # repr() of a Fingerprint that is not 40 digits long raises
    if isinstance(o, Fingerprint):
        return 'Fingerprint<%s>' % str(o)
    if isinstance(o, tuple):
        return '(%s)' % ','.join(safe(x) for x in o)
    return noid(repr(o))


def attempt(label, fn):
    try:
        r = fn()
        emit(label, 'ok', type(r).__name__, safe(r))
        return r
    except Exception as e:
        emit(label, 'EXC', type(e).__name__, noid(e))


# ---- integer helpers
ints = [0, 1, 127, 128, 255, 256, 65535, 65536, 2 ** 32 - 1, 2 ** 32, 2 ** 64 + 5, 2 ** 2048 - 1, True, False,
        MPI(0), MPI(300), SignatureType.Positive_Cert, HashAlgorithm.SHA512, SecurityIssues.NoSelfSignature]
for i in ints:
    attempt('len(%r)' % (i,), lambda: PGPObject.int_byte_len(i))
    for args in ((), (2,), (4,), (0,), (-3,), (2, 'little'), (1, 'big')):
        r = attempt('i2b(%r,%r)' % (i, args), lambda: PGPObject.int_to_bytes(i, *args))
        if r is not None:
            emit(r.hex(), PGPObject.bytes_to_int(r), PGPObject.bytes_to_int(r, 'little'), PGPObject.bytes_to_int(bytearray(r)))
    attempt('i2b-kw(%r)' % (i,), lambda: PGPObject.int_to_bytes(i, minlen=3, order='little'))
for bad in (-1, -256, None, 1.5, '7', b'\x01'):
    attempt('len-bad(%r)' % (bad,), lambda: PGPObject.int_byte_len(bad))
    attempt('i2b-bad(%r)' % (bad,), lambda: PGPObject.int_to_bytes(bad))
    attempt('i2b-bad2(%r)' % (bad,), lambda: PGPObject.int_to_bytes(bad, 4))
    attempt('b2i-bad(%r)' % (bad,), lambda: PGPObject.bytes_to_int(bad))
attempt('i2b-badorder', lambda: PGPObject.int_to_bytes(5, 2, 'middle'))
attempt('i2b-badminlen', lambda: PGPObject.int_to_bytes(5, None))
attempt('i2b-strminlen', lambda: PGPObject.int_to_bytes(5, '2'))
attempt('b2i-empty', lambda: PGPObject.bytes_to_int(b''))
attempt('b2i-list', lambda: PGPObject.bytes_to_int([1, 2]))
# reachable through every PGPObject subclass / instance as well
emit(pgpy.PGPSignature.int_to_bytes(258, 4).hex(), pgpy.PGPSignature().int_to_bytes(1).hex(),
     pgpy.packet.fields.MPIs.int_to_bytes(0).hex())


# ---- Fingerprint
class StrSub(str):
    pass


fps = ['F429 4BC8 094A 7E05 85C8 5E86 3747 3B37 58C4 4F36', 'f4294bc8094a7e0585c85e8637473b3758c44f36', '37473B3758C44F36',
       '58C44F36', 'ABCD']
others = ['F4294BC8094A7E0585C85E8637473B3758C44F36', 'F429 4BC8 094A 7E05 85C8  5E86 3747 3B37 58C4 4F36',
          'f4294bc8094a7e0585c85e8637473b3758c44f36', '37473B3758C44F36', '3747 3B37 58C4 4F36', '58C44F36', '58C4 4F36',
          '58c44f36', 'C44F36', '', ' ', 'ABCD', b'37473B3758C44F36', bytearray(b'58C4 4F36'), b'\xff\xfe', b'',
          StrSub('37473B3758C44F36'), StrSub('nope'), None, 0, 5, 1.5, (), [], object, ('37473B3758C44F36',),
          Fingerprint('37473B3758C44F36'), Fingerprint('F4294BC8094A7E0585C85E8637473B3758C44F36'), Fingerprint('58C44F36')]
for f in fps:
    fp = attempt('Fingerprint(%r)' % f, lambda: Fingerprint(f))
    if fp is None:
        continue
    emit(f, str(fp), fp.keyid, fp.shortid, type(fp.keyid).__name__, hash(fp) == hash(str(fp)), bytes(fp).hex() if len(fp) % 2 == 0 else '-')
    attempt('repr(%r)' % f, lambda: repr(fp))
    attempt('pretty(%r)' % f, lambda: fp.__pretty__())
    for o in others:
        emit(f, safe(o), attempt('eq', lambda: fp == o), attempt('ne', lambda: fp != o), attempt('req', lambda: o == fp),
             attempt('rne', lambda: o != fp))
    emit(f, 'in-set', fp in {'37473B3758C44F36'}, fp in {'F4294BC8094A7E0585C85E8637473B3758C44F36'},
         fp in ['58C44F36'], '58C44F36' in [fp], {fp: 1}.get('F4294BC8094A7E0585C85E8637473B3758C44F36'))
    emit(f, 'copies', pickle.loads(pickle.dumps(fp)) == fp, type(pickle.loads(pickle.dumps(fp))).__name__, copy.copy(fp) is fp,
         Fingerprint(fp) is fp)
for bad in ('', 'xyz', '12 34 zz', None, 5, b'ABCD'):
    attempt('Fingerprint-bad(%r)' % (bad,), lambda: Fingerprint(bad))

# ---- SignatureVerification
sv = SignatureVerification()
emit('empty', repr(sv), bool(sv), len(sv), list(sv.good_signatures), list(sv.bad_signatures), 'x' in sv, None in sv)
attempt('empty.contains-unhashable', lambda: [] in sv)
attempt('empty.contains-bytearray', lambda: bytearray(b'x') in sv)
sv.add_sigsubj('sigA', 'keyA', 'subjA', SecurityIssues.OK)
sv.add_sigsubj('sigB', 'keyA', None, SecurityIssues.HashFunctionNotCollisionResistant)
emit('two', repr(sv), bool(sv), len(sv), 'sigA' in sv, 'subjA' in sv, 'keyA' in sv, None in sv, 'sigB' in sv, 0 in sv)
sv.add_sigsubj('sigC', 'keyB')
emit('three', repr(sv), bool(sv), len(sv), 'sigC' in sv, [s.signature for s in sv.good_signatures], [s.signature for s in sv.bad_signatures])
sv.add_sigsubj('sigD', 'keyB', bytearray(b'unhashable subject'), SecurityIssues.OK)
attempt('unhashable-subject.contains', lambda: 'sigA' in sv)
attempt('unhashable-subject.contains2', lambda: bytearray(b'unhashable subject') in sv)
other = SignatureVerification()
other.add_sigsubj('sigE', 'keyC', 'subjE', SecurityIssues.WrongSig)
sv2 = SignatureVerification()
sv2.add_sigsubj('sigF', 'keyC', 'subjF', SecurityIssues.OK)
emit('and', repr(sv2), repr(sv2 & other), len(sv2), 'sigE' in sv2, 'subjF' in sv2, (sv2 & other) is sv2, len(sv2))
attempt('and-bad', lambda: sv2 & 5)
attempt('setattr', lambda: setattr(sv2, 'extra', 1))
emit('slots', SignatureVerification.__slots__, hasattr(sv2, '__dict__'), hasattr(sv2, '__nonzero__'), sv2.__nonzero__())


class SVSub(SignatureVerification):
    pass


sub = SVSub()
emit('subclass', repr(sub), bool(sub), len(sub), sub._subjects)

# ---- through the public verify API
keys = {}
for path in sorted(glob.glob('tests/testdata/keys/*.pub.asc')) + sorted(glob.glob('tests/testdata/signatures/*.key.asc')):
    key, _ = pgpy.PGPKey.from_file(path)
    name = os.path.basename(path)
    keys[name] = key
    emit(name, repr(key.fingerprint), key.fingerprint.keyid, key.fingerprint == key.fingerprint.keyid,
         key.fingerprint.keyid == key.fingerprint, [k == key.fingerprint for k in key.subkeys],
         [repr(sk.fingerprint) for sk in key.subkeys.values()])
    r = attempt(name + '.verify', lambda: key.verify(key))
    if r is not None:
        emit(name, repr(r), bool(r), len(r), key in r, key.userids[0] in r, all(s.signature in r for s in r._subjects),
             'nothing' in r, [(int(s.issues), s.signature.type.name, s.signature.signer == key.fingerprint) for s in r._subjects])

for base in ('debian-sid', 'ubuntu-precise', 'aptapproval-test'):
    key = keys[base + '.key.asc']
    sig = pgpy.PGPSignature.from_file('tests/testdata/signatures/%s.sig.asc' % base)
    subj = open('tests/testdata/signatures/%s.subj' % base, 'rb').read()
    emit(base, hashlib.sha256(sig.hashdata(subj)).hexdigest(), sig.signer, sig.signer == key.fingerprint, key.fingerprint == sig.signer,
         sig.signer in key.subkeys)
    for name, data in (('good', subj), ('tampered', b'x' + subj), ('text', subj.decode('latin-1'))):
        r = attempt('%s.%s' % (base, name), lambda: key.verify(data, sig))
        if r is not None:
            emit(base, name, repr(r), bool(r), len(r), sig in r, data in r, 'zzz' in r, [int(s.issues) for s in r._subjects])
    r = attempt(base + '.bytearray', lambda: key.verify(bytearray(subj), sig))
    if r is not None:
        emit(base, 'bytearray', repr(r), bool(r))
        attempt(base + '.bytearray.contains', lambda: sig in r)

for path in sorted(glob.glob('tests/testdata/messages/*signed*.asc')) + ['tests/testdata/blocks/cleartext.twosigs.asc']:
    msg = pgpy.PGPMessage.from_file(path)
    for kname, key in sorted(keys.items()):
        r = attempt('%s by %s' % (os.path.basename(path), kname), lambda: key.verify(msg))
        if r is not None:
            emit(repr(r), bool(r), len(r), [int(s.issues) for s in r._subjects])
            # literal messages are verified over a bytearray, which cannot be looked up
            attempt('contains-message', lambda: msg.message in r)
            attempt('contains-sigs', lambda: [s.signature in r for s in r._subjects])

blob = '\n'.join(out).encode('utf-8')
print(len(out), hashlib.sha256(blob).hexdigest())
if '-v' in sys.argv:
    print(blob.decode('utf-8'))
