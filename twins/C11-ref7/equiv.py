import glob
import hashlib
import os
import sys
import warnings
from datetime import datetime, timezone

sys.path.insert(0, os.getcwd())
warnings.simplefilter('ignore')

import pgpy  # noqa: E402
from pgpy import PGPKey, PGPMessage, PGPSignature  # noqa: E402
from pgpy.constants import HashAlgorithm, SignatureType  # noqa: E402

out = []


def rec(*a):
    out.append(repr(a))


CREATED = datetime(2020, 1, 2, 3, 4, 5, tzinfo=timezone.utc)

rsa, _ = PGPKey.from_file('tests/testdata/keys/rsa.1.sec.asc')
tgt, _ = PGPKey.from_file('tests/testdata/keys/targette.sec.rsa.asc')
rsapub, _ = PGPKey.from_file('tests/testdata/keys/rsa.1.pub.asc')

TEXTS = [
    u'',
    u'\n',
    u'one line',
    u'one line\n',
    u'- dash\n-- two\n--- three\n-\n- \n',
    u'From me\n-----BEGIN PGP SIGNATURE-----\n-----END PGP SIGNATURE-----\n',
    u'-----BEGIN PGP SIGNED MESSAGE-----\nHash: SHA1\n\n- -x\n',
    u'trailing blanks  \t\nmore\t \n \n\t\nlast  ',
    u'crlf\r\nline two \r\n-dash\r\n',
    u'lone\rcr\r-x\r',
    u'\n\n\n-\n\n',
    u'non-ascii éü中 \U0001F600\n- é\n',
    u'x' * 5000 + u'\n-' + u'y' * 3000,
    u'a\n- - b\n- -- c\n -d\n',
]

# ---- dash escaping helpers
for t in TEXTS:
    e = PGPMessage.dash_escape(t)
    rec('esc', e, PGPMessage.dash_unescape(e), PGPMessage.dash_unescape(t))

# ---- sign / str / parse / verify
for i, t in enumerate(TEXTS):
    for halgs in ([HashAlgorithm.SHA256], [HashAlgorithm.SHA512, HashAlgorithm.SHA1], []):
        msg = PGPMessage.new(t, cleartext=True)
        keys = [rsa, tgt]
        for k, h in zip(keys, halgs):
            sig = k.sign(msg, hash=h, created=CREATED)
            rec('sigtype', sig.type, sig.hash_algorithm, bytes(sig.hashdata(msg._signed_data)) if hasattr(msg, '_signed_data') else None)
            msg |= sig
        s = str(msg)
        rec('str', i, s)
        rec('bytes', bytes(msg))
        try:
            back = PGPMessage.from_blob(s)
        except Exception as ex:  # the armor regex may reject some texts; must be the same on both trees
            rec('parse-exc', type(ex).__name__, str(ex))
            continue
        rec('back', back.type, back.message, back.message == msg.message, [bytes(x) for x in back.signatures],
            dict(back.ascii_headers), sorted(back.signers))
        rec('str2', str(back) == s, str(back))
        if halgs:
            for k in keys[:len(halgs)]:
                v = k.pubkey.verify(back)
                rec('verify', bool(v), [(int(x.issues), str(x.by.fingerprint), x.subject) for x in v._subjects])

# ---- detached / non-cleartext signing paths of PGPKey.sign
for subj in (None, u'plain text\r\nwith lines\n', b'bytes \n subject', bytearray(b'ba\r\n')):
    sig = rsa.sign(subj, created=CREATED, hash=HashAlgorithm.SHA256)
    rec('detached', sig.type, bytes(sig))
lit = PGPMessage.new(u'literal message\n- dash\n', file=False)
lit._message.mtime = CREATED  # the literal packet's timestamp would otherwise be 'now'
sig = rsa.sign(lit, created=CREATED, hash=HashAlgorithm.SHA384)
rec('lit', sig.type, bytes(sig))
lit |= sig
rec('litstr', str(lit), bytes(lit), bool(rsapub.verify(lit)))
rec('litback', bytes(PGPMessage.from_blob(str(lit))), bytes(PGPMessage.from_blob(bytes(lit))))

# ---- canonical-document hashing
csig = PGPSignature.new(SignatureType.CanonicalDocument, rsa.key_algorithm, HashAlgorithm.SHA256,
                        rsa.fingerprint.keyid, created=CREATED)
for b in (b'', b'a\nb\r\nc\rd\n', b'\n\n\r\n\r\r\n', b'no newline', bytearray(b'x\ny')):
    rec('hashdata', bytes(csig.hashdata(b)))

# ---- fixtures
for fn in sorted(glob.glob('tests/testdata/messages/*.asc')) + sorted(glob.glob('tests/testdata/signatures/*.asc')):
    with warnings.catch_warnings(record=True) as w:
        warnings.simplefilter('always')
        try:
            if '/signatures/' in fn:
                o = PGPSignature.from_file(fn)
                rec('fx-sig', fn, str(o), bytes(o))
                continue
            m = PGPMessage.from_file(fn)
        except Exception as ex:
            rec('fx-exc', fn, type(ex).__name__, str(ex))
            continue
        rec('fx', fn, m.type, str(m), bytes(m), [str(x.message) for x in w])
        if m.type == 'cleartext':
            rec('fx-ct', m.message, [bytes(x) for x in m.signatures], bool(rsapub.verify(m)),
                str(PGPMessage.from_blob(str(m))) == str(m))

# ---- parse error cases
for blob in ('tests/testdata/keys/rsa.1.pub.asc',):
    try:
        PGPMessage.from_file(blob)
        rec('noerr')
    except Exception as ex:
        rec('err', type(ex).__name__, str(ex))
for text in (u'not armored at all', u'-----BEGIN PGP SIGNED MESSAGE-----\nHash: SHA1\n\nx\n'):
    rec('is_armor', pgpy.types.Armorable.is_armor(text))
    try:
        r = pgpy.types.Armorable.ascii_unarmor(text)
        rec('unarmor', sorted(r.items()))
    except Exception as ex:
        rec('err', type(ex).__name__, str(ex))
with open('tests/testdata/messages/cleartext.dashesc.signed.asc') as f:
    r = pgpy.types.Armorable.ascii_unarmor(f.read())
    rec('unarmor-fx', [(k, bytes(v) if isinstance(v, bytearray) else v) for k, v in sorted(r.items())])

h = hashlib.sha256()
for line in out:
    h.update(line.encode('utf-8', 'surrogatepass'))
    h.update(b'\n')
print(len(out), h.hexdigest())
