#!/usr/bin/env python
"""Deterministic probe for property C01 (signature soundness).

Run as:  cd <tree> && PYTHONHASHSEED=0 /venv/bin/python equiv.py
Prints a transcript of verify verdicts, hashed-octet digests and exception
class names.  No output depends on randomness or on the wall clock.
"""
import copy
import glob
import hashlib
import os
import sys
import warnings
from datetime import datetime, timezone

sys.path.insert(0, os.getcwd())
warnings.simplefilter('ignore')

import pgpy  # noqa: E402
from pgpy import PGPKey, PGPMessage, PGPSignature, PGPUID  # noqa: E402
from pgpy.constants import (HashAlgorithm, SignatureType, PubKeyAlgorithm, KeyFlags,  # noqa: E402
                            RevocationReason)
from pgpy.types import SignatureVerification  # noqa: E402

assert os.path.dirname(os.path.dirname(os.path.abspath(pgpy.__file__))) == os.getcwd(), pgpy.__file__

T0 = datetime(2020, 1, 2, 3, 4, 5, tzinfo=timezone.utc)
OUT = []


def P(*a):
    line = ' '.join(str(x) for x in a)
    OUT.append(line)
    print(line)


def h(b):
    return hashlib.sha256(bytes(b)).hexdigest()[:24]


def subjname(s):
    if isinstance(s, PGPKey):
        return 'key:' + str(s.fingerprint)[-8:]
    if isinstance(s, PGPUID):
        return ('uid:' if s.is_uid else 'ua:') + h(s.hashdata)[:8]
    if s is None:
        return 'None'
    if isinstance(s, PGPMessage):
        return 'msg:' + s.type
    if isinstance(s, (bytes, bytearray, str)):
        return type(s).__name__ + ':' + h(s.encode('utf-8', 'replace') if isinstance(s, str) else s)[:8]
    return type(s).__name__


def sv_desc(sv):
    rows = []
    for ss in sv._subjects:
        rows.append('(%s,%d,%s,%s,by=%s)' % (ss.signature.type.name, int(ss.issues), ss.signature.signer,
                                             subjname(ss.subject), str(ss.by.fingerprint)[-8:]))
    good = len(list(sv.good_signatures))
    bad = len(list(sv.bad_signatures))
    return 'bool=%s n=%d good=%d bad=%d %s' % (bool(sv), len(sv), good, bad, ' '.join(rows))


def V(label, key, subject, sig=None):
    try:
        sv = key.verify(subject, sig) if sig is not None else key.verify(subject)
        P(label, '->', sv_desc(sv))
        return sv
    except Exception as e:  # noqa
        P(label, '-> EXC', type(e).__name__)
        return None


def HD(label, sig, subject):
    try:
        P(label, 'hashdata', h(sig.hashdata(subject)))
    except Exception as e:  # noqa
        P(label, 'hashdata EXC', type(e).__name__)


def load(path, cls):
    obj = cls.from_file(path)
    return obj[0] if isinstance(obj, tuple) else obj


def reparse(sig):
    return PGPSignature.from_blob(bytes(sig))


def retime(sig, newdt):
    """signature whose hashed creation-time octets are replaced (on the wire, then re-read)"""
    import calendar
    raw = bytes(sig)
    old = calendar.timegm(sig.created.utctimetuple()).to_bytes(4, 'big')
    new = calendar.timegm(newdt.utctimetuple()).to_bytes(4, 'big')
    i = raw.index(b'\x05\x02' + old)
    return PGPSignature.from_blob(raw[:i + 2] + new + raw[i + 6:])


# ---------------------------------------------------------------- fixtures
KD = 'tests/testdata/keys/'
pubs = {}
secs = {}
for p in sorted(glob.glob(KD + '*.pub*.asc')):
    pubs[os.path.basename(p).split('.pub')[0]] = load(p, PGPKey)
for p in sorted(glob.glob(KD + '*.sec*.asc')):
    secs[os.path.basename(p).split('.sec')[0]] = load(p, PGPKey)

P('== keys')
for n, k in sorted(pubs.items()):
    P(n, k.fingerprint, k.key_algorithm.name, 'subkeys', [str(x) for x in k.subkeys],
      'uids', len(k.userids), 'uas', len(k.userattributes))

# ---------------------------------------------------------------- 1. keys verify themselves
P('== self verification of test keys (collection of certifications inside keys)')
for n, k in sorted(pubs.items()):
    V('self ' + n, k, k)
    for uid in k.userids:
        V('  uid ' + n, k, uid)
    for ua in k.userattributes:
        V('  ua ' + n, k, ua)
    for skid, sk in k.subkeys.items():
        V('  subkey ' + n + ' ' + str(skid), k, sk)
    # every stored signature, one at a time, plus its hashed octets
    for uid in list(k.userids) + list(k.userattributes):
        for s in uid.__sig__:
            HD('  stored %s %s' % (n, s.type.name), s, uid)
    for sk in k.subkeys.values():
        for s in sk.__sig__:
            HD('  stored %s %s' % (n, s.type.name), s, sk)
    for s in k.__sig__:
        HD('  stored %s %s' % (n, s.type.name), s, k)

P('== cross verification (every key against every other key)')
for n1, k1 in sorted(pubs.items()):
    for n2, k2 in sorted(pubs.items()):
        if n1 != n2:
            V('cross %s verifies %s' % (n1, n2), k1, k2)

for p in sorted(glob.glob('tests/testdata/blocks/*key.asc')) + ['tests/testdata/blocks/expyro.asc',
                                                                 'tests/testdata/blocks/revochiio.asc',
                                                                 'tests/testdata/pubtest.asc',
                                                                 'tests/testdata/sectest.asc']:
    try:
        k = load(p, PGPKey)
    except Exception as e:  # noqa
        P('load', p, 'EXC', type(e).__name__)
        continue
    V('block ' + os.path.basename(p), k, k)
    for sk in k.subkeys.values():
        V('block subkey ' + os.path.basename(p), k, sk)
    for uid in k.userids:
        V('block uid ' + os.path.basename(p), k, uid)

# ---------------------------------------------------------------- 2. revocations
P('== stored revocations')
for p in sorted(glob.glob('tests/testdata/revocations/*.asc')):
    n = os.path.basename(p).split('.revoc')[0]
    try:
        with open(p) as f:
            rsig = PGPSignature.from_blob(bytes(pgpy.types.Armorable.ascii_unarmor(f.read())['body']))
    except Exception as e:  # noqa
        P('load', p, 'EXC', type(e).__name__)
        continue
    k = pubs.get(n) or pubs.get(n + '.rsa') or load(KD + 'targette.pub.rsa.asc', PGPKey)
    P(n, rsig.type.name, rsig.signer, rsig.hash_algorithm.name, rsig.key_algorithm.name)
    HD('revoc ' + n, rsig, k)
    V('revoc ' + n, k, k, rsig)
    for n2, k2 in sorted(pubs.items()):
        if k2 is not k:
            V('revoc %s with wrong key %s' % (n, n2), k2, k, rsig)
            V('revoc %s over wrong subject %s' % (n, n2), k, k2, rsig)

# ---------------------------------------------------------------- 3. detached signatures on files
P('== detached signatures from testdata/signatures')
SD = 'tests/testdata/signatures/'
for base in ('aptapproval-test', 'debian-sid', 'ubuntu-precise'):
    k = load(SD + base + '.key.asc', PGPKey)
    sig = load(SD + base + '.sig.asc', PGPSignature)
    with open(SD + base + '.subj', 'rb') as f:
        subj = f.read()
    P(base, sig.type.name, sig.signer, sig.hash_algorithm.name, sig.key_algorithm.name, len(subj))
    HD(base, sig, subj)
    V(base + ' bytes', k, subj, sig)
    V(base + ' bytearray', k, bytearray(subj), sig)
    try:
        V(base + ' str', k, subj.decode('utf-8'), sig)
    except UnicodeDecodeError:
        P(base, 'subject is not utf-8')
    # subject mutations
    for i in (0, 1, len(subj) // 2, len(subj) - 1):
        m = bytearray(subj)
        m[i] ^= 0x01
        V('%s flip@%d' % (base, i), k, bytes(m), sig)
    V(base + ' truncated', k, subj[:-1], sig)
    V(base + ' extended', k, subj + b'\n', sig)
    V(base + ' empty', k, b'', sig)
    V(base + ' None subject', k, None, sig)
    # wrong keys
    for n2, k2 in sorted(pubs.items()):
        V('%s wrong key %s' % (base, n2), k2, subj, sig)
    # signature packet mutations
    for st in SignatureType:
        m = reparse(sig)
        m._signature.sigtype = st
        V('%s type->%s' % (base, st.name), k, subj, m)
    for ha in (HashAlgorithm.MD5, HashAlgorithm.SHA1, HashAlgorithm.RIPEMD160, HashAlgorithm.SHA224,
               HashAlgorithm.SHA256, HashAlgorithm.SHA384, HashAlgorithm.SHA512):
        m = reparse(sig)
        m._signature.halg = ha
        V('%s halg->%s' % (base, ha.name), k, subj, m)
    for pa in (PubKeyAlgorithm.RSAEncryptOrSign, PubKeyAlgorithm.RSASign, PubKeyAlgorithm.DSA,
               PubKeyAlgorithm.ECDSA, PubKeyAlgorithm.EdDSA):
        m = reparse(sig)
        try:
            m._signature.pubalg = pa
            m._signature.signature = sig._signature.signature
        except Exception as e:  # noqa
            P('%s pkalg->%s set EXC %s' % (base, pa.name, type(e).__name__))
            continue
        V('%s pkalg->%s' % (base, pa.name), k, subj, m)
    m = reparse(sig)
    m._signature.subpackets['h_CreationTime'][-1].created = T0
    V(base + ' creation time attribute changed after parse (wire octets kept)', k, subj, m)
    m = retime(sig, T0)
    P(base, 'retimed', m.created.isoformat())
    V(base + ' creation time changed', k, subj, m)
    m = reparse(sig)
    m._signature.subpackets.addnew('Policy', hashed=True, uri='http://example.com/')
    m._signature.subpackets.update_hlen()
    V(base + ' hashed subpacket added', k, subj, m)
    m = reparse(sig)
    m._signature.subpackets.addnew('Policy', hashed=False, uri='http://example.com/')
    m._signature.subpackets.update_hlen()
    V(base + ' unhashed subpacket added (not signed data)', k, subj, m)
    # signature integers
    raw = bytearray(bytes(sig))
    for off in (1, 2, 5, len(raw) // 2):
        r2 = bytearray(raw)
        r2[-off] ^= 0x01
        try:
            m = PGPSignature.from_blob(bytes(r2))
            V('%s sig byte -%d flipped' % (base, off), k, subj, m)
        except Exception as e:  # noqa
            P('%s sig byte -%d flipped parse EXC %s' % (base, off, type(e).__name__))

sig = load(SD + 'ecc.2.sig.asc', PGPSignature)
P('ecc.2.sig', sig.type.name, sig.signer, sig.hash_algorithm.name, sig.key_algorithm.name)
for n2, k2 in sorted(pubs.items()):
    V('ecc.2.sig key %s over key' % n2, k2, k2, sig)
    V('ecc.2.sig key %s over text' % n2, k2, 'text', sig)

for p in ('tests/testdata/blocks/rsasignature.asc', 'tests/testdata/blocks/signature.expired.asc',
          'tests/testdata/blocks/signature.non-exportable.asc'):
    s = load(p, PGPSignature)
    P(os.path.basename(p), s.type.name, s.signer, s.hash_algorithm.name, s.key_algorithm.name, h(bytes(s)))
    HD(os.path.basename(p), s, b'some subject')
    for n2, k2 in sorted(pubs.items()):
        V('%s by %s' % (os.path.basename(p), n2), k2, b'some subject', s)

# ---------------------------------------------------------------- 4. signed messages
P('== signatures carried inside messages')
allkeys = dict(pubs)
for base in ('aptapproval-test', 'debian-sid', 'ubuntu-precise'):
    allkeys[base] = load(SD + base + '.key.asc', PGPKey)
for p in sorted(glob.glob('tests/testdata/messages/*signed*.asc')) + \
        ['tests/testdata/blocks/cleartext.asc', 'tests/testdata/blocks/cleartext.twosigs.asc',
         'tests/testdata/blocks/message.signed.asc', 'tests/testdata/blocks/message.onepass.asc',
         'tests/testdata/blocks/message.two_onepass.asc', 'tests/testdata/blocks/message.literal.asc',
         'tests/testdata/blocks/message.compressed.asc']:
    try:
        msg = load(p, PGPMessage)
    except Exception as e:  # noqa
        P('load', p, 'EXC', type(e).__name__)
        continue
    bn = os.path.basename(p)
    P(bn, msg.type, 'signers', sorted(msg.signers), 'nsig', len(msg.signatures))
    for s in msg.signatures:
        HD(bn + ' ' + s.type.name, s, msg._signed_data)
    for n2, k2 in sorted(allkeys.items()):
        V('%s by %s' % (bn, n2), k2, msg)
        for s in msg.signatures:
            V('%s detached-style by %s' % (bn, n2), k2, msg._signed_data, s)
    # tampered message text
    if msg.type == 'cleartext':
        m2 = copy.copy(msg)
        m2._message = (msg.message + 'x') if isinstance(msg.message, str) else msg.message + b'x'
        for n2, k2 in sorted(allkeys.items()):
            if set(msg.signers) & ({k2.fingerprint.keyid} | set(k2.subkeys)):
                V('%s tampered by %s' % (bn, n2), k2, m2)
    elif msg.signatures:
        m2 = copy.copy(msg)
        m2._message._contents = bytearray(m2._message.contents) + b'x'
        for n2, k2 in sorted(allkeys.items()):
            if set(msg.signers) & ({k2.fingerprint.keyid} | set(k2.subkeys)):
                V('%s tampered by %s' % (bn, n2), k2, m2)

# ---------------------------------------------------------------- 5. fresh signatures of every type
P('== fresh signatures (fixed creation time)')
TEXTS = [b'', b'a', 'hello world', 'line1\nline2\r\nline3\n', 'café ☃', bytearray(b'\x00\x01\xff' * 100),
         b'x' * 70000]
for n in sorted(secs):
    sk = secs[n]
    pk = pubs[n]
    if sk.is_protected:
        P(n, 'is protected; skipped')
        continue
    P('-- key', n, sk.key_algorithm.name)
    det = sk.key_algorithm in (PubKeyAlgorithm.RSAEncryptOrSign, PubKeyAlgorithm.EdDSA)
    other = [pubs[x] for x in sorted(pubs) if x != n]
    # documents, each hash
    for ha in (HashAlgorithm.SHA1, HashAlgorithm.SHA224, HashAlgorithm.SHA256, HashAlgorithm.SHA384,
               HashAlgorithm.SHA512, HashAlgorithm.RIPEMD160, HashAlgorithm.MD5):
        try:
            s = sk.sign('hello world', hash=ha, created=T0)
        except Exception as e:  # noqa
            P(n, ha.name, 'sign EXC', type(e).__name__)
            continue
        HD('%s doc %s' % (n, ha.name), s, 'hello world')
        if det:
            P('%s doc %s sigbytes' % (n, ha.name), h(bytes(s)))
        V('%s doc %s good' % (n, ha.name), pk, 'hello world', s)
        V('%s doc %s reparsed' % (n, ha.name), pk, 'hello world', reparse(s))
        V('%s doc %s bad' % (n, ha.name), pk, 'hello world!', s)
        V('%s doc %s via secret key' % (n, ha.name), sk, 'hello world', s)
    for t in TEXTS:
        s = sk.sign(t, created=T0)
        HD('%s text %s' % (n, subjname(t)), s, t)
        V('%s text %s good' % (n, subjname(t)), pk, t, s)
        t2 = (t + 'z') if isinstance(t, str) else bytes(t) + b'z'
        V('%s text %s appended' % (n, subjname(t)), pk, t2, s)
        for o in other[:2]:
            V('%s text %s wrong key' % (n, subjname(t)), o, t, s)
    # timestamp / standalone
    s = sk.sign(None, created=T0)
    HD(n + ' timestamp', s, None)
    V(n + ' timestamp good', pk, None, s)
    m = reparse(s)
    m._signature.sigtype = SignatureType.Standalone
    V(n + ' timestamp retyped standalone', pk, None, m)
    m = retime(s, datetime(2021, 1, 1, tzinfo=timezone.utc))
    P(n, 'retimed', m.created.isoformat())
    V(n + ' timestamp time changed', pk, None, m)
    s2 = sk.sign(None, created=T0)
    s2._signature.subpackets['h_CreationTime'][-1].created = datetime(2021, 1, 1, tzinfo=timezone.utc)
    V(n + ' timestamp time changed in memory', pk, None, s2)
    # messages
    lit = PGPMessage.new('literal text\nsecond line \n', file=False)
    lit._message.mtime = T0
    s = sk.sign(lit, created=T0)
    HD(n + ' literal message', s, lit._signed_data)
    lit |= s
    V(n + ' literal message good', pk, lit)
    lit2 = PGPMessage.from_blob(bytes(lit))
    V(n + ' literal message reparsed', pk, lit2)
    lit2._message._contents = bytearray(b'literal text\nsecond line\n')
    V(n + ' literal message altered', pk, lit2)
    for o in other[:2]:
        V(n + ' literal message wrong key', o, lit)
    ct = PGPMessage.new('clear text  \nsecond line\t\n- dash\n', cleartext=True)
    s = sk.sign(ct, created=T0)
    HD(n + ' cleartext message', s, ct._signed_data)
    ct |= s
    V(n + ' cleartext good', pk, ct)
    ct2 = PGPMessage.from_blob(str(ct))
    V(n + ' cleartext reparsed', pk, ct2)
    ct2._message = ct2._message.replace(b'second', b'third') if isinstance(ct2._message, (bytes, bytearray)) \
        else ct2._message.replace('second', 'third')
    V(n + ' cleartext altered', pk, ct2)
    # binary sig over text retyped canonical and back
    s = sk.sign('a\nb\n', created=T0)
    m = reparse(s)
    m._signature.sigtype = SignatureType.CanonicalDocument
    V(n + ' binary->canonical retype', pk, 'a\nb\n', m)
    HD(n + ' canonical LF', m, b'a\nb\n')
    HD(n + ' canonical CRLF', m, b'a\r\nb\r\n')
    # certifications on a copy of the public key
    tk = copy.copy(pk)
    uid = tk.userids[0]
    for lvl in (SignatureType.Generic_Cert, SignatureType.Persona_Cert, SignatureType.Casual_Cert,
                SignatureType.Positive_Cert):
        s = sk.certify(uid, level=lvl, created=T0)
        HD('%s cert %s' % (n, lvl.name), s, uid)
        V('%s cert %s good' % (n, lvl.name), pk, uid, s)
        for lvl2 in (SignatureType.Generic_Cert, SignatureType.Persona_Cert, SignatureType.Casual_Cert,
                     SignatureType.Positive_Cert, SignatureType.CertRevocation, SignatureType.Attestation):
            if lvl2 != lvl:
                m = reparse(s)
                m._signature.sigtype = lvl2
                V('%s cert %s retyped %s' % (n, lvl.name, lvl2.name), pk, uid, m)
        # other uid of another key as subject
        for o in other[:2]:
            V('%s cert %s other uid' % (n, lvl.name), pk, o.userids[0], s)
            V('%s cert %s wrong key' % (n, lvl.name), o, uid, s)
    # altered uid
    s = sk.certify(uid, created=T0)
    uid2 = PGPUID.new('Mallory', email='mallory@example.com')
    uid2._parent = tk
    V(n + ' cert over different uid same key', pk, uid2, s)
    for ua in tk.userattributes:
        s = sk.certify(ua, created=T0)
        HD(n + ' cert user attribute', s, ua)
        V(n + ' cert user attribute good', pk, ua, s)
        V(n + ' cert user attribute vs uid', pk, uid, s)
    # direct key, key revocation
    s = sk.certify(tk, created=T0)
    P(n, 'direct key type', s.type.name)
    HD(n + ' direct key', s, tk)
    V(n + ' direct key good', pk, tk, s)
    for o in other[:2]:
        V(n + ' direct key over other key', pk, o, s)
    s = sk.revoke(tk, created=T0, reason=RevocationReason.Retired, comment='bye')
    P(n, 'revoke key type', s.type.name)
    HD(n + ' key revocation', s, tk)
    V(n + ' key revocation good', pk, tk, s)
    m = reparse(s)
    m._signature.sigtype = SignatureType.DirectlyOnKey
    V(n + ' key revocation retyped direct', pk, tk, m)
    s = sk.revoke(uid, created=T0)
    P(n, 'revoke uid type', s.type.name)
    HD(n + ' cert revocation', s, uid)
    V(n + ' cert revocation good', pk, uid, s)
    m = reparse(s)
    m._signature.sigtype = SignatureType.Generic_Cert
    V(n + ' cert revocation retyped cert', pk, uid, m)
    # subkeys
    for skid, ssub in sk.subkeys.items():
        psub = pk.subkeys[skid]
        s = sk.revoke(psub, created=T0)
        P(n, 'revoke subkey type', s.type.name)
        HD(n + ' subkey revocation', s, psub)
        V(n + ' subkey revocation good', pk, psub, s)
        m = reparse(s)
        m._signature.sigtype = SignatureType.Subkey_Binding
        V(n + ' subkey revocation retyped binding', pk, psub, m)
        try:
            s = sk.bind(psub, created=T0, usage={KeyFlags.EncryptCommunications}, crosssign=False)
            P(n, 'bind type', s.type.name)
            HD(n + ' subkey binding', s, psub)
            V(n + ' subkey binding good', pk, psub, s)
            m = reparse(s)
            m._signature.sigtype = SignatureType.SubkeyRevocation
            V(n + ' subkey binding retyped revocation', pk, psub, m)
            for o in other:
                for osub in list(o.subkeys.values())[:1]:
                    V(n + ' subkey binding over foreign subkey', pk, osub, s)
        except Exception as e:  # noqa
            P(n, 'bind EXC', type(e).__name__)
        if ssub.key_algorithm.can_sign:
            try:
                s = ssub.bind(sk, created=T0)
                P(n, 'crosssig type', s.type.name, s.signer)
                HD(n + ' primary key binding', s, pk)
                HD(n + ' primary key binding (subkey subject)', s, psub)
                V(n + ' primary key binding good (subject primary)', pk, pk, s)
                V(n + ' primary key binding via subkey', psub, pk, s)
            except Exception as e:  # noqa
                P(n, 'crosssig EXC', type(e).__name__)
            # subkey-issued document signature; delegation from primary
            try:
                s = ssub.sign('by subkey', created=T0)
                V(n + ' subkey doc via primary', pk, 'by subkey', s)
                V(n + ' subkey doc via subkey', psub, 'by subkey', s)
                V(n + ' subkey doc bad', pk, 'by subkey?', s)
                for o in other[:2]:
                    V(n + ' subkey doc wrong key', o, 'by subkey', s)
            except Exception as e:  # noqa
                P(n, 'subkey sign EXC', type(e).__name__)

# ---------------------------------------------------------------- 6. argument handling of verify
P('== argument handling')
k = pubs['rsa.1']
for bad in (12, 1.5, object(), [b'x'], ('a',), {'a': 1}, memoryview(b'abc')):
    V('subject %s' % type(bad).__name__, k, bad)
    V('subject %s with sig' % type(bad).__name__, k, bad, load(SD + 'debian-sid.sig.asc', PGPSignature))
for bad in (12, 'sig', b'sig', object(), [1]):
    V('signature %s' % type(bad).__name__, k, 'text', bad)
V('no signature, str subject', k, 'text')
V('no signature, bytes subject', k, b'text')
V('no signature, None subject', k, None)
V('no signature, unsigned message', k, PGPMessage.new('unsigned'))
V('no signature, bare uid', k, PGPUID.new('Nobody'))
V('sig as subject', k, load(SD + 'debian-sid.sig.asc', PGPSignature))

P('== SignatureVerification object')
sv = SignatureVerification()
P('empty', bool(sv), len(sv), list(sv.good_signatures), list(sv.bad_signatures))
try:
    sv & 12
except Exception as e:  # noqa
    P('and int EXC', type(e).__name__)
sv.add_sigsubj(None, None)
P('default issues', bool(sv), len(sv), int(sv._subjects[0].issues))

P('== done; lines', len(OUT), 'digest', hashlib.sha256('\n'.join(OUT).encode()).hexdigest())
