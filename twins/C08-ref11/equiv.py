"""Equivalence probe for property C08 (packet codec round trip).

Run as:  cd <tree> && /venv/bin/python equiv.py
Prints one sha256 digest of all observable outputs; it must be identical on the
unchanged and on the refactored tree.
"""
import glob
import hashlib
import logging
import os
import sys
import warnings

sys.path.insert(0, os.getcwd())
warnings.simplefilter('ignore')

import pgpy  # noqa: E402
from pgpy.packet import Packet  # noqa: E402
from pgpy.packet.fields import String2Key  # noqa: E402
from pgpy.packet.types import Header  # noqa: E402

out = []


def rec(*a):
    out.append(repr(a))


def binload(f):
    with open(f, 'rb') as ff:
        return bytearray(ff.read())


TRAILER = b'\xde\xca\xff\xba\xdd'


def describe(p):
    h = p.header
    return (p.__class__.__name__, int(h.tag), h.length, len(h), h.llen, h._lenfmt, getattr(h, 'version', None), len(p))


def roundtrip(raw, label):
    buf = bytearray(raw) + TRAILER
    try:
        p = Packet(buf)
    except Exception as ex:  # same exception type and message expected on both trees
        rec(label, 'EXC', type(ex).__name__, str(ex))
        return None
    rec(label, describe(p), bytes(buf))
    b1 = bytes(p)
    rec(label, 'bytes', hashlib.sha256(b1).hexdigest(), len(b1))
    try:
        p.update_hlen()
        b2 = bytes(p)
        rec(label, 'updated', describe(p), hashlib.sha256(b2).hexdigest())
        buf2 = bytearray(b2) + TRAILER
        p2 = Packet(buf2)
        rec(label, 'again', describe(p2), bytes(buf2), hashlib.sha256(bytes(p2)).hexdigest())
    except Exception as ex:
        rec(label, 'EXC2', type(ex).__name__, str(ex))
    return p


# 1. every fixture packet: parse, serialise, update_hlen, reparse
for f in sorted(glob.glob('tests/testdata/packets/[0-9]*')):
    roundtrip(binload(f), os.path.basename(f))

# 2. header encodings: old format with every length type, new format with every length of length, unknown tags
body = b'PGP'
for first, lenbytes in [(0xa8, b'\x03'), (0xa9, b'\x00\x03'), (0xaa, b'\x00\x00\x00\x03'), (0xab, b''),
                        (0xca, b'\x03'), (0xca, b'\xff\x00\x00\x00\x03'), (0xfc, b'\x03'), (0xbc, b'\x03'),
                        (0xfd, b'\x03'), (0xd0, b'\x03')]:
    roundtrip(bytes([first]) + lenbytes + body, 'hdr-%02x-%d' % (first, len(lenbytes)))

for n in (0, 1, 191, 192, 193, 8383, 8384, 70000):
    lit = b'b\x00\x00\x00\x00\x00' + bytes(bytearray((i * 7) & 0xff for i in range(n)))
    roundtrip(b'\xcb' + Header.encode_length(len(lit)) + lit, 'newlit-%d' % n)
    if len(lit) < 256:
        p = roundtrip(b'\xac' + bytes([len(lit)]) + lit, 'oldlit-%d' % n)
        # old format header whose body grows after the parse
        if p is not None:
            for grow in (10, 300, 70000):
                p._contents = bytearray(b'x' * grow)
                p.update_hlen()
                b = bytes(p)
                rec('grow', n, grow, describe(p), hashlib.sha256(b).hexdigest())
                q = Packet(bytearray(b))
                rec('grow-again', describe(q), hashlib.sha256(bytes(q)).hexdigest())

# partial body lengths
lit = b'b\x00\x00\x00\x00\x00' + b'A' * 26
roundtrip(b'\xcb\xe4' + lit[:16] + b'\xe3' + lit[16:24] + b'\x08' + lit[24:], 'partial')

# 3. malformed / truncated input: exception type and message
for label, raw in [('empty-body', b'\xc2\x00'), ('short-sig', b'\xc2\x03\x04\x00\x01'), ('v9-sig', b'\xc2\x03\x09\x00\x01'),
                   ('short-key', b'\xc6\x02\x04\x00'), ('bad-s2k', b'\xc5\x20\x04\x00\x00\x00\x00\x01\x00\x08\xff\x00\x08\xff'
                                                            b'\x00\x08\xff\xfe\x07\x65\x02XXXX\x01' + b'\x00' * 10)]:
    roundtrip(raw, label)

# 4. String2Key codec in isolation
s2k_inputs = [
    b'\x00rest',
    b'\xfe\x09\x00\x02' + bytes(range(16)) + b'rest',
    b'\xfe\x09\x01\x02' + b'saltsalt' + bytes(range(16)) + b'rest',
    b'\xff\x07\x03\x08' + b'saltsalt' + b'\x60' + bytes(range(16)) + b'rest',
    b'\xfe\x03\x03\x02' + b'saltsalt' + b'\xff' + bytes(range(8)) + b'rest',
    b'\xfe\x00\x65\x00GNU\x01rest',
    b'\xfe\x00\x65\x00GNU\x02\x04abcdrest',
    b'\xff\x00\x65\x00GNU\x02\x14' + bytes(range(0x14)) + b'rest',
    b'\xfe\x00\x65\x00GNU\x02\x00rest',
    b'\xfe\x00\x65\x00GNX\x01rest',
    b'\xfe\x00\x65\x00GN',
    b'\xfe\x09\x03\x02salt',
    b'\xfe',
    b'',
    b'\x09' + bytes(range(16)),
]
for i, raw in enumerate(s2k_inputs):
    for iv in (True, False):
        s = String2Key()
        buf = bytearray(raw)
        try:
            s.parse(buf, iv) if not iv else s.parse(buf)
        except Exception as ex:
            rec('s2k', i, iv, 'EXC', type(ex).__name__, str(ex), bytes(buf))
            continue
        b = bytes(s)
        rec("s2k", i, iv, b, bytes(buf), len(s), bool(s), s.count, s._count, int(s.usage), int(s.specifier), s.gnuext,
            None if s.scserial is None else bytes(s.scserial), None if s.iv is None else bytes(s.iv), bytes(s.salt))
        import copy
        c = copy.copy(s)
        rec('s2k-copy', i, iv, bytes(c), sorted(vars(c)) == sorted(vars(s)), sorted(vars(s)))

# 5. whole keys and messages (dispatch of many packets, subpackets and user attributes)
for f in sorted(glob.glob('tests/testdata/keys/*.asc')) + ['tests/testdata/pubtest.asc', 'tests/testdata/sectest.asc']:
    k, _ = pgpy.PGPKey.from_file(f)
    rec(os.path.basename(f), hashlib.sha256(bytes(k)).hexdigest(), str(k.fingerprint))
    for uid in k.userids:
        for sig in uid._signatures:
            pkt = sig._signature
            rec('sig', describe(pkt), hashlib.sha256(bytes(pkt)).hexdigest(), sorted(vars(pkt.header)))
for f in sorted(glob.glob('tests/testdata/messages/*.asc')) + sorted(glob.glob('tests/testdata/blocks/*.asc')):
    try:
        data = pgpy.types.Armorable.ascii_unarmor(open(f).read())['body']
        n = 0
        while len(data) > 0 and n < 50:
            p = Packet(data)
            rec(os.path.basename(f), n, describe(p), hashlib.sha256(bytes(p)).hexdigest())
            n += 1
    except Exception as ex:
        rec(os.path.basename(f), 'EXC', type(ex).__name__, str(ex))

# 6. no logging configuration side effects, no new instance state on headers / packets
rec('root-handlers', len(logging.getLogger().handlers), logging.getLogger().level)
p = Packet(bytearray(b'\xca\x03PGP'))
rec('vars', sorted(vars(p)), sorted(vars(p.header)))

print(len(out), hashlib.sha256('\n'.join(out).encode('utf-8', 'backslashreplace')).hexdigest())
