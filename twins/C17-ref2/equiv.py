"""Behaviour digest for the verification-verdict code (property C17).

Run as:  cd <tree> && /venv/bin/python equiv.py
Prints one sha256 digest of all observable outputs; the digest must be the same
on the unchanged and on the refactored tree.
"""
import contextlib
import datetime
import glob
import hashlib
import os
import re
import sys
import warnings
from unittest import mock

sys.path.insert(0, os.getcwd())

import pgpy  # noqa: E402
from pgpy import PGPKey, PGPMessage, PGPSignature  # noqa: E402
from pgpy.constants import (EllipticCurveOID, PubKeyAlgorithm, SecurityIssues)  # noqa: E402
from pgpy.errors import PGPError  # noqa: E402
from pgpy.types import SignatureVerification  # noqa: E402

out = []


def emit(*parts):
    out.append(' '.join(str(p) for p in parts))


def scrub(text):
    return re.sub(r'0x[0-9A-Fa-f]+', '0x?', str(text))


def outcome(fn, *a, **kw):
    """value or exception of a call, plus the warnings it emitted, as a string"""
    with warnings.catch_warnings(record=True) as caught:
        warnings.simplefilter('always')
        try:
            res = ('ok', fn(*a, **kw))
        except Exception as e:  # the kind and text of the error are observable
            res = ('exc', type(e).__name__, scrub(e))
    ws = [(w.category.__name__, scrub(w.message)) for w in caught]
    return res, ws


def describe_issues(i):
    return '{}:{}:{}'.format(type(i).__name__, repr(i) if not isinstance(i, int) else int(i), i is SecurityIssues.OK)


def describe_sv(sv, keymap=None):
    good = list(sv.good_signatures)
    bad = list(sv.bad_signatures)
    ids = {id(s): n for n, s in enumerate(sv._subjects)}
    return ('SV', bool(sv), len(sv), repr(sv),
            [(ids[id(g)], describe_issues(g.issues)) for g in good],
            [(ids[id(b)], describe_issues(b.issues)) for b in bad],
            [(describe_issues(s.issues), type(s.by).__name__, type(s.signature).__name__, type(s.subject).__name__)
             for s in sv._subjects])


@contextlib.contextmanager
def expired(with_date=True):
    """make every key look expired (optionally leaving expires_at alone, which makes the warning text fail)"""
    with mock.patch.object(PGPKey, 'is_expired', new_callable=mock.PropertyMock, return_value=True):
        if with_date:
            with mock.patch.object(PGPKey, 'expires_at', new_callable=mock.PropertyMock,
                                   return_value=datetime.datetime(2001, 2, 3, 4, 5, 6)):
                yield
        else:
            yield


# ---------------------------------------------------------------- constants.py
all_issue_values = list(range(0, 1 << 11))
for v in all_issue_values:
    si = SecurityIssues(v)
    emit('fail?', v, si.causes_signature_verify_to_fail, type(si.causes_signature_verify_to_fail).__name__)


class Unhashable(object):
    __hash__ = None


sizes = [None, 0, 1, 512, 1023, 1024, 2047, 2048, 2049, 3072, 4096, 2048.0, '2048', Unhashable()] + list(EllipticCurveOID)
for alg in PubKeyAlgorithm:
    for size in sizes:
        res, ws = outcome(alg.validate_params, size)
        if res[0] == 'ok':
            res = ('ok', describe_issues(res[1]))
        emit('validate_params', alg.name, scrub(repr(size)), res, ws)

# ------------------------------------------------------------------- types.py
for v in all_issue_values:
    sv = SignatureVerification()
    sv.add_sigsubj('sig', 'key', 'subj', SecurityIssues(v))
    emit('single', v, describe_sv(sv))

# odd issue values: default (None), plain ints, bools
for odd in (None, 0, 1, 32, False, True):
    sv = SignatureVerification()
    if odd is None:
        sv.add_sigsubj('sig', 'key')
    else:
        sv.add_sigsubj('sig', 'key', 'subj', odd)
    res, ws = outcome(describe_sv, sv)
    emit('odd', repr(odd), res, ws)

emit('empty', describe_sv(SignatureVerification()))

# combinations of several entries, and the & operator
picks = [SecurityIssues.OK, SecurityIssues.WrongSig, SecurityIssues.Revoked, SecurityIssues.Expired | SecurityIssues.InsecureCurve,
         SecurityIssues.HashFunctionNotCollisionResistant, SecurityIssues.NoSelfSignature, SecurityIssues(0x7ff)]
for a in picks:
    for b in picks:
        for c in picks:
            left = SignatureVerification()
            left.add_sigsubj('s1', 'k', 'x', a)
            right = SignatureVerification()
            right.add_sigsubj('s2', 'k', 'y', b)
            right.add_sigsubj('s3', 'k', 'z', c)
            both = left & right
            emit('and', int(a), int(b), int(c), both is left, describe_sv(both), describe_sv(right),
                 's1' in both, 'z' in both, 'nope' in both)
            left &= left
            emit('and-self', len(left), bool(left))

for other in (None, 1, 'x', [], object()):
    res, ws = outcome(lambda o=other: SignatureVerification() & o)
    emit('and-type', type(other).__name__, scrub(res), ws)
emit('nonzero', SignatureVerification().__nonzero__())

# --------------------------------------------------------------------- pgp.py
keyfiles = sorted(glob.glob('tests/testdata/keys/*.asc')) + ['tests/testdata/pubtest.asc', 'tests/testdata/sectest.asc'] \
    + sorted(glob.glob('tests/testdata/signatures/*.key.asc'))
keys = {}
for kf in keyfiles:
    with warnings.catch_warnings():
        warnings.simplefilter('ignore')
        try:
            k, _ = PGPKey.from_file(kf)
        except Exception as e:
            emit('load', kf, type(e).__name__)
            continue
    keys[kf] = k


def key_and_subkeys(k):
    yield 'primary', k
    for kid, sk in k.subkeys.items():
        yield kid, sk


for kf, k in keys.items():
    for label, kk in key_and_subkeys(k):
        for fn, args in ((kk.check_primitives, ()), (kk.check_management, ()), (kk.check_management, (True,)),
                         (kk.check_soundness, ()), (kk.check_soundness, (True,)), (kk.is_considered_insecure, ()),
                         (kk.self_verify, ())):
            res, ws = outcome(fn, *args)
            if res[0] == 'ok':
                res = ('ok', describe_issues(res[1]))
            emit('check', kf, label, fn.__name__, args, res, ws)
        # the same with an expired key
        with expired():
            for fn in (kk.check_management, kk.check_soundness):
                res, ws = outcome(fn)
                if res[0] == 'ok':
                    res = ('ok', describe_issues(res[1]))
                emit('check-expired', kf, label, fn.__name__, res, ws)


def verify_outcome(k, *args):
    res, ws = outcome(k.verify, *args)
    if res[0] == 'ok':
        res = ('ok', describe_sv(res[1]))
    return res, ws


# verify every key over itself and over every other key (self- and third-party subjects), and its user ids
for kf, k in keys.items():
    emit('verify-self', kf, verify_outcome(k, k))
    for uid in k.userids:
        emit('verify-uid', kf, verify_outcome(k, uid))
    with expired():
        emit('verify-self-expired', kf, verify_outcome(k, k))
    with expired(with_date=False):
        emit('verify-self-expired-nodate', kf, verify_outcome(k, k))
        emit('check-expired-nodate', kf, outcome(lambda: describe_issues(k.check_soundness())))
    for kf2, k2 in keys.items():
        if kf2 != kf:
            emit('verify-other', kf, kf2, verify_outcome(k, k2))

# revoked keys (the revocation is made here; only the verdicts are digested, not the signature bytes)
for base in ('rsa.1', 'dsa.1', 'ecc.1'):
    with warnings.catch_warnings():
        warnings.simplefilter('ignore')
        pub, _ = PGPKey.from_file('tests/testdata/keys/{}.pub.asc'.format(base))
        sec, _ = PGPKey.from_file('tests/testdata/keys/{}.sec.asc'.format(base))
        try:
            rsig = sec.revoke(sec)
        except Exception as e:
            emit('revoke', base, type(e).__name__)
            continue
    emit('verify-revsig', base, verify_outcome(pub, pub, rsig))
    pub |= rsig
    emit('revoked-n', base, len(list(pub.revocation_signatures)))
    emit('revoked-check', base, outcome(lambda: describe_issues(pub.check_soundness())))
    emit('revoked-mgmt', base, outcome(lambda: describe_issues(pub.check_management())))
    emit('revoked-verify', base, verify_outcome(pub, pub))
    with expired():
        emit('revoked-expired-check', base, outcome(lambda: describe_issues(pub.check_soundness())))
        emit('revoked-expired-verify', base, verify_outcome(pub, pub))

# detached signatures over fixed subjects, correct and incorrect
for sf in sorted(glob.glob('tests/testdata/signatures/*.sig.asc')):
    base = sf[:-len('.sig.asc')]
    if not os.path.exists(base + '.key.asc') or not os.path.exists(base + '.subj'):
        continue
    k = keys[base + '.key.asc']
    with warnings.catch_warnings():
        warnings.simplefilter('ignore')
        sig = PGPSignature.from_file(sf)
    with open(base + '.subj', 'rb') as f:
        subj = f.read()
    emit('detached-good', sf, verify_outcome(k, subj, sig))
    emit('detached-bad', sf, verify_outcome(k, subj + b'tampered', sig))
    emit('detached-none', sf, verify_outcome(k, None, sig))
    with expired():
        emit('detached-expired', sf, verify_outcome(k, subj, sig))
        emit('detached-expired-bad', sf, verify_outcome(k, subj + b'tampered', sig))
    # a key that did not make the signature
    for kf2, k2 in keys.items():
        if k2 is not k:
            emit('detached-wrongkey', sf, kf2, verify_outcome(k2, subj, sig))
            break

# signed messages (several signatures / subkey signers)
for mf in sorted(glob.glob('tests/testdata/messages/*signed*.asc')):
    with warnings.catch_warnings():
        warnings.simplefilter('ignore')
        try:
            msg = PGPMessage.from_file(mf)
        except Exception as e:
            emit('msg-load', mf, type(e).__name__)
            continue
    for kf, k in keys.items():
        emit('verify-msg', mf, kf, verify_outcome(k, msg))
        with expired():
            emit('verify-msg-expired', mf, kf, verify_outcome(k, msg))

# type errors
k = next(iter(keys.values()))
emit('verify-typeerr1', verify_outcome(k, 12))
emit('verify-typeerr2', verify_outcome(k, 'text', 'notasig'))
emit('verify-nosig', verify_outcome(k, 'text'))

blob = '\n'.join(out).encode('utf-8')
print(len(out), 'records')
print(hashlib.sha256(blob).hexdigest())
