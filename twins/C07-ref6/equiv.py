import glob
import hashlib
import os
import sys
import warnings

sys.path.insert(0, os.getcwd())
warnings.simplefilter('ignore')

import pgpy  # noqa: E402
from pgpy.constants import HashAlgorithm, SymmetricKeyAlgorithm  # noqa: E402
from pgpy.packet import Packet  # noqa: E402

out = []


def note(*a):
    out.append(' | '.join(str(x) for x in a))


def tags(blob):
    data = bytearray(blob)
    res = []
    while data:
        pkt = Packet(data)
        res.append(type(pkt).__name__)
    return res


def attempt(label, fn):
    try:
        r = fn()
        note(label, 'OK', type(r).__name__)
    except Exception as e:  # noqa
        note(label, type(e).__name__, str(e))


def examine(name, key):
    pub = key.pubkey
    note(name, 'is_public', pub.is_public, 'same-object-again', key.pubkey is pub, 'magic', pub.magic)
    note(name, 'fp', pub.fingerprint, key.fingerprint, [str(u) for u in (x.name for x in pub.userids)])
    note(name, 'subkeys', list(pub.subkeys.keys()), [sk.is_public for sk in pub.subkeys.values()])
    b = bytes(pub)
    note(name, 'bytes', hashlib.sha256(b).hexdigest(), len(b))
    note(name, 'str', hashlib.sha256(str(pub).encode()).hexdigest())
    note(name, 'priv-bytes', hashlib.sha256(bytes(key)).hexdigest(), hashlib.sha256(str(key).encode()).hexdigest())
    note(name, 'tags', tags(b))
    note(name, 'headers', list(pub.ascii_headers.items()))
    note(name, 'parent', [sk.parent is pub for sk in pub.subkeys.values()])
    # packet-level public half
    pk = key._key.pubkey()
    note(name, 'pkt', type(pk).__name__, hashlib.sha256(bytes(pk)).hexdigest(), pk.header.length)
    for skid, sk in key.subkeys.items():
        spk = sk._key.pubkey()
        note(name, 'subpkt', skid, type(spk).__name__, hashlib.sha256(bytes(spk)).hexdigest())
    # private operations on a public object must be refused
    attempt(name + ' sign', lambda: pub.sign('hello'))
    if pub.userids:
        attempt(name + ' certify', lambda: pub.certify(pub.userids[0]))
    attempt(name + ' revoke', lambda: pub.revoke(pub))
    msg = pgpy.PGPMessage.new('secret')
    attempt(name + ' decrypt', lambda: pub.decrypt(msg))
    attempt(name + ' protect', lambda: pub.protect('pw', SymmetricKeyAlgorithm.AES256, HashAlgorithm.SHA256))
    # reloading the export gives the same thing back
    re, _ = pgpy.PGPKey.from_blob(str(pub))
    note(name, 'reload', re.is_public, re.fingerprint == key.fingerprint, bytes(re) == b)


files = sorted(glob.glob('tests/testdata/keys/*.sec.asc')) + sorted(glob.glob('tests/testdata/keys/*.enc.asc')) \
    + ['tests/testdata/keys/targette.sec.rsa.asc']
for f in files:
    key, _ = pgpy.PGPKey.from_file(f)
    name = os.path.basename(f)
    examine(name, key)
    if key.is_protected:
        attempt(name + ' locked-sign', lambda: key.sign('x'))
        with key.unlock('QwertyUiop'):
            examine(name + '[unlocked]', key)

# already-public keys return themselves
for f in sorted(glob.glob('tests/testdata/keys/*.pub.asc')):
    key, _ = pgpy.PGPKey.from_file(f)
    note(os.path.basename(f), key.pubkey is key, hashlib.sha256(str(key).encode()).hexdigest())
    attempt(os.path.basename(f) + ' sign', lambda: key.sign('hello'))

# other armorable objects go through the same export path
for f in sorted(glob.glob('tests/testdata/messages/*.asc'))[:6] + sorted(glob.glob('tests/testdata/signatures/*.asc'))[:4]:
    try:
        if 'signatures' in f:
            o = pgpy.PGPSignature.from_file(f)
        else:
            o = pgpy.PGPMessage.from_file(f)
        note(os.path.basename(f), hashlib.sha256(str(o).encode()).hexdigest(), hashlib.sha256(bytes(o)).hexdigest())
    except Exception as e:  # noqa
        note(os.path.basename(f), type(e).__name__, str(e))

text = '\n'.join(out)
if '-v' in sys.argv:
    print(text)
print(len(out), hashlib.sha256(text.encode()).hexdigest())
