"""Digest of observable String2Key behaviour (derivation, (de)serialisation, copying) and of its callers.

Run as:  cd <tree> && /venv/bin/python equiv.py
Prints the same digest on the unchanged and on the refactored tree.
"""
import copy
import hashlib
import itertools
import os
import sys
import warnings

sys.path.insert(0, os.getcwd())
warnings.simplefilter('ignore')

import pgpy  # noqa: E402
from pgpy.constants import HashAlgorithm, String2KeyType, SymmetricKeyAlgorithm  # noqa: E402
from pgpy.packet.fields import String2Key  # noqa: E402
from pgpy.packet import packets as _packets  # noqa: E402
from pgpy.packet import fields as _fields  # noqa: E402

out = hashlib.sha256()


def rec(*items):
    if os.environ.get('EQUIV_TRACE'):
        sys.stderr.write(repr(items)[:300] + '\n')
    for it in items:
        if isinstance(it, (bytes, bytearray)):
            it = bytes(it).hex()
        out.update(repr(it).encode('utf-8'))
        out.update(b'|')


def attempt(fn):
    try:
        return ('ok', fn())
    except Exception as e:  # noqa: BLE001
        return ('exc', type(e).__name__, str(e))


def state(s):
    return (s.usage, int(s.encalg), int(s.specifier), int(s.halg), bytes(s.salt), s._count, s.count,
            None if s.iv is None else bytes(s.iv), int(s.gnuext),
            None if s.scserial is None else bytes(s.scserial), bool(s), type(s.salt).__name__)


HASHES = [HashAlgorithm.MD5, HashAlgorithm.SHA1, HashAlgorithm.RIPEMD160, HashAlgorithm.SHA256,
          HashAlgorithm.SHA384, HashAlgorithm.SHA512, HashAlgorithm.SHA224]
CIPHERS = [SymmetricKeyAlgorithm.IDEA, SymmetricKeyAlgorithm.TripleDES, SymmetricKeyAlgorithm.CAST5,
           SymmetricKeyAlgorithm.Blowfish, SymmetricKeyAlgorithm.AES128, SymmetricKeyAlgorithm.AES192,
           SymmetricKeyAlgorithm.AES256, SymmetricKeyAlgorithm.Twofish256, SymmetricKeyAlgorithm.Camellia128,
           SymmetricKeyAlgorithm.Camellia192, SymmetricKeyAlgorithm.Camellia256]
SPECS = [String2KeyType.Simple, String2KeyType.Salted, String2KeyType.Iterated]
PASSES = ['', 'a', 'QwertyUiop', u'pässwörd ☃', b'\x00\xff raw bytes', 'x' * 1500, b'\x80' * 70000,
          bytearray(b'not bytes'), None, 12]
SALTS = [bytearray(), bytearray(b'\x00' * 8), bytearray(range(1, 9)), bytearray(b'\xff' * 8)]

# 1. derive_key over specifiers x hashes x ciphers x counts x passphrases
for spec, halg, alg in itertools.product(SPECS, HASHES, CIPHERS):
    for coded in (0, 1, 15, 16, 96, 255) if spec == String2KeyType.Iterated else (0,):
        for pi, pw in enumerate(PASSES):
            if coded == 255 and (pi != 2 or alg not in (SymmetricKeyAlgorithm.CAST5, SymmetricKeyAlgorithm.AES256)):
                continue
            s = String2Key()
            s.usage = 254
            s.encalg = alg
            s.specifier = spec
            s.halg = halg
            s.salt = copy.copy(SALTS[(pi + coded) % len(SALTS)])
            s.count = coded
            before = state(s)
            rec(int(spec), int(halg), int(alg), coded, pi, attempt(lambda: s.derive_key(pw)))
            rec(before == state(s))

# error paths of derive_key
for alg, halg in ((0, HashAlgorithm.SHA1), (SymmetricKeyAlgorithm.AES128, 0), (SymmetricKeyAlgorithm.AES128, 4)):
    s = String2Key()
    s.usage = 255
    s.encalg = alg
    s.halg = halg
    rec(attempt(lambda: s.derive_key('abc')))

# 2. count coding, setters
s = String2Key()
for c in range(256):
    s.count = c
    rec(c, s._count, s.count)
for bad in (-1, 256, 1 << 40, 'x', None, 1.5, b'\x01'):
    rec(attempt(lambda: setattr(s, 'count', bad)), s._count)
for name in ('encalg', 'specifier', 'halg', 'gnuext'):
    for bad in (5, 6, 2, 100, 101, 300, -1, 'x', None):
        s2 = String2Key()
        rec(name, attempt(lambda: setattr(s2, name, bad)), attempt(lambda: repr(getattr(s2, name))))

# 3. parse / __bytearray__ / __len__ / __copy__ round trips, including truncated and invalid input
BLOBS = []
tail = bytes(range(0x30, 0x30 + 40))
for usage in (0, 1, 9, 253, 254, 255):
    for alg in (0, 1, 2, 3, 4, 5, 7, 9, 10, 13, 200):
        for spec in (0, 1, 2, 3, 4, 100, 101):
            head = bytes([usage, alg, spec])
            if spec == 101:
                BLOBS.append(head + b'\x00GNU\x01' + tail)
                BLOBS.append(head + b'\x00GNU\x02\x05abcdefgh' + tail)
                BLOBS.append(head + b'\x00GNU\x02\x20' + tail)
                BLOBS.append(head + b'\x00GNX\x01' + tail)
                BLOBS.append(head + b'\x00GNU\x07' + tail)
                BLOBS.append(head + b'\x00GN')
                BLOBS.append(head + b'\x00GNU\x02')
            else:
                for halg in (0, 2, 8, 4, 99):
                    BLOBS.append(head + bytes([halg]) + b'SALTsalt' + b'\x60' + tail)
for full in list(BLOBS[::37]):
    for n in range(0, 24):
        BLOBS.append(full[:n])

for blob in BLOBS:
    for iv in (True, False):
        pkt = bytearray(blob)
        s = String2Key()
        rec(attempt(lambda: s.parse(pkt, iv=iv)) if iv is False else attempt(lambda: s.parse(pkt)))
        rec(bytes(pkt), attempt(lambda: state(s)))
        rec(attempt(lambda: bytes(s.__bytearray__())), attempt(lambda: len(s)), attempt(lambda: bytes(s)))
        c = attempt(lambda: copy.copy(s))
        if c[0] == 'ok':
            c = c[1]
            rec(type(c).__name__, c is not s, attempt(lambda: state(c)), attempt(lambda: bytes(c.__bytearray__())),
                c.salt is not s.salt, c.iv is s.iv, c.scserial is s.scserial)
        else:
            rec(c)

# a list instead of a bytearray is accepted too (items are only indexed, sliced and deleted)
for blob in BLOBS[::53]:
    pkt = list(blob)
    s = String2Key()
    rec(attempt(lambda: s.parse(pkt)), pkt, attempt(lambda: (s.usage, repr(s.encalg), repr(s.specifier), s.salt, s.iv)))

# default object
s = String2Key()
rec(state(s), bytes(s.__bytearray__()), len(s), sorted(k for k in vars(s)))
rec(s.__nonzero__(), s.__bool__())

# 4. callers: passphrase-protected fixtures
_counter = [0]


def fake_urandom(n):
    _counter[0] += 1
    return hashlib.shake_128(b'equiv-%d' % _counter[0]).digest(n)


for path in sorted(os.listdir('tests/testdata/messages')):
    if '.pass' in path and path.endswith('.asc'):
        msg = pgpy.PGPMessage.from_file(os.path.join('tests/testdata/messages', path))
        for pw in ('QwertyUiop', 'wrong', b'QwertyUiop'):
            r = attempt(lambda: msg.decrypt(pw))
            if r[0] == 'ok':
                m = r[1].message
                rec(path, 'ok', m if isinstance(m, (bytes, bytearray)) else m.encode('utf-8'))
            else:
                rec(path, r)
        for sk in msg._sessionkeys:
            if isinstance(sk, _packets.SKESessionKeyV4):
                rec(state(sk.s2k), bytes(sk.ct), bytes(sk.__bytearray__()), len(sk.s2k), int(sk.symalg))
                rec(attempt(lambda: (lambda r: (int(r[0]), bytes(r[1]), type(r[1]).__name__))(sk.decrypt_sk('QwertyUiop'))))
                c = copy.copy(sk)
                rec(bytes(c.__bytearray__()), c.s2k is not sk.s2k, state(c.s2k))
                raw = bytearray(sk.__bytes__())
                p2 = _packets.Packet(raw)
                rec(type(p2).__name__, bytes(raw), bytes(p2.__bytes__()), state(p2.s2k), bytes(p2.ct))

# SKESessionKeyV4 built from scratch with deterministic "randomness"
real_urandom = os.urandom
os.urandom = fake_urandom
try:
    for alg, halg, spec in ((SymmetricKeyAlgorithm.AES256, HashAlgorithm.SHA1, 3),
                            (SymmetricKeyAlgorithm.CAST5, HashAlgorithm.MD5, 1),
                            (SymmetricKeyAlgorithm.AES128, HashAlgorithm.SHA256, 3),
                            (SymmetricKeyAlgorithm.TripleDES, HashAlgorithm.SHA512, 0)):
        sk = _packets.SKESessionKeyV4()
        sk.s2k.usage = 255
        sk.s2k.encalg = alg
        sk.s2k.specifier = spec
        sk.s2k.halg = halg
        sk.s2k.count = 17
        rec(attempt(lambda: (lambda r: (int(r[0]), bytes(r[1])))(sk.decrypt_sk('pw'))))
        session = bytes(range(alg.key_size // 8))
        rec(attempt(lambda: sk.encrypt_sk(u'päss', session)))
        rec(bytes(sk.__bytes__()), state(sk.s2k), bytes(sk.ct), type(sk.ct).__name__, sk.header.length)
        rec(attempt(lambda: (lambda r: (repr(r[0]), bytes(r[1]), type(r[1]).__name__))(sk.decrypt_sk(u'päss'))))
        rec(attempt(lambda: (lambda r: (repr(r[0]), bytes(r[1])))(sk.decrypt_sk('nope'))))
        rt = _packets.Packet(bytearray(sk.__bytes__()))
        rec(type(rt).__name__, bytes(rt.__bytes__()), state(rt.s2k), bytes(rt.ct))
        for cut in (3, 5, 8, 14):
            rec(attempt(lambda: bytes(_packets.Packet(bytearray(sk.__bytes__()[:cut])).__bytes__())))

    # protected secret keys
    for kf, pw in (('tests/testdata/keys/rsa.1.enc.asc', 'QwertyUiop'), ('tests/testdata/keys/dsa.1.enc.asc', 'QwertyUiop')):
        key, _ = pgpy.PGPKey.from_file(kf)
        rec(kf, key.is_protected, state(key._key.keymaterial.s2k), bytes(key.__bytes__()) == bytes(pgpy.PGPKey.from_blob(bytes(key))[0].__bytes__()))
        rec(hashlib.sha256(bytes(key)).hexdigest())
        r = attempt(lambda: key.unlock('ClearlyTheWrongPassword').__enter__())
        rec(r if r[0] == 'exc' else 'unlocked?!')
        r = attempt(lambda: key.unlock(pw).__enter__())
        rec(r[0] if r[0] == 'ok' else r)
        for sub in key.subkeys.values():
            rec(state(sub._key.keymaterial.s2k))

    # protect an unprotected key (salt / iv come from the patched urandom)
    key, _ = pgpy.PGPKey.from_file('tests/testdata/keys/rsa.1.sec.asc')
    key.protect(u'Süper secret', SymmetricKeyAlgorithm.AES256, HashAlgorithm.SHA1)
    rec(hashlib.sha256(bytes(key)).hexdigest(), state(key._key.keymaterial.s2k))
    k2, _ = pgpy.PGPKey.from_blob(bytes(key))
    with k2.unlock(u'Süper secret'):
        rec(hashlib.sha256(bytes(k2._key.keymaterial.__bytearray__())).hexdigest())
    rec(attempt(lambda: k2.unlock('bad').__enter__())[:2])

    # passphrase-encrypted message with a fixed session key
    msg = pgpy.PGPMessage.new('hello s2k', compression=pgpy.constants.CompressionAlgorithm.Uncompressed)
    enc = msg.encrypt('QwertyUiop', sessionkey=bytes(range(32)), cipher=SymmetricKeyAlgorithm.AES256)
    for sk in enc._sessionkeys:
        rec(bytes(sk.__bytes__()), state(sk.s2k))
    rec(enc.decrypt('QwertyUiop').message)
finally:
    os.urandom = real_urandom

print(out.hexdigest())
