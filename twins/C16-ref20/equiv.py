"""Probe for property C16 (key-usage policy).

Run as:  cd <tree> && PYTHONHASHSEED=0 /venv/bin/python equiv.py

Everything printed is independent of the random key material: key ids are
replaced by role names (P, S1, S2, S3 ...), only verdicts, role names, exception
class names (and, if SHOW_MSG, normalised messages) are printed.
"""
import glob
import itertools
import logging
import os
import re
import sys
import warnings
from datetime import datetime, timezone, timedelta

sys.path.insert(0, os.getcwd())
warnings.simplefilter('ignore')

import pgpy
from pgpy import PGPKey, PGPUID, PGPMessage, PGPSignature
from pgpy.constants import (PubKeyAlgorithm, KeyFlags, HashAlgorithm, SymmetricKeyAlgorithm,
                            CompressionAlgorithm, EllipticCurveOID, SignatureType)

SHOW_MSG = True

assert os.path.dirname(os.path.abspath(pgpy.__file__)) == os.path.join(os.getcwd(), 'pgpy'), pgpy.__file__

out = sys.stdout.write


# ---------------------------------------------------------------- log capture
class _Cap(logging.Handler):
    def __init__(self):
        super().__init__(level=logging.DEBUG)
        self.records = []

    def emit(self, record):
        self.records.append((record.levelname, record.getMessage()))


cap = _Cap()
root = logging.getLogger()
for h in list(root.handlers):
    root.removeHandler(h)
root.addHandler(cap)
root.setLevel(logging.DEBUG)

ROLES = {}


def norm(text):
    text = str(text)
    for kid, role in ROLES.items():
        text = text.replace(kid, role)
    return re.sub(r'\b[0-9A-F]{16}\b', '<id>', text)


def role(x):
    if x is None:
        return 'None'
    s = str(x).replace(' ', '')
    return ROLES.get(s[-16:], '?' + str(len(s)))


def logs():
    recs, cap.records[:] = list(cap.records), []
    recs = [(lv, m) for lv, m in recs if 'usage flag' in m]
    if SHOW_MSG:
        return '[' + '; '.join('%s:%s' % (lv, norm(m)) for lv, m in recs) + ']'
    return '[' + ','.join(lv for lv, m in recs) + ']'


def exc(e):
    if SHOW_MSG:
        return '!%s(%s)' % (type(e).__name__, norm(e))
    return '!%s' % type(e).__name__


def attempt(fn):
    cap.records[:] = []
    try:
        r = fn()
    except Exception as e:  # noqa
        r = exc(e)
    return '%s %s' % (r, logs())


F = KeyFlags
NAMES = {F.Certify: 'C', F.Sign: 'S', F.EncryptCommunications: 'Ec', F.EncryptStorage: 'Es', F.Authentication: 'A'}
ORDER = [F.Certify, F.Sign, F.EncryptCommunications, F.EncryptStorage, F.Authentication]


def fl(flags):
    if flags is None:
        return 'none'
    return '{' + ''.join(NAMES[f] for f in ORDER if f in flags) + '}'


def load(blob):
    k = PGPKey()
    k.parse(bytes(blob))
    return k


PREFS = dict(hashes=[HashAlgorithm.SHA256], ciphers=[SymmetricKeyAlgorithm.AES128],
             compression=[CompressionAlgorithm.Uncompressed])

# ---------------------------------------------------------------- key material
RSA = PubKeyAlgorithm.RSAEncryptOrSign
T0 = datetime(2020, 1, 1, tzinfo=timezone.utc)
mat = {}
for name in ('P', 'S1', 'S2', 'S3', 'X'):
    k = PGPKey.new(RSA, 1024, created=T0)
    mat[name] = bytes(k)
    ROLES[k.fingerprint.keyid] = name

ALL = [set(c) for n in range(6) for c in itertools.combinations(ORDER, n)]   # 32 subsets
assert len(ALL) == 32

# primary + uid self-signature for every flag set (and one without a KeyFlags subpacket)
prim = {}
for flags in ALL + [None]:
    k = load(mat['P'])
    kw = dict(PREFS)
    if flags is not None:
        kw['usage'] = set(flags)
    k.add_uid(PGPUID.new('Uid One', email='one@example.com'), created=T0 + timedelta(days=1), **kw)
    prim[fl(flags)] = bytes(k)

# subkey packet + binding signature for every (subkey, flag set)
base = prim[fl({F.Certify})]
subtail = {}
for sname in ('S1', 'S2', 'S3'):
    for flags in ALL:
        k = load(base)
        k.add_subkey(load(mat[sname]), usage=set(flags), created=T0 + timedelta(days=2))
        b = bytes(k)
        assert b.startswith(base)
        subtail[sname, fl(flags)] = b[len(base):]


def build(pflags, subs):
    blob = prim[fl(pflags)] + b''.join(subtail[s, fl(f)] for s, f in subs)
    return load(blob)


def sig_facts(key, sig, subject):
    pub = key.pubkey
    try:
        ok = bool(pub.verify(subject, sig))
    except Exception as e:  # noqa
        ok = exc(e)
    return 'signer=%s fpr=%s type=%s verify=%s' % (role(sig.signer), role(sig.signer_fingerprint), sig.type.name, ok)


def do_sign(key, **kw):
    sig = key.sign('some text', **kw)
    return sig_facts(key, sig, 'some text')


def do_certify(key, other, **kw):
    uid = other.userids[0]
    sig = key.certify(uid, **kw)
    pub = key.pubkey
    try:
        ok = bool(pub.verify(uid, sig))
    except Exception as e:  # noqa
        ok = exc(e)
    return 'signer=%s fpr=%s type=%s verify=%s' % (role(sig.signer), role(sig.signer_fingerprint), sig.type.name, ok)


def do_encrypt(pub, priv, **kw):
    msg = PGPMessage.new('secret text')
    enc = pub.encrypt(msg, **kw)
    facts = 'encrypters=%s' % sorted(role(e) for e in enc.encrypters)
    # round trip through bytes, then decrypt with the private primary (must find the subkey)
    enc2 = PGPMessage.from_blob(bytes(enc))
    facts += ' reparsed=%s' % sorted(role(e) for e in enc2.encrypters)
    if priv is not None:
        try:
            dec = priv.decrypt(enc2)
            facts += ' dec=%r' % (dec.message if not dec.is_encrypted else 'STILL-ENCRYPTED')
        except Exception as e:  # noqa
            facts += ' dec=' + exc(e)
    return facts


other = load(mat['X'])
other.add_uid(PGPUID.new('Other', email='other@example.com'), usage={F.Certify, F.Sign}, **PREFS)


def run_ops(key, label):
    out('== %s\n' % label)
    for enforce in (True, False):
        key._require_usage_flags = enforce
        pub = key.pubkey
        pub._require_usage_flags = enforce
        out('  enforce=%s sign    : %s\n' % (enforce, attempt(lambda: do_sign(key))))
        out('  enforce=%s certify : %s\n' % (enforce, attempt(lambda: do_certify(key, other))))
        out('  enforce=%s encrypt : %s\n' % (enforce, attempt(lambda: do_encrypt(pub, key))))
    key._require_usage_flags = True


# ---------------------------------------------------------------- section 1: flag matrix
out('# section 1: flag matrix\n')
SMALL = [set(), {F.Certify}, {F.Sign}, {F.EncryptCommunications}, {F.EncryptStorage}, {F.Authentication},
         {F.Sign, F.EncryptCommunications}, {F.Certify, F.Sign, F.EncryptCommunications, F.EncryptStorage, F.Authentication}]
TINY = [set(), {F.Sign}, {F.EncryptStorage}, {F.Certify, F.Authentication}]

# 1a: every one of the 32 primary flag sets (and a self-sig without a KeyFlags subpacket), no subkey
for pf in ALL + [None]:
    run_ops(build(pf, []), 'P=%s' % fl(pf))

# 1b: primary restricted, one subkey with each of the 32 sets
for pf in (set(), {F.Certify}, {F.Sign}, {F.EncryptCommunications}):
    for sf in ALL:
        run_ops(build(pf, [('S1', sf)]), 'P=%s S1=%s' % (fl(pf), fl(sf)))

# 1c: two subkeys
for pf, choices in ((set(), SMALL), ({F.Sign, F.EncryptStorage}, TINY)):
    for f1 in choices:
        for f2 in choices:
            run_ops(build(pf, [('S1', f1), ('S2', f2)]), 'P=%s S1=%s S2=%s' % (fl(pf), fl(f1), fl(f2)))

# 1d: three subkeys (also in a different packet order)
for f1 in TINY:
    for f2 in TINY:
        for f3 in TINY:
            run_ops(build({F.Certify}, [('S3', f3), ('S1', f1), ('S2', f2)]),
                    'P={C} S3=%s S1=%s S2=%s' % (fl(f3), fl(f1), fl(f2)))

# ---------------------------------------------------------------- section 2: decrypt addressing
out('# section 2: decryption addressing\n')
key = build({F.Certify}, [('S1', {F.Sign}), ('S2', {F.EncryptCommunications}), ('S3', {F.EncryptStorage})])
pub = key.pubkey
for sk in pub.subkeys.values():
    def _enc_direct(sk=sk):
        enc = sk.encrypt(PGPMessage.new('direct to subkey'))
        res = 'encrypters=%s' % sorted(role(e) for e in enc.encrypters)
        res += ' dec-by-primary=%r' % key.decrypt(enc).message
        for name, priv in [(role(s.fingerprint.keyid), s) for s in key.subkeys.values()]:
            try:
                res += ' dec-by-%s=%r' % (name, priv.decrypt(enc).message)
            except Exception as e:  # noqa
                res += ' dec-by-%s=%s' % (name, exc(e))
        return res
    out('  direct %s: %s\n' % (role(sk.fingerprint.keyid), attempt(_enc_direct)))

stranger = build({F.Certify}, [('S1', {F.EncryptCommunications})])
enc = key.pubkey.encrypt(PGPMessage.new('for key'))
out('  addressed to %s\n' % sorted(role(e) for e in enc.encrypters))
out('  other key decrypt       : %s\n' % attempt(lambda: other.decrypt(enc).message))
out('  public key decrypt      : %s\n' % attempt(lambda: key.pubkey.decrypt(enc).message))
out('  decrypt of plain message: %s\n' % attempt(lambda: key.decrypt(PGPMessage.new('plain')).message))
# two recipients
enc2 = stranger.pubkey.encrypt(PGPMessage.new('two recipients'), sessionkey=b'\x01' * 16, cipher=SymmetricKeyAlgorithm.AES128)
enc2 = key.pubkey.encrypt(enc2, sessionkey=b'\x01' * 16, cipher=SymmetricKeyAlgorithm.AES128)
out('  two recipients          : %s\n' % sorted(role(e) for e in enc2.encrypters))
out('  decrypt by first        : %s\n' % attempt(lambda: stranger.decrypt(enc2).message))
out('  decrypt by second       : %s\n' % attempt(lambda: key.decrypt(enc2).message))
out('  decrypt by other        : %s\n' % attempt(lambda: other.decrypt(enc2).message))

# ---------------------------------------------------------------- section 3: identities with different flags
out('# section 3: identity selection\n')
_IDF = [{F.Certify}, {F.Sign}, {F.EncryptCommunications}, {F.Sign, F.EncryptStorage}]
for fa, fb, sf in itertools.product(_IDF, _IDF, [{F.Sign}, {F.EncryptCommunications, F.Authentication}]):
    k = build(fa, [('S1', sf)])
    k.add_uid(PGPUID.new('Uid Two', comment='second', email='two@example.com'), usage=set(fb),
              created=T0 + timedelta(days=3), **PREFS)
    k = load(bytes(k))
    out('== uid1=%s uid2=%s S1=%s\n' % (fl(fa), fl(fb), fl(sf)))
    for user in (None, 'Uid One', 'two@example.com', 'second', 'nobody'):
        kw = {} if user is None else {'user': user}
        out('  user=%-16r sign    : %s\n' % (user, attempt(lambda: do_sign(k, **kw))))
        out('  user=%-16r certify : %s\n' % (user, attempt(lambda: do_certify(k, other, **kw))))
        out('  user=%-16r encrypt : %s\n' % (user, attempt(lambda: do_encrypt(k.pubkey, k, **kw))))
        out('  user=%-16r flags   : %s / %s\n' % (user, attempt(lambda: fl(k._get_key_flags(user))),
                                                 attempt(lambda: fl(next(iter(k.subkeys.values()))._get_key_flags(user)))))

# ---------------------------------------------------------------- section 4: histories (most recent self-signature wins)
out('# section 4: histories\n')
for old, new in itertools.product([set(), {F.Sign}, {F.EncryptCommunications}, {F.Sign, F.EncryptStorage}], repeat=2):
    for order in ('old-first', 'new-first'):
        k = build({F.Certify}, [])
        sub = load(mat['S1'])
        first, second = (old, 2), (new, 5)
        if order == 'new-first':
            first, second = second, first
        k.add_subkey(sub, usage=set(first[0]), created=T0 + timedelta(days=first[1]))
        bsig = k.bind(sub, usage=set(second[0]), created=T0 + timedelta(days=second[1]))
        sub |= bsig
        for variant, kk in (('live', k), ('reparsed', load(bytes(k)))):
            out('== old=%s new=%s %s %s: subflags=%s\n' % (fl(old), fl(new), order, variant,
                                                        fl(next(iter(kk.subkeys.values()))._get_key_flags())))
            out('  sign    : %s\n' % attempt(lambda: do_sign(kk)))
            out('  encrypt : %s\n' % attempt(lambda: do_encrypt(kk.pubkey, kk)))

# ---------------------------------------------------------------- section 5: key forms
out('# section 5: key forms\n')
k = build({F.Certify}, [('S1', {F.Sign}), ('S2', {F.EncryptCommunications, F.EncryptStorage})])
k2 = build({F.Certify, F.Sign, F.EncryptCommunications}, [])
for label, kk in (('with-subkeys', k), ('primary-only', k2)):
    pub = kk.pubkey
    encmsg = pub.encrypt(PGPMessage.new('for forms'))
    out('== %s private-unprotected\n' % label)
    out('  flags is_public=%s is_protected=%s is_unlocked=%s\n' % (kk.is_public, kk.is_protected, kk.is_unlocked))
    out('  sign           : %s\n' % attempt(lambda: do_sign(kk)))
    out('  certify        : %s\n' % attempt(lambda: do_certify(kk, other)))
    out('  encrypt(priv)  : %s\n' % attempt(lambda: do_encrypt(kk, kk)))
    out('  decrypt        : %s\n' % attempt(lambda: kk.decrypt(encmsg).message))
    out('  revoke         : %s\n' % attempt(lambda: role(kk.revoke(kk).signer)))
    out('  revoker        : %s\n' % attempt(lambda: role(kk.revoker(other).signer)))
    out('== %s public\n' % label)
    out('  flags is_public=%s\n' % pub.is_public)
    out('  sign           : %s\n' % attempt(lambda: do_sign(pub)))
    out('  certify        : %s\n' % attempt(lambda: do_certify(pub, other)))
    out('  decrypt        : %s\n' % attempt(lambda: pub.decrypt(encmsg).message))
    out('  revoke         : %s\n' % attempt(lambda: role(pub.revoke(pub).signer)))
    out('  revoker        : %s\n' % attempt(lambda: role(pub.revoker(other).signer)))
    out('  bind           : %s\n' % attempt(lambda: role(pub.bind(load(mat['S3']), usage={F.Sign}).signer)))
    pub._require_usage_flags = False
    out('  sign (no enf)  : %s\n' % attempt(lambda: do_sign(pub)))
    pub._require_usage_flags = True
    kk.protect('correct horse', SymmetricKeyAlgorithm.AES128, HashAlgorithm.SHA256)
    out('== %s private-locked\n' % label)
    out('  flags is_public=%s is_protected=%s is_unlocked=%s\n' % (kk.is_public, kk.is_protected, kk.is_unlocked))
    out('  sign           : %s\n' % attempt(lambda: do_sign(kk)))
    out('  certify        : %s\n' % attempt(lambda: do_certify(kk, other)))
    out('  encrypt(priv)  : %s\n' % attempt(lambda: do_encrypt(kk, None)))
    out('  encrypt(pub)   : %s\n' % attempt(lambda: do_encrypt(kk.pubkey, None)))
    out('  decrypt        : %s\n' % attempt(lambda: kk.decrypt(encmsg).message))
    out('  revoke         : %s\n' % attempt(lambda: role(kk.revoke(kk).signer)))
    kk._require_usage_flags = False
    out('  sign (no enf)  : %s\n' % attempt(lambda: do_sign(kk)))
    out('  decrypt(no enf): %s\n' % attempt(lambda: kk.decrypt(encmsg).message))
    kk._require_usage_flags = True
    out('  wrong password : %s\n' % attempt(lambda: kk.unlock('wrong').__enter__()))
    with kk.unlock('correct horse'):
        out('== %s private-unlocked\n' % label)
        out('  flags is_public=%s is_protected=%s is_unlocked=%s\n' % (kk.is_public, kk.is_protected, kk.is_unlocked))
        out('  sign           : %s\n' % attempt(lambda: do_sign(kk)))
        out('  certify        : %s\n' % attempt(lambda: do_certify(kk, other)))
        out('  encrypt(priv)  : %s\n' % attempt(lambda: do_encrypt(kk, None)))
        out('  decrypt        : %s\n' % attempt(lambda: kk.decrypt(encmsg).message))
        out('  revoke         : %s\n' % attempt(lambda: role(kk.revoke(kk).signer)))
    out('== %s private-relocked\n' % label)
    out('  sign           : %s\n' % attempt(lambda: do_sign(kk)))
    out('  decrypt        : %s\n' % attempt(lambda: kk.decrypt(encmsg).message))

# ---------------------------------------------------------------- section 6: key without identity / without key
out('# section 6: incomplete keys\n')
bare = load(mat['P'])
out('  flags of bare primary    : %s\n' % attempt(lambda: fl(bare._get_key_flags())))
out('  flags of bare primary (u): %s\n' % attempt(lambda: fl(bare._get_key_flags('x'))))
out('  sign                     : %s\n' % attempt(lambda: do_sign(bare)))
out('  certify other            : %s\n' % attempt(lambda: do_certify(bare, other)))
out('  encrypt (pub of bare)    : %s\n' % attempt(lambda: do_encrypt(bare.pubkey, None)))
out('  decrypt                  : %s\n' % attempt(lambda: bare.decrypt(enc).message))
out('  revoke                   : %s\n' % attempt(lambda: role(bare.revoke(bare).signer)))
out('  bind                     : %s\n' % attempt(lambda: role(bare.bind(load(mat['S1']), usage={F.Sign}).signer)))
out('  add_subkey               : %s\n' % attempt(lambda: bare.add_subkey(load(mat['S1']), usage={F.Sign})))
bare._require_usage_flags = False
out('  sign (no enforcement)    : %s\n' % attempt(lambda: do_sign(bare)))
bare._require_usage_flags = True


def _first():
    bare.add_uid(PGPUID.new('First', email='first@example.com'), usage={F.Certify, F.Sign}, **PREFS)
    s = bare.userids[0].selfsig
    return 'signer=%s fpr=%s verify=%s' % (role(s.signer), role(s.signer_fingerprint), bool(bare.pubkey.verify(bare.userids[0], s)))


out('  first self-certification : %s\n' % attempt(_first))
out('  sign afterwards          : %s\n' % attempt(lambda: do_sign(bare)))
empty = PGPKey()
out('  empty sign               : %s\n' % attempt(lambda: empty.sign('x')))
out('  empty encrypt            : %s\n' % attempt(lambda: empty.encrypt(PGPMessage.new('x'))))
out('  empty decrypt            : %s\n' % attempt(lambda: empty.decrypt(enc)))
# a detached subkey object (has a parent) used directly
k = build({F.Certify}, [('S1', {F.Sign}), ('S2', {F.EncryptCommunications})])
for sk in k.subkeys.values():
    r = role(sk.fingerprint.keyid)
    out('  subkey %s direct sign    : %s\n' % (r, attempt(lambda: do_sign(sk))))
    out('  subkey %s direct certify : %s\n' % (r, attempt(lambda: do_certify(sk, other))))
    out('  subkey %s direct encrypt : %s\n' % (r, attempt(lambda: do_encrypt(k.pubkey.subkeys[sk.fingerprint.keyid], k))))

# ---------------------------------------------------------------- section 7: test data keys
out('# section 7: tests/testdata keys\n')
ROLES.clear()
for path in sorted(glob.glob('tests/testdata/keys/*.asc')):
    name = os.path.basename(path)
    try:
        k, _ = PGPKey.from_file(path)
    except Exception as e:  # noqa
        out('== %s: load %s\n' % (name, exc(e)))
        continue
    ROLES[k.fingerprint.keyid] = 'P'
    for i, sk in enumerate(k.subkeys.values(), 1):
        ROLES[sk.fingerprint.keyid] = 'S%d' % i
    out('== %s alg=%s public=%s protected=%s unlocked=%s\n' % (name, k.key_algorithm.name, k.is_public, k.is_protected, k.is_unlocked))
    out('  flags: P=%s %s\n' % (attempt(lambda: fl(k._get_key_flags())),
                               ' '.join('%s=%s' % (role(s.fingerprint.keyid), fl(s._get_key_flags())) for s in k.subkeys.values())))
    priv_for_dec = k if not k.is_public and not k.is_protected else None
    out('  sign   : %s\n' % attempt(lambda: do_sign(k)))
    out('  certify: %s\n' % attempt(lambda: do_certify(k, other)))
    out('  encrypt: %s\n' % attempt(lambda: do_encrypt(k, priv_for_dec)))
    out('  enc/pub: %s\n' % attempt(lambda: do_encrypt(k.pubkey if not k.is_public else k, priv_for_dec)))
    if k.is_protected:
        def _unlocked():
            with k.unlock('QwertyUiop'):
                return '%s | %s' % (do_sign(k), do_encrypt(k.pubkey, k))
        out('  unlocked: %s\n' % attempt(_unlocked))
    k._require_usage_flags = False
    out('  no-enforce sign   : %s\n' % attempt(lambda: do_sign(k)))
    out('  no-enforce encrypt: %s\n' % attempt(lambda: do_encrypt(k.pubkey if not k.is_public else k, priv_for_dec)))
    ROLES.clear()

out('# done\n')
