"""Deterministic probe for property C11 (cleartext signature framework).

Run as:  cd <tree> && PYTHONHASHSEED=0 /venv/bin/python equiv.py
Prints a transcript of deterministic facts only.
"""
import hashlib
import time
import os
import shutil
import subprocess
import sys
import tempfile
import warnings
from datetime import datetime, timezone

sys.path.insert(0, os.getcwd())
warnings.simplefilter('ignore')

import pgpy  # noqa: E402
from pgpy import PGPKey, PGPMessage, PGPSignature  # noqa: E402
from pgpy.constants import HashAlgorithm, SignatureType  # noqa: E402
from pgpy.types import Armorable  # noqa: E402

assert os.path.dirname(os.path.dirname(os.path.abspath(pgpy.__file__))) == os.getcwd(), pgpy.__file__

T0 = time.time()
CREATED = datetime(2020, 1, 2, 3, 4, 5, tzinfo=timezone.utc)
KD = 'tests/testdata/keys/'


def h(x):
    if isinstance(x, str):
        x = x.encode('utf-8', 'surrogatepass')
    return hashlib.sha256(bytes(x)).hexdigest()[:16]


def attempt(label, fn):
    try:
        r = fn()
    except Exception as e:  # noqa
        print(label, '-> EXC', type(e).__name__)
        return None
    print(label, '->', r)
    return r


def load(name):
    return PGPKey.from_file(KD + name)[0]


SEC = {
    'rsa': load('rsa.1.sec.asc'),
    'dsa': load('dsa.1.sec.asc'),
    'ecdsa': load('ecc.1.sec.asc'),
    'eddsa': load('ecc.2.sec.asc'),
}
PUB = {
    'rsa': load('rsa.1.pub.asc'),
    'dsa': load('dsa.1.pub.asc'),
    'ecdsa': load('ecc.1.pub.asc'),
    'eddsa': load('ecc.2.pub.asc'),
}
DETERMINISTIC = {'rsa', 'eddsa'}

TEXTS = [
    '',
    '\n',
    '\n\n',
    'a',
    'a\n',
    'hello world',
    'hello world\n',
    '-',
    '-\n',
    '--',
    '- ',
    '- \n',
    '- - -',
    '- - escaped already\n- again',
    '-dash first\nplain\n-dash again\n',
    '- dash space\n- dash space 2',
    'From me\nFrom you\n',
    'From \n',
    ' -leading space dash',
    'x\n-\n-\n-\nx',
    '-----BEGIN PGP SIGNATURE-----',
    '-----BEGIN PGP SIGNATURE-----\n',
    'before\n-----BEGIN PGP SIGNATURE-----\nafter',
    'before\n-----BEGIN PGP SIGNED MESSAGE-----\nHash: SHA256\n\ninner\n-----BEGIN PGP SIGNATURE-----\n\nAAAA\n=AAAA\n-----END PGP SIGNATURE-----\nafter\n',
    '-----END PGP SIGNATURE-----',
    '-----BEGIN PGP MESSAGE-----\n\nAAAA\n=AAAA\n-----END PGP MESSAGE-----',
    'Hash: SHA1\n\nspoof',
    'Hash: SHA1',
    'trailing space \ntrailing tab\t\nboth \t \t\nnone',
    'trailing space at end ',
    'trailing tab at end\t\n',
    '   \n\t\t\n \t\n',
    'a\n\n\nb\n\n',
    '\n\nleading empties',
    'crlf line 1\r\ncrlf line 2\r\n',
    'crlf no final\r\nlast',
    '-crlf dash\r\n- crlf dash space\r\n',
    'crlf trailing blank \r\nnext\t\r\n',
    'mixed\nendings\r\nhere\n',
    'lone\rcarriage\rreturn',
    'lone cr at end\r',
    'cr then dash\r-dash after cr\n',
    'café naïve üñîçødé\n',
    'Добрый день\n-тире',
    '日本語のテキスト\n',
    'emoji \U0001F600 \U0001F4A9 non-BMP \U00010348\n-\U0001F600',
    'nbsp trailing \nideographic space trailing　\n',
    'form\x0cfeed and vtab\x0b here\n',
    'nul \x00 byte',
    'line sep   para sep   nel \x85 end',
    'x' * 5000,
    '-' * 3000 + '\n' + ' ' * 2000 + '\n' + 'y' * 4000 + '\n',
    '\n'.join('-line %d ' % i for i in range(300)),
    '=AAAA\n=\n==\n',
    'Comment: fake header\nVersion: 1\n\nbody',
    'ends with dashes\n-----',
    'ends with dashes nl\n-----\n',
    '----- five dashes and text',
    '‐‑‒–— unicode dashes\n−minus',
]

HASHES = [HashAlgorithm.SHA1, HashAlgorithm.SHA224, HashAlgorithm.SHA256, HashAlgorithm.SHA384,
          HashAlgorithm.SHA512, HashAlgorithm.RIPEMD160, HashAlgorithm.MD5]


def armor_head(s):
    """the part of a cleartext-signed message before the signature armor (deterministic)"""
    idx = s.rfind('-----BEGIN PGP SIGNATURE-----')
    return s[:idx] if idx >= 0 else s


def verdict(key, msg):
    try:
        sv = key.verify(msg)
    except Exception as e:  # noqa
        return 'EXC ' + type(e).__name__
    return '{}:good={}:bad={}:issues={}'.format(bool(sv), len(list(sv.good_signatures)), len(list(sv.bad_signatures)),
                                               sorted(int(s.issues) for s in sv._subjects))


def mh(m, det):
    # a non-cleartext read-back embeds the (possibly randomised) signature octets
    return h(m.message) if (det or m.type == 'cleartext') else '-'


def sign_roundtrip(label, text, signers, hashes):
    try:
        msg = PGPMessage.new(text, cleartext=True)
    except Exception as e:  # noqa
        print(label, 'new EXC', type(e).__name__)
        return None
    try:
        for kn, ha in zip(signers, hashes):
            msg |= SEC[kn].sign(msg, hash=ha, created=CREATED)
    except Exception as e:  # noqa
        print(label, 'sign EXC', type(e).__name__)
        return None
    try:
        out = str(msg)
    except Exception as e:  # noqa
        print(label, 'str EXC', type(e).__name__)
        return None
    det = all(k in DETERMINISTIC for k in signers)
    lines = out.split('\n')
    print(label, 'type', msg.type, 'magic', msg.magic, 'hdr', repr(lines[1]), 'head', h(armor_head(out)),
          'full', h(out) if det else '-', 'signed', h(msg._signed_data), 'msg', h(msg.message))
    for sig in msg.signatures:
        print(label, ' sig', sig.type.name, sig.hash_algorithm.name, sig.key_algorithm.name, sig.signer,
              'hashdata', h(sig.hashdata(msg._signed_data)),
              'bytes', h(bytes(sig)) if sig.key_algorithm.name in ('RSAEncryptOrSign', 'EdDSA') else '-')
    for kn in sorted(set(signers)):
        print(label, ' verify', kn, verdict(PUB[kn], msg))
    # read back
    try:
        sback = PGPMessage.from_blob(out)
        print(label, ' str-blob readback', sback.type, mh(sback, det), len(sback.signatures))
    except Exception as e:  # noqa
        print(label, ' str-blob readback EXC', type(e).__name__)
    try:
        back = PGPMessage.from_blob(out.encode('utf-8'))
    except Exception as e:  # noqa
        print(label, ' readback EXC', type(e).__name__)
        return out
    print(label, ' back type', back.type, 'same_text', back.message == msg.message, 'msg', mh(back, det),
          'nsig', len(back.signatures),
          'same_sigs', [bytes(a) == bytes(b) for a, b in zip(back.signatures, msg.signatures)],
          'restr_same', str(back) == out, 'hdrs', list(back.ascii_headers.items()))
    for kn in sorted(set(signers)):
        print(label, ' back verify', kn, verdict(PUB[kn], back))
    # and from bytes / CRLF transport
    try:
        back2 = PGPMessage.from_blob(out.replace('\r\n', '\n').replace('\n', '\r\n').encode('utf-8'))
        print(label, ' crlf-transport msg', mh(back2, det), 'nsig', len(back2.signatures),
              [verdict(PUB[kn], back2) for kn in sorted(set(signers))])
    except Exception as e:  # noqa
        print(label, ' crlf-transport EXC', type(e).__name__)
    return out


def section(name):
    print('=' * 8, name)
    sys.stderr.write('%.1f %s\n' % (time.time() - T0, name))


# ---------------------------------------------------------------- helpers
section('dash escape / unescape')
for i, t in enumerate(TEXTS):
    e = PGPMessage.dash_escape(t)
    u = PGPMessage.dash_unescape(e)
    print('T%02d' % i, 'len', len(t), 'esc', h(e), len(e), 'unesc_back', u == t, 'unesc_raw', h(PGPMessage.dash_unescape(t)),
          'esc2', h(PGPMessage.dash_escape(e)), 'instance', h(PGPMessage().dash_escape(t)))
for bad in (b'-bytes', bytearray(b'-ba'), None, 5, ['-x'], memoryview(b'-m')):
    attempt('dash_escape %s' % type(bad).__name__, lambda: PGPMessage.dash_escape(bad))
    attempt('dash_unescape %s' % type(bad).__name__, lambda: PGPMessage.dash_unescape(bad))

section('signed data / canonical hashdata')
probe_sig = PGPSignature.new(SignatureType.CanonicalDocument, SEC['rsa'].key_algorithm, HashAlgorithm.SHA256,
                             SEC['rsa'].fingerprint.keyid, created=CREATED)
bin_sig = PGPSignature.new(SignatureType.BinaryDocument, SEC['rsa'].key_algorithm, HashAlgorithm.SHA256,
                           SEC['rsa'].fingerprint.keyid, created=CREATED)
for i, t in enumerate(TEXTS):
    m = PGPMessage.new(t, cleartext=True)
    sd = m._signed_data
    print('T%02d' % i, 'signed', h(sd), len(sd), 'canon', h(probe_sig.hashdata(sd)), len(probe_sig.hashdata(sd)),
          'canon_bytes', h(probe_sig.hashdata(sd.encode('utf-8'))), 'bin', h(bin_sig.hashdata(sd)),
          'litmsg_signed_same', PGPMessage.new(t, compression=0)._signed_data == PGPMessage.new(t, compression=0).message
          if t else '-')
print('short', [bytes(probe_sig.hashdata(x))[:24].hex() for x in ('a \nb\t\r\nc', 'a\rb', '\n', '')])

# ---------------------------------------------------------------- sign / write / read / verify
section('every text x every signing algorithm (SHA256)')
OUTS = {}
for i, t in enumerate(TEXTS):
    for kn in ('rsa', 'dsa', 'ecdsa', 'eddsa'):
        OUTS[(i, kn)] = sign_roundtrip('T%02d/%s' % (i, kn), t, [kn], [HashAlgorithm.SHA256])

section('every hash algorithm')
for ha in HASHES:
    for kn in ('rsa', 'dsa', 'ecdsa', 'eddsa'):
        sign_roundtrip('H/%s/%s' % (ha.name, kn), '-dash\nFrom x \n- y\t\n\n', [kn], [ha])
for kn in ('rsa', 'eddsa'):
    sign_roundtrip('H/default/%s' % kn, 'default hash\n-x', [kn], [None])

section('several signers')
MULTI = [
    (['rsa', 'eddsa'], [HashAlgorithm.SHA256, HashAlgorithm.SHA512]),
    (['eddsa', 'rsa'], [HashAlgorithm.SHA512, HashAlgorithm.SHA256]),
    (['rsa', 'dsa', 'ecdsa', 'eddsa'], [HashAlgorithm.SHA256] * 4),
    (['rsa', 'dsa', 'ecdsa', 'eddsa'], [HashAlgorithm.SHA512, HashAlgorithm.SHA1, HashAlgorithm.SHA384, HashAlgorithm.SHA224]),
    (['rsa', 'rsa'], [HashAlgorithm.SHA256, HashAlgorithm.SHA384]),
]
for j, (ks, hs) in enumerate(MULTI):
    for i in (0, 7, 14, 23, 28, 34, 45):
        sign_roundtrip('M%d/T%02d' % (j, i), TEXTS[i], ks, hs)

section('unsigned cleartext')
for i in (0, 4, 14, 28, 34):
    m = PGPMessage.new(TEXTS[i], cleartext=True)
    attempt('U/T%02d str' % i, lambda: h(str(m)))
    attempt('U/T%02d first lines' % i, lambda: str(m).split('\n')[:3])
    attempt('U/T%02d bytes' % i, lambda: bytes(m).hex())
    attempt('U/T%02d readback' % i, lambda: PGPMessage.from_blob(str(m)).type)
    attempt('U/T%02d verify' % i, lambda: verdict(PUB['rsa'], m))

section('new() variants')
for label, fn in [
    ('bytes', lambda: PGPMessage.new(b'-bytes input\nline 2 \n', cleartext=True)),
    ('bytearray', lambda: PGPMessage.new(bytearray(b'-ba input\n'), cleartext=True)),
    ('latin1', lambda: PGPMessage.new('café\n-x'.encode('latin-1'), cleartext=True, encoding='latin-1')),
    ('jis', lambda: PGPMessage.new('日本\n-x'.encode('jisx0213'), cleartext=True, encoding='jisx0213')),
    ('badutf8', lambda: PGPMessage.new(b'\xff\xfe', cleartext=True)),
    ('sensitive-ignored', lambda: PGPMessage.new('-s\n', cleartext=True, sensitive=True, format='b', compression=1)),
]:
    try:
        m = fn()
        m |= SEC['rsa'].sign(m, hash=HashAlgorithm.SHA256, created=CREATED)
        s = str(m)
        b = PGPMessage.from_blob(s)
        print('N/' + label, m.type, h(m.message), h(s), list(m.ascii_headers.items()), b.message == m.message,
              verdict(PUB['rsa'], b), m.is_signed, m.is_encrypted, m.is_compressed, m.is_sensitive, repr(m.filename),
              sorted(m.signers), sorted(m.issuers), len(list(iter(m))))
    except Exception as e:  # noqa
        print('N/' + label, 'EXC', type(e).__name__)

# ---------------------------------------------------------------- stored messages from other implementations
section('stored cleartext messages')
STORED = ['tests/testdata/blocks/cleartext.asc', 'tests/testdata/blocks/cleartext.twosigs.asc',
          'tests/testdata/messages/cleartext.signed.asc', 'tests/testdata/messages/cleartext.dashesc.signed.asc',
          'tests/testdata/messages/cleartext.empty.signed.asc', 'tests/testdata/messages/cleartext.oneline.signed.asc']
ALLPUB = dict(PUB)
for extra in ('mixed.1.pub.asc', 'targette.pub.rsa.asc'):
    ALLPUB[extra] = load(extra)
ALLPUB['blocks-rsa'] = PGPKey.from_file('tests/testdata/blocks/rsapubkey.asc')[0]
ALLPUB['blocks-dsa'] = PGPKey.from_file('tests/testdata/blocks/dsapubkey.asc')[0]
ALLPUB['pubtest'] = PGPKey.from_file('tests/testdata/pubtest.asc')[0]
for f in STORED:
    raw = open(f, 'rb').read()
    for variant, blob in (('file', raw), ('str', raw.decode('latin-1')),
                          ('crlf', raw.replace(b'\r\n', b'\n').replace(b'\n', b'\r\n')),
                          ('bytearray', bytearray(raw))):
        try:
            m = PGPMessage.from_blob(blob)
        except Exception as e:  # noqa
            print(f, variant, 'EXC', type(e).__name__)
            continue
        print(f, variant, m.type, m.magic, repr(m.message[:60]), h(m.message), 'signed', h(m._signed_data),
              'signers', sorted(m.signers), 'sigs', [(s.hash_algorithm.name, s.key_algorithm.name, s.type.name) for s in m.signatures],
              'hdrs', list(m.ascii_headers.items()), 'str', h(str(m)), 'restr', h(str(PGPMessage.from_blob(str(m)))),
              'line2', repr(str(m).split('\n')[1]))
        for kn in sorted(ALLPUB):
            v = verdict(ALLPUB[kn], m)
            if not v.startswith('EXC PGPError'):
                print('   verify', kn, v)
    d = Armorable.ascii_unarmor(raw)
    print(f, 'unarmor', d['magic'], d['hashes'], h(d['cleartext']), list((d['headers'] or {}).items()), h(d['body']), d['crc'],
          Armorable.is_armor(raw), Armorable.is_ascii(raw))

section('regression 341 message (spurious dash escapes, two hash names)')
blob341 = open('tests/test_99_regressions.py').read().split("message_data = r'''", 1)[1].split("'''", 1)[0]
m = PGPMessage.from_blob(blob341)
print(m.type, repr(m.message), sorted(m.signers), verdict(PUB['rsa'], m), repr(str(m).split('\n')[1]), h(str(m)))
print(Armorable.ascii_unarmor(blob341)['hashes'])

section('hand-made inputs to the reader')
good = OUTS[(14, 'rsa')]
sigblock = good[good.rfind('-----BEGIN PGP SIGNATURE-----'):]
HAND = {
    'no hash header': '-----BEGIN PGP SIGNED MESSAGE-----\n\n' + armor_head(good).split('\n\n', 1)[1] + sigblock,
    'two hashes': good.replace('Hash: SHA256', 'Hash: SHA1,SHA256'),
    'lowercase hash': good.replace('Hash: SHA256', 'Hash: sha256'),
    'unescaped dash body': '-----BEGIN PGP SIGNED MESSAGE-----\nHash: SHA256\n\n-dash first\nplain\n-dash again\n\n' + sigblock,
    'double escaped': good.replace('- -dash first', '- - -dash first'),
    'trailing blanks added': good.replace('plain\n', 'plain \t \n'),
    'tampered': good.replace('plain', 'plaim'),
    'crlf': good.replace('\n', '\r\n'),
    'no final newline': good.rstrip('\n'),
    'leading junk': 'some mail header\n\n' + good + '\ntrailer\n',
    'wrong magic': good.replace('PGP SIGNATURE', 'PGP PUBLIC KEY BLOCK'),
    'private key magic': sigblock.replace('PGP SIGNATURE', 'PGP PRIVATE KEY BLOCK'),
    'only signature block': sigblock,
    'truncated': good[:len(good) // 2],
    'not armored text': 'hello',
    'empty': '',
    'bad crc': good.replace(good.split('\n=')[1][:4], 'AAAA'),
    'with armor headers': good.replace('-----BEGIN PGP SIGNATURE-----\n', '-----BEGIN PGP SIGNATURE-----\nVersion: Probe 1.0\nComment: hi there\n'),
}
for name in HAND:
    blob = HAND[name]
    try:
        m = PGPMessage.from_blob(blob)
    except Exception as e:  # noqa
        print('HAND', name, 'EXC', type(e).__name__)
        continue
    try:
        print('HAND', name, m.type, h(m.message) if isinstance(m.message, str) else type(m.message).__name__,
              len(m.signatures), list(m.ascii_headers.items()),
              verdict(PUB['rsa'], m), h(str(m)))
    except Exception as e:  # noqa
        print('HAND', name, 'post EXC', type(e).__name__)
for name in ('wrong magic', 'private key magic', 'only signature block'):
    attempt('HAND sig.from_blob ' + name, lambda: type(PGPSignature.from_blob(HAND[name])).__name__)
    attempt('HAND key.from_blob ' + name, lambda: type(PGPKey.from_blob(HAND[name])[0]).__name__)

section('copy / or')
import copy  # noqa: E402
m = PGPMessage.from_blob(OUTS[(14, 'eddsa')])
c = copy.copy(m)
print(str(c) == str(m), c.message == m.message, verdict(PUB['eddsa'], c), bytes(c) == bytes(m))
n = PGPMessage()
n |= m
print(n.type, str(n) == str(m), verdict(PUB['eddsa'], n))
attempt('or int', lambda: PGPMessage() | 5)
attempt('type of empty', lambda: PGPMessage().type)
attempt('str of empty', lambda: str(PGPMessage()))
lit = PGPMessage.new('-literal\n- text \n', compression=0)
lit |= SEC['rsa'].sign(lit, hash=HashAlgorithm.SHA256, created=CREATED)
print('literal', lit.type, lit.magic, [s.type.name for s in lit.signatures], verdict(PUB['rsa'], lit),
      str(lit).split('\n')[0], verdict(PUB['rsa'], PGPMessage.from_blob(str(lit))))

# ---------------------------------------------------------------- independent implementation
section('gpg interop')
GPG = shutil.which('gpg')
if GPG is None:
    print('gpg not available')
else:
    home = tempfile.mkdtemp(prefix='c11gpg')
    os.chmod(home, 0o700)
    env = dict(os.environ, GNUPGHOME=home, LC_ALL='C', LANG='C')
    base = [GPG, '--batch', '--no-tty', '--quiet', '--trust-model', 'always', '--pinentry-mode', 'loopback', '--passphrase', '']

    def run(args, data=None):
        p = subprocess.run(base + args, input=data, stdout=subprocess.PIPE, stderr=subprocess.PIPE, env=env, timeout=60)
        return p.returncode, p.stdout, p.stderr

    try:
        for f in ('rsa.1.sec.asc', 'dsa.1.sec.asc', 'ecc.1.sec.asc', 'ecc.2.sec.asc'):
            rc, _, _ = run(['--import', KD + f])
            print('import', f, rc)
        # PGPy -> gpg
        for i in range(len(TEXTS)):
            row = []
            for kn in ('rsa', 'eddsa') if i % 3 else ('rsa', 'dsa', 'ecdsa', 'eddsa'):
                out = OUTS.get((i, kn))
                if out is None:
                    row.append((kn, None))
                    continue
                rc, so, se = run(['--status-fd', '1', '--verify'], out.encode('utf-8'))
                st = sorted(set(w.split()[1] for w in so.decode('latin-1').splitlines()
                                if w.startswith('[GNUPG:]') and w.split()[1] in ('GOODSIG', 'BADSIG', 'ERRSIG', 'NODATA', 'VALIDSIG')))
                row.append((kn, rc, st))
            print('pgpy->gpg T%02d' % i, row)
        # PGPy -> gpg: extracted text equals what PGPy reads back
        for i in (14, 15, 28, 34, 45, 52):
            out = OUTS[(i, 'rsa')]
            rc, so, se = run(['--decrypt'], out.encode('utf-8'))
            print('pgpy->gpg text T%02d' % i, rc, h(so), len(so))
        # gpg -> PGPy
        fprs = {'rsa': 'F4294BC8094A7E0585C85E8637473B3758C44F36', 'dsa': 'EBC88A94ACB110F1BE3FE3C12B474BB02084C712',
                'ecdsa': '9CBF59CE40563202F085B399D01055FBCADD268E', 'eddsa': '7F0F97AD539D51F74B018BD1062E6AC5205D871E'}
        for i in range(len(TEXTS)):
            row = []
            for kn, dig in (('rsa', 'SHA256'), ('eddsa', 'SHA512')) if i % 4 else (('rsa', 'SHA1'), ('dsa', 'SHA256'), ('ecdsa', 'SHA384'), ('eddsa', 'SHA224')):
                rc, so, se = run(['--digest-algo', dig, '--local-user', fprs[kn], '--clearsign'], TEXTS[i].encode('utf-8'))
                if rc != 0:
                    row.append((kn, 'gpg rc', rc))
                    continue
                try:
                    m = PGPMessage.from_blob(so)
                    if m.type != 'cleartext':
                        # gpg's output (with its creation time) was taken as opaque binary; nothing deterministic to show
                        row.append((kn, m.type, len(m.signatures)))
                        continue
                    row.append((kn, m.type, h(m.message), len(m.message), [s.hash_algorithm.name for s in m.signatures],
                                verdict(PUB[kn], m), str(m).split('\n')[1],
                                verdict(PUB[kn], PGPMessage.from_blob(str(m)))))
                except Exception as e:  # noqa
                    row.append((kn, 'EXC', type(e).__name__))
            print('gpg->pgpy T%02d' % i, row)
        # gpg two signers
        rc, so, se = run(['--local-user', fprs['rsa'], '--local-user', fprs['eddsa'], '--clearsign'], b'-two\nsigners \n')
        if rc == 0:
            m = PGPMessage.from_blob(so)
            print('gpg 2 signers', len(m.signatures), repr(m.message), verdict(PUB['rsa'], m), verdict(PUB['eddsa'], m),
                  str(m).split('\n')[1])
        else:
            print('gpg 2 signers rc', rc)
    finally:
        subprocess.run(['gpgconf', '--kill', 'all'], env=env, stdout=subprocess.DEVNULL, stderr=subprocess.DEVNULL)
        shutil.rmtree(home, ignore_errors=True)

print('done')
