import os, sys, glob, hashlib, warnings, copy
sys.path.insert(0, os.getcwd())
import pgpy
from pgpy import PGPKey, PGPMessage
from pgpy.constants import SymmetricKeyAlgorithm, PubKeyAlgorithm
from pgpy.packet.packets import IntegrityProtectedSKEDataV1, PKESessionKeyV3, MDC
from pgpy.symenc import _encrypt

warnings.simplefilter('ignore')
out = []


def rec(label, fn):
    try:
        r = fn()
        if isinstance(r, PGPMessage):
            m = r.message
            if not isinstance(m, (bytes, bytearray)):
                m = str(m).encode('utf-8')
            r = ('MSG', bytes(m), bytes(r.__bytes__()))
        out.append((label, 'ok', repr(r)))
    except Exception as e:  # noqa
        out.append((label, type(e).__name__, str(e)))


keys = {}
for kf in sorted(glob.glob('tests/testdata/keys/*.sec.asc')):
    keys[os.path.basename(kf)] = PGPKey.from_file(kf)[0]

msgfiles = sorted(glob.glob('tests/testdata/messages/message*.asc')) + ['tests/testdata/message.enc.twofish.asc']

# 1. whole-message decryption: passphrases and every fixture key against every fixture message
for mf in msgfiles:
    for pw in ("QwertyUiop", "TheWrongPassword", ""):
        rec((mf, 'pass', pw), lambda: PGPMessage.from_file(mf).decrypt(pw))
    for kn, k in keys.items():
        rec((mf, 'key', kn), lambda: k.decrypt(PGPMessage.from_file(mf)))

# 2. tampering with the encrypted body / session key packets of fixture messages
def tamper(mf, how):
    msg = PGPMessage.from_file(mf)
    if how[0] == 'ct':
        ct = msg._message.ct
        pos = how[1] % len(ct)
        ct[pos] ^= how[2]
    elif how[0] == 'trunc':
        del msg._message.ct[-how[1]:]
    elif how[0] == 'ext':
        msg._message.ct += b'\x00' * how[1]
    elif how[0] == 'esk':
        for sk in msg._sessionkeys:
            if hasattr(sk, 'ct') and isinstance(sk.ct, (bytes, bytearray)) and len(sk.ct):
                sk.ct[how[1] % len(sk.ct)] ^= how[2]
            elif hasattr(sk.ct, 'c') and len(sk.ct.c):
                sk.ct.c[how[1] % len(sk.ct.c)] ^= how[2]
            elif hasattr(sk.ct, 'me_mod_n'):
                sk.ct.me_mod_n = type(sk.ct.me_mod_n)(int(sk.ct.me_mod_n) ^ (how[2] << (8 * (how[1] % 16))))
    return msg

hows = [('ct', 0, 1), ('ct', 5, 0x80), ('ct', 17, 2), ('ct', -1, 1), ('ct', -21, 1), ('ct', -22, 0x40), ('ct', -23, 1),
        ('trunc', 1), ('trunc', 20), ('trunc', 22), ('trunc', 23), ('ext', 1), ('ext', 16), ('esk', 0, 1), ('esk', -1, 1)]
for mf in msgfiles:
    for how in hows:
        rec((mf, 'tamper-pass', how), lambda: tamper(mf, how).decrypt("QwertyUiop"))
        for kn, k in keys.items():
            rec((mf, 'tamper-key', kn, how), lambda: k.decrypt(tamper(mf, how)))

# 3. IntegrityProtectedSKEDataV1.decrypt directly, on deterministic ciphertexts
for alg in (SymmetricKeyAlgorithm.AES128, SymmetricKeyAlgorithm.AES256, SymmetricKeyAlgorithm.CAST5,
            SymmetricKeyAlgorithm.TripleDES, SymmetricKeyAlgorithm.Camellia192):
    key = bytes(bytearray(range(alg.key_size // 8)))
    bs = alg.block_size // 8
    iv = bytes(bytearray(range(100, 100 + bs)))
    for body in (b'', b'x', b'hello world' * 7, bytes(bytearray(range(256)))):
        good = iv + iv[-2:] + body
        good_t = good + b'\xd3\x14' + hashlib.sha1(good + b'\xd3\x14').digest()
        variants = {
            'good': good_t,
            'badhash': good_t[:-1] + bytes(bytearray([good_t[-1] ^ 1])),
            'badhdr': good + b'\xd3\x15' + hashlib.sha1(good + b'\xd3\x15').digest(),
            'badhdr2': good + b'\xd2\x14' + hashlib.sha1(good + b'\xd3\x14').digest(),
            'nomdc': good,
            'short': good_t[:21],
            'empty': b'',
            'only-trailer': b'\xd3\x14' + hashlib.sha1(b'\xd3\x14').digest(),
            'badrepeat': (lambda g: g + b'\xd3\x14' + hashlib.sha1(g + b'\xd3\x14').digest())(iv + b'zz' + body),
            'mdc-moved': b'\xd3\x14' + hashlib.sha1(good + b'\xd3\x14').digest() + good,
        }
        for vn, pt in sorted(variants.items()):
            skd = IntegrityProtectedSKEDataV1()
            skd.ct = bytearray(_encrypt(pt, key, alg))
            skd.update_hlen()
            rec(('skd', alg.name, len(body), vn), lambda: bytes(skd.decrypt(key, alg)))
            rec(('skd-wrongkey', alg.name, len(body), vn), lambda: bytes(skd.decrypt(key[::-1], alg)))
            rec(('skd-copy', alg.name, len(body), vn), lambda: (bytes(copy.copy(skd).ct), bytes(skd.__bytes__()), sorted(vars(skd))))

# 4. PKESessionKeyV3.decrypt_sk with a stub ciphertext (exercises the session key checksum)
class StubCT(object):
    def __init__(self, m):
        self.m = m

    def decrypt(self, *args):
        return self.m


class StubPK(object):
    pass


for symalg in (SymmetricKeyAlgorithm.AES128, SymmetricKeyAlgorithm.AES256, SymmetricKeyAlgorithm.CAST5):
    n = symalg.key_size // 8
    for sk in (bytes(bytearray(range(n))), b'\xff' * n, b'\x00' * n):
        cs = sum(bytearray(sk)) % 65536
        for delta in (0, 1, 65535, 256):
            for extra in (b'', b'\x01\x02'):
                for cut in (0, 1, 2, 3):
                    m = bytes(bytearray([int(symalg)])) + sk + bytes(bytearray([((cs + delta) % 65536) >> 8, (cs + delta) & 0xff])) + extra
                    if cut:
                        m = m[:-cut]
                    p = PKESessionKeyV3()
                    p.pkalg = PubKeyAlgorithm.ECDH
                    p.ct = StubCT(m)
                    rec(('pkesk', symalg.name, sk[:1], delta, extra, cut),
                        lambda: (lambda r: (r[0].name, bytes(r[1])))(p.decrypt_sk(StubPK())))
for m in (b'', b'\x63', b'\x00abcd'):
    p = PKESessionKeyV3()
    p.pkalg = PubKeyAlgorithm.ECDH
    p.ct = StubCT(m)
    rec(('pkesk-odd', m), lambda: (lambda r: (r[0].name, bytes(r[1])))(p.decrypt_sk(StubPK())))
p = PKESessionKeyV3()
p.pkalg = PubKeyAlgorithm.DSA
rec(('pkesk-dsa',), lambda: p.decrypt_sk(StubPK()))

# 5. public attribute surface of the anchored classes
for cls in (IntegrityProtectedSKEDataV1, PKESessionKeyV3, PGPMessage, PGPKey, pgpy.packet.fields.ECDHCipherText):
    out.append((cls.__name__, sorted(n for n in dir(cls) if not n.startswith('_'))))
out.append(('inst', sorted(vars(IntegrityProtectedSKEDataV1())), sorted(vars(PKESessionKeyV3())),
            sorted(vars(pgpy.packet.fields.ECDHCipherText()))))

h = hashlib.sha256()
nok = 0
for item in out:
    h.update(repr(item).encode('utf-8'))
    if len(item) == 3 and item[1] == 'ok':
        nok += 1
print(len(out), nok, h.hexdigest())
