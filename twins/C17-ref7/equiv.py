"""Equivalence probe for property C17 (verification verdict coherence).

Run as:  cd <tree> && /venv/bin/python equiv.py
Prints a digest over the observable outputs of the anchored functions on fixed inputs.
"""
import glob
import hashlib
import os
import re
import sys
import warnings

sys.path.insert(0, os.getcwd())
warnings.simplefilter('ignore')

import pgpy  # noqa: E402
from pgpy import PGPKey, PGPMessage, PGPSignature  # noqa: E402
from pgpy.constants import EllipticCurveOID, PubKeyAlgorithm, SecurityIssues  # noqa: E402
from pgpy.types import Armorable, SignatureVerification  # noqa: E402

out = []


def rec(*a):
    # object addresses inside reprs are the only run-dependent text
    out.append(re.sub(r' at 0x[0-9A-Fa-f]+', ' at 0x?', ' '.join(str(x) for x in a)))


def attempt(label, fn):
    try:
        r = fn()
    except Exception as e:
        rec(label, 'EXC', type(e).__name__, str(e))
        return None
    rec(label, 'OK', repr(r))
    return r


# ---- PubKeyAlgorithm.validate_params ---------------------------------------
sizes = [0, 1, 512, 1024, 2047, 2048, 2049, 3072, 4096, -1, 2048.0, True, None, 'x', (1, 2), [1]] + list(EllipticCurveOID)
for alg in PubKeyAlgorithm:
    for size in sizes:
        r = attempt('vp %s %r' % (alg.name, size), lambda: alg.validate_params(size))
        if r is not None:
            rec('  type', type(r).__name__, int(r))

# ---- SecurityIssues.causes_signature_verify_to_fail --------------------------
for v in range(1 << 11):
    r = SecurityIssues(v).causes_signature_verify_to_fail
    rec('fail', v, type(r).__name__, r)


# ---- SignatureVerification ---------------------------------------------------
def describe(sv):
    good = list(sv.good_signatures)
    bad = list(sv.bad_signatures)
    rec('  bool', bool(sv), sv.__nonzero__(), 'len', len(sv), repr(sv))
    rec('  good', [(int(g.issues), g.signature, g.subject) for g in good])
    rec('  bad', [(int(b.issues), b.signature, b.subject) for b in bad])
    rec('  all', [(int(s.issues), s.signature, s.subject) for s in sv._subjects])


interesting = [0, 1, 2, 4, 8, 16, 32, 64, 128, 256, 512, 1024, 3, 8 | 64, 2 | 256, 512 | 1024, 0xFF, 0x7FF, 32 | 64 | 128 | 256 | 512 | 8]
for v in interesting:
    sv = SignatureVerification()
    sv.add_sigsubj('sig%d' % v, 'key', 'subj%d' % v, SecurityIssues(v))
    rec('sv single', v)
    describe(sv)

sv = SignatureVerification()
rec('sv empty')
describe(sv)
sv.add_sigsubj('s', 'k')
rec('sv default issues')
describe(sv)

for i in range(len(interesting)):
    for j in range(len(interesting)):
        a = SignatureVerification()
        a.add_sigsubj('a', 'k', 'sa', SecurityIssues(interesting[i]))
        a.add_sigsubj('a2', 'k', 'sa2', SecurityIssues.OK)
        b = SignatureVerification()
        b.add_sigsubj('b', 'k', 'sb', SecurityIssues(interesting[j]))
        c = a & b
        rec('and', interesting[i], interesting[j], c is a, len(b))
        describe(c)
        a &= b
        rec('iand', len(a), len(b))
        describe(a)

s = SignatureVerification()
s.add_sigsubj('x', 'k', 'y', SecurityIssues.HashFunctionNotCollisionResistant)
s.add_sigsubj('x2', 'k', 'y2', SecurityIssues.WrongSig)
t = s & s
rec('self-and', t is s, len(s))
describe(s)
attempt('and int', lambda: SignatureVerification() & 1)
attempt('and none', lambda: SignatureVerification() & None)
attempt('and list', lambda: SignatureVerification() & [])

# non-SecurityIssues issue values handed to the public add_sigsubj
for val in (0, 1, False, True, None, ''):
    sv = SignatureVerification()
    sv.add_sigsubj('s', 'k', 'subj', val) if val is not None else sv._subjects.append(sv._sigsubj(None, 'k', 's', 'subj'))
    attempt('odd bool %r' % (val,), lambda: bool(sv))
    attempt('odd good %r' % (val,), lambda: len(list(sv.good_signatures)))
    attempt('odd bad %r' % (val,), lambda: len(list(sv.bad_signatures)))


# ---- PGPKey.verify / check_* on fixture keys -----------------------------------
def load_key(path):
    k, _ = PGPKey.from_file(path)
    return k


def describe_real(label, fn):
    with warnings.catch_warnings(record=True) as w:
        warnings.simplefilter('always')
        try:
            sv = fn()
        except Exception as e:
            rec(label, 'EXC', type(e).__name__, str(e))
            rec('  warnings', [str(x.message) for x in w])
            return
    rec(label, 'bool', bool(sv), 'len', len(sv))
    for name, it in (('good', sv.good_signatures), ('bad', sv.bad_signatures), ('all', sv._subjects)):
        rec('  ' + name, [(int(s.issues), type(s.issues).__name__, s.by.fingerprint, bytes(s.signature.__bytes__()).hex()[:48],
                           type(s.subject).__name__) for s in it])
    rec('  warnings', [str(x.message) for x in w])


keyfiles = sorted(glob.glob('tests/testdata/keys/*.asc')) + sorted(glob.glob('tests/testdata/signatures/*.key.asc')) \
    + ['tests/testdata/pubtest.asc', 'tests/testdata/sectest.asc']
keys = {}
for kf in keyfiles:
    try:
        keys[kf] = load_key(kf)
    except Exception as e:
        rec('load', kf, 'EXC', type(e).__name__, str(e))

for kf, k in sorted(keys.items()):
    for kk in [k] + list(k.subkeys.values()):
        with warnings.catch_warnings(record=True) as w:
            warnings.simplefilter('always')
            for nm in ('check_primitives', 'check_management', 'check_soundness', 'is_considered_insecure', 'self_verify'):
                r = attempt('%s %s %s' % (nm, kf, kk.fingerprint), getattr(kk, nm))
                if r is not None:
                    rec('  type', type(r).__name__, int(r))
            rec('  check_soundness(True)', int(kk.check_soundness(True)), int(kk.check_management(True)))
            rec('  warnings', [str(x.message) for x in w])
    describe_real('selfverify ' + kf, lambda: k.verify(k))
    for uid in k.userids:
        describe_real('uid %s %s' % (kf, uid.name), lambda: k.verify(uid))
    for other_kf, other in sorted(keys.items()):
        if other is not k:
            describe_real('cross %s on %s' % (kf, other_kf), lambda: k.verify(other))


def read(path, mode='r'):
    with open(path, mode) as f:
        return f.read()


# detached signatures with subject files
for base in ('aptapproval-test', 'debian-sid', 'ubuntu-precise'):
    sig = PGPSignature.from_file('tests/testdata/signatures/%s.sig.asc' % base)
    subj = read('tests/testdata/signatures/%s.subj' % base)
    for kf, k in sorted(keys.items()):
        describe_real('detached %s with %s' % (base, kf), lambda: k.verify(subj, sig))
        describe_real('detached-tampered %s with %s' % (base, kf), lambda: k.verify(subj + 'x', sig))

sig = PGPSignature.from_file('tests/testdata/signatures/ecc.2.sig.asc')
for kf, k in sorted(keys.items()):
    describe_real('ed25519 sig with %s' % kf, lambda: k.verify("This is a test signature message", sig))
    describe_real('ed25519 sig wrong text with %s' % kf, lambda: k.verify("This is a test signature messagE", sig))

# signed messages
for mf in sorted(glob.glob('tests/testdata/messages/*signed*.asc')):
    try:
        msg = PGPMessage.from_file(mf)
    except Exception as e:
        rec('msgload', mf, 'EXC', type(e).__name__, str(e))
        continue
    for kf, k in sorted(keys.items()):
        describe_real('msg %s with %s' % (mf, kf), lambda: k.verify(msg))

# revoked keys: attach the fixture revocation certificates, then check and verify again
for name, revname in (('dsa.1', 'dsa.1'), ('ecc.1', 'ecc.1'), ('rsa.1', 'rsa.1'), ('targette.pub.rsa', 'targette')):
    suffix = '.asc' if name.startswith('targette') else '.pub.asc'
    rk = load_key('tests/testdata/keys/%s%s' % (name, suffix))
    # the certificates are armored as PUBLIC KEY BLOCK, so unarmor by hand and parse the bare signature packet
    with open('tests/testdata/revocations/%s.revoc.asc' % revname) as rf:
        rsig = PGPSignature.from_blob(bytes(Armorable.ascii_unarmor(rf.read())['body']))
    describe_real('revsig before attach ' + name, lambda: rk.verify(rk, rsig))
    try:
        rk |= rsig
    except Exception as e:
        rec('attach', name, 'EXC', type(e).__name__, str(e))
    with warnings.catch_warnings(record=True) as w:
        warnings.simplefilter('always')
        for kk in [rk] + list(rk.subkeys.values()):
            r = kk.check_management()
            rec('revoked check_management', name, kk.fingerprint, type(r).__name__, int(r), r is SecurityIssues(int(r)))
            r = kk.check_soundness(True)
            rec('revoked check_soundness', name, kk.fingerprint, type(r).__name__, int(r), r is SecurityIssues(int(r)))
            r = kk.is_considered_insecure()
            rec('revoked insecure', name, kk.fingerprint, type(r).__name__, int(r))
        rec('  warnings', [str(x.message) for x in w])
    describe_real('revoked selfverify ' + name, lambda: rk.verify(rk))
    describe_real('revoked revsig ' + name, lambda: rk.verify(rk, rsig))
    for uid in rk.userids:
        describe_real('revoked uid %s %s' % (name, uid.name), lambda: rk.verify(uid))
    for sk in rk.subkeys.values():
        describe_real('revoked subkey %s %s' % (name, sk.fingerprint), lambda: rk.verify(sk))

# signatures made by a subkey are delegated to that subkey
for kf, k in sorted(keys.items()):
    for skid, sk in k.subkeys.items():
        for s in sk.__sig__:
            describe_real('subkey-sig %s %s signer %s' % (kf, skid, s.signer), lambda: k.verify(sk, s))
        for s in sk.__sig__:
            for sp in s._signature.subpackets['EmbeddedSignature']:
                try:
                    emb = pgpy.PGPSignature()
                    emb |= sp._sig if hasattr(sp, '_sig') else sp
                except Exception as e:
                    rec('embedded', kf, skid, 'EXC', type(e).__name__)
                    continue
                describe_real('crosssig %s %s signer %s' % (kf, skid, emb.signer), lambda: k.verify(k, emb))

# type errors
k = keys['tests/testdata/keys/rsa.1.pub.asc']
describe_real('bad subject', lambda: k.verify(12))
describe_real('bad signature', lambda: k.verify('x', 'y'))
describe_real('nothing', lambda: k.verify('x'))

blob = '\n'.join(out).encode('utf-8', 'replace')
print(len(out), hashlib.sha256(blob).hexdigest())
if '--dump' in sys.argv:
    sys.stdout.write(blob.decode('utf-8', 'replace') + '\n')
