"""C03 equivalence probe: encryption round-trips (passphrase / RSA / ECDH), deterministic
serialisations with a mocked os.urandom, unit-level checks of the anchored helpers.
Prints only deterministic facts."""
import os
import sys
sys.path.insert(0, os.getcwd())

import copy
import datetime
import glob
import hashlib
import itertools
import warnings
from unittest import mock

warnings.simplefilter('ignore')

import pgpy
from pgpy import PGPKey, PGPMessage, PGPUID
from pgpy.constants import (CompressionAlgorithm, EllipticCurveOID, HashAlgorithm, KeyFlags,
                            PubKeyAlgorithm, SymmetricKeyAlgorithm)
from pgpy.packet.packets import (IntegrityProtectedSKEDataV1, PKESessionKeyV3, SKESessionKeyV4, SKEData)
from pgpy.packet import Packet
from pgpy.packet.fields import ECKDF, ECDHCipherText, RSACipherText, MPI
from pgpy.symenc import _encrypt, _decrypt

assert os.path.dirname(os.path.dirname(os.path.abspath(pgpy.__file__))) == os.getcwd(), pgpy.__file__


def h(b):
    return hashlib.sha256(bytes(b)).hexdigest()[:24]


def exc(fn, *a, **kw):
    try:
        r = fn(*a, **kw)
    except BaseException as e:
        return 'EXC:' + type(e).__name__
    return r


class FakeRandom(object):
    """deterministic stand-in for os.urandom"""
    def __init__(self):
        self.ctr = 0

    def __call__(self, n):
        out = b''
        while len(out) < n:
            out += hashlib.sha256(b'seed%d' % self.ctr).digest()
            self.ctr += 1
        return out[:n]


def same(dec, msg):
    # (the re-serialised decrypted message also carries the MDC packet, so compare the parsed facts)
    ok = dec._message.contents == msg._message.contents and dec._message.format == msg._message.format
    ok = ok and dec._message.mtime == msg._message.mtime and dec._compression == msg._compression
    ok = ok and dec.message == msg.message and dec.filename == msg.filename and dec.is_compressed == msg.is_compressed
    ok = ok and [bytes(x) for x in dec.signatures] == [bytes(x) for x in msg.signatures]
    return ok


def describe(m, ids=True):
    facts = [m.type, 'enc=%s' % m.is_encrypted, 'comp=%s' % m.is_compressed, 'signed=%s' % m.is_signed,
             'sens=%s' % m.is_sensitive]
    if not m.is_encrypted:
        body = m.message
        facts.append('fn=%r' % m.filename)
        facts.append('fmt=%r' % m._message.format if hasattr(m._message, 'format') else 'fmt=?')
        facts.append('mtime=%s' % getattr(m._message, 'mtime', None))
        facts.append('compalg=%s' % m._compression.name)
        facts.append('nsig=%d' % len(m.signatures))
        facts.append('body=%s/%d' % (h(body.encode('utf-8') if isinstance(body, str) else body), len(body)))
    else:
        facts.append('encrypters=%s' % (sorted(m.encrypters) if ids else len(m.encrypters)))
        facts.append('sks=%s' % [type(s).__name__ for s in m._sessionkeys])
        facts.append('data=%s' % type(m._message).__name__)
    return ' '.join(facts)


SUPPORTED = [SymmetricKeyAlgorithm.TripleDES, SymmetricKeyAlgorithm.CAST5, SymmetricKeyAlgorithm.Blowfish,
             SymmetricKeyAlgorithm.AES128, SymmetricKeyAlgorithm.AES192, SymmetricKeyAlgorithm.AES256,
             SymmetricKeyAlgorithm.Camellia128, SymmetricKeyAlgorithm.Camellia192, SymmetricKeyAlgorithm.Camellia256]

BODIES = [('empty', b''), ('one', b'x'), ('text', 'This is stored, literally\\!\n\n'),
          ('utf8', u'café ☃ snowman'), ('bin', bytes(bytearray(range(256))) * 3),
          ('incompressible', hashlib.shake_256(b'noise').digest(5000)),
          ('large', b'0123456789abcdef' * 3000)]

# ---------------------------------------------------------------------------
print('== 1. symenc._encrypt/_decrypt unit ==')
for alg in SymmetricKeyAlgorithm:
    try:
        ks = alg.key_size // 8
    except NotImplementedError:
        print(alg.name, 'no key size')
        continue
    key = bytes(bytearray((i * 7 + 3) & 0xff for i in range(ks)))
    for ptlen in (0, 1, 7, 8, 15, 16, 17, 33, 100):
        pt = bytes(bytearray((i * 13 + 1) & 0xff for i in range(ptlen)))
        ct = exc(_encrypt, pt, key, alg)
        if isinstance(ct, str):
            print(alg.name, ptlen, 'enc', ct, 'dec', exc(lambda: type(_decrypt(pt, key, alg)).__name__))
            break
        bs = alg.block_size // 8
        iv = bytes(bytearray(range(1, bs + 1)))
        ct2 = _encrypt(pt, key, alg, iv)
        ct3 = _encrypt(bytearray(pt), bytearray(key), alg, bytearray(iv)) if ptlen in (17,) else ct2
        print(alg.name, ptlen, type(ct).__name__, bytes(ct).hex()[:48], bytes(ct2).hex()[:48], ct3 == ct2,
              bytes(_decrypt(bytes(ct), key, alg)) == pt, bytes(_decrypt(bytes(ct2), key, alg, iv)) == pt,
              type(_decrypt(bytes(ct), key, alg)).__name__)
print('badkeylen', exc(_encrypt, b'abc', b'short', SymmetricKeyAlgorithm.AES128),
      exc(_decrypt, b'abc', b'short', SymmetricKeyAlgorithm.AES128))
print('plaintext', exc(_encrypt, b'abc', b'k' * 16, SymmetricKeyAlgorithm.Plaintext),
      exc(_decrypt, b'abc', b'k' * 16, SymmetricKeyAlgorithm.Plaintext))

# ---------------------------------------------------------------------------
print('== 2. SEIPD encrypt/decrypt unit (mocked urandom) ==')
for alg in SUPPORTED:
    key = bytes(bytearray((i * 5 + 1) & 0xff for i in range(alg.key_size // 8)))
    for name, body in BODIES[:5]:
        data = body.encode('utf-8') if isinstance(body, str) else body
        with mock.patch('os.urandom', FakeRandom()):
            skd = IntegrityProtectedSKEDataV1()
            r = skd.encrypt(key, alg, data)
        ser = bytes(skd)
        skd2 = Packet(bytearray(ser))
        assert type(skd2) is IntegrityProtectedSKEDataV1
        pt = skd2.decrypt(key, alg)
        pt_b = skd.decrypt(bytearray(key), alg)
        print(alg.name, name, r, skd.header.length, len(skd.ct), h(ser), type(pt).__name__,
              bytes(pt[:len(data)]) == data, bytes(pt[len(data):]).hex()[:12], len(pt) - len(data), pt == pt_b,
              bytes(copy.copy(skd)) == ser)
        # tamper: flip last byte (MDC), flip a prefix byte, truncate, wrong key
        bad = bytearray(ser); bad[-1] ^= 1
        t1 = Packet(bad)
        bad = bytearray(ser); bad[len(ser) - len(skd.ct) + 2] ^= 0x80
        t2 = Packet(bad)
        t3 = IntegrityProtectedSKEDataV1(); t3.ct = bytearray(skd.ct[:10]); t3.update_hlen()
        t4 = IntegrityProtectedSKEDataV1(); t4.ct = bytearray(); t4.update_hlen()
        wrong = bytes(bytearray(b ^ 0xff for b in bytearray(key)))
        res = []
        for t, k in ((t1, key), (t2, key), (t3, key), (t4, key), (skd2, wrong)):
            x = exc(t.decrypt, k, alg)
            res.append(x if isinstance(x, str) else 'OK')
        print('   tamper', res)

# ---------------------------------------------------------------------------
print('== 3. SKESK unit (mocked urandom) ==')
for alg in SUPPORTED:
    for halg in (HashAlgorithm.MD5, HashAlgorithm.SHA1, HashAlgorithm.RIPEMD160, HashAlgorithm.SHA224,
                 HashAlgorithm.SHA256, HashAlgorithm.SHA384, HashAlgorithm.SHA512):
        for spec in (3, 1, 0):
            sk = SKESessionKeyV4()
            sk.s2k.usage = 255
            sk.s2k.specifier = spec
            sk.s2k.halg = halg
            sk.s2k.encalg = alg
            if spec == 3:
                sk.s2k.count = 96
            sesskey = bytes(bytearray((i * 3 + 9) & 0xff for i in range(alg.key_size // 8)))
            with mock.patch('os.urandom', FakeRandom()):
                r = exc(sk.encrypt_sk, 'pass phrase é', sesskey)
            if isinstance(r, str):
                print(alg.name, halg.name, spec, r)
                continue
            ser = bytes(sk)
            sk2 = Packet(bytearray(ser))
            assert type(sk2) is SKESessionKeyV4
            a, k = sk2.decrypt_sk('pass phrase é')
            wa = exc(sk2.decrypt_sk, 'wrong')
            wa = wa if isinstance(wa, str) else ('val' if wa[1] != sesskey else 'SAME')
            print(alg.name, halg.name, spec, r, h(ser), len(ser), a.name, type(k).__name__, bytes(k) == sesskey, wa,
                  bytes(copy.copy(sk2)) == ser)
# no-ct SKESK: s2k key is the session key
sk = SKESessionKeyV4()
sk.s2k.usage = 255; sk.s2k.specifier = 3; sk.s2k.halg = HashAlgorithm.SHA1; sk.s2k.encalg = SymmetricKeyAlgorithm.AES128
sk.s2k.salt = bytearray(b'12345678'); sk.s2k.count = 96
sk.update_hlen()
a, k = sk.decrypt_sk('abc')
print('noct', a.name, type(k).__name__, bytes(k).hex(), bytes(sk).hex())

# ---------------------------------------------------------------------------
print('== 4. passphrase message round trips (mocked urandom => deterministic bytes) ==')
# one round trip with the default (maximal) iterated S2K count, the rest with a small count to keep the probe fast
msg = PGPMessage.new('default count', compression=CompressionAlgorithm.ZLIB)
msg._message.mtime = 1400000000
with mock.patch('os.urandom', FakeRandom()):
    enc = msg.encrypt('QwertyUiop')
print('default', h(bytes(enc)), enc._sessionkeys[0].s2k.count, enc._sessionkeys[0].symalg.name, enc._sessionkeys[0].s2k.halg.name,
      same(PGPMessage.from_blob(str(enc)).decrypt('QwertyUiop'), msg))
for _ha in HashAlgorithm:
    _ha._tuned_count = 96
for (bname, body), comp in itertools.product(BODIES, list(CompressionAlgorithm)):
    alg = SUPPORTED[(len(bname) + int(comp)) % len(SUPPORTED)]
    halg = [HashAlgorithm.SHA1, HashAlgorithm.SHA256, HashAlgorithm.SHA512, HashAlgorithm.SHA224][int(comp) % 4]
    msg = PGPMessage.new(body, compression=comp, file=False)
    msg._message.filename = 'f-' + bname
    msg._message.mtime = 1400000000
    msg._message.update_hlen()
    for given in (True, False):
        sesskey = bytes(bytearray(range(alg.key_size // 8))) if given else None
        with mock.patch('os.urandom', FakeRandom()):
            enc = msg.encrypt('QwertyUiop', sessionkey=sesskey, cipher=alg, hash=halg)
        ser = bytes(enc)
        arm = str(enc)
        dec = PGPMessage.from_blob(ser).decrypt('QwertyUiop')
        dec2 = PGPMessage.from_blob(arm).decrypt(b'QwertyUiop')
        print(bname, comp.name, alg.name, halg.name, given, h(ser), len(ser), '|', describe(enc))
        print('   ', describe(dec), h(bytes(dec)), same(dec, msg), same(dec2, msg),
              exc(PGPMessage.from_blob(ser).decrypt, 'wrong'))
        assert same(dec, msg) and same(dec2, msg)

print('-- every cipher x every s2k hash, via the public API --')
msg = PGPMessage.new('cipher sweep', compression=CompressionAlgorithm.Uncompressed)
msg._message.mtime = 1400000000
for alg in list(SymmetricKeyAlgorithm):
    for halg in list(HashAlgorithm):
        with mock.patch('os.urandom', FakeRandom()):
            enc = exc(msg.encrypt, 'pw', cipher=alg, hash=halg)
        if isinstance(enc, str):
            print(alg.name, halg.name, enc)
            continue
        dec = enc.decrypt('pw')
        print(alg.name, halg.name, h(bytes(enc)), dec.message == 'cipher sweep', same(dec, msg))

print('-- two passphrases / re-encrypting an encrypted message --')
msg = PGPMessage.new('two passphrases', compression=CompressionAlgorithm.ZIP)
msg._message.mtime = 1400000000
skey = bytes(bytearray(range(32)))
with mock.patch('os.urandom', FakeRandom()):
    enc = msg.encrypt('QwertyUiop', sessionkey=skey).encrypt('AsdfGhjkl', sessionkey=skey)
print(h(bytes(enc)), describe(enc))
for pw in ('QwertyUiop', 'AsdfGhjkl', 'nope', u'', 12):
    d = exc(PGPMessage.from_blob(bytes(enc)).decrypt, pw)
    print(repr(pw), d if isinstance(d, str) else describe(d))
print('sessionkey wrong type', exc(msg.encrypt, 'asdf', sessionkey=0xabdf1234abdf1234, cipher=SymmetricKeyAlgorithm.AES128))
print('sessionkey wrong len', exc(msg.encrypt, 'asdf', sessionkey=b'123', cipher=SymmetricKeyAlgorithm.AES128))
print('decrypt unencrypted', exc(msg.decrypt, 'x'))

# ---------------------------------------------------------------------------
print('== 5. testdata messages ==')
keys = {}
for f in sorted(glob.glob('tests/testdata/keys/*.sec*.asc')):
    keys[os.path.basename(f)], _ = PGPKey.from_file(f)
pubs = {}
for f in sorted(glob.glob('tests/testdata/keys/*.pub*.asc')):
    pubs[os.path.basename(f)], _ = PGPKey.from_file(f)
rsa_enc, _ = PGPKey.from_file('tests/testdata/keys/rsa.1.enc.asc')

for f in sorted(glob.glob('tests/testdata/messages/message*.asc')) + ['tests/testdata/message.enc.twofish.asc']:
    m = PGPMessage.from_file(f)
    print(os.path.basename(f), describe(m))
    if not m.is_encrypted:
        print('   pass ->', exc(m.decrypt, 'QwertyUiop'))
    for pw in ('QwertyUiop', 'TheWrongPassword'):
        if not m.is_encrypted:
            continue
        d = exc(PGPMessage.from_file(f).decrypt, pw)
        print('   pass', pw, '->', d if isinstance(d, str) else describe(d))
    for kn in sorted(keys):
        d = exc(keys[kn].decrypt, PGPMessage.from_file(f))
        print('   key', kn, '->', d if isinstance(d, str) else describe(d))
    for sk in m._sessionkeys:
        print('   sk', type(sk).__name__, h(bytes(sk)), bytes(copy.copy(sk)) == bytes(sk),
              getattr(sk, 'pkalg', None), getattr(sk, 'symalg', None))
print('protected key ->', exc(rsa_enc.decrypt, PGPMessage.from_file('tests/testdata/messages/message.rsa.cast5.asc')))
with rsa_enc.unlock('QwertyUiop') as uk:
    d = exc(uk.decrypt, PGPMessage.from_file('tests/testdata/messages/message.rsa.cast5.asc'))
    print('unlocked key ->', d if isinstance(d, str) else describe(d))
print('pubkey decrypt ->', exc(pubs['rsa.1.pub.asc'].decrypt, PGPMessage.from_file('tests/testdata/messages/message.rsa.cast5.asc')))

# ---------------------------------------------------------------------------
print('== 6. PKESK unit ==')
rsa_sec = keys['rsa.1.sec.asc']
m = PGPMessage.from_file('tests/testdata/messages/message.rsa.cast5.asc')
pk = m._sessionkeys[0]
sub = rsa_sec.subkeys['EEE097A017B979CA']
a, k = pk.decrypt_sk(sub._key)
print('rsa decrypt_sk', a.name, type(k).__name__, bytes(k).hex())
m = PGPMessage.from_file('tests/testdata/messages/message.ecdh.cv25519.asc')
pk = m._sessionkeys[0]
sub = keys['ecc.2.sec.asc'].subkeys['AFC377493D8E897D']
a, k = pk.decrypt_sk(sub._key)
print('ecdh decrypt_sk', a.name, type(k).__name__, bytes(k).hex())
m = PGPMessage.from_file('tests/testdata/messages/message.rsa.dsa.3des.asc')
for pk in m._sessionkeys:
    print('pkalg', pk.pkalg.name, type(pk.ct).__name__, exc(lambda: pk.decrypt_sk(keys['dsa.1.sec.asc'].subkeys['1FD6D5D4DA0170C4']._key)
          if pk.pkalg != PubKeyAlgorithm.RSAEncryptOrSign else 'skip'))
for pkalg in PubKeyAlgorithm:
    p = PKESessionKeyV3()
    r = exc(setattr, p, 'pkalg', pkalg)
    if isinstance(r, str):
        print(pkalg.name, r)
        continue
    print(pkalg.name, type(p.ct).__name__,
          exc(p.encrypt_sk, pubs['rsa.1.pub.asc']._key, SymmetricKeyAlgorithm.AES128, b'k' * 16)
          if pkalg not in (PubKeyAlgorithm.RSAEncryptOrSign, PubKeyAlgorithm.ECDH) else 'skip',
          exc(p.decrypt_sk, rsa_sec._key)
          if pkalg not in (PubKeyAlgorithm.RSAEncryptOrSign, PubKeyAlgorithm.ECDH) else 'skip')


class FakeCT(object):
    """stands in for a cipher text whose decryption yields a chosen m"""
    def __init__(self, m):
        self.m = m
        self.me_mod_n = MPI(1)

    def decrypt(self, fn, *args):
        return self.m


for alg in SUPPORTED:
    key = bytes(bytearray((i * 11 + 2) & 0xff for i in range(alg.key_size // 8)))
    good = bytearray([int(alg)]) + key + bytearray([(sum(bytearray(key)) >> 8) & 0xff, sum(bytearray(key)) & 0xff])
    variants = {'good': good, 'badsum': good[:-1] + bytearray([good[-1] ^ 1]), 'trail': good + b'\x00\x00',
                'short': good[:-3], 'noalg': bytearray([99]) + good[1:], 'empty': bytearray()}
    for vn in sorted(variants):
        for pkalg in (PubKeyAlgorithm.RSAEncryptOrSign, PubKeyAlgorithm.ECDH):
            p = PKESessionKeyV3()
            p.pkalg = pkalg
            p.ct = FakeCT(bytes(variants[vn]))
            r = exc(p.decrypt_sk, rsa_sec._key)
            print(alg.name, vn, pkalg.name, r if isinstance(r, str) else (r[0].name, type(r[1]).__name__, bytes(r[1]) == key))

# ---------------------------------------------------------------------------
print('== 7. ECKDF.derive_key (deterministic) ==')
for oid in (EllipticCurveOID.NIST_P256, EllipticCurveOID.NIST_P384, EllipticCurveOID.NIST_P521, EllipticCurveOID.Curve25519):
    for halg, ealg in ((HashAlgorithm.SHA256, SymmetricKeyAlgorithm.AES128), (HashAlgorithm.SHA384, SymmetricKeyAlgorithm.AES192),
                       (HashAlgorithm.SHA512, SymmetricKeyAlgorithm.AES256)):
        kdf = ECKDF()
        kdf.halg = halg
        kdf.encalg = ealg
        z = kdf.derive_key(b'\x42' * 32, oid, PubKeyAlgorithm.ECDH, pubs['ecc.1.pub.asc'].fingerprint)
        print(oid.name, halg.name, ealg.name, bytes(kdf).hex(), bytes(z).hex())

# ---------------------------------------------------------------------------
print('== 8. public-key round trips ==')
recips = []
recips.append(('rsa.1', pubs['rsa.1.pub.asc'], keys['rsa.1.sec.asc']))
recips.append(('ecc.1-p256', pubs['ecc.1.pub.asc'], keys['ecc.1.sec.asc']))
recips.append(('ecc.2-cv25519', pubs['ecc.2.pub.asc'], keys['ecc.2.sec.asc']))
recips.append(('mixed.1', pubs['mixed.1.pub.asc'], keys['mixed.1.sec.asc']))


def genkey(name, palg, pparam, salg, sparam):
    k = PGPKey.new(palg, pparam)
    uid = PGPUID.new(name)
    k.add_uid(uid, usage={KeyFlags.Sign, KeyFlags.EncryptCommunications, KeyFlags.EncryptStorage} if salg is None else {KeyFlags.Sign},
              hashes=[HashAlgorithm.SHA256], ciphers=[SymmetricKeyAlgorithm.AES256, SymmetricKeyAlgorithm.CAST5],
              compression=[CompressionAlgorithm.ZLIB, CompressionAlgorithm.Uncompressed])
    if salg is not None:
        s = PGPKey.new(salg, sparam)
        k.add_subkey(s, usage={KeyFlags.EncryptCommunications, KeyFlags.EncryptStorage})
    return k


for nm, spec in (('gen-rsa1024', (PubKeyAlgorithm.RSAEncryptOrSign, 1024, None, None)),
                 ('gen-rsa2048+sub', (PubKeyAlgorithm.RSAEncryptOrSign, 2048, PubKeyAlgorithm.RSAEncryptOrSign, 2048)),
                 ('gen-p384', (PubKeyAlgorithm.ECDSA, EllipticCurveOID.NIST_P384, PubKeyAlgorithm.ECDH, EllipticCurveOID.NIST_P384)),
                 ('gen-p521', (PubKeyAlgorithm.ECDSA, EllipticCurveOID.NIST_P521, PubKeyAlgorithm.ECDH, EllipticCurveOID.NIST_P521)),
                 ('gen-secp256k1', (PubKeyAlgorithm.ECDSA, EllipticCurveOID.SECP256K1, PubKeyAlgorithm.ECDH, EllipticCurveOID.SECP256K1)),
                 ('gen-ed+cv25519', (PubKeyAlgorithm.EdDSA, EllipticCurveOID.Ed25519, PubKeyAlgorithm.ECDH, EllipticCurveOID.Curve25519))):
    k = exc(genkey, nm, *spec)
    if isinstance(k, str):
        print(nm, 'keygen', k)
        continue
    recips.append((nm, k.pubkey, k))

signer = keys['rsa.1.sec.asc']
for rn, pub, sec in recips:
    for i, alg in enumerate(SUPPORTED):
        bname, body = BODIES[i % len(BODIES)]
        comp = list(CompressionAlgorithm)[i % 4]
        msg = PGPMessage.new(body, compression=comp)
        msg._message.mtime = 1400000000
        if i % 3 == 0:
            msg |= signer.sign(msg, created=datetime.datetime(2020, 1, 1, tzinfo=datetime.timezone.utc))
        given = i % 2 == 0
        sesskey = bytes(bytearray((j * 17 + i) & 0xff for j in range(alg.key_size // 8))) if given else None
        enc = exc(pub.encrypt, msg, sessionkey=sesskey, cipher=alg)
        if isinstance(enc, str):
            print(rn, alg.name, 'encrypt', enc)
            continue
        pk = enc._sessionkeys[0]
        facts = [rn, alg.name, bname, comp.name, 'signed=%d' % (i % 3 == 0), 'given=%s' % given, pk.pkalg.name, type(pk.ct).__name__,
                 'eq_keyid=%s' % (pk.encrypter in ([pub.fingerprint.keyid] + list(pub.subkeys))), describe(enc, ids=not rn.startswith('gen-'))]
        if pk.pkalg == PubKeyAlgorithm.ECDH:
            facts.append('hlen=%d clen=%d' % (pk.header.length, len(pk.ct.c)))
        for transport in (bytes(enc), str(enc)):
            dec = sec.decrypt(PGPMessage.from_blob(transport))
            assert same(dec, msg), (rn, alg)
            facts.append('rt=%s' % same(dec, msg))
        facts.append(describe(dec))
        if given:
            a, k = pk.decrypt_sk((sec.subkeys[pk.encrypter] if pk.encrypter in sec.subkeys else sec)._key)
            facts.append('sk=%s/%s' % (a.name, bytes(k) == sesskey))
        if i % 3 == 0:
            facts.append('verify=%s' % bool(signer.pubkey.verify(dec)))
        print(' '.join(facts))

print('-- many recipients mixing keys and passphrases --')
msg = PGPMessage.new('to everyone', compression=CompressionAlgorithm.BZ2)
msg._message.mtime = 1400000000
alg = SymmetricKeyAlgorithm.AES192
sesskey = bytes(bytearray(range(100, 124)))
enc = msg
for rn, pub, sec in recips[:6]:
    enc = pub.encrypt(enc, cipher=alg, sessionkey=sesskey)
enc = enc.encrypt('pw-one', sessionkey=sesskey, cipher=alg).encrypt('pw-two', sessionkey=sesskey, cipher=alg)
print(describe(enc).replace(str(sorted(enc.encrypters)), '%d encrypters' % len(enc.encrypters)))
blob = bytes(enc)
for rn, pub, sec in recips[:6]:
    d = exc(sec.decrypt, PGPMessage.from_blob(blob))
    print(rn, d if isinstance(d, str) else (same(d, msg), describe(d)))
for pw in ('pw-one', 'pw-two', 'pw-three'):
    d = exc(PGPMessage.from_blob(blob).decrypt, pw)
    print(pw, d if isinstance(d, str) else (same(d, msg), describe(d)))
print('wrong key', exc(keys['targette.sec.rsa.asc'].decrypt, PGPMessage.from_blob(blob)))

print('-- error paths of PGPKey.encrypt / decrypt --')
print('targette no flags', exc(pubs['targette.pub.rsa.asc'].encrypt, msg))
tp = pubs['targette.pub.rsa.asc']
tp._require_usage_flags = False
e = exc(tp.encrypt, msg, cipher=SymmetricKeyAlgorithm.AES128)
print('targette ignoring flags', e if isinstance(e, str) else describe(e))
ts = keys['targette.sec.rsa.asc']
ts._require_usage_flags = False
d = exc(ts.decrypt, e)
print('targette decrypt', d if isinstance(d, str) else describe(d))
print('dsa/elgamal encrypt', exc(pubs['dsa.1.pub.asc'].encrypt, msg))
print('idea', exc(pubs['rsa.1.pub.asc'].encrypt, msg, cipher=SymmetricKeyAlgorithm.IDEA))
print('twofish', exc(pubs['rsa.1.pub.asc'].encrypt, msg, cipher=SymmetricKeyAlgorithm.Twofish256))
print('plaintext', exc(pubs['rsa.1.pub.asc'].encrypt, msg, cipher=SymmetricKeyAlgorithm.Plaintext))
print('bad sessionkey len', exc(pubs['rsa.1.pub.asc'].encrypt, msg, cipher=SymmetricKeyAlgorithm.AES128, sessionkey=b'abc'))
print('bad user', exc(pubs['rsa.1.pub.asc'].encrypt, msg, user='nobody@nowhere'))
with warnings.catch_warnings(record=True) as w:
    warnings.simplefilter('always')
    r = keys['rsa.1.sec.asc'].decrypt(msg)
    print('decrypt unencrypted', r is msg, [(type(x.message).__name__, str(x.message)) for x in w])
with warnings.catch_warnings(record=True) as w:
    warnings.simplefilter('always')
    pubs['rsa.1.pub.asc'].encrypt(msg, cipher=SymmetricKeyAlgorithm.Blowfish)
    print('pref warnings', sorted((type(x.message).__name__, str(x.message)) for x in w))
print('done')
