# run as: cd <tree> && /venv/bin/python equiv.py
import os, sys, glob, copy, hashlib, warnings
sys.path.insert(0, os.getcwd())
warnings.simplefilter('ignore')
import pgpy
from datetime import datetime, timezone
from pgpy.constants import HashAlgorithm, CompressionAlgorithm
from pgpy.packet import Packet

out = []
def rec(tag, val):
    if isinstance(val, (bytes, bytearray)):
        val = bytes(val).hex()
    out.append('%s=%r' % (tag, val))

def attempt(tag, fn):
    try:
        rec(tag, fn())
    except Exception as e:
        rec(tag, 'EXC %s: %s' % (type(e).__name__, e))

WHEN = datetime(2020, 1, 2, 3, 4, 5, tzinfo=timezone.utc)
rsa, _ = pgpy.PGPKey.from_file('tests/testdata/keys/rsa.1.sec.asc')
rsapub, _ = pgpy.PGPKey.from_file('tests/testdata/keys/rsa.1.pub.asc')

TEXTS = ['', 'one line', 'one line\n', '- dash\n-nodash\n-- two\n- \n-\n', 'From me\n-----BEGIN PGP SIGNATURE-----\nx\n',
         'trail  \t\nb\t \r\nc \rd\n\n\n', 'café \U0001f600 中\n- é\n', 'x' * 5000 + '\n-' + 'y' * 3000,
         '\n', '\r\n', ' ', '-']

def describe(msg):
    pkts = list(msg)
    return (msg.type, msg.magic, msg.message if not msg.is_encrypted else 'ENC', [type(p).__name__ for p in pkts],
            [bytes(p.__bytearray__()).hex() for p in pkts], bytes(msg).hex(), str(msg), sorted(msg.signers), msg.is_signed,
            msg.is_compressed, list(msg.ascii_headers.items()))

# fixtures: parse, re-serialise, copy, verify
for fn in sorted(glob.glob('tests/testdata/messages/*.asc')):
    def run(fn=fn):
        m = pgpy.PGPMessage.from_file(fn)
        c = copy.copy(m)
        r = [describe(m), describe(c)]
        if m.type == 'cleartext':
            m2 = pgpy.PGPMessage.from_blob(str(m))
            r.append(describe(m2))
        return r
    attempt('fixture:' + os.path.basename(fn), run)

for i, t in enumerate(TEXTS):
    for halg in (HashAlgorithm.SHA256, HashAlgorithm.SHA512):
        def run(t=t, halg=halg):
            m = pgpy.PGPMessage.new(t, cleartext=True)
            r = [describe(m)]
            m |= rsa.sign(m, hash=halg, created=WHEN)
            m |= rsa.sign(m, hash=HashAlgorithm.SHA384, created=WHEN)
            r.append(describe(m))
            r.append(describe(copy.copy(m)))
            r.append(bool(rsapub.verify(m)))
            try:
                m2 = pgpy.PGPMessage.from_blob(str(m))
                r.append(describe(m2))
                r.append(bool(rsapub.verify(m2)))
            except Exception as e:
                r.append('EXC %s: %s' % (type(e).__name__, e))
            return r
        attempt('cleartext:%d:%s' % (i, halg.name), run)

    for comp in (CompressionAlgorithm.Uncompressed, CompressionAlgorithm.ZIP):
        def run(t=t, comp=comp):
            m = pgpy.PGPMessage.new(t, compression=comp)
            # mtime is "now": pin it
            m._message.mtime = WHEN
            m |= rsa.sign(m, created=WHEN)
            m |= rsa.sign(m, hash=HashAlgorithm.SHA1, created=WHEN)
            r = [describe(m), describe(copy.copy(m)), bool(rsapub.verify(m))]
            m2 = pgpy.PGPMessage.from_blob(str(m))
            r += [describe(m2), bool(rsapub.verify(m2))]
            m3 = pgpy.PGPMessage.from_blob(bytes(m))
            r += [describe(m3)]
            return r
        attempt('literal:%d:%s' % (i, comp.name), run)

# __or__ corner cases
def or_cases():
    r = []
    m = pgpy.PGPMessage()
    for thing in ('abc', b'def', bytearray(b'ghi'), None, 5, pgpy.PGPMessage.new('lit')._message):
        try:
            m |= thing
            r.append(('ok', repr(m._message) if isinstance(m._message, (bytes, bytearray, str)) else type(m._message).__name__))
        except Exception as e:
            r.append('EXC %s: %s' % (type(e).__name__, e))
    e = pgpy.PGPMessage()
    for f in (lambda: list(e), lambda: e.message, lambda: str(e), lambda: bytes(e), lambda: e._signed_data, lambda: copy.copy(e)._message):
        try:
            r.append(repr(f()))
        except Exception as ex:
            r.append('EXC %s: %s' % (type(ex).__name__, ex))
    l = pgpy.PGPMessage.new('lit', compression=CompressionAlgorithm.Uncompressed)
    l._message.mtime = WHEN
    for thing in (l._message, 'text', pgpy.PGPMessage.from_file('tests/testdata/messages/cleartext.signed.asc')):
        try:
            l |= thing
            r.append(('ok', describe(l)))
        except Exception as ex:
            r.append('EXC %s: %s' % (type(ex).__name__, ex))
    return r
attempt('or', or_cases)

# encrypted message iteration
def enc():
    m = pgpy.PGPMessage.from_file('tests/testdata/messages/message.rsa.cast5.asc')
    return describe(m), describe(copy.copy(m))
attempt('enc', enc)


# loading path: is_ascii / is_armor / from_blob / from_file with every input type, warnings included
from pgpy.types import Armorable
def load_cases():
    r = []
    def lab(x):
        return 'memoryview:' + bytes(x).hex()[:40] if isinstance(x, memoryview) else repr(x)[:40]
    samples = ['', 'abc', 'a\tb\r\nc\n', 'caf\xe9', '\x7f', '\x00', 'abc\n\n', '~ ', '\x0b', b'', b'abc\n', b'\x80', bytearray(b'xyz\r'),
               bytearray(b'\xff'), None, 5, ['a'], memoryview(b'abc')]
    for smp in samples:
        for fn in (Armorable.is_ascii, Armorable.is_armor):
            try:
                r.append((fn.__name__, lab(smp), fn(smp)))
            except Exception as ex:
                r.append((fn.__name__, lab(smp), 'EXC %s: %s' % (type(ex).__name__, ex)))
    clr = open('tests/testdata/messages/cleartext.signed.asc').read()
    bad_crc = clr.replace('\n=', '\n=A', 1) if False else clr
    blobs = [clr, clr.encode('latin-1'), bytearray(clr.encode('latin-1')), clr.replace('\n', '\r\n'), 'no armor here', '', b'', b'\x99\x00', 'caf\xe9 \u4e2d',
             None, 5, [1, 2], memoryview(clr.encode('latin-1'))]
    # corrupt the armor checksum to see the warning, its category and the file it is attributed to
    lines = clr.split('\n')
    idx = [i for i, l in enumerate(lines) if l.startswith('=') and len(l) == 5][0]
    lines[idx] = '=AAAA'
    blobs.append('\n'.join(lines))
    for cls in (pgpy.PGPMessage, pgpy.PGPSignature, pgpy.PGPKey):
        for b in blobs:
            with warnings.catch_warnings(record=True) as w:
                warnings.simplefilter('always')
                try:
                    got = cls.from_blob(b)
                    if isinstance(got, tuple):
                        res = ('tuple', type(got[0]).__name__, str(got[0]), repr(sorted(map(repr, got[1]))) if hasattr(got[1], '__iter__') else repr(got[1]))
                    else:
                        res = ('obj', type(got).__name__, str(got))
                except Exception as ex:
                    res = 'EXC %s: %s' % (type(ex).__name__, ex)
                r.append((cls.__name__, lab(b), res, [(x.category.__name__, str(x.message), os.path.basename(x.filename)) for x in w]))
    for cls, fn in ((pgpy.PGPKey, 'tests/testdata/keys/rsa.1.pub.asc'), (pgpy.PGPKey, 'tests/testdata/keys/ecc.1.sec.asc'),
                    (pgpy.PGPMessage, 'tests/testdata/messages/cleartext.dashesc.signed.asc'), (pgpy.PGPMessage, 'tests/testdata/messages/message.nomdc.pass'),
                    (pgpy.PGPMessage, 'tests/testdata/keys/rsa.1.pub.asc'), (pgpy.PGPKey, 'tests/testdata/messages/cleartext.signed.asc'),
                    (pgpy.PGPMessage, 'tests/testdata/does-not-exist.asc'), (pgpy.PGPSignature, 'tests/testdata/messages/cleartext.signed.asc')):
        try:
            got = cls.from_file(fn)
            if isinstance(got, tuple):
                res = ('tuple', str(got[0]), repr(got[1]))
            else:
                res = ('obj', str(got), list(got.ascii_headers.items()), type(got.ascii_headers).__name__)
        except Exception as ex:
            res = 'EXC %s: %s' % (type(ex).__name__, ex)
        r.append((cls.__name__, fn, res))
    import re as _re
    return _re.sub(r' at 0x[0-9A-Fa-f]+', '', repr(r))
attempt('load', load_cases)

blob = '\n'.join(out).encode('utf-8', 'surrogatepass')
print(len(out), hashlib.sha256(blob).hexdigest())
