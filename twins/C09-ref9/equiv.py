import hashlib
import os
import sys
import warnings
from datetime import datetime, timezone

sys.path.insert(0, os.getcwd())
warnings.simplefilter('ignore')

import pgpy  # noqa: E402
from pgpy.types import Header as BaseHeader  # noqa: E402
from pgpy.packet.types import Header as PktHeader, MPI  # noqa: E402
from pgpy.packet.subpackets.types import Header as SubHeader  # noqa: E402
from pgpy.packet.fields import String2Key  # noqa: E402
from pgpy.packet.packets import PubKeyV4  # noqa: E402
from pgpy.packet.subpackets.signature import CreationTime, SignatureExpirationTime  # noqa: E402

h = hashlib.sha256()


def emit(*parts):
    h.update(repr(parts).encode('utf-8'))
    h.update(b'\n')


def attempt(fn, *args, **kw):
    try:
        return ('ok', fn(*args, **kw))
    except Exception as e:  # digest type and message
        return ('exc', type(e).__name__, str(e))


LENGTHS = sorted(set(
    list(range(0, 70001, 7)) + list(range(0, 600)) + list(range(8000, 8700)) +
    [v + d for v in (191, 192, 255, 256, 8383, 8384, 65535, 65536, 1 << 24, (1 << 32) - 1) for d in (-2, -1, 0, 1, 2)
     if 0 <= v + d < (1 << 32)]))

# --- encode_length, every format
for n in LENGTHS:
    emit('enc-new', n, BaseHeader.encode_length(n))
    for ll in (0, 1, 2, 4):
        emit('enc-old', n, ll, attempt(BaseHeader.encode_length, n, False, ll))
    emit('enc-nhf-int', n, BaseHeader.encode_length(n, 1, 2), BaseHeader.encode_length(n, 0, 2))
for bad in (-1, -70000, 1 << 32, 1 << 40):
    emit('enc-bad', bad, attempt(BaseHeader.encode_length, bad), attempt(BaseHeader.encode_length, bad, False, 1))

# --- packet header: parse new format / old format, re-encode, grow the length afterwards
for n in LENGTHS:
    for tag in (2, 6, 11, 61):
        if n % 5 and tag != 2:
            continue
        raw = bytearray([0xC0 | tag]) + bytearray(BaseHeader.encode_length(n)) + b'tail'
        hd = PktHeader()
        hd.parse(raw)
        emit('pkt-new', n, tag, hd.length, hd.llen, len(hd), bytes(hd), bytes(raw), repr(hd.tag))
        for grow in (0, 191, 192, 8383, 8384, 70000):
            hd.length = grow
            emit('pkt-new-grow', grow, hd.llen, len(hd), bytes(hd))
    for lt, width in ((0, 1), (1, 2), (2, 4)):
        if n >= (1 << (8 * width)):
            continue
        raw = bytearray([0x80 | (6 << 2) | lt]) + bytearray(n.to_bytes(width, 'big')) + b'tail'
        hd = PktHeader()
        hd.parse(raw)
        emit('pkt-old', n, lt, hd.length, hd.llen, len(hd), bytes(hd), bytes(raw), repr(hd.tag))
        for grow in (0, 255, 256, 65535, 65536, (1 << 32) - 1):
            hd.length = grow
            emit('pkt-old-grow', grow, hd.llen, len(hd), bytes(hd))

# indeterminate old-format length
for body in (b'', b'abc', b'x' * 300):
    raw = bytearray([0x80 | (11 << 2) | 3]) + body
    hd = PktHeader()
    hd.parse(raw)
    emit('pkt-indet', hd.length, hd.llen, len(hd), bytes(hd), bytes(raw))
    hd.length = 70000
    emit('pkt-indet-grow', hd.llen, len(hd), bytes(hd))

# --- partial lengths: several chunkings
def chunked(body, powers, final_fmt):
    out = bytearray()
    pos = 0
    for p in powers:
        out.append(0xE0 | p)
        out += body[pos:pos + (1 << p)]
        pos += 1 << p
    rest = body[pos:]
    out += final_fmt(len(rest))
    out += rest
    return out


body = bytes((i * 31 + 7) & 0xFF for i in range(1 << 17))
for powers in ([0], [1, 0], [9], [9, 9, 9], [10, 3, 0, 0], [16], [16, 15], [12, 12, 12, 12, 1], [0] * 40):
    used = sum(1 << p for p in powers)
    for restlen in (0, 1, 191, 192, 500, 8383, 8384, 20000):
        if used + restlen > len(body):
            continue
        b = body[:used + restlen]
        for ffmt in (BaseHeader.encode_length, lambda n: b'\xFF' + n.to_bytes(4, 'big')):
            raw = bytearray([0xC0 | 11]) + chunked(b, powers, ffmt) + b'trailer'
            hd = PktHeader()
            hd.parse(raw)
            emit('partial', powers, restlen, hd.length, hd.llen, bytes(hd),
                 hashlib.sha256(bytes(raw)).hexdigest(), bytes(raw[:hd.length]) == b, bytes(raw[hd.length:]))

# truncated / malformed length fields
for raw in (b'', b'\xC2', b'\xC2\xC5', b'\xC2\xFF\x00\x00', b'\xC2\xE1ab', b'\xC2\xE0a', b'\x98', b'\x99\x01', b'\xC2\xFF'):
    ba = bytearray(raw)
    hd = PktHeader()
    r = attempt(hd.parse, ba)
    emit('trunc', raw, r, hd.length, hd.llen, bytes(ba))

# --- subpacket header
for n in LENGTHS:
    if n == 0:
        continue
    for t in (0x02, 0x82, 0x1B, 0xE5):
        if n % 3 and t != 0x82:
            continue
        raw = bytearray(BaseHeader.encode_length(n)) + bytearray([t]) + b'zz'
        sh = SubHeader()
        sh.parse(raw)
        emit('sub', n, t, sh.length, sh.llen, len(sh), sh.typeid, sh.critical, bytes(sh), bytes(raw))
        sh.length = n + 200
        emit('sub-grow', sh.llen, len(sh), bytes(sh))
sh = SubHeader()
emit('sub-default', sh.length, sh.typeid, sh.critical, attempt(bytes, sh))

# --- MPI
for bits in list(range(0, 4201)):
    for val in ({0} if bits == 0 else {1 << (bits - 1), (1 << bits) - 1, (1 << (bits - 1)) | 1}):
        m = MPI(val)
        wire = m.to_mpibytes()
        buf = bytearray(wire) + b'rest'
        back = MPI(buf)
        emit('mpi', bits, hashlib.sha256(wire).hexdigest(), len(wire), len(m), m.byte_length(), back == val,
             type(back).__name__, bytes(buf))
# declared bit count vs. supplied octets: leading zero bits, over-declared, truncated
for raw in (b'', b'\x00', b'\x00\x00', b'\x00\x01', b'\x00\x01\x01', b'\x00\x09\x01\xff', b'\x00\x10\x00\x01xyz',
            b'\x00\x08\x00', b'\x00\x20\xff\xff', b'\xff\xff' + b'\xab' * 10, b'\x00\x07\xffq'):
    buf = bytearray(raw)
    m = MPI(buf)
    emit('mpi-raw', raw, int(m), bytes(buf), m.to_mpibytes(), len(m))
    emit('mpi-raw-bytes', raw, int(MPI(bytes(raw))))
for other in (5, True, MPI(77), '12', 3.9, None, [1], -5):
    r = attempt(MPI, other)
    emit('mpi-other', repr(other), r if r[0] == 'exc' else (int(r[1]), type(r[1]).__name__))
emit('mpi-neg', attempt(MPI(-5).to_mpibytes))

# --- S2K count
s = String2Key()
for c in range(256):
    s.count = c
    emit('s2k', c, s.count, s._count)
for bad in (-1, 256, 1000, -300):
    r = attempt(setattr, s, 'count', bad)
    emit('s2k-bad', bad, r, s._count)
s.count = True
emit('s2k-bool', s.count, s._count)
for raw in (b'\xfe\x09\x03\x08' + b'12345678' + bytes([c]) + b'I' * 16 for c in (0, 1, 96, 255)):
    s = String2Key()
    ba = bytearray(raw)
    s.parse(ba)
    emit('s2k-parse', s.count, s._count, bytes(s), bytes(ba), len(s))
    c2 = s.__copy__()
    emit('s2k-copy', c2.count, bytes(c2))

# --- timestamps
STAMPS = [0, 1, 59, 60, 86399, 86400, 951782399, 951782400, 951868800, 1 << 31, (1 << 31) - 1, (1 << 32) - 1,
          (1 << 32) - 2, 1234567890, 0x01020304, 0xFFFEFDFC] + [i * 40503 * 101 % (1 << 32) for i in range(2000)]
for ts in STAMPS:
    four = ts.to_bytes(4, 'big')
    pk = PubKeyV4()
    pk.created = bytearray(four)
    a = pk.created
    pk.created = four
    b = pk.created
    pk.created = ts
    c = pk.created
    pk.pkalg = 1
    emit('pk-ts', ts, a.isoformat(), b.isoformat(), c.isoformat(),
         pk.int_to_bytes(__import__('calendar').timegm(pk.created.utctimetuple()), 4))

    ct = CreationTime()
    ct.created = bytearray(four)
    ct.update_hlen()
    emit('ct', ts, ct.created.isoformat(), bytes(ct))
    raw = bytearray(bytes(ct)) + b'more'
    ct2 = CreationTime()
    ct2.parse(raw)
    emit('ct-parse', ct2.created.isoformat(), bytes(raw), bytes(ct2) == bytes(ct))

    ex = SignatureExpirationTime()
    ex.expires = bytearray(four)
    ex.update_hlen()
    emit('ex', ts, ex.expires.total_seconds(), bytes(ex))

pk = PubKeyV4()
emit('pk-ts-bad', attempt(setattr, pk, 'created', -(1 << 70)), attempt(setattr, pk, 'created', 'x'))
pk.created = datetime(2020, 2, 29, 23, 59, 59, tzinfo=timezone.utc)
emit('pk-dt', pk.created.isoformat())

# --- whole fixtures: parse and re-serialise keys / messages / signatures from tests/testdata
import glob  # noqa: E402

for path in sorted(glob.glob('tests/testdata/keys/*.asc') + glob.glob('tests/testdata/blocks/*.asc') +
                   glob.glob('tests/testdata/messages/*.asc') + glob.glob('tests/testdata/signatures/*.asc')):
    name = os.path.basename(path)
    for cls in (pgpy.PGPKey, pgpy.PGPMessage, pgpy.PGPSignature):
        try:
            obj = cls.from_file(path)
            if isinstance(obj, tuple):
                obj = obj[0]
            data = bytes(obj)
            extra = ()
            if cls is pgpy.PGPKey:
                extra = (str(obj.fingerprint), obj.created.isoformat())
            emit('fixture', name, cls.__name__, hashlib.sha256(data).hexdigest(), len(data), extra)
            break
        except Exception as e:
            emit('fixture-exc', name, cls.__name__, type(e).__name__)

print(h.hexdigest())
