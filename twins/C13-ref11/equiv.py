#!/venv/bin/python
"""Equivalence probe for property C13 (fresh secret randomness of the right size).

Run as:  cd <tree> && /venv/bin/python equiv.py
Prints one digest line; it must be identical on the unchanged and on the refactored tree.

os.urandom is interposed (from here, no source change) by a deterministic counter stream so that
everything that depends only on os.urandom becomes reproducible and can be digested byte-for-byte,
together with the sequence of requested sizes.  Things whose randomness comes from OpenSSL
(RSA PKCS#1 padding, ECDH ephemeral keys) are digested structurally (lengths, types, round trip).
"""
import hashlib
import os
import sys
import warnings
from datetime import datetime, timezone

sys.path.insert(0, os.getcwd())
warnings.simplefilter('ignore')

import pgpy  # noqa: E402
from pgpy.constants import CompressionAlgorithm, HashAlgorithm, SymmetricKeyAlgorithm  # noqa: E402
from pgpy.packet.packets import IntegrityProtectedSKEDataV1, SKESessionKeyV4  # noqa: E402

OUT = []


def rec(*items):
    OUT.append(repr(items))


class Stream(object):
    def __init__(self):
        self.n = 0
        self.sizes = []

    def __call__(self, nbytes):
        if nbytes < 0:
            raise ValueError("negative argument not allowed")
        self.sizes.append(nbytes)
        out = b''
        while len(out) < nbytes:
            out += hashlib.sha256(b'equiv-%d' % self.n).digest()
            self.n += 1
        return out[:nbytes]


real_urandom = os.urandom
stream = Stream()
os.urandom = stream


def exc(fn, *a, **kw):
    try:
        return ('ok', fn(*a, **kw))
    except BaseException as e:  # noqa
        return ('exc', type(e).__name__, str(e))


def fixed_message(text):
    msg = pgpy.PGPMessage.new(text, compression=CompressionAlgorithm.Uncompressed)
    msg._message.mtime = datetime(2020, 1, 2, 3, 4, 5, tzinfo=timezone.utc)
    return msg


# 1. gen_iv / gen_key for every cipher id
for alg in SymmetricKeyAlgorithm:
    for name in ('gen_iv', 'gen_key'):
        r = exc(getattr(alg, name))
        if r[0] == 'ok':
            rec(alg.name, name, type(r[1]).__name__, len(r[1]), bytes(r[1]))
        else:
            rec(alg.name, name, r)
rec('sizes-1', list(stream.sizes))

# 2. passphrase encryption of the same message, twice, for several ciphers
for alg in (SymmetricKeyAlgorithm.AES256, SymmetricKeyAlgorithm.AES128, SymmetricKeyAlgorithm.CAST5,
            SymmetricKeyAlgorithm.TripleDES, SymmetricKeyAlgorithm.Camellia192, SymmetricKeyAlgorithm.Blowfish):
    msg = fixed_message("This is a fixed message for C13\n")
    before = len(stream.sizes)
    e1 = msg.encrypt("correct horse", cipher=alg)
    e2 = msg.encrypt("correct horse", cipher=alg)
    e3 = msg.encrypt(b"correct horse", sessionkey=bytes(bytearray(range(alg.key_size // 8))), cipher=alg,
                     hash=HashAlgorithm.SHA1)
    rec(alg.name, 'sizes', stream.sizes[before:])
    for e in (e1, e2, e3):
        rec(alg.name, bytes(e), bytes(e.decrypt("correct horse").message.encode()
                                      if isinstance(e.decrypt("correct horse").message, str)
                                      else e.decrypt("correct horse").message))
    rec(alg.name, bytes(e1) != bytes(e2))

rec('bad-cipher', exc(fixed_message("x").encrypt, "pw", cipher=SymmetricKeyAlgorithm.Plaintext))
rec('bad-cipher-2', exc(fixed_message("x").encrypt, "pw", cipher=SymmetricKeyAlgorithm.Twofish256))

# 3. the two packet-level primitives directly
for alg in (SymmetricKeyAlgorithm.AES128, SymmetricKeyAlgorithm.CAST5, SymmetricKeyAlgorithm.AES256):
    sk = SKESessionKeyV4()
    sk.s2k.usage = 255
    sk.s2k.specifier = 3
    sk.s2k.halg = HashAlgorithm.SHA256
    sk.s2k.encalg = alg
    sk.s2k.count = 96
    before = len(stream.sizes)
    r = sk.encrypt_sk("pw", bytes(bytearray(alg.key_size // 8)))
    rec('skesk', alg.name, r, bytes(sk.s2k.salt), type(sk.s2k.salt).__name__, bytes(sk), sk.header.length,
        sk.decrypt_sk("pw"), stream.sizes[before:])

    sed = IntegrityProtectedSKEDataV1()
    before = len(stream.sizes)
    r = sed.encrypt(bytes(bytearray(alg.key_size // 8)), alg, b'\xcb\x06b\x00\x00\x00\x00\x00')
    rec('seipd', alg.name, r, bytes(sed), sed.header.length, bytes(sed.decrypt(bytes(bytearray(alg.key_size // 8)), alg)),
        stream.sizes[before:])
    rec('seipd-empty', alg.name, exc(lambda: (sed.encrypt(bytes(bytearray(alg.key_size // 8)), alg, b''), bytes(sed))[1]))

# 4. key protection (fresh IV + salt per key packet)
for kf in ('tests/testdata/keys/rsa.1.sec.asc', 'tests/testdata/keys/ecc.1.sec.asc', 'tests/testdata/keys/dsa.1.sec.asc'):
    for alg, halg in ((SymmetricKeyAlgorithm.AES256, HashAlgorithm.SHA256), (SymmetricKeyAlgorithm.CAST5, HashAlgorithm.SHA1)):
        key, _ = pgpy.PGPKey.from_file(kf)
        before = len(stream.sizes)
        key.protect("hunter2", alg, halg)
        rec('protect', kf, alg.name, stream.sizes[before:], bytes(key), key.is_protected, key.is_unlocked)
        s2k = key._key.keymaterial.s2k
        rec('s2k', int(s2k.usage), int(s2k.encalg), int(s2k.specifier), int(s2k.halg), s2k.count, bytes(s2k.iv), bytes(s2k.salt),
            type(s2k.iv).__name__, type(s2k.salt).__name__)
        with key.unlock("hunter2"):
            rec('unlocked', key.is_unlocked, bytes(key.pubkey))
        # protecting again while locked: warning path, no randomness drawn
        before = len(stream.sizes)
        with warnings.catch_warnings(record=True) as w:
            warnings.simplefilter('always')
            key.protect("other", alg, halg)
        rec('reprotect', [str(x.message) for x in w], stream.sizes[before:])

# 5. public-key encryption: RSA and ECDH (OpenSSL randomness -> structural digest + round trip)
for pubf, secf in (('tests/testdata/keys/rsa.1.pub.asc', 'tests/testdata/keys/rsa.1.sec.asc'),
                   ('tests/testdata/keys/ecc.1.pub.asc', 'tests/testdata/keys/ecc.1.sec.asc'),
                   ('tests/testdata/keys/ecc.2.pub.asc', 'tests/testdata/keys/ecc.2.sec.asc')):
    pub, _ = pgpy.PGPKey.from_file(pubf)
    sec, _ = pgpy.PGPKey.from_file(secf)
    for alg in (SymmetricKeyAlgorithm.AES256, SymmetricKeyAlgorithm.AES128):
        msg = fixed_message("public-key message\n")
        before = len(stream.sizes)
        r1 = exc(pub.encrypt, msg, cipher=alg)
        r2 = exc(pub.encrypt, msg, cipher=alg, sessionkey=bytes(bytearray(range(alg.key_size // 8))))
        rec('pk', pubf, alg.name, stream.sizes[before:], r1[0], r2[0])
        for r in (r1, r2):
            if r[0] != 'ok':
                rec('pk-exc', r)
                continue
            e = r[1]
            pk = e._sessionkeys[0]
            rec('pkesk', type(pk).__name__, str(pk.encrypter), int(pk.pkalg), type(pk.ct).__name__,
                [f for f in pk.ct.__mpis__], len(bytes(e)))
            if hasattr(pk.ct, 'p'):
                rec('ecdh', type(pk.ct.p).__name__, int(pk.ct.p.format), len(pk.ct.p.to_mpibytes()), len(pk.ct.c))
            d = exc(sec.decrypt, e)
            rec('pk-dec', d[0], d[1].message if d[0] == 'ok' else d)
        if r1[0] == 'ok' and r2[0] == 'ok':
            rec('distinct', bytes(r1[1]) != bytes(r2[1]))

os.urandom = real_urandom
rec('total-urandom-calls', len(stream.sizes))
print(hashlib.sha256('\n'.join(OUT).encode('utf-8', 'backslashreplace')).hexdigest(), len(OUT))
