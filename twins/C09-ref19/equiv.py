"""Digest of the observable outputs of the primitive wire codecs (property C09).

Run as:  cd <tree> && /venv/bin/python equiv.py
Prints one sha256 digest; it must be identical on the unchanged and on the refactored tree.
"""
import copy
import glob
import hashlib
import os
import sys
import warnings

sys.path.insert(0, os.getcwd())

import pgpy  # noqa: E402
from pgpy.types import Header as BaseHeader  # noqa: E402
from pgpy.types import PGPObject  # noqa: E402
from pgpy.packet.types import Header as PHeader, VersionedHeader, MPI, MPIs  # noqa: E402
from pgpy.packet.subpackets.types import Header as SHeader, EmbeddedSignatureHeader  # noqa: E402
from pgpy.packet.subpackets.types import Opaque as SPOpaque  # noqa: E402
from pgpy.packet.subpackets.signature import CreationTime, SignatureExpirationTime, KeyExpirationTime  # noqa: E402
from pgpy.packet.fields import String2Key, RSASignature, DSASignature, RSAPub, DSAPub, ElGPub, RSAPriv  # noqa: E402
from pgpy.packet.packets import PubKeyV4  # noqa: E402
from pgpy.packet import Packet  # noqa: E402
from pgpy.constants import String2KeyType, HashAlgorithm, SymmetricKeyAlgorithm  # noqa: E402

warnings.simplefilter('ignore')

h = hashlib.sha256()


def out(*vals):
    h.update(repr(vals).encode('utf-8'))
    h.update(b'\n')


def attempt(fn, *a, **kw):
    try:
        return ('ok', fn(*a, **kw))
    except Exception as e:  # noqa
        return ('exc', type(e).__name__, str(e))


# ---- integer helpers
for i in list(range(0, 70000, 7)) + [2 ** k + d for k in range(0, 70) for d in (-1, 0, 1)]:
    if i < 0:
        continue
    out('ibl', i, PGPObject.int_byte_len(i))
    for minlen in (0, 1, 2, 4, 5):
        out('i2b', i, minlen, attempt(PGPObject.int_to_bytes, i, minlen))
    out('i2b-little', attempt(PGPObject.int_to_bytes, i, 3, 'little'))
out('neg', attempt(PGPObject.int_to_bytes, -5), attempt(PGPObject.int_to_bytes, -1, 4))
for b in (b'', b'\x00', b'\x01\x02', b'\xff' * 9, bytearray(b'\x80\x00\x00\x01')):
    out('b2i', PGPObject.bytes_to_int(b), PGPObject.bytes_to_int(b, 'little'))

# ---- Header.encode_length
lengths = sorted(set(list(range(0, 70001)) + [2 ** k + d for k in range(8, 33) for d in (-2, -1, 0, 1)] + [2 ** 32 - 1]))
for n in lengths:
    out('enc-new', n, attempt(BaseHeader.encode_length, n))
    if n % 97 == 0 or n > 70000 or n in (255, 256, 65535, 65536):
        for ll in (0, 1, 2, 4):
            out('enc-old', n, ll, attempt(BaseHeader.encode_length, n, False, ll), attempt(BaseHeader.encode_length, n, 0, ll))

# ---- packet headers: build, serialise, parse back, grow
for tag in (2, 6, 11, 13, 61):
    for n in [0, 1, 100, 191, 192, 193, 8383, 8384, 8385, 65535, 65536, 2 ** 24, 2 ** 32 - 1]:
        hd = PHeader()
        hd.tag = tag
        hd.length = n
        out('ph-new', tag, n, bytes(hd), len(hd), hd.llen, hd.length, hd.tag, hd.typeid)
        back = PHeader()
        buf = bytearray(bytes(hd)) + bytearray(b'\xaa' * 3)
        back.parse(buf)
        out('ph-new-back', back.tag, back.length, back.llen, len(back), bytes(buf), bytes(back))
        for llt in (0, 1, 2, 3):
            oh = PHeader()
            oh._lenfmt = 0
            oh.tag = tag << 2
            oh.llen = llt
            oh.length = n
            out('ph-old', tag, llt, n, attempt(bytes, oh), attempt(len, oh), oh.llen, oh._llen)
    # old-format parse
    for raw in (b'\x98\x8d', b'\x99\x01\x0d', b'\x9a\x00\x01\x00\x00', b'\x9b' + b'z' * 17, b'\x88\x00', b'\xc2\xff\x00\x01\x00\x00',
                b'\xcb\xc0\x00', b'\xcb\xdf\xff', b'\xcb\xbf'):
        buf = bytearray(raw) + bytearray(b'\x55' * 4)
        hd = PHeader()
        r = attempt(hd.parse, buf)
        out('ph-parse', raw, r, hd.tag, hd.length, hd.llen, len(hd), bytes(hd), bytes(buf))
        hd.length = 70000
        out('ph-grow', hd.llen, len(hd), bytes(hd))
        hd.llen = 1
        out('ph-llen-set', hd.llen, hd._llen, bytes(hd))

# partial lengths
for chunks in ([1, 5], [2, 2, 7], [512, 1024, 190], [4096, 193], [1, 1, 1, 0], [65536, 9000]):
    body = bytearray()
    total = 0
    for c in chunks[:-1]:
        body += bytes([224 + c.bit_length() - 1]) + b'\x11' * c
        total += c
    body += BaseHeader.encode_length(chunks[-1]) + b'\x22' * chunks[-1]
    buf = bytearray(b'\xcb') + body + b'\x33\x33'
    hd = PHeader()
    r = attempt(hd.parse, buf)
    out('partial', chunks, r, hd.length, hd.llen, len(hd), bytes(hd), hashlib.sha1(bytes(buf)).hexdigest(), len(buf))

# versioned / embedded headers
vh = VersionedHeader()
vh.tag = 2
vh.version = 4
vh.length = 300
out('vh', bytes(vh), len(vh), vh.llen)
eh = EmbeddedSignatureHeader()
buf = bytearray(b'\x04rest')
eh.parse(buf)
out('eh', bytes(eh), len(eh), eh.tag, eh.version, bytes(buf))

# ---- subpacket headers
for n in [1, 2, 100, 191, 192, 193, 8383, 8384, 70000, 2 ** 32 - 1]:
    for crit in (False, True):
        for tid in (0, 2, 16, 33, 127, 130, 255):
            sh = SHeader()
            sh.length = n
            sh.critical = crit
            sh.typeid = tid
            raw = bytes(sh)
            out('sh', n, crit, tid, raw, len(sh), sh.llen, sh.typeid, sh.critical)
            back = SHeader()
            buf = bytearray(raw) + b'\x01\x02'
            back.parse(buf)
            out('sh-back', back.length, back.typeid, back.critical, len(back), bytes(back), bytes(buf))
sh = SHeader()
out('sh-default', sh.typeid, sh.critical, sh.length, sh.llen, len(sh))
out('sh-empty-typeid', attempt(setattr, sh, 'typeid', b''), sh.typeid, sh.critical)
for paylen in (0, 1, 190, 191, 192, 8382, 8383, 8384):
    op = SPOpaque()
    op.header.typeid = 100
    op.payload = b'\x42' * paylen
    op.update_hlen()
    raw = bytes(op)
    out('spopaque', paylen, op.header.length, len(op), len(op.header), hashlib.sha1(raw).hexdigest(), raw[:8])

# ---- MPIs
vals = [0, 1, 2, 127, 128, 255, 256, 65535, 65536]
vals += [(1 << b) for b in range(0, 4201, 13)] + [(1 << b) - 1 for b in range(1, 4201, 17)] + [(1 << 4200) + 12345]
for v in vals:
    m = MPI(v)
    raw = m.to_mpibytes()
    buf = bytearray(raw) + b'\x99\x98'
    back = MPI(buf)
    out('mpi', v.bit_length(), hashlib.sha1(bytes(raw)).hexdigest(), type(raw).__name__, len(m), m.byte_length(), int(back) == v,
        bytes(buf), type(back).__name__)
out('mpi-leading-zero', int(MPI(bytearray(b'\x00\x10\x00\x01\x07'))), int(MPI(bytearray(b'\x00\x09\xff\xff\x07'))))
out('mpi-bytes', int(MPI(b'\x00\x08\x7f\x01')), attempt(MPI, 'x'), attempt(MPI, None), int(MPI(True)), int(MPI(3.7)))
out('mpi-short', int(MPI(bytearray(b'\x00\x20\x01'))), int(MPI(bytearray(b'\x01'))), int(MPI(bytearray())))

for cls, n in ((RSASignature, 1), (DSASignature, 2), (RSAPub, 2), (DSAPub, 4), (ElGPub, 3)):
    o = cls()
    out('fields-default', cls.__name__, bytes(o.__bytearray__()), type(o.__bytearray__()).__name__, len(o), [int(x) for x in o])
    buf = bytearray()
    for k in range(n):
        buf += MPI((1 << (200 * (k + 1))) + k).to_mpibytes()
    buf += b'tail'
    o.parse(buf)
    out('fields-parsed', cls.__name__, hashlib.sha1(bytes(o.__bytearray__())).hexdigest(), len(o), bytes(buf),
        [int(x) for x in o], [int(x) for x in copy.copy(o)], type(iter(o)).__name__)

# ---- S2K count
for c in range(256):
    s = String2Key()
    s.count = c
    out('s2k', c, s.count, s._count)
    s.usage = 254
    s.encalg = SymmetricKeyAlgorithm.AES128
    s.specifier = String2KeyType.Iterated
    s.halg = HashAlgorithm.SHA1
    s.salt = bytearray(b'12345678')
    s.iv = bytearray(b'\x00' * 16)
    raw = bytes(s.__bytearray__())
    t = String2Key()
    t.parse(bytearray(raw))
    out('s2k-rt', raw, t.count, t._count, copy.copy(t).count, len(t))
    if c in (0, 1, 15, 16, 17, 96, 97):
        out('s2k-derive', c, s.derive_key('hunter2').hex(), s.derive_key(b'x' * 3000).hex())
s = String2Key()
out('s2k-default', s.count, s._count, attempt(setattr, s, 'count', 256), attempt(setattr, s, 'count', -1), s.count,
    attempt(setattr, s, 'count', True), s.count)
for spec in (String2KeyType.Simple, String2KeyType.Salted):
    s = String2Key()
    s.usage = 254
    s.encalg = SymmetricKeyAlgorithm.AES256
    s.specifier = spec
    s.halg = HashAlgorithm.SHA256
    s.salt = bytearray(b'abcdefgh')
    s.count = 200
    out('s2k-derive-other', spec, s.derive_key('pass').hex(), bytes(s.__bytearray__()))

# ---- four-octet time fields
for ts in (0, 1, 59, 86399, 86400, 951782400, 2 ** 31 - 1, 2 ** 31, 2 ** 32 - 1):
    ct = CreationTime()
    ct.created = ts
    ct.update_hlen()
    raw = bytes(ct)
    out('ct', ts, raw, ct.created.isoformat(), len(ct))
    back = CreationTime()
    buf = bytearray(raw) + b'zz'
    back.parse(buf)
    out('ct-back', back.created.isoformat(), bytes(back), bytes(buf))
    for cls, attr in ((SignatureExpirationTime, 'expires'), (KeyExpirationTime, 'expires')):
        et = cls()
        setattr(et, attr, ts)
        et.update_hlen()
        raw = bytes(et)
        b2 = cls()
        buf = bytearray(raw) + b'yy'
        b2.parse(buf)
        out('et', cls.__name__, ts, raw, getattr(b2, attr).total_seconds(), bytes(buf))
    pk = PubKeyV4()
    pk.created = ts
    pk.pkalg = 1
    pk.keymaterial = RSAPub()
    pk.keymaterial.n = MPI((1 << 1023) + 5)
    pk.keymaterial.e = MPI(65537)
    pk.update_hlen()
    raw = bytes(pk)
    out('pk', ts, hashlib.sha1(raw).hexdigest(), raw[:10], len(pk), str(pk.fingerprint), pk.created.isoformat())
    p2 = Packet(bytearray(raw))
    out('pk-back', type(p2).__name__, p2.created.isoformat(), bytes(p2) == raw, p2.header.length, len(p2.header))

# ---- fixture keys / messages / signatures round trip
root = os.path.join(os.getcwd(), 'tests', 'testdata')
for fn in sorted(glob.glob(os.path.join(root, 'keys', '*.asc'))):
    key, others = pgpy.PGPKey.from_file(fn)
    raw = bytes(key)
    out('key', os.path.basename(fn), hashlib.sha256(raw).hexdigest(), str(key.fingerprint), key.created.isoformat(),
        sorted(str(k) for k in key.subkeys), len(raw))
    again = pgpy.PGPKey.from_blob(raw)[0]
    out('key-again', bytes(again) == raw, bytes(copy.copy(key)) == raw)
for pat, cls in (('messages/*.asc', pgpy.PGPMessage), ('signatures/*.asc', pgpy.PGPSignature), ('blocks/*.asc', None)):
    for fn in sorted(glob.glob(os.path.join(root, pat))):
        if cls is None:
            r = attempt(lambda: hashlib.sha256(bytes(pgpy.PGPMessage.from_file(fn))).hexdigest())
        else:
            r = attempt(lambda: hashlib.sha256(bytes(cls.from_file(fn))).hexdigest())
        out('file', os.path.relpath(fn, root), r)
for fn in sorted(glob.glob(os.path.join(root, 'packets', '*'))):
    with open(fn, 'rb') as f:
        data = bytearray(f.read())

    def load():
        pkt = Packet(data)
        return (type(pkt).__name__, pkt.header.length, len(pkt.header), len(pkt), hashlib.sha256(bytes(pkt)).hexdigest())
    out('packet', os.path.basename(fn), attempt(load))

sec, _ = pgpy.PGPKey.from_file(os.path.join(root, 'keys', 'rsa.1.sec.asc'))
out('privkey', hashlib.sha256(bytes(sec._key.keymaterial.__bytearray__())).hexdigest(), len(sec._key.keymaterial),
    sec._key.keymaterial.publen())
enc, _ = pgpy.PGPKey.from_file(os.path.join(root, 'keys', 'rsa.1.enc.asc'))
out('enckey', hashlib.sha256(bytes(enc)).hexdigest(), enc._key.keymaterial.s2k.count, enc.is_protected)
with enc.unlock('QwertyUiop'):
    out('unlocked', hashlib.sha256(bytes(enc._key.keymaterial.__bytearray__())).hexdigest() != '', int(enc._key.keymaterial.d) > 0,
        hashlib.sha256(repr([int(x) for x in (enc._key.keymaterial.d, enc._key.keymaterial.p)]).encode()).hexdigest())

# protect (random salt / iv, so only the recovered secret components are digested) and unlock again
for kf in ('rsa.1.sec.asc', 'dsa.1.sec.asc', 'ecc.1.sec.asc'):
    k, _ = pgpy.PGPKey.from_file(os.path.join(root, 'keys', kf))
    clear = bytes(k._key.keymaterial.__bytearray__())
    k.protect('correct horse', SymmetricKeyAlgorithm.AES256, HashAlgorithm.SHA256)
    km = k._key.keymaterial
    out('protected', kf, k.is_protected, km.s2k.count, len(km) == len(bytes(km.__bytearray__())), len(km.encbytes))
    with k.unlock('correct horse'):
        out('recovered', kf, [hashlib.sha1(bytes(getattr(km, f).to_mpibytes())).hexdigest() for f in km.__privfields__])
    out('clear', kf, hashlib.sha256(clear).hexdigest(), len(clear))

print(h.hexdigest())
