import hashlib
import os
import sys
sys.path.insert(0, os.getcwd())

import pgpy
from pgpy.constants import HashAlgorithm, String2KeyType, SymmetricKeyAlgorithm
from pgpy.packet.fields import String2Key

out = hashlib.sha256()


def emit(*a):
    out.update(repr(a).encode('utf-8') + b'\n')


HALGS = [HashAlgorithm.MD5, HashAlgorithm.SHA1, HashAlgorithm.RIPEMD160, HashAlgorithm.SHA224,
         HashAlgorithm.SHA256, HashAlgorithm.SHA384, HashAlgorithm.SHA512]
CIPHERS = [SymmetricKeyAlgorithm.CAST5, SymmetricKeyAlgorithm.TripleDES, SymmetricKeyAlgorithm.AES256,
           SymmetricKeyAlgorithm.Plaintext]
SPECS = [String2KeyType.Simple, String2KeyType.Salted, String2KeyType.Iterated]
PASSES = [b'', '', 'a', 'hunter2', u'p\xe4ssw\xf6rd ☃', b'\x00\xff\xfe raw', 'x' * 1017, b'y' * 1024,
          'z' * 1031, 'long' * 1500, bytearray(b'ba'), None, 17]
SALTS = [bytearray(range(1, 9)), bytearray(b'\xff' * 8), bytearray()]
COUNTS = [0, 15, 16, 96, 144]

# derive_key over the whole grid (exceptions included)
for spec in SPECS:
    for halg in HALGS:
        for enc in CIPHERS:
            for salt in SALTS:
                for cc in (COUNTS if spec == String2KeyType.Iterated else [0]):
                    for pw in PASSES:
                        s = String2Key()
                        s.usage = 254
                        s.encalg = enc
                        s.specifier = spec
                        s.halg = halg
                        s.salt = bytearray(salt)
                        s.count = cc
                        try:
                            k = s.derive_key(pw)
                            emit('key', int(spec), int(halg), int(enc), bytes(salt), cc, repr(pw)[:40], type(k).__name__, k)
                        except Exception as e:
                            emit('exc', int(spec), int(halg), int(enc), bytes(salt), cc, repr(pw)[:40], type(e).__name__, str(e))
                        emit(bytes(s.salt), s._count, s.count)

# the largest coded counts, once
for cc in (200, 255):
    s = String2Key()
    s.usage = 254
    s.encalg = SymmetricKeyAlgorithm.AES256
    s.specifier = String2KeyType.Iterated
    s.halg = HashAlgorithm.SHA1
    s.salt = bytearray(b'saltsalt')
    s.count = cc
    emit('bigcount', cc, s.derive_key('correct horse'))

# count decode for every coded count
for c in range(256):
    s = String2Key()
    s.count = c
    emit('count', c, s.count, s._count)
for bad in (-1, 256):
    try:
        String2Key().count = bad
    except Exception as e:
        emit('countexc', bad, type(e).__name__, str(e))

# parse / __bytearray__ / __len__ / __bool__ / __copy__
PACKETS = [
    bytes([0]) + b'rest',
    bytes([1]) + b'rest',
    bytes([9]) + b'0123456789abcdefXYZ',
    bytes([254, 9, 0, 2]) + bytes(range(16)) + b'tail',
    bytes([254, 9, 1, 8]) + b'SALTSALT' + bytes(range(16)) + b'tail',
    bytes([254, 9, 3, 8]) + b'SALTSALT' + bytes([96]) + bytes(range(16)) + b'tail',
    bytes([255, 3, 3, 2]) + b'saltsalt' + bytes([255]) + bytes(range(8)) + b'tail',
    bytes([254, 7, 3, 10]) + b'saltsalt' + bytes([0]) + bytes(range(16)),
    bytes([254, 7, 3, 10]) + b'salt',
    bytes([254, 7, 1, 10]),
    bytes([254, 7]),
    bytes([254]),
    b'',
    bytes([254, 0, 101]) + b'\x00GNU\x01' + b'tail',
    bytes([255, 0, 101]) + b'\x00GNU\x02\x04ABCDtail',
    bytes([254, 0, 101]) + b'\x00GNU\x02\x20' + bytes(range(40)),
    bytes([254, 0, 101]) + b'\x00GNX\x01',
    bytes([254, 9, 2, 8]) + b'x' * 30,
    bytes([254, 99, 3, 8]) + b'x' * 30,
    bytes([254, 9, 3, 99]) + b'x' * 30,
    bytes([254, 0, 3, 8]) + b'SALTSALT' + bytes([96]) + bytes(range(16)),
    bytes([254, 1, 3, 8]) + b'SALTSALT' + bytes([96]) + bytes(range(16)),
]
for pkt in PACKETS:
    for iv in (True, False):
        buf = bytearray(pkt)
        s = String2Key()
        try:
            r = s.parse(buf, iv=iv)
            emit('parsed', pkt, iv, r, bytes(buf))
        except Exception as e:
            emit('parseexc', pkt, iv, type(e).__name__, str(e), bytes(buf))
        try:
            emit('state', s.usage, int(s.encalg), int(s.specifier), int(s.halg), bytes(s.salt), s._count, s.count,
                 None if s.iv is None else bytes(s.iv), int(s.gnuext), None if s.scserial is None else bytes(s.scserial),
                 bool(s), len(s), bytes(s.__bytearray__()))
            c = s.__copy__()
            emit('copy', bytes(c.__bytearray__()), c.count, bool(c))
        except Exception as e:
            emit('stateexc', type(e).__name__, str(e))
        if bool(s) and int(s.specifier) in (0, 1, 3):
            try:
                emit('dk', s.derive_key('passphrase'))
            except Exception as e:
                emit('dkexc', type(e).__name__, str(e))

# __bool__ for every usage octet
for u in range(256):
    s = String2Key()
    s.usage = u
    emit('bool', u, bool(s), s.__nonzero__(), bytes(s.__bytearray__()))

# end to end: unlock passphrase-protected fixture keys, decrypt passphrase-encrypted fixture messages
import glob
for kf in sorted(glob.glob('tests/testdata/keys/*.enc.asc')):
    key, _ = pgpy.PGPKey.from_file(kf)
    s2k = key._key.keymaterial.s2k
    emit('fixture-s2k', kf, key.is_protected, key.is_unlocked, bytes(s2k.__bytearray__()), s2k.count)
    for pw in ('QwertyUiop', 'wrong'):
        emit('fixture-dk', s2k.derive_key(pw))
        try:
            with key.unlock(pw):
                emit('unlocked', pw, key.is_unlocked, bytes(key._key.keymaterial.__bytearray__()))
        except Exception as e:
            emit('unlockexc', pw, type(e).__name__, str(e))
for mf in sorted(glob.glob('tests/testdata/messages/message*.pass*.asc')):
    msg = pgpy.PGPMessage.from_file(mf)
    for pw in ('QwertyUiop', 'wrong'):
        try:
            dec = msg.decrypt(pw)
            emit('decrypted', mf, pw, bytes(dec.__bytearray__()))
        except Exception as e:
            emit('decexc', mf, pw, type(e).__name__, str(e))

print(out.hexdigest())
