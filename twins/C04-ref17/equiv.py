"""equiv.py (C04 / ref1) - String2Key.derive_key and everything that is decrypted through it.

run as:  cd <tree> && /venv/bin/python equiv.py
prints one digest of all observable outputs; must be identical on the unchanged and on the refactored tree.
"""
import glob
import hashlib
import os
import sys
import warnings

sys.path.insert(0, os.getcwd())

import pgpy  # noqa: E402
from pgpy import PGPKey, PGPMessage  # noqa: E402
from pgpy.constants import HashAlgorithm, String2KeyType, SymmetricKeyAlgorithm  # noqa: E402
from pgpy.packet.fields import String2Key  # noqa: E402
from pgpy.packet import Packet  # noqa: E402
from pgpy.packet.packets import SKESessionKeyV4  # noqa: E402

warnings.simplefilter('ignore')
out = []


def rec(tag, fn):
    try:
        r = fn()
        if isinstance(r, (bytes, bytearray)):
            r = bytes(r).hex()
        out.append('{}: OK {!r}'.format(tag, r))
    except BaseException as e:  # noqa
        out.append('{}: EXC {} {}'.format(tag, type(e).__name__, e))


# 1. the S2K function itself over specifier x hash x cipher x passphrase (fixed salt, several counts)
passphrases = ['QwertyUiop', b'QwertyUiop', u'p\xe4ssw\xf6rd 色', '', b'', 'x' * 70000, bytearray(b'abc'), None, 5]
for spec in (String2KeyType.Simple, String2KeyType.Salted, String2KeyType.Iterated, String2KeyType.GNUExtension):
    for halg in (HashAlgorithm.MD5, HashAlgorithm.SHA1, HashAlgorithm.RIPEMD160, HashAlgorithm.SHA224,
                 HashAlgorithm.SHA256, HashAlgorithm.SHA384, HashAlgorithm.SHA512, HashAlgorithm.Invalid):
        for encalg in (SymmetricKeyAlgorithm.Plaintext, SymmetricKeyAlgorithm.IDEA, SymmetricKeyAlgorithm.TripleDES,
                       SymmetricKeyAlgorithm.CAST5, SymmetricKeyAlgorithm.AES128, SymmetricKeyAlgorithm.AES192,
                       SymmetricKeyAlgorithm.AES256, SymmetricKeyAlgorithm.Twofish256, SymmetricKeyAlgorithm.Camellia256):
            for cnt in (0, 1, 96, 255):
                if cnt == 255 and halg not in (HashAlgorithm.SHA1, HashAlgorithm.SHA512):
                    continue
                for n, pw in enumerate(passphrases):
                    if cnt == 255 and n not in (0, 2):
                        continue
                    s2k = String2Key()
                    s2k.usage = 255
                    s2k.encalg = encalg
                    s2k.specifier = spec
                    s2k.halg = halg
                    s2k.salt = bytearray(b'\x01\x23\x45\x67\x89\xab\xcd\xef')
                    s2k.count = cnt
                    rec('s2k {} {} {} {} {}'.format(int(spec), int(halg), int(encalg), cnt, n), lambda: s2k.derive_key(pw))

# odd salts
for salt in (bytearray(), b'\x00' * 8, 'notbytes', 3):
    s2k = String2Key()
    s2k.usage, s2k.encalg, s2k.specifier, s2k.halg, s2k.count = 255, 9, 3, 8, 10
    s2k.salt = salt
    rec('salt {!r}'.format(salt), lambda: s2k.derive_key('abc'))
    s2k.specifier = 0
    rec('salt-simple {!r}'.format(salt), lambda: s2k.derive_key('abc'))

# 2. passphrase-encrypted fixture messages: right / wrong passphrases, str / bytes
for fn in sorted(glob.glob('tests/testdata/messages/message*.pass*.asc')):
    for pw in ('QwertyUiop', b'QwertyUiop', 'qwertyuiop', '', u'Qwerty\xdciop', None, bytearray(b'QwertyUiop')):
        msg = PGPMessage.from_file(fn)
        rec('pass {} {!r}'.format(os.path.basename(fn), pw), lambda: bytes(msg.decrypt(pw)))

# 3. SKESK packets: decrypt_sk directly, every single-bit flip of the packet of one message
msg = PGPMessage.from_file('tests/testdata/messages/message.rsa.dsa.pass.aes.asc')
for sk in msg._sessionkeys:
    if isinstance(sk, SKESessionKeyV4):
        rec('skesk', lambda: sk.decrypt_sk('QwertyUiop'))
        raw = bytes(sk.__bytearray__())
        for bit in range(len(raw) * 8):
            mut = bytearray(raw)
            mut[bit // 8] ^= 1 << (bit % 8)

            def attempt():
                return Packet(bytearray(mut)).decrypt_sk('QwertyUiop')
            rec('skesk flip {}'.format(bit), attempt)

# 4. protected secret keys are unlocked through the same S2K
for fn in ('tests/testdata/keys/rsa.1.enc.asc', 'tests/testdata/keys/dsa.1.enc.asc'):
    for pw in ('QwertyUiop', 'wrong', b'QwertyUiop'):
        key, _ = PGPKey.from_file(fn)

        def unlock():
            with key.unlock(pw) as k:
                return bytes(k._key.keymaterial.__bytearray__())
        rec('unlock {} {!r}'.format(os.path.basename(fn), pw), unlock)

# 5. round trip with a fixed session key and a fixed salt is not possible (salt is random); check decrypt(encrypt(x)) == x
m = PGPMessage.new('round trip text', compression=pgpy.constants.CompressionAlgorithm.Uncompressed)
for cipher in (SymmetricKeyAlgorithm.AES256, SymmetricKeyAlgorithm.CAST5, SymmetricKeyAlgorithm.Camellia192):
    for halg in (HashAlgorithm.SHA1, HashAlgorithm.SHA256, HashAlgorithm.SHA512):
        enc = m.encrypt(u'p\xe4ss', cipher=cipher, hash=halg)
        rec('rt {} {}'.format(int(cipher), int(halg)), lambda: enc.decrypt(u'p\xe4ss').message)
        rec('rt-wrong {} {}'.format(int(cipher), int(halg)), lambda: enc.decrypt(u'pass').message)

print(len(out), hashlib.sha256('\n'.join(out).encode('utf-8')).hexdigest())
