"""Exercise the key-usage policy (KeyAction, _get_key_flags, sign/certify/encrypt/decrypt) on fixture keys
and print a digest of everything observable: chosen signer / recipient key ids, exception types and messages,
log records, warnings, deterministic (RSA) signature bytes.

Run as:  cd <tree> && /venv/bin/python equiv.py
"""
import sys
import os
sys.path.insert(0, os.getcwd())

import copy
import glob
import hashlib
import logging
import warnings
from datetime import datetime, timezone

import pgpy
from pgpy import PGPKey, PGPMessage, PGPUID
from pgpy.constants import KeyFlags, HashAlgorithm, SymmetricKeyAlgorithm, SignatureType
from pgpy.pgp import PGPSignature

out = []


def emit(*a):
    out.append(' | '.join(str(x) for x in a))


class Grab(logging.Handler):
    def emit(self, record):
        out.append('LOG %s %s' % (record.levelname, record.getMessage()))


root = logging.getLogger()
root.addHandler(Grab())
root.setLevel(logging.DEBUG)

FIXED = datetime(2020, 1, 2, 3, 4, 5, tzinfo=timezone.utc)
PASS = {'tests/testdata/keys/rsa.1.enc.asc': 'QwertyUiop', 'tests/testdata/keys/dsa.1.enc.asc': 'QwertyUiop'}


def attempt(label, fn):
    with warnings.catch_warnings(record=True) as w:
        warnings.simplefilter('always')
        try:
            r = fn()
        except Exception as e:
            emit(label, 'EXC', type(e).__name__, str(e))
            r = None
        for x in w:
            emit(label, 'WARN', x.category.__name__, str(x.message))
    return r


def sigdesc(sig):
    if sig is None:
        return None
    return (sig.signer, str(sig.signer_fingerprint), sig.type.name, sig.key_algorithm.name,
            [str(k) for k in sig._signature.subpackets._hashed_sp.keys()],
            [str(k) for k in sig._signature.subpackets._unhashed_sp.keys()])


def exercise(path, key, tag):
    deterministic = key.key_algorithm.name == 'RSAEncryptOrSign'
    for enforce in (True, False):
        key._require_usage_flags = enforce
        lab = '%s[%s,enforce=%s]' % (path, tag, enforce)
        emit(lab, 'flags', sorted(f.name for f in key._get_key_flags()),
             [(sid, sorted(f.name for f in sk._get_key_flags())) for sid, sk in key.subkeys.items()])
        emit(lab, 'flags(user)', attempt(lab + ' flags(user)', lambda: sorted(
            f.name for f in key._get_key_flags(key.userids[0].name))))
        attempt(lab + ' flags(nouser)', lambda: key._get_key_flags('nobody-by-this-name'))

        sig = attempt(lab + ' sign', lambda: key.sign('hello world', created=FIXED, hash=HashAlgorithm.SHA256))
        emit(lab, 'sign', sigdesc(sig))
        if sig is not None and deterministic:
            emit(lab, 'sigbytes', hashlib.sha256(bytes(sig)).hexdigest())
        sig = attempt(lab + ' sign(user)', lambda: key.sign('hello world', created=FIXED, user=key.userids[0].name))
        emit(lab, 'sign(user)', sigdesc(sig))
        sig = attempt(lab + ' sign(nofpr)', lambda: key.sign('hello', created=FIXED, include_issuer_fingerprint=False))
        emit(lab, 'sign(nofpr)', sigdesc(sig))
        if sig is not None and deterministic:
            emit(lab, 'sigbytes', hashlib.sha256(bytes(sig)).hexdigest())
        sig = attempt(lab + ' timestamp', lambda: key.sign(None, created=FIXED))
        emit(lab, 'timestamp', sigdesc(sig))

        other = key.userids[0]
        sig = attempt(lab + ' certify', lambda: key.certify(other, created=FIXED))
        emit(lab, 'certify', sigdesc(sig))
        if sig is not None and deterministic:
            emit(lab, 'sigbytes', hashlib.sha256(bytes(sig)).hexdigest())

        msg = PGPMessage.new('secret text', compression=pgpy.constants.CompressionAlgorithm.Uncompressed)
        enc = attempt(lab + ' encrypt', lambda: key.encrypt(msg, cipher=SymmetricKeyAlgorithm.AES256))
        emit(lab, 'encrypters', sorted(enc.encrypters) if enc is not None else None)
        if enc is not None:
            emit(lab, 'pkesk', [(bytes(sk.encrypter).hex() if not isinstance(sk.encrypter, str) else sk.encrypter,
                                 sk.pkalg.name) for sk in enc._sessionkeys])

        pubenc = None
        if not key.is_public:
            pubenc = attempt(lab + ' pub.encrypt', lambda: key.pubkey.encrypt(
                msg, cipher=SymmetricKeyAlgorithm.AES256, sessionkey=b'\x07' * 32))
            emit(lab, 'pub.encrypters', sorted(pubenc.encrypters) if pubenc is not None else None)
        target = pubenc if pubenc is not None else enc
        if target is not None:
            # round-trip through the armored form so decrypt sees parsed packets
            target = PGPMessage.from_blob(str(target))
            dec = attempt(lab + ' decrypt', lambda: key.decrypt(target))
            emit(lab, 'decrypt', dec.message if dec is not None else None)
            for sid, sk in key.subkeys.items():
                dec = attempt(lab + ' subkey.decrypt ' + sid, lambda: sk.decrypt(target))
                emit(lab, 'subkey.decrypt', sid, dec.message if dec is not None else None)
        attempt(lab + ' decrypt(plain)', lambda: key.decrypt(msg))

        for sid, sk in key.subkeys.items():
            sk._require_usage_flags = enforce
            sig = attempt(lab + ' subkey.sign ' + sid, lambda: sk.sign('via subkey', created=FIXED))
            emit(lab, 'subkey.sign', sid, sigdesc(sig))
            enc2 = attempt(lab + ' subkey.encrypt ' + sid, lambda: sk.encrypt(msg, cipher=SymmetricKeyAlgorithm.AES256))
            emit(lab, 'subkey.encrypters', sid, sorted(enc2.encrypters) if enc2 is not None else None)


for path in sorted(glob.glob('tests/testdata/keys/*.asc')):
    key, _ = PGPKey.from_file(path)
    exercise(path, key, 'asis')
    if key.is_protected:
        with key.unlock(PASS[path]):
            exercise(path, key, 'unlocked')

# foreign message: nobody we know can decrypt it
a, _ = PGPKey.from_file('tests/testdata/keys/rsa.1.sec.asc')
b, _ = PGPKey.from_file('tests/testdata/keys/targette.sec.rsa.asc')
m = PGPMessage.new('for rsa.1 only')
em = PGPMessage.from_blob(str(a.pubkey.encrypt(m, cipher=SymmetricKeyAlgorithm.AES128)))
attempt('foreign decrypt', lambda: b.decrypt(em))
emit('own decrypt', attempt('own decrypt', lambda: a.decrypt(em).message))

# a key with no user id: refuses everything but its first self-certification; empty PGPKey: "No key!"
bare = copy.copy(b)
bare._uids.clear()
emit('bare flags', sorted(f.name for f in bare._get_key_flags()))
attempt('bare sign', lambda: bare.sign('x', created=FIXED))
attempt('bare encrypt', lambda: bare.pubkey.encrypt(m))
attempt('bare decrypt', lambda: bare.decrypt(em))
uid = PGPUID.new('Bare Key', email='bare@example.com')
sig = attempt('bare certify', lambda: bare.certify(uid, created=FIXED))
emit('bare certify', sigdesc(sig), hashlib.sha256(bytes(sig)).hexdigest() if sig is not None else None)
empty = PGPKey()
attempt('empty sign', lambda: empty.sign('x'))
attempt('empty encrypt', lambda: empty.encrypt(m))
attempt('empty decrypt', lambda: empty.decrypt(em))

# PGPSignature.new directly
s = PGPSignature.new(SignatureType.BinaryDocument, a.key_algorithm, HashAlgorithm.SHA256, a.fingerprint.keyid, created=FIXED)
emit('new', s.signer, s.type.name, s.hash_algorithm.name, s._signature.header.tag, s._signature.header.version,
     [str(k) for k in s._signature.subpackets._hashed_sp.keys()], [str(k) for k in s._signature.subpackets._unhashed_sp.keys()],
     hashlib.sha256(bytes(s._signature.subpackets)).hexdigest())
s = PGPSignature.new(SignatureType.Timestamp, a.key_algorithm, None, a.fingerprint.keyid, created=FIXED)
emit('new(nohalg)', s.signer, s.type.name, hashlib.sha256(bytes(s._signature.subpackets)).hexdigest())

text = '\n'.join(out)
if os.environ.get('EQUIV_VERBOSE'):
    print(text)
print(len(out), hashlib.sha256(text.encode('utf-8')).hexdigest())
