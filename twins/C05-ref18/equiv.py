import glob
import hashlib
import os
import sys
import warnings

sys.path.insert(0, os.getcwd())
warnings.simplefilter('ignore')

import pgpy
from pgpy.packet.subpackets import Signature as SignatureSP
from pgpy.packet.subpackets import UserAttribute as UserAttributeSP
from pgpy.packet.subpackets import signature as spmod
from pgpy.packet.fields import SubPackets

out = hashlib.sha256()


def emit(*parts):
    for p in parts:
        if isinstance(p, (bytes, bytearray)):
            p = type(p).__name__ + ':' + bytes(p).hex()
        out.update(repr(p).encode() + b"\n")


def enc_len(n, form):
    if form == 1:
        return bytes([n])
    if form == 2:
        n -= 192
        return bytes([(n >> 8) + 192, n & 0xff])
    return b'\xff' + n.to_bytes(4, 'big')


def ser(sp):
    try:
        return sp.__bytearray__()
    except Exception as e:
        return ('ser-exc', type(e).__name__, str(e))


def describe(sp):
    d = {}
    for k in sorted(vars(sp)):
        v = vars(sp)[k]
        if k == 'header':
            v = (v.length, v.llen, v.typeid, v.critical)
        elif k == '_sigpkt':
            v = bytes(v.__bytearray__())
        elif isinstance(v, (set, frozenset)):
            v = sorted(v)
        elif isinstance(v, str):
            v = (type(v).__name__, str.__str__(v) + '')
        d[k] = v
    return type(sp).__name__, sorted(d.items(), key=lambda kv: kv[0])


bodies = [b'', b'\x00', b'\x01', b'\x02', b'hello', 'héllo 世界'.encode('utf-8'), b'\xff\xfe\x80abc', b'\x03no longer used',
          b'\x20\xc3\x28', bytes(range(256)), b'x' * 191, b'y' * 300, b'\x80\x00\x00\x00\x00\x03\x00\x02abcde',
          b'\x00\x00\x00\x00\x00\x02\x00\x03n\xe9\xff\x00\x01', b'\x80\x00\x00\x00\x00\x09\x00\x01ab']


def run(root, tid, crit, body, form, trailing=b'TRAIL', cut=0):
    n = len(body) + 1
    if form == 1 and n >= 192:
        return
    if form == 2 and not (192 <= n < 8384):
        return
    raw = enc_len(n, form) + bytes([tid | (0x80 if crit else 0)]) + body
    if cut:
        raw = raw[:-cut]
        trailing = b''
    buf = bytearray(raw + trailing)
    try:
        sp = root(buf)
    except Exception as e:
        emit('exc', tid, crit, form, cut, len(body), type(e).__name__, str(e), buf)
        return
    emit(tid, crit, form, cut, describe(sp), buf, ser(sp), len(sp), repr(sp).split(' at ')[0])


for tid in range(0, 128):
    for body in bodies:
        for crit in (False, True):
            for form in (1, 2, 5):
                run(SignatureSP, tid, crit, body, form)
    # truncated input
    for body in (b'hello', b'\x02abc', b'\x80\x00\x00\x00\x00\x03\x00\x02abcde'):
        for cut in (1, 3):
            run(SignatureSP, tid, False, body, 1, cut=cut)

for tid in (0, 1, 2, 100):
    for body in (b'', b'abc', b'\x10\x00\x01\x01' + b'\x00' * 12 + b'JPEGDATA'):
        run(UserAttributeSP, tid, False, body, 1)

# direct use on hand-built objects, including a non-bytearray buffer (parse wants a bytearray)
for cls, attr in ((spmod.URI, 'uri'), (spmod.Policy, 'uri'), (spmod.PreferredKeyServer, 'uri'), (spmod.RegularExpression, 'regex'),
                  (spmod.SignersUserID, 'userid'), (spmod.ReasonForRevocation, 'string'),
                  (spmod.AttestedCertifications, 'attested_certifications')):
    sp = cls()
    emit(describe(sp), ser(sp))
    sp.header.length = 4
    sp.header.typeid = 5
    for buf in (bytearray(b'\x01abcdef'), b'\x01abcdef', bytearray()):
        try:
            sp.parse(buf)
            emit('ok', describe(sp), buf)
        except Exception as e:
            emit('exc', type(e).__name__, str(e), describe(sp), buf)
    try:
        setattr(sp, attr, 'text é')
        emit(describe(sp), ser(sp))
        setattr(sp, attr, 12.5)
    except Exception as e:
        emit('exc', type(e).__name__, str(e), describe(sp))
    emit(sorted(t.__name__ for t in type(sp).__dict__.get(attr, getattr(type(sp), attr)).fset.registry))

# whole areas
area = b''.join(enc_len(len(b) + 1, 1) + bytes([t]) + b for t, b in ((26, b'https://ex.org/\xc3\xa9'), (6, b'<[^>]+[@.]ex\\.org>$\x00'),
                                                                 (28, b'someone <\xff@ex>'), (29, b'\x02lost'), (37, b'\xaa' * 64), (99, b'opaque')))
for unh in (b'\x00\x00', b'\x00\x0a\x09\x10' + b'\x11' * 8):
    buf = bytearray(len(area).to_bytes(2, 'big') + area + unh + b'REST')
    sps = SubPackets()
    sps.parse(buf)
    emit(buf, sps.__hashbytearray__(), sps.__unhashbytearray__(), sps.__bytearray__(), [describe(sp) for sp in sps])

# fixtures: parse, re-serialise, verify self-signatures
for fn in sorted(glob.glob('tests/testdata/keys/*.pub.asc') + glob.glob('tests/testdata/blocks/*pubkey.asc')
                 + glob.glob('tests/testdata/signatures/*.key.asc') + ['tests/testdata/pubtest.asc', 'tests/testdata/blocks/revochiio.asc']):
    try:
        key, _ = pgpy.PGPKey.from_file(fn)
    except Exception as e:
        emit(fn, type(e).__name__, str(e))
        continue
    emit(fn, bytes(key))
    for uid in key.userids:
        for sig in uid.__sig__:
            emit([describe(sp) for sp in sig._signature.subpackets], sig.hashdata(uid))
            if sig.signer == key.fingerprint.keyid:
                try:
                    emit(bool(key.verify(uid, sig)))
                except Exception as e:
                    emit(type(e).__name__, str(e))

print(out.hexdigest())
