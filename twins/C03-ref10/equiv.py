"""Equivalence probe for the C03 (encryption round-trip) refactorings.

Run as:  cd <tree> && /venv/bin/python equiv.py
Prints a digest of observable outputs; must be identical on the unchanged and the refactored tree.
Only deterministic quantities are digested (random IVs / salts / paddings never enter the digest,
except for the passphrase path where os.urandom is replaced by a fixed counter stream).
"""
import glob
import hashlib
import os
import sys
import warnings

sys.path.insert(0, os.getcwd())

import pgpy  # noqa: E402
from pgpy import PGPKey, PGPMessage  # noqa: E402
from pgpy.constants import CompressionAlgorithm, HashAlgorithm, PubKeyAlgorithm, SymmetricKeyAlgorithm  # noqa: E402
from pgpy.packet.packets import IntegrityProtectedSKEDataV1, PKESessionKeyV3, SKESessionKeyV4  # noqa: E402
from pgpy.symenc import _decrypt, _encrypt  # noqa: E402

warnings.simplefilter('ignore')

out = []


def rec(tag, *vals):
    out.append(repr((tag,) + tuple(vals)))


def exc(fn, *a, **kw):
    try:
        r = fn(*a, **kw)
    except BaseException as e:  # noqa
        return ('EXC', type(e).__name__, str(e), type(e.__cause__).__name__)
    return ('OK', type(r).__name__, bytes(r) if isinstance(r, (bytes, bytearray)) else repr(r))


def msginfo(m):
    lit = m.message
    return (m.type, m.is_compressed, getattr(m, '_compression', None), m.filename, type(lit).__name__,
            repr(getattr(m._message, 'mtime', None)), repr(getattr(m._message, 'format', None)),
            bytes(lit) if isinstance(lit, (bytes, bytearray)) else lit,
            [(s.signer, s.hash_algorithm, bytes(s.__sig__.__bytearray__())) for s in m.signatures])


# ---- 1. raw CFB helpers ---------------------------------------------------------------------------------------------
pts = [b'', b'a', b'0123456789abcdef', bytes(range(256)) * 5 + b'xyz']
for alg in sorted(SymmetricKeyAlgorithm):
    for pt in pts:
        try:
            ks = alg.key_size // 8
        except NotImplementedError:
            ks = 16
        key = bytes((i * 7 + 3) & 0xff for i in range(ks))
        r = exc(_encrypt, pt, key, alg)
        rec('enc', int(alg), len(pt), r)
        if r[0] == 'OK':
            ct = r[2]
            rec('dec', int(alg), exc(_decrypt, ct, key, alg))
            try:
                iv = bytes(range(alg.block_size // 8))
            except Exception:  # noqa
                continue
            r2 = exc(_encrypt, bytearray(pt), key, alg, iv)
            rec('enc-iv', int(alg), r2)
            rec('dec-iv', int(alg), exc(_decrypt, bytes(r2[2]), key, alg, iv))
        else:
            rec('dec', int(alg), exc(_decrypt, pt, key, alg))
rec('enc-badpt', exc(_encrypt, u'text', b'k' * 16, SymmetricKeyAlgorithm.AES128))
rec('enc-badkey', exc(_encrypt, b'text', b'k' * 5, SymmetricKeyAlgorithm.AES128))
rec('dec-badkey', exc(_decrypt, b'text', b'k' * 5, SymmetricKeyAlgorithm.AES128))

# ---- 2. compression ------------------------------------------------------------------------------------------------
for ca in CompressionAlgorithm:
    for d in (b'', b'hello world' * 50, bytes(range(256))):
        c = ca.compress(d)
        rec('comp', int(ca), bytes(c), bytes(ca.decompress(c)))

# ---- 3. foreign fixtures: passphrase ------------------------------------------------------------------------------
for f in sorted(glob.glob('tests/testdata/messages/message*.pass*.asc')) + ['tests/testdata/message.enc.twofish.asc']:
    m = PGPMessage.from_file(f)
    for pw in ("QwertyUiop", b"QwertyUiop", "TheWrongPassword", ""):
        try:
            d = m.decrypt(pw)
            rec('pass-fixture', os.path.basename(f), pw, msginfo(d))
        except BaseException as e:  # noqa
            rec('pass-fixture', os.path.basename(f), pw, type(e).__name__, str(e))
    for sk in m._sessionkeys:
        if isinstance(sk, SKESessionKeyV4):
            rec('skesk', os.path.basename(f), exc(lambda: repr(sk.decrypt_sk("QwertyUiop"))))
rec('not-encrypted', exc(PGPMessage.from_file('tests/testdata/messages/message.signed.asc').decrypt, "x"))

# ---- 4. foreign fixtures: public key --------------------------------------------------------------------------------
seckeys = {}
for f in sorted(glob.glob('tests/testdata/keys/*.sec.asc')):
    k, _ = PGPKey.from_file(f)
    seckeys[os.path.basename(f)] = k
pubkeys = {}
for f in sorted(glob.glob('tests/testdata/keys/*.pub.asc')):
    k, _ = PGPKey.from_file(f)
    pubkeys[os.path.basename(f)] = k

for f in sorted(glob.glob('tests/testdata/messages/message.rsa*.asc') + glob.glob('tests/testdata/messages/message.ecdh*.asc')):
    m = PGPMessage.from_file(f)
    for kn, k in sorted(seckeys.items()):
        try:
            d = k.decrypt(m)
            rec('pk-fixture', os.path.basename(f), kn, msginfo(d))
        except BaseException as e:  # noqa
            rec('pk-fixture', os.path.basename(f), kn, type(e).__name__, str(e))
        # direct decrypt_sk on every PKESK with every candidate (sub)key
        for pkesk in m._sessionkeys:
            if not isinstance(pkesk, PKESessionKeyV3):
                continue
            for cand in [k] + list(k.subkeys.values()):
                if cand.fingerprint.keyid == pkesk.encrypter:
                    rec('pkesk', os.path.basename(f), kn, exc(lambda: repr(pkesk.decrypt_sk(cand._key))))

# ---- 5. PGPy -> PGPy round trips ------------------------------------------------------------------------------------
bodies = [(u"This message will have been encrypted", {}),
          (b'', {'compression': CompressionAlgorithm.Uncompressed}),
          (bytes(range(256)) * 40, {'compression': CompressionAlgorithm.BZ2, 'file': False}),
          (u"text éè body\n", {'compression': CompressionAlgorithm.ZIP, 'sensitive': True})]
ciphers = [SymmetricKeyAlgorithm.TripleDES, SymmetricKeyAlgorithm.CAST5, SymmetricKeyAlgorithm.Blowfish,
           SymmetricKeyAlgorithm.AES128, SymmetricKeyAlgorithm.AES192, SymmetricKeyAlgorithm.AES256,
           SymmetricKeyAlgorithm.Camellia128, SymmetricKeyAlgorithm.Camellia192, SymmetricKeyAlgorithm.Camellia256]

_real_urandom = os.urandom
_ctr = [0]


def _fake_urandom(n):
    _ctr[0] += 1
    return hashlib.sha256(b'%d' % _ctr[0]).digest()[:n] if n <= 32 else (hashlib.sha256(b'%d' % _ctr[0]).digest() * (n // 32 + 1))[:n]


for body, kw in bodies:
    kw = dict(kw)
    kw.pop('file', None)
    msg = PGPMessage.new(body, **kw)
    # pin the literal packet's modification time so that the serialized message is reproducible
    from datetime import datetime, timezone
    msg._message.mtime = datetime(2020, 1, 2, 3, 4, 5, tzinfo=timezone.utc)
    for ci, cipher in enumerate(ciphers):
        sk = bytes((i * 11 + ci) & 0xff for i in range(cipher.key_size // 8))
        # passphrase (deterministic through the fake urandom -> the ciphertext itself is digested)
        os.urandom = _fake_urandom
        try:
            _ctr[0] = 1000 * ci
            e1 = msg.encrypt("QwertyUiop", sessionkey=sk, cipher=cipher, hash=HashAlgorithm.SHA1)
            e2 = e1.encrypt(b"AsdfGhjkl", sessionkey=sk, cipher=cipher)
            e3 = msg.encrypt("nosk", cipher=cipher)
        finally:
            os.urandom = _real_urandom
        rec('pass-enc', int(cipher), hashlib.sha256(bytes(e2)).hexdigest(), hashlib.sha256(bytes(e3)).hexdigest(), e2.type, e2.is_encrypted)
        for pw in ("QwertyUiop", "AsdfGhjkl", "wrong"):
            try:
                rec('pass-rt', int(cipher), pw, msginfo(e2.decrypt(pw)))
            except BaseException as ex:  # noqa
                rec('pass-rt', int(cipher), pw, type(ex).__name__, str(ex))
        rec('pass-rt3', int(cipher), msginfo(e3.decrypt("nosk")))

    # public keys
    for kn, pub in sorted(pubkeys.items()):
        if pub.key_algorithm == PubKeyAlgorithm.DSA and not pub.subkeys:
            continue
        sec = seckeys.get(kn.replace('.pub.', '.sec.'))
        for ci, cipher in enumerate(ciphers[::3]):
            sk = bytes((i * 13 + ci) & 0xff for i in range(cipher.key_size // 8))
            try:
                em = pub.encrypt(msg, sessionkey=sk, cipher=cipher)
            except BaseException as ex:  # noqa
                rec('pk-enc', kn, int(cipher), type(ex).__name__, str(ex))
                continue
            rec('pk-enc', kn, int(cipher), em.type, sorted(em.encrypters), [type(p).__name__ for p in em._sessionkeys],
                [(p.pkalg, bytes(p.encrypter) if not isinstance(p.encrypter, str) else p.encrypter) for p in em._sessionkeys],
                len(bytes(em.message.ct)) if hasattr(em.message, 'ct') else None)
            # transport through armor
            em2 = PGPMessage.from_blob(str(em))
            try:
                rec('pk-rt', kn, int(cipher), msginfo(sec.decrypt(em2)))
            except BaseException as ex:  # noqa
                rec('pk-rt', kn, int(cipher), type(ex).__name__, str(ex))
        # default (preference-driven) cipher, generated session key
        try:
            em = pub.encrypt(msg)
            rec('pk-rt-default', kn, msginfo(sec.decrypt(em)))
        except BaseException as ex:  # noqa
            rec('pk-rt-default', kn, type(ex).__name__, str(ex))

# multiple recipients: two public keys and a passphrase sharing one session key
msg = PGPMessage.new(u"to many recipients", compression=CompressionAlgorithm.ZLIB)
from datetime import datetime, timezone  # noqa: E402
msg._message.mtime = datetime(2021, 6, 7, 8, 9, 10, tzinfo=timezone.utc)
for ci, cipher in enumerate((SymmetricKeyAlgorithm.AES256, SymmetricKeyAlgorithm.CAST5)):
    sk = bytes((i * 17 + ci) & 0xff for i in range(cipher.key_size // 8))
    em = pubkeys['rsa.1.pub.asc'].encrypt(msg, sessionkey=sk, cipher=cipher)
    em = pubkeys['ecc.1.pub.asc'].encrypt(em, sessionkey=sk, cipher=cipher)
    em = em.encrypt("QwertyUiop", sessionkey=sk, cipher=cipher)
    em = pubkeys['ecc.2.pub.asc'].encrypt(em, sessionkey=sk, cipher=cipher)
    rec('multi', int(cipher), em.type, sorted(em.encrypters), [type(p).__name__ for p in em._sessionkeys])
    em = PGPMessage.from_blob(bytes(em))
    rec('multi-parsed', int(cipher), em.type, sorted(em.encrypters), [type(p).__name__ for p in em._sessionkeys])
    for kn in ('rsa.1.sec.asc', 'ecc.1.sec.asc', 'ecc.2.sec.asc', 'dsa.1.sec.asc'):
        rec('multi-rt', int(cipher), kn, exc(lambda: repr(msginfo(seckeys[kn].decrypt(em)))))
    for pw in ("QwertyUiop", "nope"):
        rec('multi-rt', int(cipher), pw, exc(lambda: repr(msginfo(em.decrypt(pw)))))

# wrong key for a message
m = PGPMessage.from_file('tests/testdata/messages/message.rsa.cast5.asc')
for kn, k in sorted(seckeys.items()):
    rec('wrongkey', kn, exc(lambda: repr(msginfo(k.decrypt(m)))))

# ---- 6. SEIPD directly ----------------------------------------------------------------------------------------------
for ci, cipher in enumerate(ciphers):
    key = bytes((i * 5 + ci) & 0xff for i in range(cipher.key_size // 8))
    for data in (b'', b'x' * 7, bytes(range(200))):
        os.urandom = _fake_urandom
        try:
            _ctr[0] = 77 + ci
            p = IntegrityProtectedSKEDataV1()
            p.encrypt(key, cipher, data)
        finally:
            os.urandom = _real_urandom
        rec('seipd', int(cipher), bytes(p.ct), bytes(p.__bytearray__()), exc(p.decrypt, key, cipher), exc(p.decrypt, bytearray(key), cipher))
        bad = IntegrityProtectedSKEDataV1()
        bad.ct = bytearray(p.ct)
        bad.ct[-1] ^= 1
        rec('seipd-bad', int(cipher), exc(bad.decrypt, key, cipher))
        bad.ct = bytearray(p.ct)
        bad.ct[0] ^= 1
        rec('seipd-bad0', int(cipher), exc(bad.decrypt, key, cipher))

if os.environ.get("EQUIV_DUMP"):
    open(os.environ["EQUIV_DUMP"], "w", encoding="utf-8", errors="backslashreplace").write("\n".join(out))
print(len(out), hashlib.sha256('\n'.join(out).encode('utf-8', 'backslashreplace')).hexdigest())
