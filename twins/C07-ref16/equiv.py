"""Observable-output digest for property C07 (public export / private-operation refusal).

Run as:  cd <tree> && /venv/bin/python equiv.py
Prints one sha256 digest; it must be identical on the unchanged and on the refactored tree.
"""
import glob
import hashlib
import logging
import os
import sys
import warnings

sys.path.insert(0, os.getcwd())
warnings.simplefilter('ignore')

import pgpy  # noqa: E402
from pgpy.constants import PubKeyAlgorithm  # noqa: E402
from pgpy.packet.packets import PubKeyV4, PubSubKeyV4, PrivKeyV4, PrivSubKeyV4  # noqa: E402
from pgpy.types import Armorable  # noqa: E402

out = []


def rec(*items):
    out.append(repr(items))


class _Capture(logging.Handler):
    def emit(self, record):
        rec('log', record.levelname, record.getMessage())


logging.getLogger().addHandler(_Capture())
logging.getLogger().setLevel(logging.DEBUG)


def attempt(label, fn):
    try:
        res = fn()
    except Exception as e:  # the type and the message are what we compare
        rec(label, 'EXC', type(e).__name__, str(e))
    else:
        rec(label, 'OK', type(res).__name__)
    return None


def tags(data):
    # tiny independent packet-tag walker (old and new format headers)
    data = bytes(data)
    res = []
    i = 0
    while i < len(data):
        h = data[i]
        if h & 0x40:
            tag = h & 0x3F
            l0 = data[i + 1]
            if l0 < 192:
                ln, hl = l0, 2
            elif l0 < 224:
                ln, hl = ((l0 - 192) << 8) + data[i + 2] + 192, 3
            else:
                ln, hl = int.from_bytes(data[i + 2:i + 6], 'big'), 6
        else:
            tag = (h & 0x3C) >> 2
            lt = h & 3
            n = (1, 2, 4)[lt]
            ln, hl = int.from_bytes(data[i + 1:i + 1 + n], 'big'), 1 + n
        res.append(tag)
        i += hl + ln
    return res


keyfiles = sorted(glob.glob('tests/testdata/keys/*.asc')) + sorted(glob.glob('tests/testdata/blocks/*key*.asc')) \
    + ['tests/testdata/pubtest.asc', 'tests/testdata/sectest.asc']
msg = pgpy.PGPMessage.new('a fixed message', compression=pgpy.constants.CompressionAlgorithm.Uncompressed)

for fn in keyfiles:
    try:
        key, _ = pgpy.PGPKey.from_file(fn)
    except Exception as e:
        rec(fn, 'LOADEXC', type(e).__name__, str(e))
        continue

    rec(fn, key.is_public, key.is_protected, key.is_unlocked, str(key.fingerprint), key.magic)
    rec(fn, 'self', hashlib.sha256(bytes(key)).hexdigest(), hashlib.sha256(str(key).encode()).hexdigest())

    pub = key.pubkey
    rec(fn, 'pub-identity', pub is key, pub is key.pubkey)
    if pub is None:
        continue
    rec(fn, 'pub', pub.is_public, str(pub.fingerprint), pub.magic, tags(bytes(pub)),
        [(u.name, u.comment, u.email) for u in pub.userids], list(pub.subkeys.keys()),
        [type(sk._key).__name__ for sk in pub.subkeys.values()], type(pub._key).__name__,
        type(pub._key.keymaterial).__name__, pub._key.header.length, len(pub._key.keymaterial))
    rec(fn, 'pubexp', hashlib.sha256(bytes(pub)).hexdigest(), hashlib.sha256(str(pub).encode()).hexdigest())

    # packet-level public halves, fingerprints, copies
    for k in [key] + list(key.subkeys.values()):
        pkt = k._key
        rec(fn, 'pkt', type(pkt).__name__, pkt.public, str(pkt.fingerprint), bytes(pkt.__bytearray__()).hex()[:64],
            type(pkt.keymaterial).__name__)
        if isinstance(pkt, PrivKeyV4):
            pp = pkt.pubkey()
            rec(fn, 'pktpub', type(pp).__name__, type(pp.keymaterial).__name__, pp.public, str(pp.fingerprint),
                hashlib.sha256(bytes(pp.__bytearray__())).hexdigest(), pp.header.length)

    # private operations on public objects must be refused, with the same message
    for who, obj in (('pub', pub), ('key', key)):
        if obj.is_protected and not obj.is_public:
            # locked private key: refusal message too
            pass
        if obj.is_public or obj.is_protected:
            attempt((fn, who, 'sign'), lambda: obj.sign('text'))
            attempt((fn, who, 'certify'), lambda: obj.certify(obj.userids[0]) if obj.userids else obj.certify(obj))
            attempt((fn, who, 'revoke'), lambda: obj.revoke(obj))
            attempt((fn, who, 'decrypt'), lambda: obj.decrypt(msg))
            attempt((fn, who, 'bind'), lambda: obj.bind(obj))
        if obj.is_public:
            attempt((fn, who, 'encrypt'), lambda: obj.encrypt(msg))
        for sk in obj.subkeys.values():
            if sk.is_public:
                attempt((fn, who, 'sk-sign', sk.fingerprint.keyid), lambda: sk.sign('text'))

    if not key.is_public and key.is_protected:
        for pw in ('QwertyUiop',):
            try:
                with key.unlock(pw):
                    rec(fn, 'unlocked', key.is_unlocked)
                    p2 = key.pubkey
                    rec(fn, 'pubexp-unlocked', hashlib.sha256(bytes(p2)).hexdigest(), tags(bytes(p2)))
            except Exception as e:
                rec(fn, 'unlock', type(e).__name__, str(e))

# empty key shell
attempt('empty-sign', lambda: pgpy.PGPKey().sign('x'))

# packet shells for every algorithm id: keymaterial class chosen by the pkalg setter
for cls in (PubKeyV4, PubSubKeyV4, PrivKeyV4, PrivSubKeyV4):
    for alg in list(PubKeyAlgorithm) + [1, 17, 22]:
        pk = cls()
        rec(cls.__name__, 'init', pk.pkalg, type(pk.keymaterial).__name__, pk.public)
        pk.pkalg = alg
        rec(cls.__name__, int(alg), pk.pkalg, type(pk.keymaterial).__name__, pk.public)
        try:
            pk.created = 1400000000
            rec(cls.__name__, int(alg), bytes(pk.__bytearray__()).hex(), str(pk.fingerprint))
        except Exception as e:
            rec(cls.__name__, int(alg), type(e).__name__, str(e))
    for bad in (99, -1):
        try:
            cls().pkalg = bad
        except Exception as e:
            rec(cls.__name__, bad, type(e).__name__, str(e))

# crc24 on fixed inputs of every accepted type
for data in (b'', b'\x00', b'a', b'hello world', bytes(range(256)) * 3, bytearray(b'\xff' * 70), bytearray(),
             list(b'some list'), tuple(b'a tuple'), memoryview(b'memoryview bytes'), iter(b'an iterator'),
             [300, 5, 70000], [256]):
    try:
        rec('crc24', type(data).__name__, Armorable.crc24(data))
    except Exception as e:
        rec('crc24', type(data).__name__, type(e).__name__, str(e))

if os.environ.get('EQUIV_DUMP'):
    open(os.environ['EQUIV_DUMP'], 'w').write('\n'.join(out))
print(hashlib.sha256('\n'.join(out).encode()).hexdigest(), len(out))
