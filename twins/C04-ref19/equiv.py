"""equiv.py (C04 / ref3) - PGPMessage composition core: __iter__ / __copy__ / encrypters / signers and what is
built on them (serialisation, encryption to several recipients, decryption with keys and passphrases).

run as:  cd <tree> && /venv/bin/python equiv.py
prints one digest of all observable outputs; must be identical on the unchanged and on the refactored tree.
os.urandom is replaced by a deterministic stream; literal-data timestamps are pinned.
"""
import copy
import glob
from datetime import datetime, timezone
import hashlib
import itertools
import os
import sys
import warnings

sys.path.insert(0, os.getcwd())

_ctr = itertools.count()


def _fake_urandom(n):
    return hashlib.sha512(b'seed %d' % next(_ctr)).digest()[:n] if n <= 64 else bytes(n)


os.urandom = _fake_urandom

import pgpy  # noqa: E402
from pgpy import PGPKey, PGPMessage  # noqa: E402
from pgpy.constants import CompressionAlgorithm, HashAlgorithm, SymmetricKeyAlgorithm  # noqa: E402

warnings.simplefilter('ignore')
out = []


def rec(tag, fn):
    try:
        r = fn()
        if isinstance(r, (bytes, bytearray)):
            r = type(r).__name__ + ':' + bytes(r).hex()
        out.append('{}: OK {!r}'.format(tag, r))
    except BaseException as e:  # noqa
        out.append('{}: EXC {} {}'.format(tag, type(e).__name__, e))


def pktinfo(pkt):
    if pkt is None or isinstance(pkt, (str, bytes, bytearray)):
        return repr(pkt)
    b = pkt.__bytearray__() if hasattr(pkt, '__bytearray__') else b''
    extra = (getattr(pkt, 'nested', None), getattr(pkt, 'encrypter', None), getattr(pkt, 'signer', None))
    return (type(pkt).__name__, extra, hashlib.sha1(bytes(b)).hexdigest())


def describe(tag, msg):
    rec(tag + ' iter', lambda: [pktinfo(p) for p in msg])
    rec(tag + ' iter2', lambda: [type(p).__name__ for p in iter(msg)])

    def partial():
        it = iter(msg)
        first = next(it, 'END')
        it.close()
        return (type(first).__name__, next(it, 'END'))
    rec(tag + ' partial', partial)
    rec(tag + ' props', lambda: (sorted(msg.encrypters), sorted(msg.signers), sorted(msg.issuers), type(msg.encrypters).__name__,
                                 type(msg.signers).__name__, msg.type, msg.is_encrypted, msg.is_signed, msg.is_compressed,
                                 len(msg.signatures), len(msg._sessionkeys)))
    rec(tag + ' bytes', lambda: bytes(msg))
    rec(tag + ' str', lambda: hashlib.sha1(str(msg).encode()).hexdigest())

    def cp():
        c = copy.copy(msg)
        return (c is not msg, [pktinfo(p) for p in c], bytes(c) == bytes(msg),
                [a is b for a, b in zip(c._sessionkeys, msg._sessionkeys)],
                [a is b for a, b in zip(c._signatures, msg._signatures)],
                sorted(c.encrypters), sorted(c.signers), c._compression)
    rec(tag + ' copy', cp)
    rec(tag + ' reparse', lambda: [pktinfo(p) for p in PGPMessage.from_blob(bytes(msg))])


rsa, _ = PGPKey.from_file('tests/testdata/keys/rsa.1.sec.asc')
dsa, _ = PGPKey.from_file('tests/testdata/keys/dsa.1.sec.asc')
ecc, _ = PGPKey.from_file('tests/testdata/keys/ecc.1.sec.asc')
ecc2, _ = PGPKey.from_file('tests/testdata/keys/ecc.2.sec.asc')
keys = (('rsa', rsa), ('dsa', dsa), ('ecc', ecc), ('ecc2', ecc2))

# 1. empty message and every fixture message (literal, signed, cleartext, compressed, encrypted)
describe('empty', PGPMessage())
for fn in sorted(glob.glob('tests/testdata/messages/*.asc')) + ['tests/testdata/message.enc.twofish.asc']:
    base = os.path.basename(fn)
    res = {}

    def load():
        res['m'] = PGPMessage.from_file(fn)
        return res['m'].type
    rec('load ' + base, load)
    if 'm' not in res:
        continue
    m = res['m']
    describe(base, m)
    if m.is_encrypted:
        for kn, k in keys:
            rec('{} dec {}'.format(base, kn), lambda: [pktinfo(p) for p in k.decrypt(m)])
        for pw in ('QwertyUiop', 'wrong'):
            rec('{} pw {}'.format(base, pw), lambda: [pktinfo(p) for p in m.decrypt(pw)])

# 2. freshly composed messages: signed by 0..2 keys, compressed or not, then encrypted to passphrases
for comp in (CompressionAlgorithm.Uncompressed, CompressionAlgorithm.ZLIB):
    for nsig in (0, 1, 2):
        m = PGPMessage.new('composed message {}'.format(nsig), compression=comp)
        m._message.mtime = 1577836800
        # RSA (PKCS#1 v1.5) signatures with a pinned creation time are deterministic
        for n in range(nsig):
            m |= rsa.sign(m, created=datetime(2020, 1, 1 + n, tzinfo=timezone.utc), hash=(HashAlgorithm.SHA256, HashAlgorithm.SHA512)[n])
        tag = 'new {} {}'.format(int(comp), nsig)
        describe(tag, m)
        sk = bytes(range(32))
        e1 = m.encrypt('first', sessionkey=sk, cipher=SymmetricKeyAlgorithm.AES256)
        e2 = e1.encrypt('second', sessionkey=sk, cipher=SymmetricKeyAlgorithm.AES256)
        describe(tag + ' e1', e1)
        describe(tag + ' e2', e2)
        for pw in ('first', 'second', 'third', ''):
            rec('{} e2 pw {!r}'.format(tag, pw), lambda: bytes(e2.decrypt(pw)))
            rec('{} e2copy pw {!r}'.format(tag, pw), lambda: bytes(copy.copy(e2).decrypt(pw)))
        # order / number of session key packets
        e3 = copy.copy(e2)
        e3._sessionkeys.reverse()
        describe(tag + ' e3', e3)
        rec(tag + ' e3 pw', lambda: bytes(e3.decrypt('second')))
        e4 = copy.copy(e2)
        del e4._sessionkeys[:]
        describe(tag + ' e4', e4)
        rec(tag + ' e4 pw', lambda: bytes(e4.decrypt('second')))

# 3. public-key recipients: structure only (RSA padding is random), plus decryption results
m = PGPMessage.new('to several recipients', compression=CompressionAlgorithm.Uncompressed)
m._message.mtime = 1577836800
sk = bytes(range(16))
enc = rsa.pubkey.encrypt(m, sessionkey=sk, cipher=SymmetricKeyAlgorithm.AES128)
enc = ecc.pubkey.encrypt(enc, sessionkey=sk, cipher=SymmetricKeyAlgorithm.AES128)
enc = enc.encrypt('pw too', sessionkey=sk, cipher=SymmetricKeyAlgorithm.AES128)
rec('multi types', lambda: [type(p).__name__ for p in enc])
rec('multi props', lambda: (sorted(enc.encrypters), sorted(enc.issuers), len(enc._sessionkeys)))
rec('multi copy', lambda: ([type(p).__name__ for p in copy.copy(enc)], sorted(copy.copy(enc).encrypters)))
for kn, k in keys:
    rec('multi dec ' + kn, lambda: bytes(k.decrypt(enc)))
    rec('multi copy dec ' + kn, lambda: bytes(k.decrypt(copy.copy(enc))))
    rec('multi reparse dec ' + kn, lambda: bytes(k.decrypt(PGPMessage.from_blob(bytes(enc)))))
for pw in ('pw too', 'nope'):
    rec('multi pw ' + pw, lambda: bytes(enc.decrypt(pw)))

print(len(out), hashlib.sha256('\n'.join(out).encode('utf-8')).hexdigest())
