"""Equivalence digest for property C14 (key export / import structure).

Run as:  cd <tree> && /venv/bin/python equiv.py
Prints one sha256 digest over everything observable that the anchored code
produces for a fixed set of fixture keys and synthetic blobs.
"""
import sys
import os
sys.path.insert(0, os.getcwd())

import copy
import glob
import hashlib
import warnings

warnings.simplefilter('ignore')

import pgpy
from pgpy import PGPKey, PGPUID, PGPSignature
from pgpy.types import SorteDeque

out = []


def emit(*a):
    out.append(' '.join(str(x) for x in a))


def sigline(s):
    return '{} {} {} emb={} exp={} {}'.format(s.type.name, s.signer, s.created.isoformat(), s.embedded, s.exportable,
                                             hashlib.sha256(bytes(s)).hexdigest()[:16])


def describe(key, tag):
    emit('KEY', tag, key.fingerprint, 'pub' if key.is_public else 'sec', 'primary' if key.is_primary else 'sub')
    emit(' bytes', hashlib.sha256(bytes(key)).hexdigest())
    emit(' str', hashlib.sha256(str(key).encode()).hexdigest())
    for s in key._signatures:
        emit(' ksig', sigline(s))
    for u in key._uids:
        emit(' uid', 'U' if u.is_uid else 'A', hashlib.sha256(bytes(u._uid)).hexdigest()[:16],
             'parent_ok' if u.parent is key else 'parent_bad')
        for s in u._signatures:
            emit('  usig', sigline(s))
    for kid, sk in key._children.items():
        emit(' subkey', kid, sk.fingerprint, 'parent_ok' if sk.parent is key else 'parent_bad',
             hashlib.sha256(bytes(sk)).hexdigest()[:16])
        for s in sk._signatures:
            emit('  sksig', sigline(s), 'parent=' + ('none' if s.parent is None else s.parent.type.name))


def attempt(label, fn):
    try:
        r = fn()
        emit('OK', label, r)
    except BaseException as e:  # noqa
        emit('EXC', label, type(e).__name__, str(e))


files = sorted(glob.glob('tests/testdata/keys/*.asc')
               + glob.glob('tests/testdata/blocks/*key*.asc')
               + glob.glob('tests/testdata/signatures/*.key.asc')
               + ['tests/testdata/pubtest.asc', 'tests/testdata/sectest.asc',
                  'tests/testdata/blocks/expyro.asc', 'tests/testdata/blocks/revochiio.asc'])

loaded = []
for fn in files:
    try:
        key, others = PGPKey.from_file(fn)
    except Exception as e:
        emit('LOADFAIL', fn, type(e).__name__, str(e))
        continue
    loaded.append((fn, key))
    emit('FILE', fn, 'others', sorted((k[0], k[1]) for k in others))
    describe(key, 'orig')
    for k, o in sorted(others.items()):
        describe(o, 'other')

    # round trip: binary and armored
    k2, oth2 = PGPKey.from_blob(bytes(key))
    describe(k2, 'rt-bin')
    emit(' rt-bin-same', bytes(k2) == bytes(key), len(oth2))
    k3, oth3 = PGPKey.from_blob(str(key))
    describe(k3, 'rt-asc')
    emit(' rt-asc-same', bytes(k3) == bytes(key), len(oth3))

    # copy
    kc = copy.copy(key)
    describe(kc, 'copy')
    emit(' copy-same', bytes(kc) == bytes(key), kc is not key,
         all(a is not b for a, b in zip(kc._uids, key._uids)),
         all(a is not b for a, b in zip(kc._signatures, key._signatures)))
    for u in key._uids:
        uc = copy.copy(u)
        emit(' uidcopy', bytes(uc._uid) == bytes(u._uid), [sigline(s) for s in uc._signatures], uc.parent is None)
    for s in list(key._signatures) + [x for u in key._uids for x in u._signatures]:
        sc = copy.copy(s)
        emit(' sigcopy', bytes(sc) == bytes(s), sc is not s, sc._signature is not s._signature)

    if key.is_public is False:
        pub = key.pubkey
        describe(pub, 'pubkey-of')

    # trust packets interleaved, as in a GnuPG keyring, plus an unknown (opaque) packet at the end of each uid
    trust = bytearray(b'\xb0\x02\x00\x06')
    opaque = bytearray(b'\xfd\x03abc')
    blob = bytearray()
    blob += key._key.__bytearray__() + trust
    for s in key._signatures:
        if not s.embedded:
            blob += s.__bytearray__() + trust
    for u in key._uids:
        blob += u._uid.__bytearray__() + trust
        for s in u._signatures:
            blob += s.__bytearray__() + trust
    for sk in key._children.values():
        blob += sk._key.__bytearray__() + trust
        for s in sk._signatures:
            if not s.embedded:
                blob += s.__bytearray__() + trust
    blob += opaque
    kt, otht = PGPKey.from_blob(bytes(blob))
    describe(kt, 'trust')
    emit(' trust-len-others', len(otht))

# concatenated keys
pubs = [k for fn, k in loaded if k.is_public]
secs = [k for fn, k in loaded if not k.is_public]
for name, seq in (('pubs', pubs), ('secs', secs), ('mixed', pubs[:3] + secs[:3] + pubs[3:5]), ('dups', pubs[:2] + pubs[:2])):
    blob = b''.join(bytes(k) for k in seq)
    first, others = PGPKey.from_blob(blob)
    emit('CONCAT', name, len(seq), first.fingerprint, list(others.keys()))
    for kid, o in others.items():
        describe(o, 'concat-' + name)
        emit(' first-is', o is first)

# the exportable filter: attach a non-exportable signature to a key, a uid and a subkey
nesig = PGPSignature.from_file('tests/testdata/blocks/signature.non-exportable.asc')
emit('NESIG', sigline(nesig))
othersig = PGPSignature.from_file('tests/testdata/blocks/rsasignature.asc')
emit('RSASIG', sigline(othersig))
for fn, key in loaded[:6]:
    k = copy.copy(key)
    before = bytes(k)
    k |= copy.copy(nesig)
    emit('NE-key', fn, bytes(k) == before, len(k._signatures), nesig in k)
    for u in k._uids:
        u |= copy.copy(nesig)
        emit('NE-uid', bytes(k) == before, [sigline(s) for s in u._signatures])
    for sk in k._children.values():
        sk |= copy.copy(nesig)
    emit('NE-sub', bytes(k) == before)
    k |= copy.copy(othersig)
    for u in k._uids:
        u |= copy.copy(othersig)
    describe(k, 'with-extra-sigs')
    k4, _ = PGPKey.from_blob(bytes(k))
    describe(k4, 'with-extra-sigs-rt')
    describe(copy.copy(k), 'with-extra-sigs-copy')

# error paths
k0 = copy.copy(loaded[0][1])
attempt('key|int', lambda: k0 | 5)
attempt('key|str', lambda: k0 | 'x')
attempt('key|None', lambda: k0 | None)
attempt('key|primary', lambda: k0 | copy.copy(loaded[1][1]))
attempt('key|keypkt', lambda: k0 | loaded[1][1]._key)
attempt('uid|int', lambda: PGPUID() | 5)
attempt('uid|None', lambda: PGPUID() | None)
u0 = copy.copy(loaded[0][1]._uids[0])
attempt('uid|uidpkt-again', lambda: u0 | loaded[1][1]._uids[0]._uid)
attempt('uid|key', lambda: u0 | k0)
attempt('emptykey-bytes', lambda: bytes(PGPKey()))
attempt('emptykey-copy', lambda: repr(type(copy.copy(PGPKey())._key)))
attempt('emptysig-exportable', lambda: PGPSignature().exportable)
attempt('parse-msg', lambda: PGPKey.from_file('tests/testdata/blocks/message.signed.asc'))
attempt('parse-sig', lambda: PGPKey.from_file('tests/testdata/blocks/rsasignature.asc'))
attempt('parse-empty', lambda: PGPKey.from_blob(b''))
attempt('parse-sigfirst', lambda: PGPKey.from_blob(bytes(othersig) + bytes(loaded[0][1])))
attempt('parse-uidfirst', lambda: PGPKey.from_blob(bytes(loaded[0][1]._uids[0]._uid) + bytes(loaded[0][1])))
attempt('parse-opaque-first', lambda: sorted(PGPKey.from_blob(b'\xfd\x03abc' + bytes(loaded[0][1]))[1].keys()))
attempt('parse-trust-only', lambda: [type(x).__name__ for x in PGPKey.from_blob(b'\xb0\x02\x00\x06')])


# SorteDeque
class Item(object):
    def __init__(self, k, n):
        self.k, self.n = k, n

    def __lt__(self, o):
        return self.k < o.k

    def __le__(self, o):
        return self.k <= o.k

    def __eq__(self, o):
        return self.k == o.k

    def __repr__(self):
        return '{}{}'.format(self.k, self.n)


d = SorteDeque()
items = [Item(k, n) for n, k in enumerate([5, 3, 5, 1, 9, 5, 3, 0, 7, 7, 2])]
for it in items:
    d.insort(it)
    emit('SD insort', list(d))
items[4].k = 4
d.resort(items[4])
emit('SD resort moved', list(d))
items[0].k = 5
d.resort(items[0])
emit('SD resort same', list(d))
d.resort(Item(6, 'new'))
emit('SD resort new', list(d))
items[3].k = 100
d.resort(items[3])
emit('SD resort to end', list(d))
items[7].k = 5
d.resort(items[7])
emit('SD resort among equals', list(d))
d.check()
emit('SD check', list(d))
e = SorteDeque()
e.resort(Item(1, 'a'))
emit('SD empty resort', list(e))
attempt('SD mixed', lambda: SorteDeque([1, 2]).insort('a'))

digest = hashlib.sha256('\n'.join(out).encode('utf-8', 'replace')).hexdigest()
if '-v' in sys.argv:
    print('\n'.join(out))
print(len(out), digest)
