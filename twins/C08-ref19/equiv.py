import copy
import glob
import hashlib
import os
import sys
import warnings
from datetime import datetime, timezone

sys.path.insert(0, os.getcwd())
warnings.simplefilter('ignore')

import pgpy
from pgpy.constants import PubKeyAlgorithm
from pgpy.packet import Packet
from pgpy.packet import packets

out = []


def note(*a):
    out.append(repr(a))


def attempt(label, fn):
    try:
        r = fn()
    except Exception as e:
        note(label, 'exc', type(e).__name__, str(e))
    else:
        note(label, 'ok', r)


FIXED = datetime(2020, 2, 3, 4, 5, 6, tzinfo=timezone.utc)

# 1. algorithm -> material class selection, for every packet flavour and every octet value
for clsname in ('PubKeyV4', 'PrivKeyV4', 'PubSubKeyV4', 'PrivSubKeyV4'):
    cls = getattr(packets, clsname)
    for alg in list(range(0, 32)) + [99, 100, 110, 255, 256, -1]:
        def run():
            pk = cls()
            pk.created = FIXED
            pk.pkalg = alg
            return (repr(pk.pkalg), type(pk.keymaterial).__name__, pk.public, repr(pk.created))
        attempt((clsname, alg), run)
    for alg in PubKeyAlgorithm:
        pk = cls()
        pk.pkalg = alg
        note(clsname, alg.name, type(pk.keymaterial).__name__)
    attempt((clsname, 'str'), lambda: setattr(cls(), 'pkalg', 'RSA'))

for alg in list(range(0, 32)) + [99, 100, 110, 255, 256, -1]:
    def run():
        sig = packets.SignatureV4()
        sig.pubalg = alg
        return (repr(sig.pubalg), type(sig.signature).__name__, bytes(sig.signature.__bytearray__()))
    attempt(('SignatureV4', alg), run)
for alg in PubKeyAlgorithm:
    sig = packets.SignatureV4()
    sig.pubalg = alg
    note('SignatureV4', alg.name, type(sig.signature).__name__)
attempt(('SignatureV4', 'str'), lambda: setattr(packets.SignatureV4(), 'pubalg', 'RSA'))
s1, s2 = packets.SignatureV4(), packets.SignatureV4()
s1.pubalg = 1
s2.pubalg = 1
note('distinct signature objects', s1.signature is not s2.signature)

# 2. all packet fixtures, with trailing data: consumption, re-serialisation, fingerprints, copies
for fn in sorted(glob.glob('tests/testdata/packets/*')):
    data = bytearray(open(fn, 'rb').read()) + b'TRAILING'
    try:
        pkt = Packet(data)
    except Exception as e:
        note(os.path.basename(fn), 'exc', type(e).__name__, str(e))
        continue
    b = bytes(pkt.__bytearray__())
    note(os.path.basename(fn), type(pkt).__name__, bytes(data), hashlib.sha256(b).hexdigest(), len(pkt))
    if isinstance(pkt, packets.PubKeyV4):
        note('key', repr(pkt.created), repr(pkt.pkalg), type(pkt.keymaterial).__name__, str(pkt.fingerprint), pkt.public)
        cp = copy.copy(pkt)
        note('copy', bytes(cp.__bytearray__()) == b, str(cp.fingerprint), type(cp.keymaterial).__name__)
        for created in (FIXED, 0, 1, 2 ** 31 - 1, 2 ** 32 - 1, b'\x01\x02\x03\x04', bytearray(b'\xff\xff\xff\xff')):
            def run():
                cp.created = created
                cp.update_hlen()
                return (repr(cp.created), hashlib.sha256(bytes(cp.__bytearray__())).hexdigest(), str(cp.fingerprint), len(cp))
            attempt(('created', repr(created)), run)
        attempt(('created', 2 ** 32), lambda: (setattr(cp, 'created', 2 ** 32), bytes(cp.__bytearray__()), str(cp.fingerprint)))
        if isinstance(pkt, packets.PrivKeyV4):
            pub = pkt.pubkey()
            note('pubkey()', type(pub).__name__, hashlib.sha256(bytes(pub.__bytearray__())).hexdigest(), str(pub.fingerprint))
        # re-parse what was written
        again = bytearray(b) + b'MORE'
        p2 = Packet(again)
        note('again', bytes(again), bytes(p2.__bytearray__()) == b, str(p2.fingerprint))
    if isinstance(pkt, packets.SignatureV4):
        note('sig', repr(pkt.pubalg), repr(pkt.halg), repr(pkt.sigtype), type(pkt.signature).__name__,
             bytes(pkt.signature.__bytearray__()), bytes(pkt.canonical_bytes()))
        cp = copy.copy(pkt)
        note('copy', bytes(cp.__bytearray__()) == b, type(cp.signature).__name__)

# 3. key packets with unknown algorithms keep opaque material
for tag, name in ((0xc6, 'pub'), (0xc5, 'priv'), (0xce, 'pubsub'), (0xc7, 'privsub')):
    body = b'\x04\x5e\x37\x9c\x12' + b'\x63' + b'\x00\x09\x01\x23opaque-material'
    data = bytearray(bytes([tag, len(body)]) + body + b'NEXT')
    def run():
        pkt = Packet(data)
        return (type(pkt).__name__, type(pkt.keymaterial).__name__, bytes(data), bytes(pkt.__bytearray__()))
    attempt(('unknown alg', name), run)

body = b'\x04\x00\x63\x08\x00\x00\x00\x00\xab\xcd' + b'opaque-signature'
data = bytearray(bytes([0xc2, len(body)]) + body + b'NEXT')
def run():
    pkt = Packet(data)
    return (type(pkt).__name__, type(pkt.signature).__name__, bytes(data), bytes(pkt.__bytearray__()))
attempt('unknown sig alg', run)

# 4. keys from the fixtures
for fn in sorted(glob.glob('tests/testdata/keys/*.asc')):
    key, _ = pgpy.PGPKey.from_file(fn)
    note(fn, hashlib.sha256(bytes(key)).hexdigest(), str(key.fingerprint), [str(sk.fingerprint) for sk in key.subkeys.values()])

if os.environ.get('DUMP'):
    open(os.environ['DUMP'], 'w').write('\n'.join(out))
print(len(out), hashlib.sha256('\n'.join(out).encode()).hexdigest())
