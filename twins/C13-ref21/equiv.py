#!/usr/bin/env python
"""Deterministic probe for property C13 (fresh secret randomness of the right size).

Run as:  cd <tree> && PYTHONHASHSEED=0 /venv/bin/python equiv.py

os.urandom is interposed from the harness with a deterministic counter stream, every draw is
recorded (size and value).  Everything that is printed is a deterministic fact: sizes of the
draws per operation, parsed salts / IVs / prefixes, hashes of serialisations that depend only on
the interposed stream, decrypt verdicts, booleans about freshness, exception class names.
Values that come from OpenSSL's own RNG (RSA padding, ECDH ephemeral keys) are only compared,
never printed.
"""
import hashlib
import os
from datetime import datetime, timezone
import sys
import warnings

sys.path.insert(0, os.getcwd())
warnings.simplefilter('ignore')

import pgpy  # noqa: E402
from pgpy import PGPKey, PGPMessage  # noqa: E402
from pgpy.constants import (CompressionAlgorithm, HashAlgorithm, PubKeyAlgorithm,  # noqa: E402
                            SymmetricKeyAlgorithm, String2KeyType)
from pgpy.packet.packets import (IntegrityProtectedSKEDataV1, PKESessionKeyV3,  # noqa: E402
                                 SKESessionKeyV4)
from pgpy.symenc import _decrypt  # noqa: E402
from pgpy.packet import Packet  # noqa: E402

assert os.path.abspath(pgpy.__file__).startswith(os.getcwd()), pgpy.__file__

# ---------------------------------------------------------------- harness: interposed os.urandom
_real_urandom = os.urandom
DRAWS = []          # (size, value) of every draw since the last reset
ALL_DRAWS = []      # every draw of the whole run
_op = [0]           # number of the operation under observation (bumped by reset())
_ctr = [0]          # number of the block within that operation


def _fake_urandom(n):
    # the stream depends only on (operation number, position inside the operation), so an operation
    # that draws more or less before it is REFUSED cannot shift the values seen by later operations
    out = b''
    while len(out) < n:
        _ctr[0] += 1
        out += hashlib.sha256(b'C13-probe-%d-%d' % (_op[0], _ctr[0])).digest()
    out = out[:n]
    DRAWS.append((n, out))
    ALL_DRAWS.append((n, out))
    return out


os.urandom = _fake_urandom


def reset():
    _op[0] += 1
    _ctr[0] = 0
    del DRAWS[:]


def quiet(fn, *a, **kw):
    """run a call that is expected to be refused; whatever it drew before being refused is not an
    operation of the property and is left out of every count.  Returns the exception class name."""
    reset()
    mark = len(ALL_DRAWS)
    try:
        fn(*a, **kw)
        r = 'no exception'
    except Exception as e:
        r = type(e).__name__
    del ALL_DRAWS[mark:]
    reset()
    return r


def sizes():
    return [n for n, _ in DRAWS]


def h(b):
    return hashlib.sha256(bytes(b)).hexdigest()[:24]


def hx(b):
    return bytes(b).hex()


def P(*a):
    print(*a)
    sys.stdout.flush()


def exc(fn, *a, **kw):
    try:
        fn(*a, **kw)
    except BaseException as e:   # noqa
        return type(e).__name__
    return 'no exception'


def load(path):
    k, _ = PGPKey.from_file(path)
    return k


ALL_CIPHERS = list(SymmetricKeyAlgorithm)
GOOD = []
for c in ALL_CIPHERS:
    try:
        if c.is_supported and not c.is_insecure:
            GOOD.append(c)
    except NotImplementedError:
        pass

# ---------------------------------------------------------------- 1. gen_iv / gen_key
P('== 1. SymmetricKeyAlgorithm.gen_iv / gen_key')
for c in ALL_CIPHERS:
    line = [c.name]
    for what in ('gen_iv', 'gen_key'):
        reset()
        try:
            v1 = getattr(c, what)()
            v2 = getattr(c, what)()
            size_attr = c.block_size if what == 'gen_iv' else c.key_size
            line.append('%s: type=%s len=%d expect=%d draws=%r fresh=%s v=%s' % (
                what, type(v1).__name__, len(v1), size_attr // 8, sizes(), v1 != v2, hx(v1)))
        except BaseException as e:  # noqa
            line.append('%s: %s draws=%r' % (what, type(e).__name__, sizes()))
    P('  ', ' | '.join(line))

# ---------------------------------------------------------------- 2. passphrase encryption
P('== 2. PGPMessage.encrypt (passphrase)')
for hname in ('SHA1', 'SHA256', 'SHA512'):
    getattr(HashAlgorithm, hname)._tuned_count = 0    # fast S2K for the broad sweep

def newmsg(*a, **kw):
    m = PGPMessage.new(*a, **kw)
    m._message.mtime = datetime(2020, 1, 2, 3, 4, 5, tzinfo=timezone.utc)   # no wall clock in the transcript
    return m


MESSAGES = [
    ('short', newmsg(b'hello world', compression=CompressionAlgorithm.Uncompressed)),
    ('empty', newmsg(b'', compression=CompressionAlgorithm.Uncompressed)),
    ('long-zip', newmsg(b'A' * 5000, compression=CompressionAlgorithm.ZIP)),
    ('text', newmsg(u'pr\xfcfung text')),
]


def inspect_pass(enc, passphrase, plain, label):
    """parse the exported message again and report what an observer sees"""
    raw = bytes(enc)
    back = PGPMessage.from_blob(raw)
    skesks = [p for p in back._sessionkeys if isinstance(p, SKESessionKeyV4)]
    out = []
    for sk in skesks:
        symalg, key = sk.decrypt_sk(passphrase)
        out.append('salt=%s specifier=%s halg=%s encalg=%s count=%d ctlen=%d recovered=%s/%d' % (
            hx(sk.s2k.salt), String2KeyType(sk.s2k.specifier).name, sk.s2k.halg.name, sk.s2k.encalg.name,
            sk.s2k.count, len(sk.ct), symalg.name, len(key)))
    dec = back.decrypt(passphrase)
    ok = dec.message == plain.message and dec.is_encrypted is False
    return raw, skesks, out, ok


for c in ALL_CIPHERS:
    for mname, msg in MESSAGES[:2] if c not in (SymmetricKeyAlgorithm.AES256, SymmetricKeyAlgorithm.CAST5) else MESSAGES:
        reset()
        try:
            e1 = msg.encrypt('correct horse', cipher=c, hash=HashAlgorithm.SHA256)
        except BaseException as e:   # noqa
            P('  ', c.name, mname, 'raises', type(e).__name__, 'draws', sizes())
            continue
        d1 = list(DRAWS)
        reset()
        e2 = msg.encrypt('correct horse', cipher=c, hash=HashAlgorithm.SHA256)
        d2 = list(DRAWS)
        raw1, sk1, rep1, ok1 = inspect_pass(e1, 'correct horse', msg, 'e1')
        raw2, sk2, rep2, ok2 = inspect_pass(e2, 'correct horse', msg, 'e2')
        # which draw is what: identified by VALUE against what the independent decryptor recovers
        _, key1 = sk1[0].decrypt_sk('correct horse')
        _, key2 = sk2[0].decrypt_sk('correct horse')
        skd = [p for p in PGPMessage.from_blob(raw1) if isinstance(p, IntegrityProtectedSKEDataV1)]
        pt = _decrypt(bytes(e1._message.ct), key1, c)
        bs = c.block_size // 8
        prefix1 = bytes(pt[:bs])
        roles = []
        for n, v in d1:
            r = []
            if v == key1:
                r.append('sessionkey')
            if v == bytes(sk1[0].s2k.salt):
                r.append('salt')
            if v == prefix1:
                r.append('prefix')
            roles.append('%d:%s' % (n, '+'.join(r) or '?'))
        P('  ', c.name, mname, 'draws', roles, 'keylen_ok', len(key1) == c.key_size // 8,
          'prefix_repeat_ok', bytes(pt[bs:bs + 2]) == prefix1[-2:])
        P('      e1', h(raw1), rep1, 'roundtrip', ok1)
        P('      e2', h(raw2), rep2, 'roundtrip', ok2)
        P('      fresh: key', key1 != key2, 'salt', sk1[0].s2k.salt != sk2[0].s2k.salt,
          'all draws distinct', len({v for _, v in d1 + d2}) == len(d1 + d2),
          'ct differs', raw1 != raw2,
          'sk in clear', key1 in raw1 or key2 in raw2,
          'wrong pass', exc(PGPMessage.from_blob(raw1).decrypt, 'wrong horse'))

P('-- hash algorithms for the S2K (default iteration count restored)')
for hname in ('SHA1', 'SHA256', 'SHA512'):
    getattr(HashAlgorithm, hname)._tuned_count = 255
for halg in (HashAlgorithm.SHA1, HashAlgorithm.SHA256, HashAlgorithm.SHA512):
    reset()
    e = MESSAGES[0][1].encrypt(b'bytes passphrase', hash=halg)
    raw, sks, rep, ok = inspect_pass(e, b'bytes passphrase', MESSAGES[0][1], halg.name)
    P('  ', halg.name, 'default cipher', 'draws', sizes(), h(raw), rep, 'roundtrip', ok)
for hname in ('SHA1', 'SHA256', 'SHA512'):
    getattr(HashAlgorithm, hname)._tuned_count = 0

P('-- caller supplied session key')
for c in (SymmetricKeyAlgorithm.AES128, SymmetricKeyAlgorithm.AES256, SymmetricKeyAlgorithm.CAST5,
          SymmetricKeyAlgorithm.Camellia192, SymmetricKeyAlgorithm.TripleDES):
    supplied = bytes(range(1, c.key_size // 8 + 1))
    reset()
    e = MESSAGES[0][1].encrypt('pw', sessionkey=supplied, cipher=c)
    raw, sks, rep, ok = inspect_pass(e, 'pw', MESSAGES[0][1], 'supplied')
    _, key = sks[0].decrypt_sk('pw')
    P('  ', c.name, 'draws', sizes(), h(raw), rep, 'roundtrip', ok, 'recovered==supplied', key == supplied)

P('-- two passphrases sharing one session key (encrypt of an encrypted message)')
sk = bytes(range(32))
reset()
e = MESSAGES[0][1].encrypt('first', sessionkey=sk).encrypt('second', sessionkey=sk)
raw = bytes(e)
back = PGPMessage.from_blob(raw)
P('  ', 'draws', sizes(), h(raw), 'skesk', len(back._sessionkeys),
  'salts', [hx(p.s2k.salt) for p in back._sessionkeys],
  'dec first', repr(back.decrypt('first').message), 'dec second', repr(PGPMessage.from_blob(raw).decrypt('second').message))

P('-- rejected inputs')
P('  ', 'int sessionkey:', quiet(MESSAGES[0][1].encrypt, 'pw', sessionkey=0xabdf1234abdf1234, cipher=SymmetricKeyAlgorithm.AES128))
P('  ', 'IDEA:', exc(MESSAGES[0][1].encrypt, 'pw', cipher=SymmetricKeyAlgorithm.IDEA))
P('  ', 'Twofish:', exc(MESSAGES[0][1].encrypt, 'pw', cipher=SymmetricKeyAlgorithm.Twofish256))
P('  ', 'Plaintext:', exc(MESSAGES[0][1].encrypt, 'pw', cipher=SymmetricKeyAlgorithm.Plaintext))
P('  ', 'decrypt unencrypted:', exc(MESSAGES[0][1].decrypt, 'pw'))

# ---------------------------------------------------------------- 3. direct packet level
P('== 3. packet level: SKESessionKeyV4.encrypt_sk / IntegrityProtectedSKEDataV1.encrypt')
for c in GOOD:
    key = bytes(range(100, 100 + c.key_size // 8))
    for data in (b'', b'x', b'0123456789abcdef' * 7):
        reset()
        skd = IntegrityProtectedSKEDataV1()
        skd.encrypt(key, c, data)
        d = list(DRAWS)
        pt = bytes(skd.decrypt(key, c))
        raw = bytes(skd)
        skd2 = IntegrityProtectedSKEDataV1()
        skd2.encrypt(key, c, data)
        P('  ', 'SEIPD', c.name, len(data), 'draws', sizes()[:1], 'hdrlen', skd.header.length, 'ctlen', len(skd.ct), h(raw),
          'pt_ok', pt[:len(data)] == data, 'tail', hx(pt[len(data):len(data) + 2]), 'fresh', bytes(skd2.ct) != bytes(skd.ct),
          'prefix==draw', bytes(_decrypt(bytes(skd.ct), key, c)[:c.block_size // 8]) == d[0][1])
    reset()
    p = SKESessionKeyV4()
    p.s2k.usage = 255
    p.s2k.specifier = 3
    p.s2k.halg = HashAlgorithm.SHA1
    p.s2k.encalg = c
    p.s2k.count = 96
    p.encrypt_sk('pass', key)
    salt1 = bytes(p.s2k.salt)
    raw = bytes(p)
    q = Packet(bytearray(raw))
    alg, got = q.decrypt_sk('pass')
    p.encrypt_sk('pass', key)
    P('  ', 'SKESK', c.name, 'draws', sizes(), 'salt', hx(salt1), type(p.s2k.salt).__name__, 'hdrlen', q.header.length, h(raw),
      'recovered', alg.name, got == key, 'resalt fresh', bytes(p.s2k.salt) != salt1, 'returns', p.encrypt_sk('pass', key))

# ---------------------------------------------------------------- 4. public key encryption
P('== 4. PGPKey.encrypt')
KEYS = [
    ('rsa.1', 'tests/testdata/keys/rsa.1.pub.asc', 'tests/testdata/keys/rsa.1.sec.asc'),
    ('ecc.1(P-256)', 'tests/testdata/keys/ecc.1.pub.asc', 'tests/testdata/keys/ecc.1.sec.asc'),
    ('ecc.2(cv25519)', 'tests/testdata/keys/ecc.2.pub.asc', 'tests/testdata/keys/ecc.2.sec.asc'),
    ('mixed.1', 'tests/testdata/keys/mixed.1.pub.asc', 'tests/testdata/keys/mixed.1.sec.asc'),
    ('targette', 'tests/testdata/keys/targette.pub.rsa.asc', 'tests/testdata/keys/targette.sec.rsa.asc'),
]


def enc_targets(pub):
    """the (sub)keys that can encrypt"""
    out = []
    for k in [pub] + list(pub.subkeys.values()):
        if k.key_algorithm in (PubKeyAlgorithm.RSAEncryptOrSign, PubKeyAlgorithm.ECDH):
            out.append(k)
    return out


def sec_for(sec, pubk):
    for k in [sec] + list(sec.subkeys.values()):
        if k.fingerprint == pubk.fingerprint:
            return k


msg = MESSAGES[0][1]
for kname, pubpath, secpath in KEYS:
    pub, sec = load(pubpath), load(secpath)
    for target in enc_targets(pub)[-1:]:
        seck = sec_for(sec, target)
        for c in ALL_CIPHERS:
            reset()
            try:
                e1 = target.encrypt(msg, cipher=c)
            except BaseException as e:  # noqa
                P('  ', kname, target.key_algorithm.name, c.name, 'raises', type(e).__name__, 'draws', sizes())
                continue
            d1 = list(DRAWS)
            reset()
            e2 = target.encrypt(msg, cipher=c)
            d2 = list(DRAWS)
            res = []
            keys = []
            eph = []
            for e in (e1, e2):
                raw = bytes(e)
                back = PGPMessage.from_blob(raw)
                pk = [p for p in back._sessionkeys if isinstance(p, PKESessionKeyV3)][0]
                alg, key = pk.decrypt_sk(seck._key)
                keys.append(bytes(key))
                if pk.pkalg == PubKeyAlgorithm.ECDH:
                    eph.append(bytes(pk.ct.p.to_mpibytes()))
                else:
                    eph.append(bytes(pk.ct.me_mod_n.to_mpibytes()))
                dec = seck.decrypt(back)
                res.append((str(pk.encrypter), PubKeyAlgorithm(pk.pkalg).name, alg.name, len(key),
                            dec.message == msg.message, bytes(key) in raw))
            roles = ['%d:%s' % (n, 'sessionkey' if v == keys[0] else 'other') for n, v in d1]
            P('  ', kname, target.key_algorithm.name, c.name, 'draws', roles, [n for n, _ in d2],
              'keylen_ok', len(keys[0]) == c.key_size // 8, res,
              'fresh key', keys[0] != keys[1], 'fresh pk ct / ephemeral', eph[0] != eph[1])

P('-- supplied session key, user selection, subkey vs primary')
pub, sec = load('tests/testdata/keys/rsa.1.pub.asc'), load('tests/testdata/keys/rsa.1.sec.asc')
supplied = bytes(range(7, 7 + 32))
for target in [pub] + list(pub.subkeys.values()):
    reset()
    r = exc(target.encrypt, msg, sessionkey=supplied, cipher=SymmetricKeyAlgorithm.AES256)
    if r != 'no exception':
        P('  ', 'rsa.1', target.fingerprint.keyid, 'raises', r, sizes())
        continue
    e = target.encrypt(msg, sessionkey=supplied, cipher=SymmetricKeyAlgorithm.AES256, user='RSA von TestKey')
    back = PGPMessage.from_blob(bytes(e))
    pk = back._sessionkeys[0]
    used = [k for k in [sec] + list(sec.subkeys.values()) if k.fingerprint.keyid == str(pk.encrypter)][0]
    alg, key = pk.decrypt_sk(used._key)
    P('  ', 'rsa.1', 'asked', target.fingerprint.keyid, 'used', used.fingerprint.keyid, 'draws', sizes(),
      'recovered==supplied', bytes(key) == supplied, alg.name, 'dec', repr(sec.decrypt(back).message))
P('  ', 'unknown user:', exc(pub.encrypt, msg, user='nobody at all'))
print('   default cipher from prefs:', end=' ')
reset()
e = pub.encrypt(msg)
pk = PGPMessage.from_blob(bytes(e))._sessionkeys[0]
used = [k for k in [sec] + list(sec.subkeys.values()) if k.fingerprint.keyid == str(pk.encrypter)][0]
alg, key = pk.decrypt_sk(used._key)
P(alg.name, len(key), sizes())

P('-- multiple recipients sharing one session key')
sk = SymmetricKeyAlgorithm.AES256.gen_key()
reset()
ecc_pub, ecc_sec = load('tests/testdata/keys/ecc.2.pub.asc'), load('tests/testdata/keys/ecc.2.sec.asc')
ecc_t = enc_targets(ecc_pub)[-1]
e = ecc_t.encrypt(pub.encrypt(msg, cipher=SymmetricKeyAlgorithm.AES256, sessionkey=sk),
                  cipher=SymmetricKeyAlgorithm.AES256, sessionkey=sk)
back = PGPMessage.from_blob(bytes(e))
P('  ', 'pkesks', sorted(str(p.encrypter) for p in back._sessionkeys), 'draws', sizes(),
  'rsa dec', repr(sec.decrypt(back).message),
  'ecdh dec', repr(sec_for(ecc_sec, ecc_t).decrypt(PGPMessage.from_blob(bytes(e))).message),
  'sk in clear', sk in bytes(e))

P('-- keys that cannot encrypt')
dsa = load('tests/testdata/keys/dsa.1.pub.asc')
for k in [dsa] + list(dsa.subkeys.values()):
    reset()
    P('  ', 'dsa.1', k.key_algorithm.name, exc(k.encrypt, msg, cipher=SymmetricKeyAlgorithm.AES128), 'draws', sizes())

# ---------------------------------------------------------------- 5. key protection
P('== 5. PGPKey.protect / PrivKey.encrypt_keyblob')


def s2k_report(k):
    out = []
    for sk in [k] + list(k.subkeys.values()):
        s = sk._key.keymaterial.s2k
        out.append('%s usage=%d enc=%s spec=%s halg=%s count=%d iv=%s salt=%s enc=%s chk=%s hlen=%d' % (
            sk.key_algorithm.name, s.usage, s.encalg.name, String2KeyType(s.specifier).name, s.halg.name, s.count,
            hx(s.iv), hx(s.salt), h(sk._key.keymaterial.encbytes), hx(sk._key.keymaterial.chksum), sk._key.header.length))
    return out


SECKEYS = ['tests/testdata/keys/rsa.1.sec.asc', 'tests/testdata/keys/ecc.1.sec.asc', 'tests/testdata/keys/ecc.2.sec.asc',
           'tests/testdata/keys/dsa.1.sec.asc', 'tests/testdata/keys/mixed.1.sec.asc', 'tests/testdata/keys/targette.sec.rsa.asc']
for path in SECKEYS:
    name = os.path.basename(path)
    ciphers = ALL_CIPHERS if 'ecc.2' in path or 'targette' in path else [SymmetricKeyAlgorithm.AES256, SymmetricKeyAlgorithm.CAST5]
    for c in ciphers:
        for halg in ((HashAlgorithm.SHA256, HashAlgorithm.SHA1, HashAlgorithm.SHA512) if c is SymmetricKeyAlgorithm.AES256
                     else (HashAlgorithm.SHA256,)):
            k = load(path)
            nkeys = 1 + len(k.subkeys)
            before = bytes(k)
            reset()
            r = exc(k.protect, 'Pa55phrase', c, halg)
            d1 = list(DRAWS)
            if r != 'no exception':
                P('  ', name, c.name, halg.name, 'raises', r, 'draws', sizes())
                continue
            rep1 = s2k_report(k)
            raw1 = bytes(k)
            # roles by value
            ivs = [bytes(sk._key.keymaterial.s2k.iv) for sk in [k] + list(k.subkeys.values())]
            salts = [bytes(sk._key.keymaterial.s2k.salt) for sk in [k] + list(k.subkeys.values())]
            roles = ['%d:%s' % (n, 'iv' if v in ivs else 'salt' if v in salts else '?') for n, v in d1]
            # reload the exported key and unlock it
            k2, _ = PGPKey.from_blob(raw1)
            with k2.unlock('Pa55phrase'):
                unlocked = k2.is_unlocked
                sig_ok = None
                if k2.key_algorithm in (PubKeyAlgorithm.RSAEncryptOrSign, PubKeyAlgorithm.DSA, PubKeyAlgorithm.ECDSA,
                                        PubKeyAlgorithm.EdDSA):
                    sig = k2.sign('probe')
                    sig_ok = bool(k2.pubkey.verify('probe', sig))
            wrong = None
            try:
                with k2.unlock('wrong'):
                    wrong = 'unlocked'
            except BaseException as e:  # noqa
                wrong = type(e).__name__
            # second protection of a fresh copy
            k3 = load(path)
            reset()
            k3.protect('Pa55phrase', c, halg)
            d2 = list(DRAWS)
            P('  ', name, c.name, halg.name, 'draws', roles, 'nkeys', nkeys, 'protected', k.is_protected, 'unlocked', k.is_unlocked,
              'reload-unlock', unlocked, 'sig', sig_ok, 'wrong', wrong,
              'all distinct', len({v for _, v in d1 + d2}) == len(d1 + d2), 'differs', bytes(k3) != raw1,
              'iv sizes ok', all(len(v) == c.block_size // 8 for v in ivs), 'salt sizes ok', all(len(v) == 8 for v in salts))
            for line in rep1:
                P('      ', line)
            P('      ', 'export', h(raw1))

P('-- re-protecting an unlocked key draws again')
k = load('tests/testdata/keys/ecc.1.sec.asc')
k.protect('one', SymmetricKeyAlgorithm.AES128, HashAlgorithm.SHA256)
s1 = s2k_report(k)
with k.unlock('one'):
    reset()
    k.protect('two', SymmetricKeyAlgorithm.AES256, HashAlgorithm.SHA512)
    P('  ', 'draws', sizes())
s2 = s2k_report(k)
for a, b in zip(s1, s2):
    P('      ', a)
    P('      ', b)
P('  ', 'old pass', exc(k.unlock('one').__enter__), 'new pass', exc(k.unlock('two').__enter__))

P('-- protect on public / locked keys')
reset()
pubk = load('tests/testdata/keys/rsa.1.pub.asc')
with warnings.catch_warnings(record=True) as w:
    warnings.simplefilter('always')
    pubk.protect('x', SymmetricKeyAlgorithm.AES256, HashAlgorithm.SHA256)
    P('  ', 'public:', [str(x.message) for x in w], 'draws', sizes(), 'protected', pubk.is_protected)
locked = load('tests/testdata/keys/rsa.1.enc.asc')
before = bytes(locked)
with warnings.catch_warnings(record=True) as w:
    warnings.simplefilter('always')
    locked.protect('x', SymmetricKeyAlgorithm.AES256, HashAlgorithm.SHA256)
    P('  ', 'locked:', [str(x.message) for x in w], 'draws', sizes(), 'unchanged', bytes(locked) == before)

# ---------------------------------------------------------------- 5b. caller supplied keys of other types / rejected arguments
P('== 5b. supplied session keys of every accepted type, rejected arguments')


rsa_pub, rsa_sec = load('tests/testdata/keys/rsa.1.pub.asc'), load('tests/testdata/keys/rsa.1.sec.asc')
for c, n in ((SymmetricKeyAlgorithm.AES256, 32), (SymmetricKeyAlgorithm.AES128, 16), (SymmetricKeyAlgorithm.CAST5, 16),
             (SymmetricKeyAlgorithm.CAST5, 10), (SymmetricKeyAlgorithm.Blowfish, 7), (SymmetricKeyAlgorithm.AES256, 16),
             (SymmetricKeyAlgorithm.AES128, 15), (SymmetricKeyAlgorithm.TripleDES, 24), (SymmetricKeyAlgorithm.TripleDES, 16)):
    raw_key = bytes(range(33, 33 + n))
    for kind, conv in (('bytes', bytes), ('bytearray', bytearray), ('memoryview', memoryview)):
        for how in ('passphrase', 'pubkey'):
            reset()
            try:
                if how == 'passphrase':
                    e = msg.encrypt('pw', sessionkey=conv(raw_key), cipher=c)
                    back = PGPMessage.from_blob(bytes(e))
                    alg, key = back._sessionkeys[0].decrypt_sk('pw')
                    dec = back.decrypt('pw')
                    extra_out = h(bytes(e))
                else:
                    e = rsa_pub.encrypt(msg, sessionkey=conv(raw_key), cipher=c)
                    back = PGPMessage.from_blob(bytes(e))
                    pk = back._sessionkeys[0]
                    used = [k for k in [rsa_sec] + list(rsa_sec.subkeys.values()) if k.fingerprint.keyid == str(pk.encrypter)][0]
                    alg, key = pk.decrypt_sk(used._key)
                    dec = rsa_sec.decrypt(back)
                    extra_out = '-'
                P('  ', c.name, n, kind, how, 'draws', sizes(), 'recovered==supplied', bytes(key) == raw_key, alg.name,
                  'dec', repr(dec.message), 'sk in clear', raw_key in bytes(e), extra_out)
            except Exception as ex:
                P('  ', c.name, n, kind, how, 'raises', type(ex).__name__, 'draws', sizes())

for bad in (0xabcdef, 1.5, [1, 2, 3], u'sixteen byte key', object()):
    for how in ('passphrase', 'pubkey'):
        if how == 'passphrase':
            r = quiet(msg.encrypt, 'pw', sessionkey=bad, cipher=SymmetricKeyAlgorithm.AES128)
        else:
            r = quiet(rsa_pub.encrypt, msg, sessionkey=bad, cipher=SymmetricKeyAlgorithm.AES128)
        P('  ', 'sessionkey of type', type(bad).__name__, how, r)

for bad in (u'text', b'raw bytes', 5, None, bytearray(b'x')):
    P('  ', 'encrypt to key: message of type', type(bad).__name__, 'rejected', quiet(rsa_pub.encrypt, bad) != 'no exception')

for a, hh in ((9, HashAlgorithm.SHA256), ('AES256', HashAlgorithm.SHA256), (None, HashAlgorithm.SHA256),
              (SymmetricKeyAlgorithm.AES256, 8), (SymmetricKeyAlgorithm.AES256, 'SHA256'), (SymmetricKeyAlgorithm.AES256, None)):
    k = load('tests/testdata/keys/ecc.2.sec.asc')
    P('  ', 'protect with', type(a).__name__, type(hh).__name__, 'rejected', quiet(k.protect, 'pw', a, hh) != 'no exception')

# ---------------------------------------------------------------- 6. whole run
P('== 6. whole run')
vals = [v for n, v in ALL_DRAWS]
P('  ', 'draws', len(vals), 'distinct', len(set(vals)), 'size histogram',
  sorted((n, sum(1 for m, _ in ALL_DRAWS if m == n)) for n in {m for m, _ in ALL_DRAWS}))
P('done')
