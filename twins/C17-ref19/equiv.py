import hashlib
import os
import sys
import warnings

sys.path.insert(0, os.getcwd())

import pgpy
from pgpy import constants
from pgpy import PGPKey, PGPSignature
from pgpy.constants import (EllipticCurveOID, HashAlgorithm, PubKeyAlgorithm, SecurityIssues,
                            MINIMUM_ASYMMETRIC_KEY_LENGTHS, SAFE_CURVES)

out = []

# the table: same keys in the same order, same values, same shared set object
for k, v in MINIMUM_ASYMMETRIC_KEY_LENGTHS.items():
    out.append('tbl %r %s %r %r' % (k, type(v).__name__, v is SAFE_CURVES,
                                    v if isinstance(v, int) else sorted(c.name for c in v)))
out.append('tbltype %s %d' % (type(MINIMUM_ASYMMETRIC_KEY_LENGTHS).__name__, len(MINIMUM_ASYMMETRIC_KEY_LENGTHS)))
out.append('public %r' % sorted(n for n in vars(constants) if not n.startswith('_')))
out.append('all %r' % sorted(constants.__all__))

# validate_params over every algorithm and a range of sizes / curves
sizes = [0, 1, 512, 1024, 2047, 2048, 2049, 3072, 4096] + list(EllipticCurveOID)
for alg in PubKeyAlgorithm:
    for size in sizes:
        try:
            r = alg.validate_params(size)
            out.append('vp %s %r -> %r %s' % (alg.name, size, int(r), type(r).__name__))
        except Exception as e:
            out.append('vp %s %r EXC %s %s' % (alg.name, size, type(e).__name__, e))

# hash functions: verdict, identity of the returned member, and the warning raised
for h in HashAlgorithm:
    with warnings.catch_warnings(record=True) as w:
        warnings.simplefilter('always')
        r = h.is_considered_secure
    out.append('hash %s -> %r %r same=%r warns=%r' % (
        h.name, int(r), r, r is SecurityIssues(int(r)),
        [(x.category.__name__, str(x.message), os.path.basename(x.filename)) for x in w]))

# the disqualifying predicate over the whole bit-set
bits = ''.join('1' if SecurityIssues(v).causes_signature_verify_to_fail else '0' for v in range(1 << 11))
out.append('fail ' + hashlib.sha256(bits.encode()).hexdigest())
out.append('failtype %s' % type(SecurityIssues.Expired.causes_signature_verify_to_fail).__name__)

# end to end on fixture keys
warnings.simplefilter('ignore')


def sigdig(sig):
    return hashlib.sha256(bytes(sig)).hexdigest()[:16]


for p in ('tests/testdata/keys/rsa.1.pub.asc', 'tests/testdata/keys/dsa.1.pub.asc', 'tests/testdata/keys/ecc.1.pub.asc',
          'tests/testdata/keys/ecc.2.pub.asc', 'tests/testdata/keys/mixed.1.pub.asc', 'tests/testdata/blocks/expyro.asc',
          'tests/testdata/blocks/revochiio.asc', 'tests/testdata/blocks/eccpubkey.asc',
          'tests/testdata/signatures/debian-sid.key.asc', 'tests/testdata/signatures/ubuntu-precise.key.asc'):
    key, _ = PGPKey.from_file(p)
    out.append('%s prim=%r sound=%r insecure=%r' % (p, int(key.check_primitives()), int(key.check_soundness()),
                                                    int(key.is_considered_insecure())))
    for kid, sk in key.subkeys.items():
        out.append('%s/%s prim=%r sound=%r' % (p, kid, int(sk.check_primitives()), int(sk.check_soundness())))
    sv = key.verify(key)
    out.append('%s bool=%r good=%r bad=%r' % (
        p, bool(sv),
        [(int(s.issues), sigdig(s.signature)) for s in sv.good_signatures],
        [(int(s.issues), sigdig(s.signature)) for s in sv.bad_signatures]))
    for sig in key.__sig__ + [s for u in key.userids for s in u.__sig__]:
        out.append('%s sig %s prim=%r' % (p, sigdig(sig), int(sig.check_primitives())))

text = '\n'.join(out)
print(len(out), hashlib.sha256(text.encode('utf-8')).hexdigest())
