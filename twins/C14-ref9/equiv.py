# Equivalence probe for property C14 (key export / import structure).
# Run as:  cd <tree> && /venv/bin/python equiv.py
# Prints a digest of observable outputs; must be identical on the unchanged and the refactored tree.
import sys, os
sys.path.insert(0, os.getcwd())

import copy
import glob
import hashlib
import warnings

import pgpy
from pgpy import PGPKey, PGPSignature, PGPUID
from pgpy.types import SorteDeque

TD = os.path.join(os.getcwd(), 'tests', 'testdata')
out = []


def rec(label, value):
    out.append((label, value))


def hx(b):
    return hashlib.sha256(bytes(b)).hexdigest()[:16]


def describe(key):
    d = {
        'fp': str(key.fingerprint),
        'pub': key.is_public,
        'bytes': hx(bytes(key)),
        'len': len(bytes(key)),
        'str': hx(str(key).encode('latin-1')),
        'sigs': [(hx(bytes(s)), s.exportable, s.embedded, int(s.type)) for s in key._signatures],
        'uids': [(hx(bytes(u._uid)), u.is_uid, [(hx(bytes(s)), s.exportable) for s in u._signatures])
                 for u in key._uids],
        'subs': [(kid, hx(bytes(sk)), [(hx(bytes(s)), s.embedded, s.exportable) for s in sk._signatures])
                 for kid, sk in key._children.items()],
    }
    return d


def split_packets(data):
    # minimal independent OpenPGP packet splitter (old and new format, no partial lengths)
    data = bytes(data)
    pkts = []
    i = 0
    while i < len(data):
        start = i
        t = data[i]
        i += 1
        if t & 0x40:
            o = data[i]
            if o < 192:
                ln = o
                i += 1
            elif o < 224:
                ln = ((o - 192) << 8) + data[i + 1] + 192
                i += 2
            else:
                assert o == 255
                ln = int.from_bytes(data[i + 1:i + 5], 'big')
                i += 5
        else:
            lt = t & 3
            n = (1, 2, 4)[lt]
            ln = int.from_bytes(data[i:i + n], 'big')
            i += n
        i += ln
        pkts.append(data[start:i])
    return pkts


def attempt(label, fn):
    with warnings.catch_warnings(record=True) as w:
        warnings.simplefilter('always')
        try:
            r = fn()
        except Exception as e:
            r = ('EXC', type(e).__name__, str(e))
    rec(label, (r, len(w), sorted(x.category.__name__ for x in w)))


keyfiles = sorted(glob.glob(os.path.join(TD, 'keys', '*.asc'))) \
    + sorted(glob.glob(os.path.join(TD, 'blocks', '*key*.asc'))) \
    + [os.path.join(TD, 'blocks', 'expyro.asc'), os.path.join(TD, 'blocks', 'revochiio.asc')] \
    + sorted(glob.glob(os.path.join(TD, 'signatures', '*.key.asc'))) \
    + [os.path.join(TD, 'pubtest.asc'), os.path.join(TD, 'sectest.asc')]

loaded = []
for kf in keyfiles:
    name = os.path.relpath(kf, TD)

    def load(kf=kf):
        key, others = PGPKey.from_file(kf)
        loaded.append((os.path.relpath(kf, TD), key))
        return (describe(key), [(k, describe(v)) for k, v in others.items()])
    attempt('load:' + name, load)

# export -> import round trip, binary and armored; copy exports identically
for name, key in loaded:
    def rt_bin(key=key):
        k2, oth = PGPKey.from_blob(bytes(key))
        return (describe(k2), list(oth.keys()))

    def rt_asc(key=key):
        k2, oth = PGPKey.from_blob(str(key))
        return (describe(k2), list(oth.keys()))

    def cp(key=key):
        c = copy.copy(key)
        return (describe(c), bytes(c) == bytes(key))
    attempt('rt_bin:' + name, rt_bin)
    attempt('rt_asc:' + name, rt_asc)
    attempt('copy:' + name, cp)

    def uidcopy(key=key):
        return [(hx(bytes(copy.copy(u)._uid)), [hx(bytes(s)) for s in copy.copy(u)._signatures],
                 copy.copy(u).parent is None) for u in key._uids]
    attempt('uidcopy:' + name, uidcopy)

# concatenated keys, and trust packets interleaved
pubs = [k for n, k in loaded if k.is_public]
secs = [k for n, k in loaded if not k.is_public]
for label, ks in (('pubs', pubs), ('secs', secs), ('mixed', pubs[:3] + secs[:3] + pubs[3:5])):
    blob = b''.join(bytes(k) for k in ks)

    def cat(blob=blob):
        k, oth = PGPKey.from_blob(blob)
        return (describe(k), [(kk, describe(v)) for kk, v in oth.items()])
    attempt('concat:' + label, cat)

    trust = b'\xb0\x02\x00\x00'
    tblob = b''.join(p + trust for p in split_packets(blob))

    def cat_t(tblob=tblob):
        k, oth = PGPKey.from_blob(tblob)
        return (describe(k), [(kk, describe(v)) for kk, v in oth.items()])
    attempt('concat_trust:' + label, cat_t)

# a parse() on an already-loaded key object (self._key is not None)
def reparse():
    k, _ = PGPKey.from_file(os.path.join(TD, 'keys', 'rsa.1.pub.asc'))
    res = k.parse(bytes(pubs[1]) + bytes(pubs[2]))
    return (describe(k), [(kk, describe(v)) for kk, v in res.items()])
attempt('reparse', reparse)

# malformed blobs: leading user id, leading signature, foreign packet in the middle, empty
rsa = pubs[[n for n, k in loaded if k.is_public].index(os.path.join('keys', 'rsa.1.pub.asc'))] \
    if os.path.join('keys', 'rsa.1.pub.asc') in [n for n, k in loaded] else pubs[0]
pk = split_packets(bytes(rsa))
literal = b'\xcb\x0eb\x04test\x00\x00\x00\x00hello'
marker = b'\xca\x03PGP'
for label, blob in (('lead_uid', pk[1] + pk[0] + b''.join(pk[1:])),
                    ('lead_sig', pk[2] + b''.join(pk)),
                    ('literal_mid', pk[0] + pk[1] + literal + b''.join(pk[2:])),
                    ('literal_end', b''.join(pk) + literal),
                    ('marker_first', marker + b''.join(pk)),
                    ('opaque_mid', pk[0] + pk[1] + pk[2] + b'\xfd\x03abc' + b''.join(pk[3:])),
                    ('only_key', pk[0]),
                    ('key_then_sub_only', pk[0] + pk[-2] + pk[-1]),
                    ('empty', b'')):
    def bad(blob=blob):
        k, oth = PGPKey.from_blob(blob)
        return (describe(k) if k._key is not None else None, [(kk, describe(v)) for kk, v in oth.items()])
    attempt('malformed:' + label, bad)

attempt('wrong_magic', lambda: PGPKey.from_file(os.path.join(TD, 'blocks', 'rsasignature.asc')))

# attaching signatures / exportable filter
def nonexp():
    sig = PGPSignature.from_file(os.path.join(TD, 'blocks', 'signature.non-exportable.asc'))
    k, _ = PGPKey.from_file(os.path.join(TD, 'keys', 'rsa.1.pub.asc'))
    before = bytes(k)
    r = [sig.exportable, copy.copy(sig).exportable, hx(bytes(copy.copy(sig)))]
    k |= copy.copy(sig)
    r.append(bytes(k) == before)
    u = k._uids[0]
    u |= copy.copy(sig)
    r.append(bytes(k) == before)
    r.append(describe(k))
    c = copy.copy(k)
    r.append(describe(c))
    k2, _ = PGPKey.from_blob(bytes(k))
    r.append(describe(k2))
    return r
attempt('nonexportable', nonexp)

def revs():
    r = []
    for n in ('dsa.1', 'ecc.1', 'rsa.1'):
        k, _ = PGPKey.from_file(os.path.join(TD, 'keys', n + '.pub.asc'))
        with open(os.path.join(TD, 'revocations', n + '.revoc.asc')) as fh:
            body = PGPKey.ascii_unarmor(fh.read())['body']
        sig = PGPSignature.from_blob(bytes(body))
        k |= sig
        r.append((sig.exportable, int(sig.type), describe(k), describe(PGPKey.from_blob(bytes(k))[0]),
                  describe(copy.copy(k))))
    return r
attempt('revocations', revs)

def explicit_exportable():
    # explicit exportable=True, and two subpackets (hashed False + unhashed True, and the reverse)
    r = []
    base = PGPSignature.from_file(os.path.join(TD, 'blocks', 'signature.non-exportable.asc'))
    k, _ = PGPKey.from_file(os.path.join(TD, 'keys', 'rsa.1.pub.asc'))
    plain = len(bytes(k))

    s1 = PGPSignature.from_file(os.path.join(TD, 'blocks', 'signature.non-exportable.asc'))
    s1._signature.subpackets['ExportableCertification'][0].bflag = True
    r.append(s1.exportable)

    s2 = PGPSignature.from_file(os.path.join(TD, 'blocks', 'signature.non-exportable.asc'))
    s2._signature.subpackets.addnew('ExportableCertification', hashed=False, bflag=True)
    r.append((s2.exportable, len(s2._signature.subpackets['ExportableCertification'])))

    s3 = PGPSignature.from_file(os.path.join(TD, 'blocks', 'rsasignature.asc'))
    s3._signature.subpackets.addnew('ExportableCertification', hashed=False, bflag=False)
    r.append(s3.exportable)
    s4 = PGPSignature.from_file(os.path.join(TD, 'blocks', 'rsasignature.asc'))
    s4._signature.subpackets.addnew('ExportableCertification', hashed=False, bflag=True)
    s4._signature.subpackets.addnew('ExportableCertification', hashed=True, bflag=False)
    r.append(s4.exportable)

    for s in (s1, s2, s3, s4):
        kk = copy.copy(k)
        kk |= s
        r.append((len(bytes(kk)) - plain, hx(bytes(kk))))
        uu = copy.copy(k)
        uu._uids[-1] |= s
        r.append((len(bytes(uu)) - plain, hx(bytes(uu)), hx(bytes(copy.copy(uu)))))
    return r
attempt('explicit_exportable', explicit_exportable)

def allsigs():
    r = []
    for f in sorted(glob.glob(os.path.join(TD, 'signatures', '*.sig.asc')) + glob.glob(os.path.join(TD, 'blocks', '*signature*.asc'))):
        s = PGPSignature.from_file(f)
        r.append((os.path.basename(f), s.exportable, s.embedded, hx(bytes(copy.copy(s)))))
    return r
attempt('sig_exportable', allsigs)

# type errors
k0 = pubs[0]
attempt('key_or_int', lambda: copy.copy(k0) | 5)
attempt('key_or_primary', lambda: copy.copy(k0) | copy.copy(pubs[1]))
attempt('key_or_pkt_again', lambda: copy.copy(k0) | k0._key)
attempt('uid_or_int', lambda: PGPUID() | 5)
attempt('uid_or_uid_again', lambda: copy.copy(k0._uids[0]) | k0._uids[0]._uid)
attempt('uid_or_none', lambda: PGPUID() | None)
attempt('empty_key_bytes', lambda: bytes(PGPKey()))
attempt('empty_sig_exportable', lambda: PGPSignature().exportable)
attempt('empty_key_copy', lambda: bytes(copy.copy(PGPKey())))

# SorteDeque
def sd():
    r = []
    d = SorteDeque()
    for x in (5, 1, 3, 3, 9, 0, 7, 3, 2, 8):
        d.insort(x)
        r.append(list(d))
    d.resort(4)
    r.append(list(d))
    d.resort(3)
    r.append(list(d))
    d.resort(9)
    r.append(list(d))
    d[2] = 42
    d.resort(42)
    r.append(list(d))
    e = SorteDeque([4, 2, 9, 1, 1, 8, 0, 3])
    e.check()
    r.append(list(e))
    e.check()
    r.append(list(e))
    f = SorteDeque()
    f.check()
    f.resort(1)
    r.append(list(f))
    g = SorteDeque([3, 1])
    g.check()
    r.append(list(g))
    g.resort(1)
    r.append(list(g))

    class K(object):
        def __init__(self, k, n):
            self.k, self.n = k, n
        def __lt__(self, o):
            return self.k < o.k
        def __le__(self, o):
            return self.k <= o.k
        def __eq__(self, o):
            return self is o
        def __hash__(self):
            return id(self)
        def __repr__(self):
            return '%d%s' % (self.k, self.n)
    h = SorteDeque()
    items = [K(2, 'a'), K(1, 'b'), K(2, 'c'), K(1, 'd'), K(3, 'e'), K(2, 'f')]
    for it in items:
        h.insort(it)
    r.append(repr(list(h)))
    items[0].k = 5
    h.resort(items[0])
    r.append(repr(list(h)))
    items[4].k = 0
    h.check()
    r.append(repr(list(h)))
    h.resort(items[4])
    r.append(repr(list(h)))
    return r
attempt('sortedeque', sd)

total = hashlib.sha256()
for label, value in out:
    h = hashlib.sha256(repr(value).encode('utf-8')).hexdigest()
    total.update((label + ':' + h + '\n').encode('utf-8'))
    if '-v' in sys.argv:
        print(label, h[:16], (repr(value)[:150] if '-vv' in sys.argv else ''))
print('entries', len(out))
print('DIGEST', total.hexdigest())
