"""C18 probe: fingerprints / key ids are the RFC 4880 values and are stable.

Run as:  cd <tree> && PYTHONHASHSEED=0 /venv/bin/python equiv.py
Prints a deterministic transcript.
"""
import os
import sys

os.environ['TZ'] = 'America/St_Johns'      # local time differs from UTC by a non-integral hour
import time
time.tzset()

sys.path.insert(0, os.getcwd())

import binascii
import copy
import glob
import hashlib
import struct
import warnings
from datetime import datetime, timezone, timedelta

warnings.simplefilter('ignore')

import pgpy
from pgpy import PGPKey, PGPMessage, PGPSignature, PGPUID
from pgpy.constants import (PubKeyAlgorithm, EllipticCurveOID, HashAlgorithm, SymmetricKeyAlgorithm,
                            KeyFlags, CompressionAlgorithm)
from pgpy.types import Fingerprint
from pgpy.packet import Packet
from pgpy.packet.packets import PubKeyV4, PubSubKeyV4, PrivKeyV4, PrivSubKeyV4
from pgpy.packet.fields import MPI, RSAPub, DSAPub, ElGPub, ECDSAPub, EdDSAPub, ECDHPub, OpaquePubKey
from pgpy.packet.types import Header

assert os.path.dirname(os.path.dirname(os.path.abspath(pgpy.__file__))) == os.getcwd(), pgpy.__file__


def P(*a):
    print(*a)


def exc(fn, msg=True):
    try:
        r = fn()
        return 'OK %r' % (r,)
    except Exception as e:
        return 'EXC %s%s' % (type(e).__name__, (': %s' % e) if msg else '')


# ---------------------------------------------------------------- independent reference
def ref_fp_from_pubpacket(pkt_bytes):
    """pkt_bytes: full exported public (sub)key packet, header included. Returns (fp, keyid)."""
    b = bytes(pkt_bytes)
    tag = b[0]
    if tag & 0x40:   # new format
        l0 = b[1]
        if l0 < 192:
            body = b[2:2 + l0]
        elif l0 < 224:
            ln = ((l0 - 192) << 8) + b[2] + 192
            body = b[3:3 + ln]
        else:
            ln = struct.unpack('>I', b[2:6])[0]
            body = b[6:6 + ln]
    else:
        lt = tag & 3
        if lt == 0:
            body = b[2:2 + b[1]]
        elif lt == 1:
            body = b[3:3 + struct.unpack('>H', b[1:3])[0]]
        else:
            body = b[5:5 + struct.unpack('>I', b[1:5])[0]]
    h = hashlib.sha1(b'\x99' + struct.pack('>H', len(body)) + body).hexdigest().upper()
    return h, h[-16:]


def describe_keypkt(label, pkt):
    """pkt: a Pub/Priv (sub)key packet object."""
    fp = pkt.fingerprint
    P(label, type(pkt).__name__, 'fp', str(fp), 'keyid', fp.keyid, 'short', fp.shortid,
      'created', pkt.created.isoformat(), 'alg', pkt.pkalg.name, 'publen', pkt.keymaterial.publen())


def all_pkts(key):
    yield 'primary', key._key
    for kid, sk in key.subkeys.items():
        yield 'sub[%s]' % kid, sk._key


def check_key(label, key, depth=0):
    P('== key', label, 'is_public', key.is_public, 'is_protected', key.is_protected,
      'nsub', len(key.subkeys))
    pub = key if key.is_public else key.pubkey
    for (name, pkt), (_, ppkt) in zip(all_pkts(key), all_pkts(pub)):
        describe_keypkt('  ' + name, pkt)
        fp = pkt.fingerprint
        # independent recomputation from the exported public packet
        rfp, rkid = ref_fp_from_pubpacket(ppkt.__bytes__())
        P('   ref', rfp, rkid, 'match', rfp == str(fp), rkid == fp.keyid,
          'pubtwin', str(ppkt.fingerprint) == str(fp))
        # copy
        c = copy.copy(pkt)
        P('   copy', str(c.fingerprint) == str(fp), 'bytes_same', c.__bytes__() == pkt.__bytes__())
        # re-parse
        rp = Packet(bytearray(pkt.__bytes__()))
        P('   reparse', type(rp).__name__, str(rp.fingerprint) == str(fp))
    P('  key.fingerprint', str(key.fingerprint), repr(key.fingerprint), 'keyid', key.fingerprint.keyid)
    P('  subkey ids', [(k, str(v.fingerprint), v.fingerprint.keyid == k) for k, v in key.subkeys.items()])
    # export / import (armored and binary)
    k2, _ = PGPKey.from_blob(str(key))
    k3, _ = PGPKey.from_blob(bytes(key))
    for n, kk in (('asc', k2), ('bin', k3)):
        P('  roundtrip', n, str(kk.fingerprint) == str(key.fingerprint),
          [str(a.fingerprint) for a in kk.subkeys.values()] == [str(a.fingerprint) for a in key.subkeys.values()])
    kc = copy.copy(key)
    P('  keycopy', str(kc.fingerprint) == str(key.fingerprint),
      [str(a.fingerprint) for a in kc.subkeys.values()] == [str(a.fingerprint) for a in key.subkeys.values()])
    # issuer ids of the self-signatures
    for sig in key.__sig__ if hasattr(key, '__sig__') else []:
        P('  dsig', sig.type.name, sig.signer, sig.signer_fingerprint)
    for uid in key.userids:
        for sig in uid.__sig__:
            P('  uidsig', sig.type.name, sig.signer, str(sig.signer_fingerprint),
              sig.signer == key.fingerprint.keyid)
    for kid, sk in key.subkeys.items():
        for sig in sk.__sig__:
            P('  subsig', kid, sig.type.name, sig.signer, str(sig.signer_fingerprint))


PASS = {
    'rsa.1.enc.asc': 'QwertyUiop',
    'dsa.1.enc.asc': 'QwertyUiop',
}

P('#### 1. test keys')
keyfiles = sorted(glob.glob('tests/testdata/keys/*.asc')) + sorted(
    f for f in glob.glob('tests/testdata/blocks/*key*.asc')) + sorted(
    glob.glob('tests/testdata/signatures/*.key.asc')) + ['tests/testdata/pubtest.asc', 'tests/testdata/sectest.asc',
                                                        'tests/testdata/blocks/expyro.asc',
                                                        'tests/testdata/blocks/revochiio.asc']
loaded = {}
for f in keyfiles:
    try:
        key, others = PGPKey.from_file(f)
    except Exception as e:
        P('== key', f, 'LOADFAIL', type(e).__name__)
        continue
    loaded[os.path.basename(f)] = key
    check_key(f, key)
    P('  others', sorted(str(k[0]) + ':' + str(k[1]) for k in others.keys()))
    base = os.path.basename(f)
    if key.is_protected:
        before = [str(p.fingerprint) for _, p in all_pkts(key)]
        pw = PASS.get(base)
        if pw is not None:
            try:
                with key.unlock(pw):
                    during = [str(p.fingerprint) for _, p in all_pkts(key)]
                    P('  unlocked', key.is_unlocked, 'fp same', before == during)
                    for name, p in all_pkts(key):
                        describe_keypkt('   U ' + name, p)
            except Exception as e:
                P('  unlock EXC', type(e).__name__)
            after = [str(p.fingerprint) for _, p in all_pkts(key)]
            P('  relocked fp same', before == after)

P('#### 2. raw packets')
for f in sorted(glob.glob('tests/testdata/packets/0[567].*')) + sorted(glob.glob('tests/testdata/packets/14.*')):
    with open(f, 'rb') as fh:
        data = bytearray(fh.read())
    pkt = Packet(bytearray(data))
    describe_keypkt(os.path.basename(f), pkt)
    if pkt.public:
        rfp, rkid = ref_fp_from_pubpacket(bytes(data))
        P('   ref', rfp, 'match', rfp == str(pkt.fingerprint))
    else:
        pp = pkt.pubkey() if hasattr(pkt, 'pubkey') else None
        if pp is not None:
            rfp, rkid = ref_fp_from_pubpacket(pp.__bytes__())
            P('   ref(pub twin)', rfp, 'match', rfp == str(pkt.fingerprint), str(pp.fingerprint) == rfp)

P('#### 3. creation-time sweep (independent encoder -> parse; and setter -> export)')


def mpi_bytes(i):
    n = i.bit_length()
    return struct.pack('>H', n) + i.to_bytes((n + 7) // 8, 'big')


TIMES = [0, 1, 59, 3599, 86399, 86400, 0x7f, 0x80, 0xff, 0x100, 0xffff, 0x10000, 0xffffff, 0x1000000,
         0x7fffffff, 0x80000000, 0x80000001, 0xfffffffe, 0xffffffff,
         1394300000, 1394348399, 1394348400, 1394348401,       # around a 2014 DST switch
         1414893599, 1414893600, 1414900000,
         1710054000, 1710055800, 1710057600, 1730600000, 1730608199, 1730608200,
         951782400, 951868800, 1078012800, 1709164800,         # leap days
         1483228799, 1483228800, 1000000000, 1234567890, 2000000000, 3000000000, 4000000000]
# RSA n with leading zero bits inside the top octet, and e small
RSA_N = [(1 << 1023) | 12345, (1 << 1016) | 1, (1 << 1017) | 99, 0x01 << 2040 | 7, (1 << 511) + 3, 0xC5, 1]
for ts in TIMES:
    for tagname, tag in (('pub', 0x99), ('sub', 0xb9)):
        n = RSA_N[ts % len(RSA_N)]
        body = b'\x04' + struct.pack('>I', ts) + b'\x01' + mpi_bytes(n) + mpi_bytes(65537)
        raw = bytes([tag]) + struct.pack('>H', len(body)) + body
        pkt = Packet(bytearray(raw))
        rfp, rkid = ref_fp_from_pubpacket(raw)
        fp = pkt.fingerprint
        # set creation time through each setter on a fresh copy
        res = []
        for setter in (ts, struct.pack('>I', ts), bytearray(struct.pack('>I', ts)),
                       datetime.fromtimestamp(ts, timezone.utc),
                       datetime.fromtimestamp(ts, timezone(timedelta(hours=5, minutes=30))),
                       datetime.fromtimestamp(ts, timezone(timedelta(hours=-11))),
                       datetime.utcfromtimestamp(ts)):
            c = copy.copy(pkt)
            c.created = setter
            res.append(str(c.fingerprint) == rfp and c.__bytes__() == raw)
        P(tagname, ts, type(pkt).__name__, str(fp), fp.keyid, 'ref', rfp == str(fp), rkid == fp.keyid,
          'reexport', pkt.__bytes__() == raw, 'setters', res, pkt.created.isoformat())

P('#### 4. independent encoder: every algorithm, MPIs with leading zero bits')
OIDS = {
    'p256': bytes.fromhex('2A8648CE3D030107'),
    'p384': bytes.fromhex('2B81040022'),
    'p521': bytes.fromhex('2B81040023'),
    'secp256k1': bytes.fromhex('2B8104000A'),
    'bp256': bytes.fromhex('2B2403030208010107'),
    'ed25519': bytes.fromhex('2B06010401DA470F01'),
    'cv25519': bytes.fromhex('2B060104019755010501'),
}


def det(n, seed):
    """deterministic n-byte string"""
    out = b''
    c = 0
    while len(out) < n:
        out += hashlib.sha256(seed + struct.pack('>I', c)).digest()
        c += 1
    return out[:n]


def mk(tag, ts, alg, material):
    body = b'\x04' + struct.pack('>I', ts) + bytes([alg]) + material
    if tag in (6, 14):
        hdr = bytes([0x80 | (tag << 2) | 1]) + struct.pack('>H', len(body))
    else:
        hdr = bytes([0xC0 | tag]) + (bytes([len(body)]) if len(body) < 192 else
                                     bytes([((len(body) - 192) >> 8) + 192, (len(body) - 192) & 0xff]))
    return hdr + body


cases = []
for shift in (0, 1, 3, 7, 8, 9, 15):
    n = int.from_bytes(det(128, b'n'), 'big') >> shift | 1
    cases.append(('rsa>>%d' % shift, 1, mpi_bytes(n) + mpi_bytes(65537 >> (shift % 3))))
    cases.append(('rsaE>>%d' % shift, 2, mpi_bytes(n) + mpi_bytes(3)))
    cases.append(('rsaS>>%d' % shift, 3, mpi_bytes(n) + mpi_bytes(17)))
    p = int.from_bytes(det(128, b'p'), 'big') >> shift | 1
    q = int.from_bytes(det(20, b'q'), 'big') >> shift | 1
    g = int.from_bytes(det(128, b'g'), 'big') >> (shift * 3) | 1
    y = int.from_bytes(det(128, b'y'), 'big') >> (shift + 2) | 1
    cases.append(('dsa>>%d' % shift, 17, mpi_bytes(p) + mpi_bytes(q) + mpi_bytes(g) + mpi_bytes(y)))
    cases.append(('elg>>%d' % shift, 16, mpi_bytes(p) + mpi_bytes(g) + mpi_bytes(y)))
    cases.append(('elg20>>%d' % shift, 20, mpi_bytes(p) + mpi_bytes(2) + mpi_bytes(y)))
for cname, clen in (('p256', 32), ('p384', 48), ('p521', 66), ('secp256k1', 32), ('bp256', 32)):
    oid = OIDS[cname]
    for s in (b'a', b'b'):
        pt = int.from_bytes(b'\x04' + det(2 * clen, s + cname.encode()), 'big')
        cases.append(('ecdsa-' + cname, 19, bytes([len(oid)]) + oid + mpi_bytes(pt)))
        cases.append(('ecdh-' + cname, 18, bytes([len(oid)]) + oid + mpi_bytes(pt) + b'\x03\x01\x08\x07'))
        cases.append(('ecdh-' + cname + '-kdf2', 18, bytes([len(oid)]) + oid + mpi_bytes(pt) + b'\x03\x01\x0a\x09'))
for s in (b'a', b'b', b'c'):
    oid = OIDS['ed25519']
    pt = int.from_bytes(b'\x40' + det(32, b'ed' + s), 'big')
    cases.append(('eddsa', 22, bytes([len(oid)]) + oid + mpi_bytes(pt)))
    oid = OIDS['cv25519']
    pt = int.from_bytes(b'\x40' + det(32, b'cv' + s), 'big')
    cases.append(('cv25519', 18, bytes([len(oid)]) + oid + mpi_bytes(pt) + b'\x03\x01\x08\x07'))
# unimplemented / opaque algorithms
for alg in (4, 21, 23, 24, 99, 100, 110):
    cases.append(('opaque-%d' % alg, alg, det(7 + alg, b'opaque')))

for i, (name, alg, material) in enumerate(cases):
    for tag in (6, 14):
        ts = TIMES[(i * 2 + tag) % len(TIMES)]
        raw = mk(tag, ts, alg, material)
        try:
            pkt = Packet(bytearray(raw))
        except Exception as e:
            P(name, tag, 'PARSE EXC', type(e).__name__)
            continue
        rfp, rkid = ref_fp_from_pubpacket(raw)
        try:
            fp = pkt.fingerprint
        except Exception as e:
            P(name, tag, type(pkt).__name__, 'FP EXC', type(e).__name__)
            continue
        c = copy.copy(pkt)
        rp = Packet(bytearray(pkt.__bytes__()))
        P(name, tag, ts, type(pkt).__name__, type(pkt.keymaterial).__name__, str(fp), fp.keyid, fp.shortid,
          'ref', rfp == str(fp), 'reexport', pkt.__bytes__() == raw,
          'copy', str(c.fingerprint) == str(fp), 'reparse', str(rp.fingerprint) == str(fp),
          'publen', pkt.keymaterial.publen(), len(pkt.keymaterial))

P('#### 5. private twins built by hand (unprotected secret material appended)')
# take the test secret keys, rebuild private packet <-> public packet and compare
for base, key in sorted(loaded.items()):
    if key.is_public:
        continue
    for name, pkt in all_pkts(key):
        pub = pkt.pubkey()
        km = pkt.keymaterial
        full = bytes(km.__bytearray__())
        P(base, name, type(km).__name__, 'publen', km.publen(), 'len', len(km), 'matlen', len(full),
          'prefix==pubmaterial', full[:km.publen()] == bytes(pub.keymaterial.__bytearray__()),
          'pub publen', pub.keymaterial.publen(), len(pub.keymaterial),
          'fp eq', str(pub.fingerprint) == str(pkt.fingerprint))

P('#### 6. Fingerprint type')
FPS = ['F4294BC8094A7E0585C85E8637473B3758C44F36',
       'F429 4BC8 094A 7E05 85C8  5E86 3747 3B37 58C4 4F36',
       'f4294bc8094a7e0585c85e8637473b3758c44f36',
       'f429 4bc8 094a 7e05 85c8 5e86 3747 3b37 58c4 4f36',
       '0000000000000000000000000000000000000000',
       'FFFFFFFFFFFFFFFFFFFFFFFFFFFFFFFFFFFFFFFF',
       '0123456789ABCDEF0123456789ABCDEF01234567',
       '37473B3758C44F36', '58C44F36', 'ABCDEF', '1', 'A B C D']
for s in FPS:
    f = Fingerprint(s)
    P(repr(s), '->', str(f), 'keyid', f.keyid, 'shortid', f.shortid, 'len', len(f),
      'same obj on re-wrap', Fingerprint(f) is f, 'type', type(f).__name__,
      'hash==hash(str)', hash(f) == hash(str(f)))
    P('   bytes', exc(lambda: binascii.hexlify(bytes(f)).decode()))
    P('   pretty', exc(lambda: f.__pretty__()))
    P('   repr', exc(lambda: repr(f)))
    for o in FPS + [s.encode(), bytearray(s.encode()), None, 5, 5.5, (s,), f.keyid.lower(), f.keyid + ' ',
                    f.shortid.encode(), ' '.join(str(f))]:
        P('   eq', repr(o), f == o, f != o)
for bad in ['ABCDEFG', 'ABCD EFGH IJKL MNOP QRST  UVWX YZ01 2345 6789 AABB', '', ' ', 'xyz', '0x1234', 'ABCD-1234',
            'é', 'ABCD\t1234']:
    P('bad', repr(bad), exc(lambda: Fingerprint(bad), msg=False))
P('newline-tail', exc(lambda: str(Fingerprint('ABCD\n')).encode()))
d = {Fingerprint(FPS[0]): 1}
P('dict lookup', d.get(Fingerprint(FPS[1])), d.get(FPS[0]), d.get(FPS[2]))
P('set', sorted(str(x) for x in {Fingerprint(a) for a in FPS[:4]}))

P('#### 7. ids written into signatures and messages PGPy emits')
rsa = loaded['rsa.1.sec.asc']
dsa = loaded['dsa.1.sec.asc']
ecc = loaded['ecc.1.sec.asc']
targ = loaded['targette.sec.rsa.asc']
FIXED = datetime(2020, 2, 29, 23, 59, 59, tzinfo=timezone.utc)
for label, key in (('rsa', rsa), ('dsa', dsa), ('ecc', ecc), ('targette', targ)):
    try:
        sig = key.sign('hello world', created=FIXED)
        raw = bytes(sig)
        sig2 = PGPSignature.from_blob(raw)
        P(label, 'sig issuer', sig.signer, str(sig.signer_fingerprint), 'reparsed', sig2.signer,
          str(sig2.signer_fingerprint), 'is key', sig2.signer == key.fingerprint.keyid,
          sig2.signer_fingerprint == key.fingerprint, 'created', sig2.created.isoformat())
        # raw subpackets
        for sp in sig2._signature.subpackets['h_IssuerFingerprint']:
            P('   h_IssuerFingerprint', sp.version, str(sp.issuer_fingerprint))
        for sp in sig2._signature.subpackets['Issuer']:
            P('   Issuer', binascii.hexlify(bytes(sp.__bytearray__())).decode())
        P('   verify', bool(key.pubkey.verify('hello world', sig2)))
    except Exception as e:
        P(label, 'sign EXC', type(e).__name__, e)
    # via subkeys, if any can sign
    for kid, sk in key.subkeys.items():
        try:
            s = sk.sign('subkey signed', created=FIXED)
            P('   subkey', kid, 'issuer', s.signer, str(s.signer_fingerprint), s.signer == sk.fingerprint.keyid)
        except Exception as e:
            P('   subkey', kid, 'sign EXC', type(e).__name__)
    # one-pass signed message
    try:
        m = PGPMessage.new('payload', compression=CompressionAlgorithm.Uncompressed)
        m |= key.sign(m, created=FIXED)
        m2 = PGPMessage.from_blob(bytes(m))
        P('   msg signers', sorted(m2.signers), 'ops', [binascii.hexlify(bytes(p.signer.encode())).decode() if
                                                         hasattr(p, 'signer') else None
                                                         for p in m2._signatures])
    except Exception as e:
        P('   msg sign EXC', type(e).__name__, e)
    # encrypt to the public key: recipient ids
    try:
        m = PGPMessage.new('secret payload', compression=CompressionAlgorithm.Uncompressed)
        sk = SymmetricKeyAlgorithm.AES128.gen_key()
        em = key.pubkey.encrypt(m, cipher=SymmetricKeyAlgorithm.AES128, sessionkey=sk)
        em2 = PGPMessage.from_blob(bytes(em))
        allids = {key.fingerprint.keyid} | set(key.subkeys.keys())
        P('   encrypters', sorted(em2.encrypters), 'subset of key ids', set(em2.encrypters) <= allids)
    except Exception as e:
        P('   encrypt EXC', type(e).__name__, e)

P('#### 8. certification / binding issuer ids')
uid = PGPUID.new('Probe User', email='probe@example.com')
for label, key in (('rsa', rsa), ('ecc', ecc)):
    try:
        csig = key.certify(key.userids[0], created=FIXED)
        P(label, 'certify issuer', csig.signer, str(csig.signer_fingerprint), csig.signer == key.fingerprint.keyid)
    except Exception as e:
        P(label, 'certify EXC', type(e).__name__, e)
    try:
        rsig = key.revoke(key, created=FIXED)
        P(label, 'revoke issuer', rsig.signer, str(rsig.signer_fingerprint))
    except Exception as e:
        P(label, 'revoke EXC', type(e).__name__, e)

P('#### 9. existing signatures / messages from testdata: issuer and recipient ids')
for f in sorted(glob.glob('tests/testdata/signatures/*.sig.asc')) + ['tests/testdata/blocks/rsasignature.asc',
                                                                    'tests/testdata/blocks/signature.expired.asc']:
    try:
        s = PGPSignature.from_file(f)
        P(f, s.signer, s.signer_fingerprint)
    except Exception as e:
        P(f, 'EXC', type(e).__name__)
for f in sorted(glob.glob('tests/testdata/messages/*.asc')) + sorted(glob.glob('tests/testdata/blocks/message*.asc')):
    try:
        m = PGPMessage.from_file(f)
        P(f, 'signers', sorted(m.signers), 'encrypters', sorted(m.encrypters))
    except Exception as e:
        P(f, 'EXC', type(e).__name__)

P('#### 10. key-management history: fingerprints constant')
key, _ = PGPKey.from_file('tests/testdata/keys/rsa.1.sec.asc')
snap = [str(p.fingerprint) for _, p in all_pkts(key)]
P('start', snap)
u = PGPUID.new('History User', comment='c', email='h@example.com')
key.add_uid(u, usage={KeyFlags.Sign}, hashes=[HashAlgorithm.SHA256], created=FIXED)
P('after add_uid', [str(p.fingerprint) for _, p in all_pkts(key)] == snap)
key.del_uid('History User')
P('after del_uid', [str(p.fingerprint) for _, p in all_pkts(key)] == snap)
from unittest import mock
with mock.patch('os.urandom', lambda n: b'\x5a' * n):
    key.protect('pw-123', SymmetricKeyAlgorithm.AES256, HashAlgorithm.SHA256)
P('after protect', key.is_protected, [str(p.fingerprint) for _, p in all_pkts(key)] == snap)
kb, _ = PGPKey.from_blob(str(key))
P('protected export/import', [str(p.fingerprint) for _, p in all_pkts(kb)] == snap, kb.is_protected)
with kb.unlock('pw-123'):
    P('unlocked import', [str(p.fingerprint) for _, p in all_pkts(kb)] == snap)
    s = kb.sign('x', created=FIXED)
    P('sign issuer', s.signer, str(s.signer_fingerprint))
P('pubkey of protected', [str(p.fingerprint) for _, p in all_pkts(kb.pubkey)] == snap)

# changing creation time changes the fingerprint exactly like the reference
pk = copy.copy(key.pubkey._key)
for ts in (0, 1, 0x7fffffff, 0x80000000, 0xffffffff):
    pk.created = ts
    pk.update_hlen()
    rfp, _ = ref_fp_from_pubpacket(pk.__bytes__())
    P('retime', ts, str(pk.fingerprint), rfp == str(pk.fingerprint))

P('#### 11. fresh PubKeyV4 objects, direct material assignment')
for cls in (PubKeyV4, PubSubKeyV4):
    pk = cls()
    pk.created = 0x12345678
    pk.pkalg = PubKeyAlgorithm.RSAEncryptOrSign
    pk.keymaterial.n = MPI((1 << 2040) | 5)
    pk.keymaterial.e = MPI(65537)
    pk.update_hlen()
    raw = pk.__bytes__()
    rfp, rkid = ref_fp_from_pubpacket(raw)
    P(cls.__name__, binascii.hexlify(raw[:12]).decode(), str(pk.fingerprint), rfp == str(pk.fingerprint),
      pk.fingerprint.keyid == rkid)
    pk.keymaterial.n = MPI(0)
    pk.keymaterial.e = MPI(0)
    pk.update_hlen()
    rfp, rkid = ref_fp_from_pubpacket(pk.__bytes__())
    P(cls.__name__, 'zero MPIs', str(pk.fingerprint), rfp == str(pk.fingerprint))
    # empty material of every algorithm
    for alg in (1, 2, 3, 16, 17, 18, 19, 20, 22, 0, 21, 99):
        pk = cls()
        pk.created = 86400 * 365
        try:
            pk.pkalg = alg
            pk.update_hlen()
            rfp, rkid = ref_fp_from_pubpacket(pk.__bytes__())
            P(cls.__name__, 'empty alg', alg, type(pk.keymaterial).__name__, str(pk.fingerprint),
              rfp == str(pk.fingerprint))
        except Exception as e:
            P(cls.__name__, 'empty alg', alg, 'EXC', type(e).__name__)

P('done')
