"""Digest of the observable outputs of the fingerprint / key-id / creation-time code paths.

Run as:  cd <tree> && /venv/bin/python equiv.py
Prints the same digest on the unchanged and on the refactored tree.
"""
import copy
import glob
import hashlib
import os
import sys
import warnings

sys.path.insert(0, os.getcwd())
warnings.simplefilter('ignore')

import pgpy  # noqa: E402
from datetime import datetime, timezone, timedelta  # noqa: E402
from pgpy.types import Fingerprint  # noqa: E402
from pgpy.packet.packets import PubKeyV4, PubSubKeyV4, PrivKeyV4  # noqa: E402

out = []


def rec(*a):
    out.append(repr(a))


def attempt(label, fn):
    try:
        rec(label, 'ok', fn())
    except Exception as e:  # noqa
        rec(label, 'exc', type(e).__name__, str(e))


# ---- 1. fixture keys: fingerprints, key ids, creation times, packet bytes
for path in sorted(glob.glob('tests/testdata/keys/*.asc')) + ['tests/testdata/pubtest.asc', 'tests/testdata/sectest.asc']:
    try:
        key, _ = pgpy.PGPKey.from_file(path)
    except Exception as e:  # noqa
        rec(path, 'load-exc', type(e).__name__, str(e))
        continue
    allkeys = [key] + list(key.subkeys.values())
    for k in allkeys:
        pkt = k._key
        fp = k.fingerprint
        rec(os.path.basename(path), str(fp), fp.keyid, fp.shortid, repr(fp), bytes(fp).hex(), type(fp).__name__)
        rec('created', pkt.created.isoformat(), pkt.created.tzinfo is not None)
        rec('publen', pkt.keymaterial.publen(), len(pkt.keymaterial), type(pkt.keymaterial).__name__)
        body = pkt.__bytearray__()
        rec('body', type(body).__name__, hashlib.sha256(bytes(body)).hexdigest())
        rec('pkt', hashlib.sha256(bytes(pkt.__bytes__())).hexdigest())
        # public twin and copies
        if not k.is_public:
            rec('pub', str(k.pubkey.fingerprint), str(k.pubkey.fingerprint) == str(fp))
            rec('pubpkt', hashlib.sha256(bytes(k.pubkey._key.__bytes__())).hexdigest())
        c = copy.copy(pkt)
        rec('copy', str(c.fingerprint), c.created.isoformat(), hashlib.sha256(bytes(c.__bytearray__())).hexdigest())
    # whole key export
    rec('export', hashlib.sha256(bytes(key.__bytes__())).hexdigest())
    for uid in key.userids:
        for sig in uid._signatures:
            rec("sig", sig.signer, str(sig.signer_fingerprint), sig.signer == key.fingerprint.keyid, key.fingerprint == sig.signer)

# ---- 2. creation time codec on a synthetic packet
key, _ = pgpy.PGPKey.from_file('tests/testdata/keys/rsa.1.pub.asc')
base = key._key
for val in [0, 1, 86399, 86400, 2 ** 31 - 1, 2 ** 31, 2 ** 32 - 1, 1234567890,
            b'\x00\x00\x00\x00', b'\x4f\x00\x00\x01', bytearray(b'\xff\xff\xff\xff'), b'\x01', b'',
            datetime(2001, 2, 3, 4, 5, 6, tzinfo=timezone.utc),
            datetime(2001, 2, 3, 4, 5, 6, tzinfo=timezone(timedelta(hours=5, minutes=30))),
            datetime(2001, 2, 3, 4, 5, 6, 999999, tzinfo=timezone(timedelta(hours=-11))),
            datetime(1970, 1, 1, tzinfo=timezone.utc),
            datetime(2200, 1, 1, tzinfo=timezone.utc),
            datetime(1960, 1, 1, tzinfo=timezone.utc),
            -1, 2 ** 40, 1.5, 'x', None, True]:
    def run(val=val):
        p = copy.copy(base)
        p.created = val
        body = p.__bytearray__()
        return (p.created.isoformat(), repr(p.created.tzinfo), str(p.fingerprint), p.fingerprint.keyid,
                type(body).__name__, bytes(body).hex()[:24], len(body))
    attempt(('created', repr(val)), run)

# naive datetime: warning must still be issued
with warnings.catch_warnings(record=True) as w:
    warnings.simplefilter('always')
    p = copy.copy(base)
    p.created = datetime(2001, 2, 3, 4, 5, 6)
    rec('naive', [(x.category.__name__, str(x.message)) for x in w], p.created.isoformat())

# fresh packets of the three key packet classes
for cls in (PubKeyV4, PubSubKeyV4, PrivKeyV4):
    p = cls()
    rec('fresh', cls.__name__, p.created.tzinfo is timezone.utc, int(p.pkalg), p.keymaterial is None)
    attempt(('fresh-fp', cls.__name__), lambda p=p: str(p.fingerprint))
    attempt(('fresh-bytes', cls.__name__), lambda p=p: bytes(p.__bytearray__()).hex())

# ---- 3. Fingerprint type
FP = 'F429 4BC8 094A 7E05 85C8  5E86 3747 3B37 58C4 4F36'
f = Fingerprint(FP)
others = [FP, FP.replace(' ', ''), FP.lower(), FP.replace(' ', '').lower(), '37473B3758C44F36', '3747 3B37 58C4 4F36',
          '58C44F36', '58C4 4F36', '58c44f36', '', ' ', 'F4294BC8', b'58C44F36', bytearray(b'37473B3758C44F36'),
          b'58C4 4F36', b'', b'\xff', FP.replace(' ', '').encode(), Fingerprint(FP), Fingerprint(FP.lower()),
          Fingerprint('58C44F36'), Fingerprint('ABCD'), None, 1, 1.0, (), [FP], object, f]
for n, o in enumerate(others):
    attempt(('eq', n), lambda o=o: (f == o, f != o, type(f == o).__name__))
    attempt(('req', n), lambda o=o: (o == f, o != f))
rec('hash', hash(f) == hash(FP.replace(' ', '')), f in {FP.replace(' ', ''): 1}, len({f, Fingerprint(FP.lower())}))
for c in [FP, FP.lower(), 'ABCD', 'abcd ef', '', ' ', 'XYZ', 'ABCD\n', '\nABCD', 'AB\nCD', '0' * 40, '0' * 39, '0' * 41,
          '0' * 40 + '\n', b'ABCD', None, 12, f]:
    def mk(c=c):
        x = Fingerprint(c)
        return (str(x), type(x).__name__, x.keyid, x.shortid, x is c)
    attempt(('new', repr(c)), mk)
    attempt(('pretty', repr(c)), lambda c=c: Fingerprint(c).__pretty__())
    attempt(('repr', repr(c)), lambda c=c: repr(Fingerprint(c)))
    attempt(('bytes', repr(c)), lambda c=c: bytes(Fingerprint(c)).hex())

print(len(out), hashlib.sha256('\n'.join(out).encode('utf-8', 'backslashreplace')).hexdigest())
