"""Equivalence probe for property C06 (secret keys at rest).

Run as:  cd <tree> && /venv/bin/python equiv.py
Prints one digest over all observable outputs of protect / unlock / export on
fixture keys.  os.urandom is replaced by a deterministic counter stream so the
salt / IV chosen by protect() (and the order in which they are drawn) are part
of the digest.
"""
import sys
import os
sys.path.insert(0, os.getcwd())

import hashlib
import warnings

import pgpy
from pgpy.constants import HashAlgorithm, SymmetricKeyAlgorithm, String2KeyType
from pgpy.packet.fields import MPI
from pgpy.symenc import _encrypt

KEYDIR = os.path.join('tests', 'testdata', 'keys')
OUT = []


def emit(*items):
    OUT.append(' | '.join(str(i) for i in items))


# ---- deterministic os.urandom ------------------------------------------------
_ctr = [0]


def fake_urandom(n):
    out = b''
    while len(out) < n:
        _ctr[0] += 1
        out += hashlib.sha256(b'equiv-C06-%d' % _ctr[0]).digest()
    return out[:n]


os.urandom = fake_urandom


def load(name):
    with warnings.catch_warnings():
        warnings.simplefilter('ignore')
        key, _ = pgpy.PGPKey.from_file(os.path.join(KEYDIR, name))
    return key


def allkeys(key):
    return [key] + list(key.subkeys.values())


def secrets(key):
    res = []
    for k in allkeys(key):
        km = k._key.keymaterial
        res.append((type(km).__name__,
                    tuple((f, int(getattr(km, f)), type(getattr(km, f)).__name__) for f in km.__privfields__),
                    bytes(km.chksum).hex(), km.s2k.usage, int(km.s2k.encalg), int(km.s2k.specifier),
                    int(km.s2k.halg), bytes(km.s2k.salt).hex(), km.s2k.count,
                    None if km.s2k.iv is None else bytes(km.s2k.iv).hex(),
                    hashlib.sha256(bytes(km.encbytes)).hexdigest()))
    return res


def state(key):
    return (key.is_public, key.is_protected, key.is_unlocked,
            [(k._key.protected, k._key.unlocked) if not key.is_public else None for k in allkeys(key)],
            hashlib.sha256(bytes(key)).hexdigest(), secrets(key) if not key.is_public else None)


def guarded(label, fn):
    with warnings.catch_warnings(record=True) as w:
        warnings.simplefilter('always')
        try:
            res = fn()
            emit(label, 'ok', res)
        except BaseException as e:
            emit(label, 'raised', type(e).__name__, str(e))
        for x in w:
            if x.category.__name__ == 'CryptographyDeprecationWarning':
                continue  # third-party noise, attributed to pgpy source line numbers
            fn_ = os.path.basename(x.filename)
            # line numbers inside pgpy sources legitimately move when code is edited; keep them only for this file
            emit(label, 'warning', x.category.__name__, str(x.message), fn_, x.lineno if fn_ == 'equiv.py' else '-')


def try_sign(key):
    # RSA PKCS#1 v1.5 is deterministic; for the others only report success
    sig = key.sign('C06 probe text', created=__import__('datetime').datetime(2020, 1, 1), hash=HashAlgorithm.SHA256)
    ok = bool(key.pubkey.verify('C06 probe text', sig))
    if key.key_algorithm.name.startswith('RSA'):
        return (ok, hashlib.sha256(bytes(sig)).hexdigest())
    return ok


# ---- A/B/C: unlock of fixture-protected keys ---------------------------------
for name in ('rsa.1.enc.asc', 'dsa.1.enc.asc'):
    key = load(name)
    emit(name, 'loaded', state(key))
    guarded(name + ' sign-locked', lambda: try_sign(key))

    def good():
        with key.unlock('QwertyUiop') as uk:
            emit(name, 'inside', uk is key, state(key))
            emit(name, 'sign', try_sign(key))
        return state(key)
    guarded(name + ' unlock-good', good)

    for bad in ('ClearlyTheWrongPassword', '', u'pässwörd', b'QwertyUio'):
        def wrong():
            with key.unlock(bad):
                emit(name, 'SHOULD NOT GET HERE')
        guarded(name + ' unlock-bad %r' % (bad,), wrong)
        emit(name, 'after-bad', state(key))

    def boom():
        with key.unlock('QwertyUiop'):
            emit(name, 'inside-boom', key.is_unlocked)
            raise KeyError('boom')
    guarded(name + ' unlock-exc', boom)
    emit(name, 'after-exc', state(key))
    guarded(name + ' sign-relocked', lambda: try_sign(key))

    # re-protect while locked -> warning, nothing changes
    guarded(name + ' protect-locked',
            lambda: key.protect('x', SymmetricKeyAlgorithm.AES128, HashAlgorithm.SHA1))
    emit(name, 'after-protect-locked', state(key))

    # change passphrase inside the scope
    def change():
        with key.unlock('QwertyUiop'):
            key.protect(u'nöw with ünicode', SymmetricKeyAlgorithm.CAST5, HashAlgorithm.SHA512)
            emit(name, 'changed-inside', state(key))
        return state(key)
    guarded(name + ' change', change)

    def reopen():
        with key.unlock(u'nöw with ünicode'):
            return state(key)
    guarded(name + ' reopen', reopen)
    guarded(name + ' old-pass', lambda: key.unlock('QwertyUiop').__enter__())
    emit(name, 'final', state(key))

# ---- D: protect of unprotected fixture keys ----------------------------------
COMBOS = [(SymmetricKeyAlgorithm.AES256, HashAlgorithm.SHA256, 'There Are Many Like It, But This Key Is Mine'),
          (SymmetricKeyAlgorithm.AES128, HashAlgorithm.SHA1, u'ümläut ☃'),
          (SymmetricKeyAlgorithm.Camellia192, HashAlgorithm.SHA384, b'bytes pass\x00\xff'),
          (SymmetricKeyAlgorithm.TripleDES, HashAlgorithm.SHA224, 'x' * 300)]

for name in ('rsa.1.sec.asc', 'dsa.1.sec.asc', 'ecc.1.sec.asc', 'ecc.2.sec.asc', 'mixed.1.sec.asc',
             'targette.sec.rsa.asc'):
    for enc, halg, pw in COMBOS:
        key = load(name)
        before = secrets(key)
        guarded('%s unlock-unprotected' % name, lambda: key.unlock('zzz').__enter__() is key)
        guarded('%s protect %s/%s' % (name, enc.name, halg.name), lambda: key.protect(pw, enc, halg))
        emit(name, 'protected', state(key))
        exported = bytes(key)
        leaked = [f for (_t, fields, *_r) in before for (f, v, _n) in fields
                  if v.to_bytes((v.bit_length() + 7) // 8, 'big') in exported]
        emit(name, 'leaked', leaked)

        def rt():
            with key.unlock(pw):
                now = secrets(key)
                same = [[a[1] for a in before] == [b[1] for b in now]]
                return (same, state(key), try_sign(key) if key.key_algorithm.name != 'ECDH' else None)
        guarded('%s roundtrip' % name, rt)
        emit(name, 'relocked', state(key))

        # reload from export
        k2 = pgpy.PGPKey()
        k2.parse(exported)
        emit(name, 'reparsed', state(k2))

        def rt2():
            with k2.unlock(pw):
                return [a[1] for a in before] == [b[1] for b in secrets(k2)]
        guarded('%s reparsed-roundtrip' % name, rt2)
        guarded('%s reparsed-wrong' % name, lambda: k2.unlock('nope').__enter__())
        emit(name, 'reparsed-after', state(k2))

# public keys
pub = load('rsa.1.pub.asc')
guarded('pub protect', lambda: pub.protect('pw', SymmetricKeyAlgorithm.AES256, HashAlgorithm.SHA256))
guarded('pub unlock', lambda: pub.unlock('pw').__enter__() is pub)
emit('pub', state(pub))

# ---- F: error paths of protect ----------------------------------------------
for enc, halg in ((12345, HashAlgorithm.SHA256), (SymmetricKeyAlgorithm.AES256, 12345),
                  (SymmetricKeyAlgorithm.IDEA, HashAlgorithm.SHA256), (SymmetricKeyAlgorithm.Plaintext, HashAlgorithm.SHA1),
                  (9, 8), (None, None), (SymmetricKeyAlgorithm.AES128, HashAlgorithm.MD5)):
    key = load('targette.sec.rsa.asc')
    guarded('protect-bad %r %r' % (enc, halg), lambda: key.protect('pw', enc, halg))
    km = key._key.keymaterial
    emit('protect-bad-state', repr(km.s2k.usage), repr(km.s2k._encalg), repr(km.s2k._specifier), repr(km.s2k.iv),
         repr(km.s2k._halg), repr(km.s2k.salt), repr(km.s2k._count), hashlib.sha256(bytes(km.encbytes)).hexdigest(),
         [int(getattr(km, f)) for f in km.__privfields__] == [0] * len(km.__privfields__))
guarded('protect-None-pass', lambda: load('targette.sec.rsa.asc').protect(None, SymmetricKeyAlgorithm.AES128, HashAlgorithm.SHA1))

# ---- E: foreign S2K forms built by hand: usage 255 / 254, simple / salted / iterated
for name in ('rsa.1.sec.asc', 'dsa.1.sec.asc', 'ecc.1.sec.asc', 'ecc.2.sec.asc'):
    for usage in (255, 254):
        for spec in (String2KeyType.Simple, String2KeyType.Salted, String2KeyType.Iterated):
            for corrupt in (False, True):
                key = load(name)
                want = [s[1] for s in secrets(key)]
                for k in allkeys(key):
                    km = k._key.keymaterial
                    km.s2k.usage = usage
                    km.s2k.encalg = SymmetricKeyAlgorithm.AES128
                    km.s2k.specifier = spec
                    km.s2k.halg = HashAlgorithm.SHA1
                    km.s2k.salt = bytearray(b'\x01\x02\x03\x04\x05\x06\x07\x08')
                    km.s2k.count = 96
                    km.s2k.iv = bytearray(range(16))
                    sk = km.s2k.derive_key('foreign pw')
                    pt = bytearray()
                    for f in km.__privfields__:
                        pt += getattr(km, f).to_mpibytes()
                    if usage == 254:
                        pt += hashlib.sha1(pt).digest()
                    else:
                        pt += (sum(pt) % 65536).to_bytes(2, 'big')
                    if corrupt:
                        pt[-1] ^= 0x40
                    km.encbytes = bytearray(_encrypt(bytes(pt), bytes(sk), km.s2k.encalg, bytes(km.s2k.iv)))
                    km.clear()
                    k._key.update_hlen()
                label = '%s foreign u%d %s corrupt=%s' % (name, usage, spec.name, corrupt)
                emit(label, state(key))

                def opn():
                    with key.unlock('foreign pw'):
                        return ([s[1] for s in secrets(key)] == want, state(key))
                guarded(label + ' open', opn)
                guarded(label + ' wrong', lambda: key.unlock('foreign pW').__enter__())
                emit(label, 'after', state(key))

blob = '\n'.join(OUT).encode('utf-8')
if '--dump' in sys.argv:
    sys.stdout.write(blob.decode('utf-8') + '\n')
print('lines=%d digest=%s' % (len(OUT), hashlib.sha256(blob).hexdigest()))
