"""Prints a digest of the observable armor behaviour. Run as: cd <tree> && /venv/bin/python equiv.py"""
import glob
import hashlib
import os
import sys
import warnings

sys.path.insert(0, os.getcwd())

import pgpy
from pgpy.types import Armorable

out = []


def rec(*a):
    out.append(repr(a))


def attempt(label, fn, *a):
    with warnings.catch_warnings(record=True) as ws:
        warnings.simplefilter('always')
        try:
            r = fn(*a)
        except BaseException as e:
            r = ('EXC', type(e).__name__, str(e), type(e.__cause__).__name__)
    rec(label, r, [(w.category.__name__, str(w.message), os.path.basename(w.filename)) for w in ws])
    return r


def lcg(n, seed):
    x, b = seed, bytearray()
    for _ in range(n):
        x = (x * 1103515245 + 12345) & 0x7FFFFFFF
        b.append((x >> 16) & 0xFF)
    return b


# ---- crc24 on many inputs and container types
for n in list(range(0, 200)) + [255, 256, 257, 1000, 4097]:
    for pay in (bytes(n), b'\xff' * n, bytes(lcg(n, n + 1))):
        rec('crc', n, Armorable.crc24(pay), Armorable.crc24(bytearray(pay)), Armorable.crc24(list(pay)),
            Armorable.crc24(memoryview(pay)), Armorable.crc24(iter(pay)), Armorable.crc24(tuple(pay)))


class OddBytes(bytes):
    def __iter__(self):
        return iter([1, 2, 300, 70000])


for bad in ('abc', None, 5, [1, 'x'], [300, 2, 70000], [-1, 2], [1.5], OddBytes(b'xyz'), [True, False], range(300)):
    attempt('crc-odd %r' % (bad,), Armorable.crc24, bad)

# ---- is_ascii / is_armor
for t in ('', 'abc\r\n\t~ ', 'caf\xe9', b'', b'abc\n', b'\x00abc', bytearray(b'abc'), bytearray(b'\xff'), 'a\x7f', 'x\n', '\n\n',
          None, 5, memoryview(b'abc')):
    lbl = type(t).__name__ + ':' + (repr(bytes(t)) if isinstance(t, memoryview) else repr(t))
    attempt('is_ascii ' + lbl, Armorable.is_ascii, t)
    attempt('is_armor ' + lbl, Armorable.is_armor, t)

# ---- fixtures: unarmor, load, re-armor
files = sorted(glob.glob('tests/testdata/blocks/*.asc') + glob.glob('tests/testdata/keys/*.asc') +
               glob.glob('tests/testdata/messages/*.asc') + glob.glob('tests/testdata/signatures/*.asc') +
               glob.glob('tests/testdata/*.asc') + glob.glob('tests/testdata/*.txt'))


def norm(d):
    if isinstance(d, dict):
        return [(k, type(v).__name__, (list(v.items()) if hasattr(v, 'items') else v)) for k, v in d.items()]
    return d


def load(cls, blob):
    r = cls.from_blob(blob)
    o = r[0] if isinstance(r, tuple) else r
    return (type(r).__name__, str(o), bytes(o).hex(), list(o.ascii_headers.items()), o.magic)


def loadf(cls, fn):
    r = cls.from_file(fn)
    o = r[0] if isinstance(r, tuple) else r
    return (type(r).__name__, str(o), o.magic)


for fn in files:
    with open(fn, 'rb') as f:
        raw = f.read()
    txt = raw.decode('latin-1')
    rec(fn, Armorable.is_armor(txt), Armorable.is_ascii(txt), Armorable.is_ascii(raw))
    for variant, v in (('str', txt), ('bytes', raw), ('bytearray', bytearray(raw)), ('crlf', txt.replace('\n', '\r\n')),
                       ('wrapped', 'leading junk\n\n' + txt + '\ntrailing junk\n')):
        attempt(fn + ' unarmor ' + variant, lambda v=v: norm(Armorable.ascii_unarmor(v)))
    for cls in (pgpy.PGPKey, pgpy.PGPMessage, pgpy.PGPSignature):
        attempt(fn + ' load ' + cls.__name__, load, cls, txt)
        attempt(fn + ' loadb ' + cls.__name__, load, cls, raw)
        attempt(fn + ' loadf ' + cls.__name__, loadf, cls, fn)

# ---- corruptions of one small block: every single-character change of body / crc line
with open('tests/testdata/blocks/rsasignature.asc') as f:
    sig = f.read()
lines = sig.split('\n')
start = next(i for i, l in enumerate(lines) if l == '') + 1
end = next(i for i, l in enumerate(lines) if l.startswith('-----END'))
for li in range(start, end):
    for ci in range(len(lines[li])):
        for ch in ('A', 'z', '=', '!', ' '):
            if lines[li][ci] == ch:
                continue
            mod = list(lines)
            mod[li] = lines[li][:ci] + ch + lines[li][ci + 1:]
            attempt('corrupt %d %d %s' % (li, ci, ch), load, pgpy.PGPSignature, '\n'.join(mod))

# ---- headers round trip
s = pgpy.PGPSignature.from_blob(sig)
s.ascii_headers['Comment'] = 'hello: world'
s.ascii_headers['Version'] = 'x 1.0'
s.charset = 'latin1'
attempt('hdr', lambda: (str(s), load(pgpy.PGPSignature, str(s))))
attempt('empty', Armorable.ascii_unarmor, '')
attempt('none', Armorable.ascii_unarmor, None)
attempt('nonarmor ascii', Armorable.ascii_unarmor, 'just text\n')
attempt('binary', lambda: norm(Armorable.ascii_unarmor(b'\x00\x01\xff')))
attempt('binary ba', lambda: norm(Armorable.ascii_unarmor(bytearray(b'\x00\x01\xff'))))
attempt('badb64', lambda: norm(Armorable.ascii_unarmor(
    '-----BEGIN PGP MESSAGE-----\n\nA\n=AAAA\n-----END PGP MESSAGE-----\n')))
attempt('badb64-2', lambda: norm(Armorable.ascii_unarmor(
    '-----BEGIN PGP MESSAGE-----\nVersion: 1\nFoo: bar: baz\n\nAAA=A\nAA==\n=AAAA\n-----END PGP MESSAGE-----')))
attempt('mismatch tail', Armorable.ascii_unarmor,
        '-----BEGIN PGP MESSAGE-----\n\nAAAA\n=AAAA\n-----END PGP SIGNATURE-----\n')
attempt('from_blob types', lambda: [attempt('fb', load, pgpy.PGPSignature, x) for x in (5, None, memoryview(b'ab'), [1, 2])])

if os.environ.get("EQ_DUMP"):
    open(os.environ["EQ_DUMP"], "w").write("\n".join(out))
print(hashlib.sha256('\n'.join(out).encode('utf-8', 'backslashreplace')).hexdigest(), len(out))
