"""Digest of the observable behaviour of SubPackets (parse / lookup / iteration / hashed octets) and of
signature verification that depends on it.  Run as: cd <tree> && /venv/bin/python equiv.py"""
import os
import sys
sys.path.insert(0, os.getcwd())

import copy
import glob
import hashlib
import re
import warnings

warnings.simplefilter('ignore')

import pgpy
from pgpy.packet.fields import SubPackets

out = []


def emit(*a):
    out.append(' | '.join(str(x) for x in a))


def noid(s):
    return re.sub(r'0x[0-9a-fA-F]+', '0x?', str(s))


def attempt(label, fn):
    try:
        r = fn()
        emit(label, 'ok', noid(r))
        return r
    except Exception as e:
        emit(label, 'EXC', type(e).__name__, noid(e))


NAMES = ['CreationTime', 'h_CreationTime', 'Issuer', 'h_Issuer', 'IssuerFingerprint', 'h_IssuerFingerprint',
         'KeyFlags', 'h_KeyFlags', 'NotationData', 'h_NotationData', 'PrimaryUserID', 'h_PrimaryUserID',
         'Features', 'EmbeddedSignature', 'h_EmbeddedSignature', 'Nope', 'h_', '', 'h_h_Issuer']


def dump_sp(label, sp):
    emit(label, 'len', attempt(label + '.len', lambda: len(sp)))
    emit(label, 'iter', [type(x).__name__ for x in sp])
    emit(label, 'hashed', bytes(sp.__hashbytearray__()).hex())
    emit(label, 'unhashed', bytes(sp.__unhashbytearray__()).hex())
    emit(label, 'all', bytes(sp.__bytearray__()).hex())
    emit(label, 'raw', None if sp._hashed_raw is None else bytes(sp._hashed_raw).hex())
    emit(label, 'hkeys', list(sp._hashed_sp.keys()), 'ukeys', list(sp._unhashed_sp.keys()))
    for n in NAMES:
        emit(label, 'get', n, [bytes(x.__bytearray__()).hex() for x in sp[n]], 'in', n in sp)
    emit(label, 'get-tuple', type(sp[('Issuer', 0)]).__name__, type(sp[('CreationTime', 0)]).__name__,
         type(sp[('Nope', 3)]).__name__)
    attempt(label + '.get-int', lambda: sp[5])
    attempt(label + '.contains-list', lambda: [] in sp)
    attempt(label + '.contains-int', lambda: 5 in sp)
    c = copy.copy(sp)
    emit(label, 'copy', bytes(c.__bytearray__()).hex(), c._hashed_raw == sp._hashed_raw)


def sigs_of(key):
    for s in key.__sig__:
        yield 'direct', s
    for u in key.userids + key.userattributes:
        for s in u.__sig__:
            yield 'uid', s
    for sk in key.subkeys.values():
        for s in sk.__sig__:
            yield 'subkey', s


keys = {}
for path in sorted(glob.glob('tests/testdata/keys/*.asc')) + sorted(glob.glob('tests/testdata/signatures/*.key.asc')):
    if '.enc.' in path:
        continue
    key, _ = pgpy.PGPKey.from_file(path)
    keys[os.path.basename(path)] = key
    for i, (kind, s) in enumerate(sigs_of(key)):
        label = '%s#%d(%s)' % (os.path.basename(path), i, kind)
        dump_sp(label, s._signature.subpackets)
        emit(label, 'signer', s.signer, 'type', s.type.name, 'created', s.created, 'fpr', s.signer_fingerprint,
             'flags', sorted(s.key_flags), 'notation', s.notation)
    r = attempt(os.path.basename(path) + '.selfverify', lambda: key.verify(key))
    if r is not None:
        emit(os.path.basename(path), bool(r), len(r), [(int(x.issues), x.signature.type.name) for x in r._subjects])

# detached signatures, right and wrong subject
for base in ('debian-sid', 'ubuntu-precise', 'aptapproval-test'):
    key = keys[base + '.key.asc']
    sig = pgpy.PGPSignature.from_file('tests/testdata/signatures/%s.sig.asc' % base)
    subj = open('tests/testdata/signatures/%s.subj' % base, 'rb').read()
    dump_sp(base + '.sig', sig._signature.subpackets)
    for name, data in (('good', subj), ('tampered', subj + b'x'), ('empty', b'')):
        r = attempt('%s.verify.%s' % (base, name), lambda: key.verify(data, sig))
        if r is not None:
            emit(base, name, bool(r), [int(x.issues) for x in r._subjects])
    emit(base, 'hashdata', hashlib.sha256(sig.hashdata(subj)).hexdigest())
    # round trip through the serialised form
    sig2 = pgpy.PGPSignature.from_blob(bytes(sig))
    emit(base, 'roundtrip', bytes(sig2) == bytes(sig), str(sig2) == str(sig))

# a subpacket container built by hand: raw octets are forgotten, lookups keep working
sp = SubPackets()
emit('new', bytes(sp.__bytearray__()).hex(), list(sp), 'Issuer' in sp, sp['Issuer'], sp['h_Issuer'])
sp.addnew('Issuer', _issuer='0123456789ABCDEF')
sp.addnew('Issuer', hashed=True, _issuer='FEDCBA9876543210')
sp.addnew('Revocable', hashed=True, bflag=False)
dump_sp('manual', sp)
raw = bytearray(sp.__bytearray__())
sp2 = SubPackets()
sp2.parse(bytearray(raw) + b'tail')
dump_sp('reparsed', sp2)
sp2.addnew('Policy', hashed=True, uri='http://example.com')
dump_sp('reparsed+policy', sp2)

# malformed areas
for label, blob in (('short', b'\x00'), ('empty', b''), ('trunc', bytes(raw[:7])), ('badlen', b'\x00\x09\x05\x02' + b'\x00' * 4),
                    ('zero', b'\x00\x00\x00\x00rest')):
    spx = SubPackets()
    buf = bytearray(blob)
    attempt('malformed.' + label, lambda: spx.parse(buf))
    emit('malformed.' + label, 'left', bytes(buf).hex(), 'raw', None if spx._hashed_raw is None else bytes(spx._hashed_raw).hex(),
         [type(x).__name__ for x in spx])

# messages
for path in sorted(glob.glob('tests/testdata/messages/*signed*.asc')):
    msg = pgpy.PGPMessage.from_file(path)
    for s in msg.signatures:
        dump_sp(os.path.basename(path), s._signature.subpackets)
        for kname, key in sorted(keys.items()):
            if s.signer in {key.fingerprint.keyid} | set(key.subkeys):
                r = attempt('%s by %s' % (os.path.basename(path), kname), lambda: key.verify(msg))
                if r is not None:
                    emit(os.path.basename(path), kname, bool(r), [int(x.issues) for x in r._subjects])

blob = '\n'.join(out).encode('utf-8')
print(len(out), hashlib.sha256(blob).hexdigest())
if '-v' in sys.argv:
    print(blob.decode('utf-8'))
