import glob
import hashlib
import os
import sys
import warnings

sys.path.insert(0, os.getcwd())
warnings.simplefilter('ignore')

import pgpy  # noqa: E402
from pgpy.constants import PubKeyAlgorithm  # noqa: E402
from pgpy.decorators import KeyAction  # noqa: E402
from pgpy.errors import PGPError  # noqa: E402

out = []


def rec(*items):
    out.append(' | '.join(str(i) for i in items))


def attempt(label, fn):
    try:
        r = fn()
        rec(label, 'OK', type(r).__name__)
    except Exception as e:  # noqa
        rec(label, type(e).__name__, str(e))


def tags(blob):
    # independent, minimal packet-tag walker (old and new format headers)
    blob = bytes(blob)
    i, res = 0, []
    while i < len(blob):
        h = blob[i]
        if h & 0x40:
            tag = h & 0x3f
            l0 = blob[i + 1]
            if l0 < 192:
                ln, hl = l0, 2
            elif l0 < 224:
                ln, hl = ((l0 - 192) << 8) + blob[i + 2] + 192, 3
            elif l0 == 255:
                ln, hl = int.from_bytes(blob[i + 2:i + 6], 'big'), 6
            else:
                raise ValueError('partial')
        else:
            tag = (h & 0x3c) >> 2
            lt = h & 3
            n = (1, 2, 4)[lt]
            ln, hl = int.from_bytes(blob[i + 1:i + 1 + n], 'big'), 1 + n
        res.append(tag)
        i += hl + ln
    return res


keyfiles = sorted(glob.glob('tests/testdata/keys/*.sec.asc')) + sorted(glob.glob('tests/testdata/keys/*.enc.asc'))
msg = pgpy.PGPMessage.new('equivalence payload', compression=pgpy.constants.CompressionAlgorithm.Uncompressed)

for kf in keyfiles:
    key, _ = pgpy.PGPKey.from_file(kf)
    key.ascii_headers['Comment'] = 'equiv'
    name = os.path.basename(kf)
    states = ['as-loaded']
    for state in states:
        pub = key.pubkey
        rec(name, state, 'is_public', pub.is_public, 'fp', pub.fingerprint, key.fingerprint == pub.fingerprint)
        rec(name, 'magic', pub.magic, key.magic)
        b = bytes(pub)
        rec(name, 'pub-bytes', hashlib.sha256(b).hexdigest(), len(b), tags(b))
        rec(name, 'pub-str', hashlib.sha256(str(pub).encode()).hexdigest())
        rec(name, 'priv-bytes', hashlib.sha256(bytes(key)).hexdigest(), tags(bytes(key)))
        rec(name, 'priv-str', hashlib.sha256(str(key).encode()).hexdigest())
        rec(name, 'uids', [u.name for u in pub.userids], [len(u._signatures) for u in pub._uids], len(pub._signatures))
        rec(name, 'subkeys', list(pub.subkeys.keys()), [type(s._key).__name__ for s in pub.subkeys.values()])
        rec(name, 'pkt', type(pub._key).__name__, pub._key.pkalg, pub._key.header.length,
            type(pub._key.keymaterial).__name__, list(pub._key.keymaterial.__pubfields__))
        for sk in [key] + list(key.subkeys.values()):
            pk = sk._key.pubkey()
            rec(name, 'pkt.pubkey', type(pk).__name__, hashlib.sha256(bytes(pk.__bytearray__())).hexdigest(),
                getattr(pk.keymaterial, 'oid', None),
                bytes(pk.keymaterial.kdf.__bytearray__()).hex() if pk.pkalg == PubKeyAlgorithm.ECDH else None)
        # reparse the armored export
        again, _ = pgpy.PGPKey.from_blob(str(pub))
        rec(name, 'reparse', again.is_public, again.fingerprint, hashlib.sha256(bytes(again)).hexdigest())
        # private operations on public objects
        attempt(name + ' pub.sign', lambda: pub.sign('text'))
        attempt(name + ' pub.certify', lambda: pub.certify(pub.userids[0]))
        attempt(name + ' pub.revoke', lambda: pub.revoke(pub))
        attempt(name + ' pub.decrypt', lambda: pub.decrypt(msg))
        attempt(name + ' pub.bind', lambda: pub.bind(pub))
        # private operations on the (possibly locked) private key: only error text is recorded
        if key.is_protected:
            attempt(name + ' locked.sign', lambda: key.sign('text'))
            attempt(name + ' priv.encrypt', lambda: key.encrypt(msg))
            with key.unlock('QwertyUiop'):
                pub2 = key.pubkey
                rec(name, 'unlocked-pub', hashlib.sha256(bytes(pub2)).hexdigest(),
                    hashlib.sha256(str(pub2).encode()).hexdigest())
        else:
            attempt(name + ' priv.encrypt', lambda: key.encrypt(msg))

# direct exercise of KeyAction.check_attributes with fixed stand-in objects


class Obj(object):
    def __init__(self, **kw):
        self.__dict__.update(kw)


ka = KeyAction(is_unlocked=True, is_public=False)
for o in (Obj(is_unlocked=True, is_public=False), Obj(is_unlocked=False, is_public=False),
          Obj(is_unlocked=True, is_public=True), Obj(is_unlocked=False, is_public=True), Obj(is_unlocked=True)):
    attempt('check_attributes %r' % sorted(o.__dict__.items()), lambda: ka.check_attributes(o))

# public files as loaded
for kf in sorted(glob.glob('tests/testdata/keys/*.pub.asc')):
    key, _ = pgpy.PGPKey.from_file(kf)
    rec(os.path.basename(kf), key.pubkey is key, hashlib.sha256(bytes(key)).hexdigest(),
        hashlib.sha256(str(key).encode()).hexdigest())
    attempt(os.path.basename(kf) + ' sign', lambda: key.sign('text'))

text = '\n'.join(out)
if '-v' in sys.argv:
    print(text)
print(hashlib.sha256(text.encode()).hexdigest())
