"""Equivalence probe for the passphrase-protection code paths (property C06).

Run as:  cd <tree> && /venv/bin/python equiv.py
Prints one digest; it must be identical on the unchanged and the refactored tree.
os.urandom is replaced by a deterministic counter stream so that the salt / IV
chosen by encrypt_keyblob (and hence the exported bytes) are reproducible.
"""
import sys
import os
sys.path.insert(0, os.getcwd())

import copy
import glob
import hashlib
import warnings

import pgpy
from pgpy.constants import HashAlgorithm, SymmetricKeyAlgorithm
from pgpy.errors import PGPDecryptionError, PGPError

_ctr = [0]


def _fake_urandom(n):
    out = bytearray()
    while len(out) < n:
        _ctr[0] += 1
        out += hashlib.sha256(b'equiv-%d' % _ctr[0]).digest()
    return bytes(out[:n])


os.urandom = _fake_urandom

log = []


def rec(*a):
    log.append(repr(a))


def secrets_of(key):
    out = []
    for sk in [key] + list(key.subkeys.values()):
        km = sk._key.keymaterial
        out.append(tuple(int(getattr(km, f)) for f in km.__privfields__))
    return out


def state(key):
    return (key.is_protected, key.is_unlocked,
            [(sk._key.protected, sk._key.unlocked) for sk in [key] + list(key.subkeys.values())],
            [int(sk._key.keymaterial.s2k.usage) for sk in [key] + list(key.subkeys.values())])


def try_sign(key):
    try:
        with warnings.catch_warnings(record=True) as w:
            warnings.simplefilter('always')
            sig = key.sign('equiv probe message')
        # signatures carry a timestamp / random nonce -> only record that it verifies
        ok = bool(key.pubkey.verify('equiv probe message', sig))
        return ('signed', ok, [str(x.message) for x in w])
    except Exception as e:  # noqa
        return ('exc', type(e).__name__, str(e))


PASSES = ['QwertyUiop', u'pässwörd ☃', 'x' * 300, b'bytes-pass\xff\x00']
CIPHERS = [SymmetricKeyAlgorithm.AES256, SymmetricKeyAlgorithm.AES128, SymmetricKeyAlgorithm.CAST5,
           SymmetricKeyAlgorithm.Camellia192]
HASHES = [HashAlgorithm.SHA256, HashAlgorithm.SHA1, HashAlgorithm.SHA512, HashAlgorithm.SHA224]

warnings.simplefilter('ignore')

for n, kf in enumerate(sorted(glob.glob('tests/testdata/keys/*.sec.asc'))):
    if 'targette' in kf:
        continue
    key, _ = pgpy.PGPKey.from_file(kf)
    rec('load', kf, state(key))
    orig = secrets_of(key)
    rec('orig', orig)
    pw, ca, ha = PASSES[n % 4], CIPHERS[n % 4], HASHES[n % 4]

    # public half: protect/unlock are no-ops with a warning
    pub = key.pubkey
    with warnings.catch_warnings(record=True) as w:
        warnings.simplefilter('always')
        rec('pub.protect', pub.protect(pw, ca, ha), [str(x.message) for x in w])
    with warnings.catch_warnings(record=True) as w:
        warnings.simplefilter('always')
        with pub.unlock(pw) as u:
            rec('pub.unlock', u is pub)
        rec('pub.unlock.w', [str(x.message) for x in w])

    # unlock on an unprotected key
    with warnings.catch_warnings(record=True) as w:
        warnings.simplefilter('always')
        with key.unlock(pw) as u:
            rec('sec.unlock.unprotected', u is key, secrets_of(key) == orig)
        rec('sec.unlock.unprotected.w', [str(x.message) for x in w], secrets_of(key) == orig)

    try:
        key.protect(pw, ca, ha)
    except Exception as e:  # noqa
        rec('protect.exc', type(e).__name__, str(e))
        continue
    rec('protected', state(key), secrets_of(key))
    exported = bytes(key)
    rec('export', hashlib.sha256(exported).hexdigest(), len(exported), hashlib.sha256(str(key).encode()).hexdigest())
    for sk in [key] + list(key.subkeys.values()):
        km = sk._key.keymaterial
        rec('km', bytes(km.s2k.__bytearray__()), hashlib.sha256(bytes(km.encbytes)).hexdigest(), len(km),
            bytes(km.chksum), sk._key.header.length)
    rec('locked.sign', try_sign(key))

    # re-protect while locked: warning, nothing changes
    with warnings.catch_warnings(record=True) as w:
        warnings.simplefilter('always')
        key.protect('other', SymmetricKeyAlgorithm.AES128, HashAlgorithm.SHA1)
        rec('reprotect.locked', [str(x.message) for x in w], bytes(key) == exported)

    # wrong passphrase
    try:
        with key.unlock('definitely wrong'):
            rec('UNREACHABLE')
    except PGPDecryptionError as e:
        rec('wrong', str(e))
    rec('after.wrong', state(key), secrets_of(key), bytes(key) == exported)

    # right passphrase
    with key.unlock(pw) as u:
        rec('unlocked', u is key, state(key), secrets_of(key) == orig, bytes(key) == exported)
        rec('unlocked.sign', try_sign(key))
    rec('after.scope', state(key), secrets_of(key), bytes(key) == exported)

    # exception inside the scope
    try:
        with key.unlock(pw):
            rec('unlocked2', secrets_of(key) == orig)
            raise KeyError('boom')
    except KeyError as e:
        rec('exc.propagated', str(e))
    rec('after.exc', state(key), secrets_of(key))

    # round trip through export / import, copy
    key2, _ = pgpy.PGPKey.from_blob(str(key))
    rec('reimport', state(key2), secrets_of(key2), bytes(key2) == exported)
    with key2.unlock(pw):
        rec('reimport.unlocked', secrets_of(key2) == orig, state(key2))
        key3 = copy.copy(key2)
        rec('copy.in.scope', state(key3), secrets_of(key3) == orig)
    rec('reimport.after', state(key2), secrets_of(key2))

    # re-protect while unlocked with a new passphrase
    with key.unlock(pw):
        key.protect('second passphrase', SymmetricKeyAlgorithm.AES192, HashAlgorithm.SHA384)
        rec('reprotect.in.scope', state(key), secrets_of(key))
    rec('reprotect.after', state(key), secrets_of(key), hashlib.sha256(bytes(key)).hexdigest())
    try:
        with key.unlock(pw):
            rec('UNREACHABLE')
    except PGPDecryptionError as e:
        rec('old.pass', str(e))
    with key.unlock('second passphrase'):
        rec('new.pass', secrets_of(key) == orig, try_sign(key)[:2])
    rec('final', state(key), secrets_of(key))

# foreign protected fixtures
for kf in sorted(glob.glob('tests/testdata/keys/*.enc.asc')):
    key, _ = pgpy.PGPKey.from_file(kf)
    rec('enc.load', kf, state(key), secrets_of(key), hashlib.sha256(bytes(key)).hexdigest())
    try:
        with key.unlock('nope'):
            rec('UNREACHABLE')
    except PGPDecryptionError as e:
        rec('enc.wrong', str(e), state(key), secrets_of(key))
    with key.unlock('QwertyUiop'):
        rec('enc.unlocked', state(key), hashlib.sha256(repr(secrets_of(key)).encode()).hexdigest())
        rec('enc.sign', try_sign(key)[:2])
        for sk in [key] + list(key.subkeys.values()):
            rec('enc.chk', bytes(sk._key.keymaterial.chksum))
    rec('enc.after', state(key), secrets_of(key), hashlib.sha256(bytes(key)).hexdigest())

# hand-built usage-255 and bad-trailer blobs fed straight to decrypt_keyblob
from pgpy.packet.fields import RSAPriv, DSAPriv, ECDSAPriv, EdDSAPriv, ECDHPriv, ElGPriv  # noqa
from pgpy.packet.types import MPI  # noqa
from pgpy.symenc import _encrypt  # noqa

key, _ = pgpy.PGPKey.from_file('tests/testdata/keys/rsa.1.sec.asc')
km = key._key.keymaterial
vals = [int(getattr(km, f)) for f in km.__privfields__]
km.encrypt_keyblob('pw255', SymmetricKeyAlgorithm.AES128, HashAlgorithm.SHA1)
sesskey = km.s2k.derive_key('pw255')
pt = bytearray()
for v in vals:
    pt += MPI(v).to_mpibytes()
for usage, tail in ((255, None), (255, b'\x00\x00'), (254, b'\x11' * 20)):
    if tail is None:
        tail = bytes(bytearray([(sum(pt) % 65536) >> 8, (sum(pt) % 65536) & 0xff]))
    km.s2k.usage = usage
    km.encbytes = bytearray(_encrypt(bytes(pt + tail), bytes(sesskey), SymmetricKeyAlgorithm.AES128, bytes(km.s2k.iv)))
    try:
        r = km.decrypt_keyblob('pw255')
        rec('manual', usage, r, [int(getattr(km, f)) for f in km.__privfields__] == vals, bytes(km.chksum))
    except PGPDecryptionError as e:
        rec('manual.exc', usage, str(e), [int(getattr(km, f)) for f in km.__privfields__])
    km.clear()
    rec('manual.cleared', [int(getattr(km, f)) for f in km.__privfields__], [type(getattr(km, f)).__name__ for f in km.__privfields__])

if os.environ.get('EQUIV_DUMP'):
    open(os.environ['EQUIV_DUMP'], 'w').write('\n'.join(log))
print(hashlib.sha256('\n'.join(log).encode('utf-8')).hexdigest(), len(log))
