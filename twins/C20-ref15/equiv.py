"""Digest of the observable behaviour of message composition (C20).

Run as: cd <tree> && /venv/bin/python equiv.py
Prints the same digest on the unchanged and on the refactored tree.
"""
import os
import sys
sys.path.insert(0, os.getcwd())

import copy
import glob
import hashlib
import warnings
from datetime import datetime, timezone

import pgpy
from pgpy import PGPKey, PGPMessage
from pgpy.constants import CompressionAlgorithm, HashAlgorithm, PubKeyAlgorithm, SignatureType
from pgpy.packet import Packet
from pgpy.packet.packets import CompressedData, LiteralData, OnePassSignatureV3

warnings.simplefilter('ignore')

out = []


def rec(*items):
    out.append(repr(items))


def attempt(label, fn):
    try:
        rec(label, 'ok', fn())
    except Exception as e:  # type and message are part of the observable behaviour
        rec(label, 'exc', type(e).__name__, str(e))


FIXED = datetime(2020, 2, 3, 4, 5, 6, tzinfo=timezone.utc)
CONTENTS = [b'', b'hello world', b'line one\r\nline two\r\n', bytes(range(256)) * 40, 'grüße ☃'.encode('utf-8'),
            b'\x00' * 5000, b'abc' * 3000]

# 1. compression algorithms directly
for calg in CompressionAlgorithm:
    for data in CONTENTS:
        c = calg.compress(data)
        rec('compress', int(calg), hashlib.sha256(c).hexdigest(), calg.decompress(c) == data,
            c is data, type(c).__name__)
    attempt(('compress-str', int(calg)), lambda: calg.compress('text'))
    attempt(('decompress-bad', int(calg)), lambda: bytes(calg.decompress(b'\x01\x02\x03garbage')))
rec('pickle', [copy.copy(c) is c for c in CompressionAlgorithm], [c.name for c in CompressionAlgorithm])


def walk(data, depth=0):
    # structural description of a packet sequence using PGPy's packet layer
    data = bytearray(data)
    desc = []
    while len(data) > 0:
        pkt = Packet(data)
        item = [depth, type(pkt).__name__, int(pkt.header.tag)]
        if isinstance(pkt, (OnePassSignatureV3, LiteralData)):
            # (lengths of signature packets and of what wraps them depend on random DSA / ECDSA values)
            item.append(pkt.header.length)
        if isinstance(pkt, OnePassSignatureV3):
            item += [pkt.sigtype, pkt.halg, pkt.pubalg, pkt.signer, pkt.nested, bytes(pkt.__bytearray__()).hex()]
        elif isinstance(pkt, LiteralData):
            item += [pkt.format, pkt.filename, pkt.mtime.isoformat(), hashlib.sha256(bytes(pkt._contents)).hexdigest(),
                     type(pkt.contents).__name__]
        elif isinstance(pkt, CompressedData):
            item += [int(pkt.calg), len(pkt.packets)]
            inner = bytearray()
            for p in pkt.packets:
                inner += p.__bytearray__()
            item.append(walk(inner, depth + 1))
        elif int(pkt.header.tag) == 2:
            item += [pkt.sigtype, pkt.halg, pkt.pubalg, pkt.signer]
            if pkt.pubalg in (PubKeyAlgorithm.RSAEncryptOrSign,):
                item.append(hashlib.sha256(bytes(pkt.__bytearray__())).hexdigest())
        desc.append(item)
    return desc


def describe(msg):
    d = [msg.type, msg.is_compressed, msg.is_encrypted, msg.is_signed, msg.is_sensitive, msg.filename,
         sorted(msg.signers), msg.magic]
    if msg.type != 'encrypted':
        m = msg.message
        d += [type(m).__name__, hashlib.sha256(m.encode('utf-8') if isinstance(m, str) else bytes(m)).hexdigest()]
    return d


keys = {}
for name in ('rsa.1', 'dsa.1', 'ecc.1'):
    k, _ = PGPKey.from_file('tests/testdata/keys/%s.sec.asc' % name)
    keys[name] = k

# 2. messages built by PGPMessage.new
variants = []
for content in CONTENTS:
    for comp in CompressionAlgorithm:
        variants.append((content, dict(compression=comp)))
variants += [
    ('unicode ☃ text', {}),
    ('plain text', dict(sensitive=True)),
    ('plain text', dict(format='b')),
    (b'binary\xff\xfe', dict(format='b', compression=CompressionAlgorithm.BZ2)),
    ('grüße'.encode('latin-1'), dict(encoding='latin-1', format='t')),
    ('grüße'.encode('latin-1'), dict(encoding='latin-1')),
    ('cleartext - with dashes\n- second  \nthird\t\n', dict(cleartext=True)),
    (b'bytes cleartext', dict(cleartext=True, encoding='utf-8')),
    ('tests/testdata/lit', dict(file=True)),
    ('tests/testdata/files/literal.1.txt' if os.path.exists('tests/testdata/files/literal.1.txt') else 'README.rst',
     dict(file=True, compression=CompressionAlgorithm.ZLIB)),
    ('README.rst', dict(file=True, sensitive=True)),
    ('no/such/file', dict(file=True)),
    ('x', dict(unknown_option=1)),
]
for content, kw in variants:
    try:
        msg = PGPMessage.new(content, **kw)
    except Exception as e:
        rec('new-exc', repr(content)[:40], sorted(kw), type(e).__name__, str(e))
        continue
    if msg.type == 'literal':
        fromfile = kw.get('file') and os.path.isfile(content)
        rec('mtime-aware', msg._message.mtime.tzinfo is not None)
        if not fromfile:
            msg._message.mtime = FIXED
    rec('new', sorted((k, str(v)) for k, v in kw.items()), describe(msg), msg.ascii_headers.get('Charset'))
    if msg.type == 'literal' and not (kw.get('file') and os.path.isfile(content)):
        raw = bytes(msg)
        rec('bytes', hashlib.sha256(raw).hexdigest(), walk(raw))
        # signers added in several orders, equal and differing times
        for order in (('rsa.1',), ('rsa.1', 'dsa.1'), ('ecc.1', 'rsa.1', 'dsa.1')):
            m2 = copy.copy(msg)
            for i, kn in enumerate(order):
                m2 |= keys[kn].sign(m2, created=FIXED.replace(second=(7 * i) % 3), hash=HashAlgorithm.SHA256)
            raw2 = bytes(m2)
            rec('signed', order, walk(raw2), hashlib.sha256(raw2).hexdigest() if order == ('rsa.1',) else None)
            back = PGPMessage.from_blob(raw2)
            rec('reimport', describe(back), [s.signer for s in back.signatures], [s.signer for s in m2.signatures])
            back2 = PGPMessage.from_blob(str(m2))
            rec('reimport-armor', describe(back2), bytes(back2) == raw2 or 'differs')
            ops = [p for p in m2 if isinstance(p, OnePassSignatureV3)]
            rec('onepass', [(o.signer, o.nested, o.header.length) for o in ops])
    elif msg.type == 'cleartext':
        m2 = copy.copy(msg)
        m2 |= keys['rsa.1'].sign(m2, created=FIXED)
        rec('cleartext', hashlib.sha256(str(m2).encode('utf-8')).hexdigest(), [type(p).__name__ for p in m2])
        back = PGPMessage.from_blob(str(m2))
        rec('cleartext-back', describe(back))

# 3. make_onepass and the one-pass packet codec
sigmsg = PGPMessage.new('to be signed', compression=CompressionAlgorithm.Uncompressed)
for kn in ('rsa.1', 'dsa.1', 'ecc.1'):
    sig = keys[kn].sign(sigmsg, created=FIXED)
    op = sig.make_onepass()
    rec('make_onepass', kn, type(op).__name__, bytes(op.__bytearray__()).hex(), op.nested, op.header.length,
        sorted(k for k in vars(op)))
ops = OnePassSignatureV3()
rec('ops-default', ops._signer, ops.nested, sorted(vars(ops)))
ops.signer = bytearray(b'\x01\xab\xcd\xef\x00\x10\xfe\xff')
rec('ops-signer-bin', ops.signer)
ops.signer = 'aabbccddeeff0011'
rec('ops-signer-str', ops.signer)
attempt('ops-signer-bytes', lambda: setattr(ops, 'signer', b'\x00' * 8))
ops.sigtype = SignatureType.BinaryDocument
ops.halg = 8
ops.pubalg = 17
rec('ops-bytes', bytes(ops.__bytearray__()).hex(), type(ops.signature).__name__)
ops.signer = 'not hex'
attempt('ops-bad-signer', lambda: bytes(ops.__bytearray__()))
attempt('ops-truncated', lambda: Packet(bytearray(b'\xc4\x0d\x03\x00\x08\x01\x01\x02\x03')))

# 4. literal packet codec
lit = LiteralData()
rec('lit-default', lit.format, lit.filename, lit.mtime.tzinfo is not None, bytes(lit._contents))
lit.mtime = 86400 * 365
rec('lit-mtime-int', lit.mtime.isoformat())
lit.mtime = b'\x5e\x00\x00\x01'
rec('lit-mtime-bytes', lit.mtime.isoformat())
lit.mtime = bytearray(b'\x00\x00\x00\x00')
rec('lit-mtime-bytearray', lit.mtime.isoformat())
with warnings.catch_warnings(record=True) as w:
    warnings.simplefilter('always')
    lit.mtime = datetime(2001, 1, 1)
    lit.mtime = 5
    lit.mtime = FIXED
    rec('lit-mtime-warnings', [(x.category.__name__, str(x.message)) for x in w])
attempt('lit-mtime-str', lambda: setattr(lit, 'mtime', 'yesterday'))
attempt('lit-mtime-negative', lambda: setattr(lit, 'mtime', -10 ** 18))
lit.filename = 'näme.txt'
lit._contents = bytearray(b'abc')
lit.update_hlen()
rec('lit-bytes', bytes(lit.__bytearray__()).hex(), bytes(copy.copy(lit).__bytearray__()).hex())

# 5. fixture messages
for path in sorted(glob.glob('tests/testdata/messages/*')):
    try:
        msg = PGPMessage.from_file(path)
    except Exception as e:
        rec('fixture-exc', path, type(e).__name__, str(e))
        continue
    rec('fixture', path, describe(msg), [type(p).__name__ for p in msg], hashlib.sha256(bytes(msg)).hexdigest(),
        hashlib.sha256(str(msg).encode('utf-8')).hexdigest())

attempt('parse-wrong-magic', lambda: PGPMessage.from_file('tests/testdata/keys/rsa.1.pub.asc'))

print(hashlib.sha256('\n'.join(out).encode('utf-8')).hexdigest(), len(out))
if '-v' in sys.argv:
    print('\n'.join(out))
