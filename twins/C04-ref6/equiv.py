"""Behavioural digest for the C04 (ciphertext integrity) decryption code paths.

Run as:  cd <tree> && /venv/bin/python equiv.py
Prints the same digest on the unchanged and on a behaviour-preserving refactored tree.
Everything digested is deterministic: fixture keys / messages, fixed session keys, fixed mutations.
"""
import copy
import glob
import hashlib
import os
import sys
import warnings

sys.path.insert(0, os.getcwd())

import pgpy  # noqa: E402
from pgpy import PGPKey, PGPMessage  # noqa: E402
from pgpy.constants import PubKeyAlgorithm, SymmetricKeyAlgorithm  # noqa: E402
from pgpy.packet.packets import IntegrityProtectedSKEDataV1, PKESessionKeyV3  # noqa: E402
from pgpy.symenc import _encrypt  # noqa: E402

warnings.simplefilter('ignore')

lines = []


def rec(tag, fn):
    try:
        r = fn()
    except BaseException as e:  # noqa: B902
        lines.append('%s -> EXC %s %r' % (tag, type(e).__name__, str(e)))
    else:
        lines.append('%s -> OK %r' % (tag, r))


def show(dmsg):
    m = dmsg.message
    if isinstance(m, (bytes, bytearray)):
        m = bytes(m)
    return (type(dmsg).__name__, dmsg.type, m, bytes(dmsg.__bytes__()))


# --- A. fixture messages x fixture secret keys x passphrases, plus mutations -------------------
keyfiles = sorted(glob.glob('tests/testdata/keys/*.sec.asc'))
msgfiles = sorted(glob.glob('tests/testdata/messages/message.*.asc')) + ['tests/testdata/message.enc.twofish.asc']
keys = [(kf, PGPKey.from_file(kf)[0]) for kf in keyfiles]


def mutations(msg):
    """yield (name, mutated deep copy) for a fixed set of mutations of an encrypted message"""
    yield 'orig', msg
    body = msg._message
    ct = getattr(body, 'ct', None)
    if ct is None:
        return
    n = len(ct)
    for pos in sorted({0, 1, 7, 8, 9, 15, 16, 17, 18, n // 2, n - 23, n - 22, n - 21, n - 20, n - 2, n - 1}):
        if 0 <= pos < n:
            for bit in (0, 7):
                m2 = copy.copy(msg)
                m2._message = copy.copy(body)
                m2._message.header = copy.copy(body.header)
                m2._message.ct = bytearray(ct)
                m2._message.ct[pos] ^= (1 << bit)
                yield 'flip%d.%d' % (pos, bit), m2
    for cut in (0, 1, 10, 18, 21, 22, 23, n // 2, n - 1):
        if 0 <= cut <= n:
            m2 = copy.copy(msg)
            m2._message = copy.copy(body)
            m2._message.header = copy.copy(body.header)
            m2._message.ct = bytearray(ct[:cut])
            yield 'trunc%d' % cut, m2
    m2 = copy.copy(msg)
    m2._message = copy.copy(body)
    m2._message.header = copy.copy(body.header)
    m2._message.ct = bytearray(ct) + bytearray(b'\x00' * 5)
    yield 'extend', m2
    # drop / reverse session key packets
    if len(msg._sessionkeys) > 1:
        m2 = copy.copy(msg)
        m2._sessionkeys = list(reversed(msg._sessionkeys))
        yield 'revsk', m2
        m2 = copy.copy(msg)
        m2._sessionkeys = list(msg._sessionkeys)[1:]
        yield 'dropsk0', m2


for mf in msgfiles:
    msg = PGPMessage.from_file(mf)
    for mname, mm in mutations(msg):
        for kf, key in keys:
            rec('A key %s %s %s' % (os.path.basename(mf), mname, os.path.basename(kf)),
                lambda: show(key.decrypt(mm)))
            for skid, sk in key.subkeys.items():
                rec('A subkey %s %s %s %s' % (os.path.basename(mf), mname, os.path.basename(kf), skid),
                    lambda: show(sk.decrypt(mm)))
        for pw in ('QwertyUiop', 'TheWrongPassword', '', u'QwertyUiop'.encode('utf-8')):
            rec('A pass %s %s %r' % (os.path.basename(mf), mname, pw), lambda: show(mm.decrypt(pw)))


# --- B. PKESessionKeyV3.decrypt_sk on crafted "m" values ---------------------------------------
class FakeCT(object):
    def __init__(self, m):
        self.m = m

    def decrypt(self, *args):
        return self.m


def mk_m(alg, key, csum=None, tail=b''):
    if csum is None:
        csum = sum(bytearray(key)) % 65536
    return bytes(bytearray([alg])) + key + csum.to_bytes(2, 'big') + tail


crafted = []
for alg in sorted(SymmetricKeyAlgorithm):
    try:
        ks = alg.key_size // 8
    except NotImplementedError:
        ks = 16
    key = bytes(bytearray((i * 37 + 11) % 256 for i in range(ks)))
    crafted.append(('good', alg, mk_m(alg, key)))
    crafted.append(('tail', alg, mk_m(alg, key, tail=b'\x01\x02\x03')))
    crafted.append(('badsum', alg, mk_m(alg, key, csum=(sum(bytearray(key)) + 1) % 65536)))
    crafted.append(('swapsum', alg, mk_m(alg, key, csum=int.from_bytes(
        (sum(bytearray(key)) % 65536).to_bytes(2, 'little'), 'big'))))
    crafted.append(('ff', alg, mk_m(alg, b'\xff' * ks)))
    crafted.append(('zero', alg, mk_m(alg, b'\x00' * ks)))
    full = mk_m(alg, key)
    for cut in range(0, len(full)):
        crafted.append(('cut%d' % cut, alg, full[:cut]))
for badalg in (5, 6, 14, 99, 255):
    crafted.append(('badalg', badalg, mk_m(badalg, b'\x01' * 16)))
crafted.append(('empty', None, b''))
crafted.append(('zerokey0', 0, mk_m(0, b'')))

for name, alg, m in crafted:
    for pkalg in (PubKeyAlgorithm.ECDH, PubKeyAlgorithm.ElGamal, PubKeyAlgorithm.DSA):
        pkesk = PKESessionKeyV3()
        pkesk.pkalg = pkalg
        pkesk.ct = FakeCT(m)

        def run():
            symalg, symkey = pkesk.decrypt_sk(object())
            return (symalg, type(symkey).__name__, bytes(symkey))
        rec('B %s %r %s' % (name, alg, pkalg.name), run)


# --- C. IntegrityProtectedSKEDataV1.decrypt on crafted plaintexts ------------------------------
def seipd_plain(alg, data, badmdc=False, badtag=False, badprefix=False, nomdc=False):
    bs = alg.block_size // 8
    iv = bytes(bytearray((i * 13 + 5) % 256 for i in range(bs)))
    rep = iv[-2:]
    if badprefix:
        rep = bytes(bytearray([rep[0] ^ 1, rep[1]]))
    body = iv + rep + data
    tag = b'\xd3\x14'
    h = hashlib.sha1(body + tag).digest()
    if badmdc:
        h = h[:-1] + bytes(bytearray([h[-1] ^ 0x80]))
    if badtag:
        tag = b'\xd3\x15'
    if nomdc:
        return body
    return body + tag + h


for alg in sorted(SymmetricKeyAlgorithm):
    try:
        if not alg.is_supported or alg.is_insecure:
            continue
    except NotImplementedError:
        continue
    key = bytes(bytearray((i * 7 + 3) % 256 for i in range(alg.key_size // 8)))
    data = b'\xcb\x0eb\x00\x00\x00\x00\x00hello, world'
    cases = [
        ('good', seipd_plain(alg, data)),
        ('empty-data', seipd_plain(alg, b'')),
        ('badmdc', seipd_plain(alg, data, badmdc=True)),
        ('badtag', seipd_plain(alg, data, badtag=True)),
        ('badprefix', seipd_plain(alg, data, badprefix=True)),
        ('badboth', seipd_plain(alg, data, badprefix=True, badmdc=True)),
        ('nomdc', seipd_plain(alg, data, nomdc=True)),
    ]
    for n in range(0, 45):
        cases.append(('raw%d' % n, bytes(bytearray((i * 3 + 1) % 256 for i in range(n)))))
    # plaintexts that are *only* a valid MDC trailer over a too-short prefix
    for n in (0, 1, 2, 7, 8, 9, 10, 15, 16, 17, 18):
        pre = bytes(bytearray((i * 5 + 2) % 256 for i in range(n)))
        cases.append(('short%d' % n, pre + b'\xd3\x14' + hashlib.sha1(pre + b'\xd3\x14').digest()))
        pre = b'\xaa' * n
        cases.append(('shortrep%d' % n, pre + b'\xd3\x14' + hashlib.sha1(pre + b'\xd3\x14').digest()))
    for cname, pt in cases:
        for ktype in (bytes, bytearray):
            skd = IntegrityProtectedSKEDataV1()
            skd.ct = _encrypt(pt, key, alg)
            before = bytes(skd.ct)

            def run():
                out = skd.decrypt(ktype(key), alg)
                return (type(out).__name__, bytes(out), bytes(skd.ct) == before)
            rec('C %s %s %s' % (alg.name, cname, ktype.__name__), run)
        skd = IntegrityProtectedSKEDataV1()
        skd.ct = _encrypt(pt, key, alg)
        rec('C wrongkey %s %s' % (alg.name, cname),
            lambda: bytes(skd.decrypt(bytes(bytearray(b ^ 0x55 for b in bytearray(key))), alg)))


blob = '\n'.join(lines).encode('utf-8', 'backslashreplace')
ok = sum(1 for ln in lines if ' -> OK ' in ln)
print('cases=%d ok=%d exc=%d sha256=%s' % (len(lines), ok, len(lines) - ok, hashlib.sha256(blob).hexdigest()))
if os.environ.get('EQUIV_DUMP'):
    with open(os.environ['EQUIV_DUMP'], 'wb') as f:
        f.write(blob)
