import glob
import hashlib
import os
import sys
import warnings

sys.path.insert(0, os.getcwd())
import pgpy  # noqa: E402
from pgpy.types import Armorable  # noqa: E402

warnings.simplefilter('ignore')
h = hashlib.sha256()


def put(*items):
    for it in items:
        if isinstance(it, str):
            it = it.encode('utf-8')
        elif not isinstance(it, (bytes, bytearray)):
            it = repr(it).encode('utf-8')
        h.update(len(it).to_bytes(8, 'big'))
        h.update(bytes(it))


# crc24 on every kind of input it accepts
samples = [b'', b'\x00', b'\xff' * 3, bytes(range(256)) * 5, b'The quick brown fox' * 41]
for s in samples:
    put(Armorable.crc24(s), Armorable.crc24(bytearray(s)), Armorable.crc24(list(s)),
        Armorable.crc24(iter(s)), Armorable.crc24(b for b in s), Armorable.crc24(memoryview(s)))
put(Armorable.crc24([256, 1, 70000, 3]), Armorable.crc24([-1, 5]))
for bad in ('abc', 5, None, [b'a']):
    try:
        Armorable.crc24(bad)
        put('no error')
    except Exception as e:
        put(type(e).__name__, str(e))

# export / import of keys, signatures and messages: armored and binary, blob and file
paths = sorted(glob.glob('tests/testdata/keys/*.asc')) + sorted(glob.glob('tests/testdata/blocks/*key*.asc')) \
    + ['tests/testdata/pubtest.asc', 'tests/testdata/sectest.asc']
for path in paths:
    key, others = pgpy.PGPKey.from_file(path)
    put(path, str(key), bytes(key), sorted(map(repr, others.keys())))
    key.ascii_headers['Comment'] = 'round trip'
    key.ascii_headers['Version'] = 7
    for blob in (str(key), bytes(key), bytearray(bytes(key)), str(key).encode('latin-1')):
        again, more = pgpy.PGPKey.from_blob(blob)
        put(str(again), bytes(again), again.fingerprint, list(again.ascii_headers.items()), len(more))
        put([u.userid if u.is_uid else 'UA' for u in again._uids], [len(u._signatures) for u in again._uids],
            list(again.subkeys), [s.type for s in again._signatures])

for path in sorted(glob.glob('tests/testdata/blocks/*signature*.asc')) + sorted(glob.glob('tests/testdata/signatures/*.asc')):
    try:
        sig = pgpy.PGPSignature.from_file(path)
    except Exception as e:
        put(path, type(e).__name__, str(e))
        continue
    put(path, type(sig).__name__, str(sig), str(pgpy.PGPSignature.from_blob(str(sig))))

for path in sorted(glob.glob('tests/testdata/blocks/message*.asc')) + sorted(glob.glob('tests/testdata/blocks/cleartext*.asc')):
    try:
        msg = pgpy.PGPMessage.from_file(path)
    except Exception as e:
        put(path, type(e).__name__, str(e))
        continue
    put(path, type(msg).__name__, str(msg), bytes(msg), str(pgpy.PGPMessage.from_blob(str(msg))))

# concatenated keys in one binary blob
a, _ = pgpy.PGPKey.from_file('tests/testdata/keys/rsa.1.pub.asc')
b, _ = pgpy.PGPKey.from_file('tests/testdata/keys/ecc.1.pub.asc')
first, rest = pgpy.PGPKey.from_blob(bytes(a) + bytes(b))
put(str(first), [(k, str(v)) for k, v in rest.items()])

for bad in (b'', 'not armor at all', 12):
    try:
        r = pgpy.PGPKey.from_blob(bad)
        put('ok', repr(type(r)))
    except Exception as e:
        put(type(e).__name__, str(e))

print(h.hexdigest())
