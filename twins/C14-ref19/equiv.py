import copy
import glob
import hashlib
import itertools
import os
import sys
import warnings
from datetime import datetime, timezone

sys.path.insert(0, os.getcwd())
import pgpy  # noqa: E402
from pgpy.constants import KeyFlags, HashAlgorithm  # noqa: E402

warnings.simplefilter('ignore')
h = hashlib.sha256()


def put(*items):
    for it in items:
        if isinstance(it, str):
            it = it.encode('utf-8')
        elif not isinstance(it, (bytes, bytearray)):
            it = repr(it).encode('utf-8')
        h.update(len(it).to_bytes(8, 'big'))
        h.update(bytes(it))


def label(u):
    return u.userid if u.is_uid else ('UA' if u.is_ua else 'EMPTY')


def uidfacts(u):
    ss = u.selfsig
    return [label(u), u.is_primary, None if ss is None else bytes(ss), sorted(u.signers),
            [bytes(s) for s in u.third_party_certifications], [bytes(s) for s in u._signatures]]


def lt_matrix(uids):
    out = []
    for a, b in itertools.product(uids, repeat=2):
        try:
            out.append(a.__lt__(b))
        except Exception as e:
            out.append((type(e).__name__, str(e)))
    return out


keys = []
for path in sorted(glob.glob('tests/testdata/**/*.asc', recursive=True)):
    try:
        key, _ = pgpy.PGPKey.from_file(path)
    except Exception:
        continue
    keys.append(key)
    put(path, [uidfacts(u) for u in key._uids], lt_matrix(list(key._uids)), bytes(key))
    again, _ = pgpy.PGPKey.from_blob(bytes(key))
    put([uidfacts(u) for u in again._uids], bytes(again), bytes(copy.copy(key)))

# detached user ids (no parent) and an empty shell compared with attached ones
pool = []
for key in keys:
    for u in key._uids:
        pool.append(u)
        pool.append(copy.copy(u))
pool.append(pgpy.PGPUID())
pool.append(pgpy.PGPUID.new('Nobody', email='nobody@example.com'))
put([uidfacts(u) for u in pool[-2:]], lt_matrix(pool[:40] + pool[-2:]))

# graft user ids of other keys (their signatures become third-party ones) onto one key, in several orders
donors = [copy.copy(u) for key in keys[:12] for u in key._uids]
for order in (donors, list(reversed(donors)), donors[1::2] + donors[0::2]):
    host, _ = pgpy.PGPKey.from_file('tests/testdata/keys/rsa.1.pub.asc')
    for u in order:
        host |= copy.copy(u)
    put([uidfacts(u) for u in host._uids], bytes(host))
    back, _ = pgpy.PGPKey.from_blob(bytes(host))
    put([uidfacts(u) for u in back._uids], bytes(back))

# deterministic self-certifications (RSA, fixed timestamps): primary flags, equal creation times, unsigned uid
sec, _ = pgpy.PGPKey.from_file('tests/testdata/keys/rsa.1.sec.asc')
t0 = datetime(2020, 1, 1, tzinfo=timezone.utc)
t1 = datetime(2021, 1, 1, tzinfo=timezone.utc)
plan = [('A', True, t0), ('B', False, t0), ('C', False, t1), ('D', True, t1), ('E', None, None)]
for name, primary, when in plan:
    u = pgpy.PGPUID.new(name, email=name.lower() + '@example.com')
    if when is None:
        sec.add_uid(u, selfsign=False)
    else:
        sec.add_uid(u, usage={KeyFlags.Sign}, hashes=[HashAlgorithm.SHA256], primary=primary, created=when)
    put([label(x) for x in sec._uids], [x.is_primary for x in sec._uids])
put([uidfacts(u) for u in sec._uids], lt_matrix(list(sec._uids)), bytes(sec), bytes(sec.pubkey))
back, _ = pgpy.PGPKey.from_blob(bytes(sec))
put([uidfacts(u) for u in back._uids], bytes(back), [label(u) for u in back.userids])

print(h.hexdigest())
