import glob
import hashlib
import itertools
import os
import re
import sys
import warnings
from unittest import mock

sys.path.insert(0, os.getcwd())

import pgpy
from pgpy import PGPKey, PGPMessage, PGPSignature
from pgpy.constants import (EllipticCurveOID, PubKeyAlgorithm, SecurityIssues)
from pgpy.types import SignatureVerification

out = []


def emit(*parts):
    out.append(' | '.join(str(p) for p in parts))


def clean(text):
    return re.sub(r'0x[0-9A-Fa-f]+>', '0xID>', str(text))


def entry(e):
    return (int(e.issues), type(e.issues).__name__, e.issues is SecurityIssues.OK,
            e.signature.signer if hasattr(e.signature, 'signer') else repr(e.signature),
            type(e.subject).__name__)


def describe(sv):
    return (bool(sv), len(sv), [entry(e) for e in sv.good_signatures], [entry(e) for e in sv.bad_signatures], repr(sv))


def run(label, fn):
    with warnings.catch_warnings(record=True) as w:
        warnings.simplefilter('always')
        try:
            res = describe(fn())
        except Exception as e:
            res = ('EXC', type(e).__name__, clean(e))
    emit(label, res, [(x.category.__name__, clean(x.message)) for x in w])


# 1. the flag predicate over the whole bit-set
for v in range(1 << 11):
    si = SecurityIssues(v)
    emit('fail', v, si.causes_signature_verify_to_fail, type(si.causes_signature_verify_to_fail).__name__)
emit('fail', 0xFFFF, SecurityIssues(0xFFF).causes_signature_verify_to_fail)

# 2. validate_params over every algorithm and a spread of sizes / curves
sizes = [0, 1, 512, 1024, 2047, 2048, 2049, 3072, 4096, 8192] + list(EllipticCurveOID) + [None, 'x']
for alg in PubKeyAlgorithm:
    for size in sizes:
        try:
            r = alg.validate_params(size)
            emit('vp', alg.name, size, int(r), type(r).__name__, r is SecurityIssues.OK)
        except Exception as e:
            emit('vp', alg.name, size, 'EXC', type(e).__name__, e)

# 3. synthetic SignatureVerification objects
values = [SecurityIssues.OK, SecurityIssues(0), SecurityIssues.WrongSig, SecurityIssues.Revoked,
          SecurityIssues.AsymmetricKeyLengthIsTooShort | SecurityIssues.HashFunctionNotCollisionResistant,
          SecurityIssues.Expired | SecurityIssues.InsecureCurve, SecurityIssues.NoSelfSignature,
          SecurityIssues.Invalid, SecurityIssues.Disabled, SecurityIssues(0xFF), None, 0, False]


def synth(seq):
    sv = SignatureVerification()
    for n, val in enumerate(seq):
        sv.add_sigsubj('sig%d' % n, 'key', 'subj%d' % n, val)
    return sv


def sdescribe(sv):
    def ent(e):
        return (e.issues if not isinstance(e.issues, SecurityIssues) else int(e.issues), type(e.issues).__name__, e.signature, e.subject, e.by)
    return (bool(sv), sv.__nonzero__(), len(sv), [ent(e) for e in sv.good_signatures], [ent(e) for e in sv.bad_signatures],
            repr(sv), 'sig0' in sv, 'subj1' in sv, 'nope' in sv)


for n in range(0, 3):
    for seq in itertools.product(values, repeat=n):
        try:
            emit('sv', [repr(s) for s in seq], sdescribe(synth(seq)))
        except Exception as e:
            emit('sv', [repr(s) for s in seq], 'EXC', type(e).__name__, e)

a = synth([SecurityIssues.OK, SecurityIssues.Revoked])
b = synth([SecurityIssues.WrongSig])
c = a & b
emit('and', c is a, sdescribe(c), sdescribe(b))
a &= a
emit('and-self', sdescribe(a))
try:
    a & 3
except Exception as e:
    emit('and-bad', type(e).__name__, e)
g = c.good_signatures
c.add_sigsubj('late', 'key', 'latesubj', SecurityIssues.OK)
emit('lazy', [e.signature for e in g])

# 4. real verifications with the fixture keys
keys = {}
for fn in sorted(glob.glob('tests/testdata/keys/*.pub.asc') + glob.glob('tests/testdata/keys/targette.pub.rsa.asc')
                 + glob.glob('tests/testdata/signatures/*.key.asc') + ['tests/testdata/pubtest.asc']):
    k, _ = PGPKey.from_file(fn)
    keys[fn] = k

for fn, k in keys.items():
    with warnings.catch_warnings(record=True) as w:
        warnings.simplefilter('always')
        emit('chk', fn, int(k.check_primitives()), int(k.check_management()), int(k.check_soundness()),
             int(k.check_soundness(True)), int(k.is_considered_insecure()),
             [(x.category.__name__, clean(x.message)) for x in w])
    run('selfverify ' + fn, lambda: k.verify(k))
    for uid in k.userids:
        run('uid ' + fn, lambda: k.verify(uid))

for name in ('debian-sid', 'ubuntu-precise', 'aptapproval-test'):
    k = keys['tests/testdata/signatures/%s.key.asc' % name]
    sig = PGPSignature.from_file('tests/testdata/signatures/%s.sig.asc' % name)
    with open('tests/testdata/signatures/%s.subj' % name, 'rb') as f:
        subj = f.read()
    run('detached ' + name, lambda: k.verify(subj, sig))
    run('detached-wrong ' + name, lambda: k.verify(subj + b'x', sig))
    run('detached-none ' + name, lambda: k.verify(None, sig))
    run('nosig ' + name, lambda: k.verify(subj))
    run('badtype ' + name, lambda: k.verify(12, sig))
    run('badsigtype ' + name, lambda: k.verify(subj, 12))
    other = keys['tests/testdata/keys/rsa.1.pub.asc']
    run('wrongkey ' + name, lambda: other.verify(subj, sig))
    # disqualifying / advisory conditions injected through the key's own properties
    for expired, revoked, short in itertools.product([False, True], repeat=3):
        patches = []
        if expired:
            import datetime
            patches.append(mock.patch.object(PGPKey, 'is_expired', property(lambda s: True)))
            patches.append(mock.patch.object(PGPKey, 'expires_at', property(lambda s: datetime.datetime(2001, 1, 1, tzinfo=datetime.timezone.utc))))
        if revoked:
            patches.append(mock.patch.object(PGPKey, 'revocation_signatures', property(lambda s: iter(['r']))))
        if short:
            patches.append(mock.patch.object(PGPKey, 'key_size', property(lambda s: 1024)))
        for p in patches:
            p.start()
        try:
            run('inj %s e=%d r=%d s=%d' % (name, expired, revoked, short), lambda: k.verify(subj, sig))
            run('inj-wrong %s e=%d r=%d s=%d' % (name, expired, revoked, short), lambda: k.verify(subj + b'!', sig))
        finally:
            for p in patches:
                p.stop()

for mfn in sorted(glob.glob('tests/testdata/messages/*signed*.asc') + glob.glob('tests/testdata/blocks/cleartext*.asc')
                  + ['tests/testdata/blocks/message.signed.asc', 'tests/testdata/blocks/message.two_onepass.asc']):
    try:
        msg = PGPMessage.from_file(mfn)
    except Exception as e:
        emit('msg', mfn, 'PARSE-EXC', type(e).__name__)
        continue
    for fn, k in keys.items():
        run('msg %s %s' % (mfn, fn), lambda: k.verify(msg))

# ecc detached signature
sig = PGPSignature.from_file('tests/testdata/signatures/ecc.2.sig.asc')
for fn, k in keys.items():
    run('ecc2 ' + fn, lambda: k.verify("This is a test message", sig))
    run('ecc2-other ' + fn, lambda: k.verify("This is a test message.", sig))

blob = '\n'.join(out).encode('utf-8', 'replace')
print(len(out), hashlib.sha256(blob).hexdigest())
if os.environ.get('EQUIV_DUMP'):
    with open(os.environ['EQUIV_DUMP'], 'wb') as f:
        f.write(blob)
