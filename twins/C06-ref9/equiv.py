"""Behavioural digest for property C06 (passphrase protection of secret keys).

Run as:  cd <tree> && /venv/bin/python equiv.py
Prints a SHA-256 digest over every observable output collected below; the digest must be the
same on the unchanged and on the refactored tree.  All inputs are fixture keys; os.urandom is
replaced by a deterministic stream so that protect() produces reproducible bytes.
"""
import datetime
import hashlib
import os
import sys
import warnings

sys.path.insert(0, os.getcwd())

import pgpy  # noqa: E402
from pgpy.constants import HashAlgorithm, String2KeyType, SymmetricKeyAlgorithm  # noqa: E402
from pgpy.errors import PGPDecryptionError, PGPError  # noqa: E402
from pgpy.packet import Packet  # noqa: E402
from pgpy.symenc import _encrypt  # noqa: E402

OUT = []


def rec(*items):
    OUT.append(' | '.join(str(i) for i in items))


class DetRandom(object):
    def __init__(self):
        self.n = 0

    def __call__(self, size):
        buf = b''
        while len(buf) < size:
            buf += hashlib.sha256(b'C06-equiv-%d' % self.n).digest()
            self.n += 1
        return buf[:size]


_real_urandom = os.urandom


def allkeys(key):
    return [key] + list(key.subkeys.values())


def secrets(key):
    res = []
    for sk in allkeys(key):
        km = sk._key.keymaterial
        res.append((type(km).__name__, tuple(int(getattr(km, f)) for f in km.__privfields__),
                    bytes(km.chksum).hex(), type(km.chksum).__name__))
    return res


def state(key):
    return (key.is_protected, key.is_unlocked,
            [(getattr(sk._key, 'protected', None), getattr(sk._key, 'unlocked', None)) for sk in allkeys(key)],
            [len(sk._key) for sk in allkeys(key)],
            [sk._key.header.length for sk in allkeys(key)])


def try_sign(key):
    with warnings.catch_warnings():
        warnings.simplefilter('ignore')
        try:
            sig = key.sign('C06 equivalence probe', created=datetime.datetime(2020, 1, 2, 3, 4, 5))
        except Exception as e:
            return ('raise', type(e).__name__, str(e))
        ok = bool(key.pubkey.verify('C06 equivalence probe', sig))
        # RSA PKCS#1 v1.5 signatures are deterministic, the others are not
        body = bytes(sig.__sig__).hex() if key.key_algorithm.name.startswith('RSA') else ''
        return ('signed', ok, body)


def load(name):
    key, _ = pgpy.PGPKey.from_file(os.path.join('tests', 'testdata', 'keys', name))
    return key


# ---------------------------------------------------------------------------------------------
# 1. fixture keys that are already protected (usage 254, iterated+salted, CAST5)
for name in ('rsa.1.enc.asc', 'dsa.1.enc.asc'):
    key = load(name)
    exported = bytes(key)
    rec(name, 'initial', state(key), secrets(key), hashlib.sha256(exported).hexdigest())
    rec(name, 'sign-locked', try_sign(key))

    # wrong passphrases of various kinds
    for bad in ('ClearlyTheWrongPassword', '', u'QwértyUiop', b'QwertyUio'):
        try:
            with key.unlock(bad):
                rec(name, 'wrong-pw', repr(bad), 'ENTERED')
        except Exception as e:
            rec(name, 'wrong-pw', repr(bad), type(e).__name__, str(e), type(e) is PGPDecryptionError)
        rec(name, 'after-wrong', state(key), secrets(key), bytes(key) == exported)

    # right passphrase, as str and as bytes
    for good in ('QwertyUiop', b'QwertyUiop'):
        with key.unlock(good) as uk:
            rec(name, 'unlocked', uk is key, state(key), secrets(key), bytes(key) == exported)
            rec(name, 'sign-unlocked', try_sign(key))
        rec(name, 'relocked', state(key), secrets(key), bytes(key) == exported, try_sign(key))

    # exception inside the scope
    try:
        with key.unlock('QwertyUiop'):
            inside = secrets(key)
            raise KeyError('boom')
    except KeyError as e:
        rec(name, 'exc-in-scope', repr(e), inside)
    rec(name, 'after-exc', state(key), secrets(key), bytes(key) == exported)

    # protect() on a locked key only warns
    with warnings.catch_warnings(record=True) as w:
        warnings.simplefilter('always')
        key.protect('x', SymmetricKeyAlgorithm.AES128, HashAlgorithm.SHA256)
    rec(name, 'protect-locked', [(str(i.message), i.category.__name__, os.path.abspath(i.filename) == os.path.abspath(__file__)) for i in w],
        bytes(key) == exported)

    # nested unlock, inner exit re-locks
    with key.unlock('QwertyUiop'):
        with key.unlock('QwertyUiop'):
            rec(name, 'nested-in', state(key))
        rec(name, 'nested-mid', state(key), secrets(key))
    rec(name, 'nested-out', state(key), secrets(key))


# ---------------------------------------------------------------------------------------------
# 2. warnings on public / unprotected keys
for name in ('rsa.1.pub.asc', 'rsa.1.sec.asc', 'ecc.1.pub.asc', 'ecc.1.sec.asc'):
    key = load(name)
    before = bytes(key)
    with warnings.catch_warnings(record=True) as w:
        warnings.simplefilter('always')
        with key.unlock('QwertyUiop') as uk:
            rec(name, 'unlock-noop', uk is key, state(key))
    rec(name, 'unlock-warn', [(str(i.message), i.category.__name__, os.path.abspath(i.filename) == os.path.abspath(__file__)) for i in w],
        bytes(key) == before)
    if key.is_public:
        with warnings.catch_warnings(record=True) as w:
            warnings.simplefilter('always')
            res = key.protect('QwertyUiop', SymmetricKeyAlgorithm.AES256, HashAlgorithm.SHA256)
        rec(name, 'protect-pub', res, [(str(i.message), i.category.__name__, os.path.abspath(i.filename) == os.path.abspath(__file__)) for i in w],
            bytes(key) == before)


# ---------------------------------------------------------------------------------------------
# 3. protect unprotected fixture keys deterministically, export, re-import, unlock
COMBOS = [
    ('rsa.1.sec.asc', 'QwertyUiop', SymmetricKeyAlgorithm.AES256, HashAlgorithm.SHA256),
    ('rsa.1.sec.asc', b'\x00\xffraw bytes', SymmetricKeyAlgorithm.CAST5, HashAlgorithm.SHA1),
    ('dsa.1.sec.asc', u'pässwörd ☃', SymmetricKeyAlgorithm.AES128, HashAlgorithm.SHA512),
    ('ecc.1.sec.asc', 'x' * 300, SymmetricKeyAlgorithm.Camellia256, HashAlgorithm.SHA384),
    ('ecc.2.sec.asc', 'QwertyUiop', SymmetricKeyAlgorithm.AES192, HashAlgorithm.SHA224),
    ('mixed.1.sec.asc', 'QwertyUiop', SymmetricKeyAlgorithm.TripleDES, HashAlgorithm.SHA256),
]
for name, pw, enc, halg in COMBOS:
    tag = '%s/%s/%s' % (name, enc.name, halg.name)
    try:
        key = load(name)
    except Exception as e:
        rec(tag, 'load-failed', type(e).__name__, str(e))
        continue
    orig = secrets(key)
    plain = bytes(key)
    os.urandom = DetRandom()
    try:
        with warnings.catch_warnings(record=True) as w:
            warnings.simplefilter('always')
            res = key.protect(pw, enc, halg)
    except Exception as e:
        rec(tag, 'protect-raised', type(e).__name__, str(e))
        continue
    finally:
        os.urandom = _real_urandom
    exported = bytes(key)
    rec(tag, 'protected', res, [str(i.message) for i in w], state(key), secrets(key),
        hashlib.sha256(exported).hexdigest())
    # no secret integer in the clear
    leaks = []
    for _, ints, _, _ in orig:
        for i in ints:
            if i:
                leaks.append(i.to_bytes((i.bit_length() + 7) // 8, 'big') in exported)
    rec(tag, 'leaks', leaks, plain != exported)
    for sk in allkeys(key):
        s2k = sk._key.keymaterial.s2k
        rec(tag, 's2k', s2k.usage, int(s2k.encalg), int(s2k.specifier), int(s2k.halg), bytes(s2k.salt).hex(),
            bytes(s2k.iv).hex(), s2k.count, bytes(sk._key.keymaterial.encbytes).hex())

    # unlock the very object that was protected
    with key.unlock(pw):
        rec(tag, 'unlock-same', secrets(key) == orig, [s[:2] for s in secrets(key)] == [s[:2] for s in orig],
            secrets(key), state(key), try_sign(key))
    rec(tag, 'relock-same', state(key), secrets(key), bytes(key) == exported, try_sign(key))

    # re-import
    key2, _ = pgpy.PGPKey.from_blob(exported)
    rec(tag, 'reimport', state(key2), secrets(key2), bytes(key2) == exported)
    try:
        with key2.unlock('not the passphrase'):
            rec(tag, 'reimport-wrong', 'ENTERED')
    except Exception as e:
        rec(tag, 'reimport-wrong', type(e).__name__, str(e), state(key2), secrets(key2))
    with key2.unlock(pw):
        rec(tag, 'reimport-unlock', [s[:2] for s in secrets(key2)] == [s[:2] for s in orig], secrets(key2), state(key2))
        # re-protect while unlocked with a new passphrase
        os.urandom = DetRandom()
        try:
            key2.protect('second passphrase', SymmetricKeyAlgorithm.AES256, HashAlgorithm.SHA256)
        finally:
            os.urandom = _real_urandom
        rec(tag, 'reprotect-inside', state(key2), secrets(key2))
    rec(tag, 'reprotect-after', state(key2), secrets(key2), hashlib.sha256(bytes(key2)).hexdigest())
    try:
        with key2.unlock(pw):
            rec(tag, 'old-pw', 'ENTERED')
    except Exception as e:
        rec(tag, 'old-pw', type(e).__name__, str(e))
    with key2.unlock('second passphrase'):
        rec(tag, 'new-pw', [s[:2] for s in secrets(key2)] == [s[:2] for s in orig])
    rec(tag, 'new-pw-after', state(key2), secrets(key2))


# ---------------------------------------------------------------------------------------------
# 4. foreign S2K forms built by hand on the key material: usage 254/255 x simple/salted/iterated
def foreign(km, usage, spec, pw, corrupt=False):
    km = km.__copy__()
    pt = bytearray()
    for f in km.__privfields__:
        pt += getattr(km, f).to_mpibytes()
    if usage == 254:
        pt += hashlib.sha1(bytes(pt)).digest()
    else:
        pt += (sum(pt) % 65536).to_bytes(2, 'big')
    if corrupt:
        pt[-1] ^= 0x01
    km.s2k.usage = usage
    km.s2k.encalg = SymmetricKeyAlgorithm.AES128
    km.s2k.specifier = spec
    km.s2k.halg = HashAlgorithm.SHA1
    km.s2k.salt = bytearray(b'saltsalt')
    km.s2k.count = 96
    km.s2k.iv = bytearray(range(16))
    sk = km.s2k.derive_key(pw)
    km.encbytes = bytearray(_encrypt(bytes(pt), bytes(sk), km.s2k.encalg, bytes(km.s2k.iv)))
    km.clear()
    return km


for name in ('rsa.1.sec.asc', 'dsa.1.sec.asc', 'ecc.1.sec.asc', 'ecc.2.sec.asc'):
    try:
        key = load(name)
    except Exception as e:
        rec(name, 'load-failed', type(e).__name__, str(e))
        continue
    for sk in allkeys(key):
        km0 = sk._key.keymaterial
        want = tuple(int(getattr(km0, f)) for f in km0.__privfields__)
        for usage in (254, 255):
            for spec in (String2KeyType.Simple, String2KeyType.Salted, String2KeyType.Iterated):
                for corrupt in (False, True):
                    tag = '%s/%s/%d/%s/%s' % (name, type(km0).__name__, usage, spec.name, corrupt)
                    km = foreign(km0, usage, spec, 'pass phrase', corrupt)
                    ser = bytes(km.__bytearray__())
                    # round trip through parse
                    km2 = type(km0)()
                    km2.parse(bytearray(ser))
                    rec(tag, 'parsed', bytes(km2.__bytearray__()) == ser, len(km2) == len(ser),
                        tuple(int(getattr(km2, f)) for f in km2.__privfields__), bool(km2.s2k),
                        type(km2.encbytes).__name__, bytes(km2.chksum).hex())
                    for pw in ('pass phrase', 'other'):
                        try:
                            r = km2.decrypt_keyblob(pw)
                            got = tuple(int(getattr(km2, f)) for f in km2.__privfields__)
                            rec(tag, pw, 'ok', r, got == want, got, bytes(km2.chksum).hex(), type(km2.chksum).__name__)
                        except Exception as e:
                            got = tuple(int(getattr(km2, f)) for f in km2.__privfields__)
                            rec(tag, pw, type(e).__name__, str(e), got)
                        km2.clear()
                        rec(tag, pw, 'cleared', tuple(int(getattr(km2, f)) for f in km2.__privfields__),
                            [type(getattr(km2, f)).__name__ for f in km2.__privfields__],
                            bytes(km2.__bytearray__()) == ser)


# ---------------------------------------------------------------------------------------------
# 5. packet fixtures with protected / unprotected secret key material
pdir = os.path.join('tests', 'testdata', 'packets')
for fn in sorted(os.listdir(pdir)):
    if 'privkey' not in fn and 'privsubkey' not in fn:
        continue
    with open(os.path.join(pdir, fn), 'rb') as f:
        data = bytearray(f.read())
    try:
        pkt = Packet(bytearray(data))
    except Exception as e:
        rec(fn, 'parse-raised', type(e).__name__, str(e))
        continue
    km = pkt.keymaterial
    rec(fn, type(pkt).__name__, type(km).__name__, pkt.protected, pkt.unlocked, bytes(pkt.__bytearray__()) == bytes(data),
        len(pkt), pkt.header.length, km.s2k.usage, int(km.s2k.specifier), int(km.s2k.encalg),
        bytes(km.encbytes).hex()[:64], bytes(km.chksum).hex(),
        tuple(int(getattr(km, f)) for f in km.__privfields__))
    if pkt.protected:
        try:
            pkt.unprotect('definitely wrong')
            rec(fn, 'unprotect-wrong', 'NO RAISE')
        except Exception as e:
            rec(fn, 'unprotect-wrong', type(e).__name__, str(e), pkt.unlocked)


# ---------------------------------------------------------------------------------------------
# 6. truncated unprotected secret key material: same exception at the same field
for name in ('rsa.1.sec.asc', 'dsa.1.sec.asc'):
    key = load(name)
    km0 = key._key.keymaterial
    ser = bytes(km0.__bytearray__())
    publen = km0.publen()
    for cut in (publen, publen + 1, publen + 3, publen + 40, len(ser) - 200, len(ser) - 3, len(ser) - 1, len(ser)):
        km = type(km0)()
        buf = bytearray(ser[:cut])
        try:
            km.parse(buf)
            res = ('ok',)
        except Exception as e:
            res = (type(e).__name__, str(e))
        rec(name, 'truncated', cut - publen, res, len(buf),
            tuple(int(getattr(km, f)) for f in km.__privfields__), bytes(km.chksum).hex(), bytes(km.encbytes).hex()[:32])


blob = '\n'.join(OUT).encode('utf-8')
print('records: %d' % len(OUT))
print('digest: %s' % hashlib.sha256(blob).hexdigest())
if '--dump' in sys.argv:
    sys.stdout.write(blob.decode('utf-8') + '\n')
