"""Digest of observable encryption/decryption behaviour (property C03).

Run as:  cd <tree> && /venv/bin/python equiv.py
Prints the same digest on the unchanged and on a behaviour-preserving tree.
Only deterministic observables are digested (random ciphertext is only
observed through its length and through what it decrypts to).
"""
import glob
import hashlib
import os
import sys
import warnings

sys.path.insert(0, os.getcwd())

import pgpy  # noqa: E402
from pgpy import PGPKey, PGPMessage  # noqa: E402
from pgpy.constants import (CompressionAlgorithm, EllipticCurveOID, HashAlgorithm,  # noqa: E402
                            PubKeyAlgorithm, SymmetricKeyAlgorithm)
from pgpy.packet.fields import ECKDF  # noqa: E402
from pgpy.packet.packets import IntegrityProtectedSKEDataV1, PKESessionKeyV3, SKESessionKeyV4  # noqa: E402
from pgpy.symenc import _decrypt, _encrypt  # noqa: E402

warnings.simplefilter('ignore')

out = []


def rec(*a):
    out.append(repr(a))


def attempt(label, fn):
    try:
        r = fn()
    except Exception as e:  # noqa
        rec(label, 'EXC', type(e).__name__, str(e))
        return None
    rec(label, 'OK', r)
    return r


def msgdesc(m):
    body = m.message
    if isinstance(body, str):
        body = body.encode('utf-8')
    return (m.type, hashlib.sha256(bytes(body)).hexdigest(), m.filename, m.is_compressed,
            m.is_signed, len(m.signatures), m.is_encrypted)


KEYDIR = 'tests/testdata/keys'
MSGDIR = 'tests/testdata/messages'

seckeys = {}
for f in sorted(glob.glob(os.path.join(KEYDIR, '*.sec*.asc')) + glob.glob(os.path.join(KEYDIR, '*.enc.asc'))):
    k, _ = PGPKey.from_file(f)
    seckeys[os.path.basename(f)] = k
pubkeys = {}
for f in sorted(glob.glob(os.path.join(KEYDIR, '*.pub*.asc'))):
    k, _ = PGPKey.from_file(f)
    pubkeys[os.path.basename(f)] = k

# ---- 1. low-level CFB ---------------------------------------------------------
ciphers = [c for c in SymmetricKeyAlgorithm]
for c in ciphers:
    def enc(c=c):
        key = bytes(bytearray(range(c.key_size // 8)))
        res = []
        for pt in (b'', b'a', b'0123456789abcdef' * 5 + b'xyz'):
            ct = _encrypt(pt, key, c)
            iv = bytes(bytearray(range(100, 100 + c.block_size // 8)))
            ct2 = _encrypt(pt, key, c, iv)
            res.append((type(ct).__name__, bytes(ct).hex(), bytes(ct2).hex(),
                        bytes(_decrypt(bytes(ct), key, c)) == pt, bytes(_decrypt(bytes(ct2), key, c, iv)) == pt,
                        type(_decrypt(bytes(ct), key, c)).__name__))
        return res
    attempt(('cfb', c.name), enc)

    def dec(c=c):
        key = bytes(bytearray(range(c.key_size // 8)))
        return bytes(_decrypt(b'\x01\x02\x03' * 11, key, c)).hex()
    attempt(('cfb-dec', c.name), dec)
attempt(('cfb-badkey',), lambda: _encrypt(b'abc', b'short', SymmetricKeyAlgorithm.AES128))
attempt(('cfb-badkey-dec',), lambda: _decrypt(b'abc', b'short', SymmetricKeyAlgorithm.AES128))

# ---- 2. compression ------------------------------------------------------------
for ca in CompressionAlgorithm:
    for data in (b'', b'hello world' * 50, bytes(bytearray(range(256)))):
        def comp(ca=ca, data=data):
            z = ca.compress(data)
            return (hashlib.sha256(z).hexdigest(), ca.decompress(z) == data)
        attempt(('comp', ca.name, len(data)), comp)
    attempt(('decomp-bad', ca.name), lambda ca=ca: ca.decompress(b'\x00\x01garbage'))

# ---- 3. RFC 6637 KDF ----------------------------------------------------------
for halg in (HashAlgorithm.SHA256, HashAlgorithm.SHA384, HashAlgorithm.SHA512):
    for ealg in (SymmetricKeyAlgorithm.AES128, SymmetricKeyAlgorithm.AES192, SymmetricKeyAlgorithm.AES256):
        for oid in (EllipticCurveOID.NIST_P256, EllipticCurveOID.NIST_P384, EllipticCurveOID.NIST_P521,
                    EllipticCurveOID.Curve25519):
            def kdf(halg=halg, ealg=ealg, oid=oid):
                k = ECKDF()
                k.halg = halg
                k.encalg = ealg
                return (bytes(k.__bytearray__()).hex(),
                        k.derive_key(b'\x42' * 32, oid, PubKeyAlgorithm.ECDH,
                                     pgpy.types.Fingerprint('ABCD EF01 2345 6789 ABCD  EF01 2345 6789 ABCD EF01')).hex())
            attempt(('kdf', halg.name, ealg.name, oid.name), kdf)

# ---- 4. fixture messages: every key / passphrase -----------------------------
for mf in sorted(glob.glob(os.path.join(MSGDIR, 'message*.asc'))):
    def load(mf=mf):
        return PGPMessage.from_file(mf)
    try:
        m = load()
    except Exception as e:  # noqa
        rec('load', mf, type(e).__name__)
        continue
    rec('msg', os.path.basename(mf), m.type, sorted(m.encrypters), m.is_encrypted)
    for pw in ('QwertyUiop', 'wrong passphrase', ''):
        attempt(('pwdec', os.path.basename(mf), pw), lambda m=m, pw=pw: msgdesc(m.decrypt(pw)))
    for kn, k in sorted(seckeys.items()):
        def kd(m=m, k=k):
            if k.is_protected:
                for pw in ('QwertyUiop',):
                    try:
                        with k.unlock(pw):
                            return msgdesc(k.decrypt(m))
                    except pgpy.errors.PGPDecryptionError:
                        raise
            return msgdesc(k.decrypt(m))
        attempt(('keydec', os.path.basename(mf), kn), kd)

# ---- 5. round trips with fixed session keys -----------------------------------
bodies = [('empty', b''), ('text', 'This message will have been encrypted'), ('bin', bytes(bytearray(range(256))) * 9)]
enc_ciphers = [SymmetricKeyAlgorithm.TripleDES, SymmetricKeyAlgorithm.CAST5, SymmetricKeyAlgorithm.Blowfish,
               SymmetricKeyAlgorithm.AES128, SymmetricKeyAlgorithm.AES192, SymmetricKeyAlgorithm.AES256,
               SymmetricKeyAlgorithm.Camellia128, SymmetricKeyAlgorithm.Camellia192, SymmetricKeyAlgorithm.Camellia256,
               SymmetricKeyAlgorithm.IDEA, SymmetricKeyAlgorithm.Twofish256, SymmetricKeyAlgorithm.Plaintext]

for bn, body in bodies:
    for comp in CompressionAlgorithm:
        for c in enc_ciphers:
            def rt(body=body, comp=comp, c=c):
                msg = PGPMessage.new(body, compression=comp, file=False)
                sk = bytes(bytearray(range(7, 7 + c.key_size // 8)))
                e1 = msg.encrypt('QwertyUiop', sessionkey=sk, cipher=c, hash=HashAlgorithm.SHA1)
                e2 = e1.encrypt('AsdfGhjkl', sessionkey=sk, cipher=c)
                e2 = PGPMessage.from_blob(str(e2))
                res = [e2.type, [type(p).__name__ for p in e2._sessionkeys]]
                for pw in ('QwertyUiop', 'AsdfGhjkl'):
                    res.append(msgdesc(e2.decrypt(pw)))
                try:
                    e2.decrypt('nope')
                except Exception as e:  # noqa
                    res.append((type(e).__name__, str(e)))
                return res
            if comp is not CompressionAlgorithm.ZIP and c not in (SymmetricKeyAlgorithm.AES256, SymmetricKeyAlgorithm.CAST5) and bn != 'text':
                continue
            attempt(('rt-pass', bn, comp.name, c.name), rt)

for kn, pub in sorted(pubkeys.items()):
    base = kn.replace('.pub', '.sec')
    sec = seckeys.get(base)
    recips = [pub] + [sk for _, sk in sorted(pub.subkeys.items())]
    for ri, r in enumerate(recips):
        for bn, body in bodies:
            for c in (SymmetricKeyAlgorithm.AES256, SymmetricKeyAlgorithm.TripleDES, SymmetricKeyAlgorithm.Camellia192,
                      SymmetricKeyAlgorithm.IDEA):
                def rtk(r=r, body=body, c=c, sec=sec):
                    msg = PGPMessage.new(body, compression=CompressionAlgorithm.ZLIB, file=False)
                    sk = bytes(bytearray(range(9, 9 + c.key_size // 8)))
                    e = r.encrypt(msg, sessionkey=sk, cipher=c)
                    e = e.encrypt('pw', sessionkey=sk, cipher=c)
                    e = PGPMessage.from_blob(bytes(e))
                    res = [e.type, sorted(e.encrypters), [type(p).__name__ for p in e._sessionkeys],
                           msgdesc(e.decrypt('pw'))]
                    if sec is not None:
                        if sec.is_protected:
                            with sec.unlock('QwertyUiop'):
                                res.append(msgdesc(sec.decrypt(e)))
                        else:
                            res.append(msgdesc(sec.decrypt(e)))
                    return res
                if bn != 'text' and c is not SymmetricKeyAlgorithm.AES256:
                    continue
                attempt(('rt-key', kn, ri, r.key_algorithm.name, bn, c.name), rtk)

# ---- 6. packet-level with deterministic randomness ----------------------------
_real_urandom = os.urandom
_ctr = [0]


def fake_urandom(n):
    _ctr[0] += 1
    return hashlib.shake_128(b'seed%d' % _ctr[0]).digest(n)


os.urandom = fake_urandom
try:
    for c in enc_ciphers:
        def seipd(c=c):
            key = bytes(bytearray(range(3, 3 + c.key_size // 8)))
            res = []
            for data in (b'', b'x' * 5, b'\xcb\x10b\x00\x00\x00\x00\x00hello' * 20):
                p = IntegrityProtectedSKEDataV1()
                p.encrypt(key, c, data)
                q = IntegrityProtectedSKEDataV1()
                q.ct = bytearray(p.ct)
                res.append((bytes(p.__bytearray__()).hex(), bytes(q.decrypt(key, c)) == data, type(q.decrypt(key, c)).__name__))
                # tamper: flip a bit in the body, in the MDC and in the prefix
                for pos in (0, len(q.ct) // 2, len(q.ct) - 1, (c.block_size // 8)):
                    t = IntegrityProtectedSKEDataV1()
                    t.ct = bytearray(p.ct)
                    t.ct[pos] ^= 0x40
                    try:
                        res.append(('tamper-ok', bytes(t.decrypt(key, c)).hex()))
                    except Exception as e:  # noqa
                        res.append((type(e).__name__, str(e)))
            # wrong key
            try:
                res.append(bytes(q.decrypt(bytes(len(key)), c)).hex())
            except Exception as e:  # noqa
                res.append((type(e).__name__, str(e)))
            return res
        attempt(('seipd', c.name), seipd)

        def skesk(c=c):
            res = []
            for h in (HashAlgorithm.SHA1, HashAlgorithm.SHA256, HashAlgorithm.SHA512):
                s = SKESessionKeyV4()
                s.s2k.usage = 255
                s.s2k.specifier = 3
                s.s2k.halg = h
                s.s2k.encalg = c
                s.s2k.count = 96
                sk = bytes(bytearray(range(1, 1 + c.key_size // 8)))
                s.encrypt_sk('pass phrase', sk)
                raw = bytes(s.__bytearray__())
                s2 = SKESessionKeyV4()
                s2.s2k = s.s2k
                s2.ct = bytearray(s.ct)
                alg, k = s2.decrypt_sk('pass phrase')
                res.append((raw.hex(), alg.name, bytes(k) == sk, type(k).__name__))
                try:
                    a2, k2 = s2.decrypt_sk('other')
                    res.append((a2.name, bytes(k2).hex()))
                except Exception as e:  # noqa
                    res.append((type(e).__name__, str(e)))
            return res
        attempt(('skesk', c.name), skesk)
finally:
    os.urandom = _real_urandom

# PKESK: encrypt_sk / decrypt_sk
for kn, pub in sorted(pubkeys.items()):
    sec = seckeys.get(kn.replace('.pub', '.sec'))
    if sec is None:
        continue
    pairs = [(pub, sec)] + [(pub.subkeys[i], sec.subkeys[i]) for i in sorted(pub.subkeys) if i in sec.subkeys]
    for pk, sk_ in pairs:
        for c in (SymmetricKeyAlgorithm.AES128, SymmetricKeyAlgorithm.AES256, SymmetricKeyAlgorithm.CAST5):
            for symkey in (bytes(bytearray(range(c.key_size // 8))), b'\xff' * (c.key_size // 8),
                           bytearray(b'\x80' * (c.key_size // 8))):
                def pkesk(pk=pk, sk_=sk_, c=c, symkey=symkey):
                    p = PKESessionKeyV3()
                    p.encrypter = bytearray.fromhex(pk.fingerprint.keyid)
                    p.pkalg = pk.key_algorithm
                    p.encrypt_sk(pk._key, c, symkey)
                    raw = bytes(p.__bytearray__())
                    ctx = sk_.unlock('QwertyUiop') if sk_.is_protected else None
                    if ctx is not None:
                        with ctx:
                            alg, k = p.decrypt_sk(sk_._key)
                    else:
                        alg, k = p.decrypt_sk(sk_._key)
                    return (len(raw) == p.header.length + len(p.header), alg.name, type(k).__name__, bytes(k) == bytes(symkey))
                attempt(('pkesk', kn, pk.fingerprint.keyid, pk.key_algorithm.name, c.name, bytes(symkey[:1]).hex()), pkesk)

blob = '\n'.join(out).encode('utf-8')
if '-v' in sys.argv:
    sys.stdout.write('\n'.join(out) + '\n')
print('entries', len(out))
print('digest', hashlib.sha256(blob).hexdigest())
