"""Behavioural digest of the signing path (PGPKey.sign/certify/revoke/revoker/bind -> _sign ->
PGPSignature.hashdata -> key material sign -> *Signature.from_signer -> SignatureV4 serialisation).

Run as:  cd <tree> && /venv/bin/python equiv.py
Prints one sha256 digest; it must be the same on the unchanged and on the refactored tree.
Only deterministic observables are digested: the hashed octets, the hashed part of the packet, hash2,
verification verdicts, exception types, and (for the deterministic algorithms RSA PKCS#1 v1.5 and
Ed25519) the complete signature packets.
"""
import hashlib
import os
import sys
import warnings
from datetime import datetime, timedelta, timezone

sys.path.insert(0, os.getcwd())
warnings.simplefilter('ignore')

import pgpy  # noqa: E402
from pgpy.constants import (CompressionAlgorithm, HashAlgorithm, KeyFlags, KeyServerPreferences,  # noqa: E402
                            PubKeyAlgorithm, RevocationReason, SignatureType, SymmetricKeyAlgorithm)

T0 = datetime(2020, 1, 2, 3, 4, 5, tzinfo=timezone.utc)
KEYS = ['rsa.1', 'dsa.1', 'ecc.1', 'ecc.2']
DETERMINISTIC = {PubKeyAlgorithm.RSAEncryptOrSign, PubKeyAlgorithm.EdDSA}

out = hashlib.sha256()
lines = []


def emit(label, value):
    if isinstance(value, (bytes, bytearray)):
        value = hashlib.sha256(bytes(value)).hexdigest()
    line = '{}={}'.format(label, value)
    lines.append(line)
    out.update(line.encode('utf-8') + b'\n')


def load(name, kind='sec'):
    key, _ = pgpy.PGPKey.from_file('tests/testdata/keys/{}.{}.asc'.format(name, kind))
    return key


def observe(label, signer, verifier, subject, sig, verify_subject=None):
    pkt = sig._signature
    emit(label + '.type', int(sig.type))
    emit(label + '.halg', int(sig.hash_algorithm))
    emit(label + '.hashdata', sig.hashdata(subject))
    emit(label + '.hashed_sp', pkt.subpackets.__hashbytearray__())
    emit(label + '.unhashed_sp', ','.join(type(sp).__name__ for sp in pkt.subpackets._unhashed_sp.values()))
    emit(label + '.hash2', bytes(pkt.hash2).hex())
    emit(label + '.ser_len_ok', len(bytes(sig)) == len(pkt.header) + pkt.header.length)
    emit(label + '.canon_prefix', bytes(pkt.canonical_bytes()[:1]).hex())
    if signer.key_algorithm in DETERMINISTIC and sig.type != SignatureType.Subkey_Binding:
        emit(label + '.hlen', pkt.header.length)
        emit(label + '.bytes', bytes(sig))
        emit(label + '.canonical', pkt.canonical_bytes())
        emit(label + '.str', str(sig).encode('ascii'))
    # export / re-import / verify
    again = pgpy.PGPSignature.from_blob(bytes(sig))
    emit(label + '.roundtrip', bytes(again) == bytes(sig))
    vs = subject if verify_subject is None else verify_subject
    try:
        res = verifier.verify(vs, again)
        emit(label + '.verify', bool(res))
    except Exception as e:  # noqa
        emit(label + '.verify_exc', type(e).__name__)


def attempt(label, fn):
    try:
        return fn()
    except Exception as e:  # noqa
        emit(label + '.exc', '{}:{}'.format(type(e).__name__, e))
        return None


SUBJECTS = [
    ('empty', b''),
    ('bin', bytes(range(256)) * 3),
    ('lf', 'line one\nline two\n\nline four'),
    ('crlf', 'line one\r\nline two\r\n'),
    ('mixed', 'a\rb\nc\r\nd\n\re'),
    ('utf8', u'grüße ☃ \U0001F600\n'),
]

for name in KEYS:
    sec = load(name)
    pub = load(name, 'pub')
    alg = sec.key_algorithm
    hashes_ = [HashAlgorithm.SHA256, HashAlgorithm.SHA512, HashAlgorithm.SHA1, HashAlgorithm.SHA224, HashAlgorithm.SHA384]
    if alg == PubKeyAlgorithm.DSA:
        hashes_ = [HashAlgorithm.SHA256, HashAlgorithm.SHA512]

    # documents
    for sname, subj in SUBJECTS:
        for h in hashes_:
            lab = '{}.doc.{}.{}'.format(name, sname, h.name)
            sig = attempt(lab, lambda: sec.sign(subj, hash=h, created=T0))
            if sig is not None:
                observe(lab, sec, pub, subj, sig)

    # cleartext / message objects
    for sname, subj in SUBJECTS[2:]:
        lab = '{}.cleartext.{}'.format(name, sname)
        msg = pgpy.PGPMessage.new(subj, cleartext=True)
        sig = attempt(lab, lambda: sec.sign(msg, created=T0))
        if sig is not None:
            observe(lab, sec, pub, msg._signed_data, sig, verify_subject=None)
    lab = name + '.message'
    msg = pgpy.PGPMessage.new(b'message body \x00\x01', file=False, compression=CompressionAlgorithm.Uncompressed)
    sig = attempt(lab, lambda: sec.sign(msg, created=T0, hash=HashAlgorithm.SHA256))
    if sig is not None:
        observe(lab, sec, pub, msg._signed_data, sig)

    # options
    other = load('rsa.1' if name != 'rsa.1' else 'ecc.2', 'pub')
    optsets = [
        ('default_hash', dict()),
        ('expires_td', dict(expires=timedelta(days=3, seconds=7))),
        ('expires_dt', dict(expires=sec.created + timedelta(days=400))),
        ('notation', dict(notation={'a@example.com': 'text value', 'b@example.com': bytearray(b'\x00\x01\xff'), 'c': u'é'})),
        ('policy', dict(policy_uri='https://example.com/policy')),
        ('nonrevocable', dict(revocable=False)),
        ('revocable_true', dict(revocable=True)),
        ('nofpr', dict(include_issuer_fingerprint=False)),
        ('recipients', dict(intended_recipients=[other, other.fingerprint, 'junk'])),
        ('user', dict(user=sec.userids[0].name)),
        ('all', dict(expires=timedelta(hours=1), notation={'n@x': 'v'}, policy_uri='p', revocable=False,
                     intended_recipients=[other], user=sec.userids[0].name, include_issuer_fingerprint=True)),
        ('baduser', dict(user='nobody at all')),
    ]
    for oname, opts in optsets:
        lab = '{}.opt.{}'.format(name, oname)
        kw = dict(created=T0)
        if oname != 'default_hash':
            kw['hash'] = HashAlgorithm.SHA256
        kw.update(opts)
        sig = attempt(lab, lambda: sec.sign('option subject\n', **kw))
        if sig is not None:
            observe(lab, sec, pub, 'option subject\n', sig)

    # timestamp / standalone
    for oname, opts in [('plain', dict(include_issuer_fingerprint=False)), ('fpr', dict()), ('policy', dict(policy_uri='x'))]:
        lab = '{}.timestamp.{}'.format(name, oname)
        sig = attempt(lab, lambda: sec.sign(None, created=T0, hash=HashAlgorithm.SHA256, **opts))
        if sig is not None:
            observe(lab, sec, pub, None, sig)

    # certifications (self)
    uid = sec.userids[0]
    selfopts = [
        ('bare', dict()),
        ('prefs', dict(usage={KeyFlags.Sign, KeyFlags.Certify},
                       ciphers=[SymmetricKeyAlgorithm.AES256, SymmetricKeyAlgorithm.AES128],
                       hashes=[HashAlgorithm.SHA512, HashAlgorithm.SHA256],
                       compression=[CompressionAlgorithm.ZLIB, CompressionAlgorithm.Uncompressed],
                       key_expiration=timedelta(days=365), keyserver='hkp://keys.example.com',
                       keyserver_flags={KeyServerPreferences.NoModify}, primary=True, exportable=True)),
        ('keyexp_dt', dict(key_expiration=sec.created + timedelta(days=10), primary=False, exportable=False)),
        ('hashes_nohash', dict(hashes=[HashAlgorithm.SHA384])),
    ]
    for level in (SignatureType.Generic_Cert, SignatureType.Persona_Cert, SignatureType.Casual_Cert, SignatureType.Positive_Cert):
        for oname, opts in selfopts:
            lab = '{}.selfcert.{}.{}'.format(name, level.name, oname)
            kw = dict(created=T0, level=level)
            if oname != 'hashes_nohash':
                kw['hash'] = HashAlgorithm.SHA256
            kw.update(opts)
            sig = attempt(lab, lambda: sec.certify(uid, **kw))
            if sig is not None:
                observe(lab, sec, pub, uid, sig)

    # attestation
    third = load('rsa.1' if name != 'rsa.1' else 'ecc.2')
    tp = attempt(name + '.thirdparty', lambda: third.certify(uid, created=T0, hash=HashAlgorithm.SHA256))
    if tp is not None:
        lab = name + '.attest'
        sig = attempt(lab, lambda: sec.certify(uid, level=SignatureType.Attestation, created=T0, hash=HashAlgorithm.SHA256,
                                               attested_certifications=[tp, b'\x11' * 32, b'short', 5]))
        if sig is not None:
            observe(lab, sec, pub, uid, sig)
            emit(lab + '.attests', sig.attests_to(tp))

    # direct-key self-signature, revoker
    lab = name + '.directkey'
    sig = attempt(lab, lambda: sec.certify(sec, created=T0, hash=HashAlgorithm.SHA256, usage={KeyFlags.Certify}))
    if sig is not None:
        observe(lab, sec, pub, sec, sig, verify_subject=pub)
    for sens in (False, True):
        lab = '{}.revoker.{}'.format(name, sens)
        sig = attempt(lab, lambda: sec.revoker(other, sensitive=sens, created=T0, hash=HashAlgorithm.SHA256))
        if sig is not None:
            observe(lab, sec, pub, sec, sig, verify_subject=pub)

    # third-party certifications
    tkey = load('rsa.1' if name != 'rsa.1' else 'ecc.2', 'pub')
    tuid = tkey.userids[0]
    for oname, opts in [('bare', dict()), ('trust', dict(trust=(1, 60))), ('trustre', dict(trust=(2, 120), regex='<[^>]+[@.]example\\.com>$')),
                        ('regex_only', dict(regex='ignored')), ('local', dict(exportable=False, usage={KeyFlags.Sign}))]:
        lab = '{}.tpcert.{}'.format(name, oname)
        sig = attempt(lab, lambda: sec.certify(tuid, level=SignatureType.Casual_Cert, created=T0, hash=HashAlgorithm.SHA256, **opts))
        if sig is not None:
            observe(lab, sec, pub, tuid, sig)
    lab = name + '.tpdirect'
    sig = attempt(lab, lambda: sec.certify(tkey, created=T0, hash=HashAlgorithm.SHA256, trust=(1, 1)))
    if sig is not None:
        observe(lab, sec, pub, tkey, sig)

    # revocations
    for oname, opts in [('default', dict()), ('reason', dict(reason=RevocationReason.Retired, comment=u'no longer used ☠'))]:
        lab = '{}.revuid.{}'.format(name, oname)
        sig = attempt(lab, lambda: sec.revoke(uid, created=T0, hash=HashAlgorithm.SHA256, **opts))
        if sig is not None:
            observe(lab, sec, pub, uid, sig)
        lab = '{}.revkey.{}'.format(name, oname)
        sig = attempt(lab, lambda: sec.revoke(sec, created=T0, hash=HashAlgorithm.SHA256, **opts))
        if sig is not None:
            observe(lab, sec, pub, sec, sig, verify_subject=pub)
        for skid, sk in sorted(sec.subkeys.items()):
            lab = '{}.revsub.{}.{}'.format(name, skid, oname)
            sig = attempt(lab, lambda: sec.revoke(sk, created=T0, hash=HashAlgorithm.SHA256, **opts))
            if sig is not None:
                observe(lab, sec, pub, sk, sig, verify_subject=pub.subkeys[skid])
    attempt(name + '.revoke_bad', lambda: sec.revoke('not a key'))

    # subkey bindings (incl. the embedded primary key binding made by signing-capable subkeys)
    for skid, sk in sorted(sec.subkeys.items()):
        for oname, opts in [('usage_enc', dict(usage={KeyFlags.EncryptCommunications})),
                            ('usage_sign', dict(usage={KeyFlags.Sign})),
                            ('nousage', dict()),
                            ('nocross', dict(usage={KeyFlags.Sign}, crosssign=False)),
                            ('keyexp', dict(usage={KeyFlags.EncryptStorage}, key_expiration=timedelta(days=30)))]:
            lab = '{}.bind.{}.{}'.format(name, skid, oname)
            sig = attempt(lab, lambda: sec.bind(sk, created=T0, hash=HashAlgorithm.SHA256, **opts))
            if sig is not None:
                observe(lab, sec, pub, sk, sig, verify_subject=pub.subkeys[skid])
                emb = sig._signature.subpackets['EmbeddedSignature']
                emit(lab + '.n_embedded', len(list(emb)))
        if sk.key_algorithm.can_sign:
            lab = '{}.pkb.{}'.format(name, skid)
            sig = attempt(lab, lambda: sk.bind(sec, created=T0, hash=HashAlgorithm.SHA256))
            if sig is not None:
                observe(lab, sk, pub.subkeys[skid], sec, sig, verify_subject=pub)
            lab = '{}.subsign.{}'.format(name, skid)
            sig = attempt(lab, lambda: sk.sign('signed by subkey', created=T0, hash=HashAlgorithm.SHA256))
            if sig is not None:
                observe(lab, sk, pub, 'signed by subkey', sig)
    attempt(name + '.bind_bad', lambda: sec.bind(third))

# fixture signatures: hashed octets and verification as computed by the tree under test
import glob  # noqa: E402
for f in sorted(glob.glob('tests/testdata/signatures/*.asc')):
    lab = 'fixture.' + os.path.basename(f)
    sig = attempt(lab, lambda: pgpy.PGPSignature.from_file(f))
    if sig is not None:
        emit(lab + '.bytes', bytes(sig))
        emit(lab + '.canonical', sig._signature.canonical_bytes())
        emit(lab + '.__sig__', bytes(sig.__sig__))

if '-v' in sys.argv:
    print('\n'.join(lines))
print('observations', len(lines))
print('digest', out.hexdigest())
