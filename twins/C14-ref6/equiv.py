# Equivalence probe for property C14 (key export / import round trip).
# Run as:  cd <tree> && /venv/bin/python equiv.py
import os
import sys
sys.path.insert(0, os.getcwd())

import copy
import glob
import hashlib
import warnings
from datetime import datetime, timezone

import pgpy
from pgpy.packet import Packet
from pgpy.types import SorteDeque

warnings.simplefilter('ignore')

out = []


def emit(*a):
    out.append(' '.join(str(x) for x in a))


def h(b):
    return hashlib.sha256(bytes(b)).hexdigest()[:16]


def sigdesc(s):
    return '{}:{}:{}:{}:{}:{}'.format(int(s.type), s.signer, s.created.isoformat(), s.exportable, s.embedded, h(s.__bytearray__()))


def shape(key):
    d = [str(key.fingerprint), key.is_public, key.is_primary, h(key._key.__bytearray__())]
    d.append(['S ' + sigdesc(s) for s in key._signatures])
    for u in key._uids:
        d.append(['U', h(u._uid.__bytearray__()), u.is_uid, [sigdesc(s) for s in u._signatures]])
    for kid, sk in key._children.items():
        d.append(['K', kid, shape(sk)])
    return d


def split_packets(blob):
    blob = bytearray(blob)
    pieces = []
    while blob:
        before = bytes(blob)
        Packet(blob)
        pieces.append(before[:len(before) - len(blob)])
    return pieces


def probe(label, key):
    emit(label, 'shape', shape(key))
    b = bytes(key)
    emit(label, 'bytes', len(b), h(b))
    emit(label, 'pkts', [(p[0], len(p)) for p in split_packets(b)])
    a = str(key)
    emit(label, 'armor', h(a.encode('latin-1')))
    # re-import binary and armored
    for form, blobv in (('bin', b), ('asc', a)):
        k2, others = pgpy.PGPKey.from_blob(blobv)
        emit(label, form, 'reimport', shape(k2) == shape(key) or shape(k2), h(bytes(k2)), sorted(str(k) for k in others))
    c = copy.copy(key)
    emit(label, 'copy', h(bytes(c)), shape(c) == shape(key) or shape(c))
    # trust packets interleaved, GnuPG keyring style
    trust = b'\xb0\x02\x00\x00'
    inter = b''.join(p + trust for p in split_packets(b))
    k3, _ = pgpy.PGPKey.from_blob(inter)
    emit(label, 'trust', h(bytes(k3)), shape(k3) == shape(key) or shape(k3))


files = sorted(glob.glob('tests/testdata/keys/*.asc')) + \
    sorted(glob.glob('tests/testdata/blocks/*key*.asc')) + \
    ['tests/testdata/blocks/expyro.asc', 'tests/testdata/blocks/revochiio.asc',
     'tests/testdata/pubtest.asc', 'tests/testdata/sectest.asc'] + \
    sorted(glob.glob('tests/testdata/signatures/*.key.asc'))

loaded = {}
for f in files:
    try:
        key, others = pgpy.PGPKey.from_file(f)
    except Exception as e:
        emit(f, 'EXC', type(e).__name__, e)
        continue
    loaded[f] = key
    emit(f, 'others', [(k, h(bytes(v))) for k, v in others.items()])
    probe(f, key)

# concatenated blobs
pubs = [loaded[f] for f in files if f in loaded and loaded[f].is_public]
blob = b''.join(bytes(k) for k in pubs)
first, others = pgpy.PGPKey.from_blob(blob)
emit('concat', str(first.fingerprint), h(bytes(first)), [(k, h(bytes(v)), shape(v)) for k, v in others.items()])
mixed = b''.join(bytes(loaded[f]) for f in files if f in loaded)
try:
    first, others = pgpy.PGPKey.from_blob(mixed)
    emit('concat-mixed', str(first.fingerprint), h(bytes(first)), [(k, h(bytes(v))) for k, v in others.items()])
except Exception as e:
    emit('concat-mixed EXC', type(e).__name__, e)
secs = [loaded[f] for f in files if f in loaded and not loaded[f].is_public and '.enc.' not in f]
first, others = pgpy.PGPKey.from_blob(b''.join(bytes(k) for k in secs))
emit('concat-sec', str(first.fingerprint), h(bytes(first)), [(k, h(bytes(v)), shape(v)) for k, v in others.items()])

# attach revocations and a non-exportable signature
for kf, sf in (('tests/testdata/keys/rsa.1.pub.asc', 'tests/testdata/revocations/rsa.1.revoc.asc'),
               ('tests/testdata/keys/dsa.1.pub.asc', 'tests/testdata/revocations/dsa.1.revoc.asc'),
               ('tests/testdata/keys/ecc.1.pub.asc', 'tests/testdata/revocations/ecc.1.revoc.asc'),
               ('tests/testdata/keys/targette.pub.rsa.asc', 'tests/testdata/revocations/targette.revoc.asc'),
               ('tests/testdata/keys/rsa.1.pub.asc', 'tests/testdata/blocks/signature.non-exportable.asc')):
    key, _ = pgpy.PGPKey.from_file(kf)
    if 'revocations' in sf:
        # revocation certificates are a bare signature packet armored as a PUBLIC KEY BLOCK
        with open(sf) as fh:
            sig = pgpy.PGPSignature() | Packet(pgpy.PGPKey.ascii_unarmor(fh.read())['body'])
    else:
        sig = pgpy.PGPSignature.from_file(sf)
    emit('sig', sf, sigdesc(sig), h(bytes(copy.copy(sig))))
    key |= sig
    probe('key+' + sf, key)
    key2, _ = pgpy.PGPKey.from_file(kf)
    uid = key2.userids[0]
    uid |= copy.copy(sig)
    probe('uid+' + sf, key2)

# deterministic (RSA PKCS#1 v1.5) certifications, exportable and not, equal creation times
sec, _ = pgpy.PGPKey.from_file('tests/testdata/keys/rsa.1.sec.asc')
target, _ = pgpy.PGPKey.from_file('tests/testdata/keys/targette.pub.rsa.asc')
when = datetime(2020, 1, 2, 3, 4, 5, tzinfo=timezone.utc)
try:
    for n, uid in enumerate(target.userids):
        for exp in (True, False, None):
            prefs = dict(created=when)
            if exp is not None:
                prefs['exportable'] = exp
            s = sec.certify(uid, **prefs)
            uid |= s
    s = sec.certify(target, created=when)
    target |= s
    probe('certified', target)
except Exception as e:
    emit('certify EXC', type(e).__name__, e)

# odd blobs: leading signature, opaque / marker / orphaned packets in various places
def try_blob(label, blobv):
    with warnings.catch_warnings(record=True) as w:
        warnings.simplefilter('always')
        try:
            k, others = pgpy.PGPKey.from_blob(blobv)
            emit(label, 'ok', k._key is not None and shape(k), [(kk, h(bytes(v))) for kk, v in others.items()])
        except BaseException as e:
            emit(label, 'EXC', type(e).__name__, e)
        import re
        emit(label, 'warnings', [(x.category.__name__, re.sub(r'0x[0-9A-Fa-f]+', '0x', str(x.message))) for x in w])


with open('tests/testdata/revocations/rsa.1.revoc.asc') as fh:
    revtext = fh.read()
try_blob('revoc-as-key', revtext)
base = bytes(loaded['tests/testdata/keys/rsa.1.pub.asc'])
pk = split_packets(base)
other = bytes(loaded['tests/testdata/keys/targette.pub.rsa.asc'])
private = b'\xfd\x03abc'
marker = b'\xa8\x03PGP'
for name, extra in (('private', private), ('marker', marker), ('trust', b'\xb0\x02\x00\x00')):
    for pos in (0, 1, 2, 3, len(pk) - 1, len(pk)):
        try_blob('{}@{}'.format(name, pos), b''.join(pk[:pos]) + extra + b''.join(pk[pos:]) + other)
try_blob('uid-first', pk[1] + base)
try_blob('sig-first', pk[2] + base)
try_blob('subkey-first', pk[-2] + pk[-1] + base)
try_blob('empty', b'')
try_blob('two-same', base + base)
try_blob('message', open('tests/testdata/blocks/message.signed.asc').read())

# type errors
for lhs, rhs in ((pgpy.PGPUID(), 3), (pgpy.PGPKey(), 'x'), (pgpy.PGPUID.new('a'), pgpy.PGPUID.new('b')._uid)):
    try:
        lhs | rhs
        emit('or ok')
    except Exception as e:
        emit('or EXC', type(e).__name__, e)


# SorteDeque
class Item(object):
    def __init__(self, k, tag):
        self.k = k
        self.tag = tag

    def __lt__(self, o):
        return self.k < o.k

    def __le__(self, o):
        return self.k <= o.k

    def __eq__(self, o):
        return self.k == o.k

    __hash__ = None

    def __repr__(self):
        return '{}{}'.format(self.k, self.tag)


sd = SorteDeque()
emit('sd', list(sd))
seq = [5, 1, 3, 3, 9, 0, 5, 5, 2, 9, 0, 7]
items = []
for n, k in enumerate(seq):
    it = Item(k, 'abcdefghijklmnop'[n])
    items.append(it)
    sd.insort(it)
    emit('sd insort', list(sd))
for it in (items[2], items[6], items[0]):
    it.k = 4
    sd.resort(it)
    emit('sd resort', list(sd))
sd.resort(Item(6, 'z'))
sd.resort(Item(10, 'y'))
sd.resort(Item(-1, 'x'))
emit('sd resort-new', list(sd))
items[4].k = 1
sd.check()
emit('sd check', list(sd))

text = '\n'.join(out)
if '-v' in sys.argv:
    print(text)
print(len(out), hashlib.sha256(text.encode('utf-8')).hexdigest())
