import glob
import hashlib
import os
import sys
import warnings

sys.path.insert(0, os.getcwd())
warnings.simplefilter('ignore')

import pgpy
from pgpy import PGPKey, PGPSignature, PGPMessage
from pgpy.packet.fields import SubPackets
from pgpy.packet.subpackets.types import Header as SPHeader
from pgpy.packet.subpackets import Signature as SignatureSP

out = []


def rec(*a):
    out.append(repr(a))


def guarded(label, fn):
    try:
        rec(label, fn())
    except Exception as e:
        rec(label, 'EXC', type(e).__name__, str(e))


def sp_dump(label, sps):
    guarded(label + ':hash', lambda: bytes(sps.__hashbytearray__()))
    guarded(label + ':unhash', lambda: bytes(sps.__unhashbytearray__()))
    guarded(label + ':all', lambda: bytes(sps.__bytearray__()))
    guarded(label + ':keys', lambda: [(k, type(v).__name__, bytes(v.__bytearray__()))
                                      for k, v in list(sps._hashed_sp.items()) + list(sps._unhashed_sp.items())])
    # force the re-encoding path as well
    raw = sps._hashed_raw
    sps._hashed_raw = None
    guarded(label + ':hash-reenc', lambda: bytes(sps.__hashbytearray__()))
    sps._hashed_raw = raw


def sig_dump(label, sig, subject):
    guarded(label + ':bytes', lambda: bytes(sig))
    guarded(label + ':hashdata', lambda: sig.hashdata(subject))
    sp_dump(label + ':sp', sig._signature.subpackets)


# 1. every key fixture: self-signatures, their hashdata, and verification
keyfiles = sorted(glob.glob('tests/testdata/keys/*.asc') + glob.glob('tests/testdata/blocks/*key*.asc') +
                  glob.glob('tests/testdata/signatures/*.key.asc') + ['tests/testdata/pubtest.asc'])
for kf in keyfiles:
    try:
        key, _ = PGPKey.from_file(kf)
    except Exception as e:
        rec(kf, 'LOADEXC', type(e).__name__)
        continue
    for i, sig in enumerate(key.__sig__):
        sig_dump('%s:keysig%d' % (kf, i), sig, key)
    for u, uid in enumerate(key.userids + key.userattributes):
        for i, sig in enumerate(uid.__sig__):
            sig_dump('%s:uid%d:sig%d' % (kf, u, i), sig, uid)
    for skid, sk in key.subkeys.items():
        for i, sig in enumerate(sk.__sig__):
            sig_dump('%s:sub%s:sig%d' % (kf, skid, i), sig, sk)
            for j, esig in enumerate(sig._signature.subpackets['EmbeddedSignature']):
                guarded('%s:sub%s:sig%d:emb%d' % (kf, skid, i, j), lambda: bytes(esig.__bytearray__()))
    pub = key.pubkey if not key.is_public else key
    try:
        v = pub.verify(pub)
        rec(kf, 'verify', bool(v), sorted((int(s.issues), s.by.fingerprint.keyid, bytes(s.signature)) for s in v._subjects))
    except Exception as e:
        rec(kf, 'verify', 'EXC', type(e).__name__, str(e))

# 2. detached signature fixtures
for sf in sorted(glob.glob('tests/testdata/signatures/*.sig.asc')):
    base = sf[:-len('.sig.asc')]
    sig = PGPSignature.from_file(sf)
    subj = open(base + '.subj', 'rb').read() if os.path.exists(base + '.subj') else b''
    sig_dump(sf, sig, subj)
    if os.path.exists(base + '.key.asc'):
        key, _ = PGPKey.from_file(base + '.key.asc')
        guarded(sf + ':verify', lambda: [(int(s.issues), bytes(s.signature)) for s in key.verify(subj, sig)._subjects])
        # flip one bit of every octet of the hashed area in turn: verification result must be reproducible
        raw = bytes(sig)
        res = []
        sps = sig._signature.subpackets
        hraw = bytes(sps.__hashbytearray__())
        off = raw.find(hraw)
        for k in range(off, off + len(hraw), 3):
            mut = bytearray(raw)
            mut[k] ^= 0x10
            try:
                msig = PGPSignature.from_blob(bytes(mut))
                res.append((k, [int(s.issues) for s in key.verify(subj, msig)._subjects]))
            except Exception as e:
                res.append((k, type(e).__name__))
        rec(sf + ':flips', res)

# 3. raw packet fixtures
for pf in sorted(glob.glob('tests/testdata/packets/02.*')):
    data = bytearray(open(pf, 'rb').read())
    try:
        pkt = pgpy.packet.Packet(data)
    except Exception as e:
        rec(pf, 'EXC', type(e).__name__)
        continue
    rec(pf, bytes(pkt.__bytearray__()))
    if hasattr(pkt, 'subpackets'):
        sp_dump(pf, pkt.subpackets)

# 4. hand-made subpacket areas (unknown types, critical bits, all three length encodings,
#    flag octets with unknown bits, booleans other than 0/1, non-UTF-8 text)
def sp(t, body, enc=1):
    n = len(body) + 1
    if enc == 1:
        assert n < 192
        l = bytes([n])
    elif enc == 2:
        v = n - 192
        l = bytes([(v >> 8) + 192, v & 0xff])
    else:
        l = b'\xff' + n.to_bytes(4, 'big')
    return l + bytes([t]) + body


def area(*sps):
    b = b''.join(sps)
    return len(b).to_bytes(2, 'big') + b


areas = {
    'empty': area() + area(),
    'ct': area(sp(2, b'\x5b\x00\x00\x00')) + area(sp(16, b'\x01\x02\x03\x04\x05\x06\x07\x08')),
    'ct-crit': area(sp(0x82, b'\x5b\x00\x00\x00'), sp(0x9b, b'\xff')) + area(),
    'flags': area(sp(27, b'\xff'), sp(27, b'\x03\x80'), sp(30, b'\xff'), sp(23, b'\xff\x01'), sp(23, b'')) + area(),
    'bools': area(sp(4, b'\x00'), sp(4, b'\x01'), sp(4, b'\x02'), sp(7, b'\xff'), sp(25, b'\x01')) + area(),
    'prefs': area(sp(11, b'\x09\x08\x07\x03\x02'), sp(21, b'\x08\x0a\x02'), sp(22, b'\x02\x03\x01\x00')) + area(),
    'text': area(sp(26, 'https://exämple.org/p'.encode('utf-8')), sp(24, b'hkp://\xff\xfe'), sp(28, b'signer \xe9'),
                 sp(6, b'<[^>]+[@.]example\\.com>$\x00'), sp(29, b'\x02because \xc3\xa9')) + area(),
    'notation': area(sp(20, b'\x80\x00\x00\x00\x00\x03\x00\x05n@mv\xc3\xa9lu'),
                     sp(20, b'\x00\x00\x00\x00\x00\x01\x00\x03a\x00\xff\x01'),
                     sp(20, b'\x80\x00\x00\x00\x00\x01\x00\x02a\xff\xfe')) + area(),
    'revkey': area(sp(12, b'\x80\x01' + bytes(range(20))), sp(12, b'\xc0\x11' + bytes(range(20, 40)))) + area(),
    'unknown': area(sp(99, b'hello'), sp(0xe3, b''), sp(127, bytes(range(40))), sp(0, b'\x00')) + area(sp(100, b'x')),
    'len2': area(sp(99, bytes(300), enc=2), sp(20, b'\x80\x00\x00\x00\x00\x01\x01\x00a' + b'v' * 256, enc=2)) + area(),
    'len5': area(sp(99, bytes(10), enc=5), sp(2, b'\x00\x00\x00\x01', enc=5), sp(99, bytes(200), enc=5)) + area(sp(16, bytes(8), enc=5)),
    'overrun': b'\x00\x03' + sp(2, b'\x5b\x00\x00\x00') + area(),
    'issuerfpr': area(sp(33, b'\x04' + bytes(range(20))), sp(35, b'\x04' + bytes(range(20)))) + area(sp(33, b'\x05' + bytes(range(32)))),
    'keyexp': area(sp(9, b'\x00\x01\x51\x80'), sp(3, b'\x00\x00\x0e\x10'), sp(5, b'\x01\x78'), sp(5, b'\xff\xff')) + area(),
    'truncated': area(sp(2, b'\x5b\x00\x00\x00'))[:-2],
}
for name in sorted(areas):
    data = bytearray(areas[name])
    sps = SubPackets()
    try:
        sps.parse(data)
    except Exception as e:
        rec('area', name, 'PARSEEXC', type(e).__name__, str(e))
        continue
    rec('area', name, 'left', bytes(data), 'raw', None if sps._hashed_raw is None else bytes(sps._hashed_raw))
    sp_dump('area:' + name, sps)
    guarded('area:' + name + ':roundtrip', lambda: bytes(sps.__bytearray__()) == areas[name])
    # modifying the hashed area afterwards
    import copy
    c = copy.copy(sps)
    c.addnew('Revocable', hashed=True, bflag=True)
    sp_dump('area:' + name + ':mod', c)
    sp_dump('area:' + name + ':orig-after-mod', sps)

# 5. subpacket header codec
for n in [1, 2, 5, 100, 191, 192, 193, 255, 256, 1000, 8383, 8384, 8385, 65535, 65536, 1 << 24]:
    for t in [0, 1, 2, 27, 99, 127]:
        for crit in (False, True):
            h = SPHeader()
            h.length = n
            h.typeid = t
            h.critical = crit
            b = bytes(h.__bytearray__())
            h2 = SPHeader()
            buf = bytearray(b + b'\xaa\xbb')
            h2.parse(buf)
            rec('hdr', n, t, crit, b, len(h), h2.length, h2.typeid, h2.critical, len(h2), bytes(buf), bytes(h2.__bytearray__()))
for raw in range(256):
    h = SPHeader()
    h.typeid = bytearray([raw])
    rec('tid', raw, h.typeid, h.critical, bytes(h.__bytearray__()))
guarded('hdr-default', lambda: bytes(SPHeader().__bytearray__()))

# 6. building new signatures (the re-encoding path end to end, deterministic part only)
key, _ = PGPKey.from_file('tests/testdata/keys/rsa.1.sec.asc')
import datetime
sig = PGPSignature.new(pgpy.constants.SignatureType.BinaryDocument, key.key_algorithm,
                       pgpy.constants.HashAlgorithm.SHA256, key.fingerprint.keyid,
                       created=datetime.datetime(2020, 1, 2, 3, 4, 5, tzinfo=datetime.timezone.utc)
                       if 'created' in PGPSignature.new.__code__.co_varnames else None) \
    if 'created' in PGPSignature.new.__code__.co_varnames else None
if sig is not None:
    sig._signature.subpackets.addnew('NotationData', hashed=True, flags=0x80, name='n@example.com', value='vé')
    sig._signature.subpackets.addnew('KeyFlags', hashed=True, flags={pgpy.constants.KeyFlags.Sign})
    sig._signature.subpackets.addnew('PreferredKeyServer', hashed=True, uri='hkp://kéys')
    sig._signature.subpackets.addnew('Policy', hashed=False, uri='https://p')
    sig_dump('newsig', sig, b'subject data')

print(len(out), hashlib.sha256('\n'.join(out).encode()).hexdigest())
