"""Digest of the observable behaviour of the signature-subpacket / hashed-area code.

Run as:  cd <tree> && /venv/bin/python equiv.py
Prints the same digest on the unchanged and on the refactored tree.
"""
import copy
import glob
import hashlib
import os
import pickle
import sys
import warnings

sys.path.insert(0, os.getcwd())
warnings.simplefilter('ignore')

import pgpy  # noqa: E402
from pgpy import PGPKey, PGPSignature  # noqa: E402
from pgpy.packet import Packet  # noqa: E402
from pgpy.packet.fields import SubPackets  # noqa: E402
from pgpy.packet.subpackets import Signature as SignatureSP  # noqa: E402
from pgpy.packet.subpackets.types import Header as SPHeader  # noqa: E402
from pgpy.types import Header as BaseHeader  # noqa: E402
from pgpy.packet.types import Header as PktHeader  # noqa: E402

H = hashlib.sha256()
COUNT = [0]


def emit(*items):
    COUNT[0] += 1
    H.update(repr(items).encode('utf-8', 'backslashreplace'))
    H.update(b'\n')


def attempt(fn, *a, **kw):
    try:
        return ('ok', fn(*a, **kw))
    except Exception as e:  # noqa
        return ('exc', type(e).__name__, str(e))


def enc_len(n, form):
    if form == 1:
        return bytes([n])
    if form == 2:
        v = n - 192
        return bytes([(v >> 8) + 192, v & 0xFF])
    return b'\xff' + n.to_bytes(4, 'big')


def forms_for(n):
    f = [5]
    if n < 192:
        f.append(1)
    if 192 <= n < 8384:
        f.append(2)
    return f


def raw_sp(typeid, body, critical=False, form=None):
    n = len(body) + 1
    if form is None:
        form = 1 if n < 192 else (2 if n < 8384 else 5)
    return enc_len(n, form) + bytes([typeid | (0x80 if critical else 0)]) + bytes(body)


def sp_state(sp):
    d = {}
    for k, v in sorted(vars(sp).items()):
        if k == 'header':
            continue
        if isinstance(v, str):
            v = (type(v).__name__, str.__str__(v))
        elif isinstance(v, set):
            v = sorted(repr(x) for x in v)
        elif isinstance(v, list):
            v = [repr(x) for x in v]
        elif not isinstance(v, (bytes, bytearray, int, bool)):
            v = repr(v)
        d[k] = v
    h = sp.header
    return (type(sp).__name__, h.typeid, h.critical, h.length, h.llen, len(h), len(sp), bytes(sp.__bytearray__()),
            bytes(h.__bytearray__()), sorted(d.items(), key=lambda kv: kv[0]).__repr__())


def pattern(n, seed):
    return bytes((seed * 31 + i * 7) & 0xFF for i in range(n))


# 1. single subpackets: every type, critical bit, lengths, all legal length encodings
lengths = list(range(0, 40)) + [63, 64, 100, 190, 191, 192, 193, 254, 255, 256, 300, 511]
for typeid in range(0, 128):
    for critical in (False, True):
        for n in (lengths if typeid in (0, 1, 2, 5, 11, 20, 26, 27, 30, 100) else (0, 1, 2, 4, 5, 8, 21, 22, 33, 200)):
            body = pattern(n, typeid)
            for form in forms_for(n + 1):
                raw = raw_sp(typeid, body, critical, form)
                buf = bytearray(raw + b'\xde\xad')
                r = attempt(SignatureSP, buf)
                if r[0] == 'ok':
                    emit('sp', typeid, critical, n, form, sp_state(r[1]), bytes(buf))
                else:
                    emit('sp', typeid, critical, n, form, r, bytes(buf))

# flag / boolean octets 0..255, multi-octet flag fields
for typeid in (4, 7, 25, 23, 27, 30, 11, 21, 22):
    for v in range(256):
        for extra in (b'', b'\x00', b'\x80\x01'):
            buf = bytearray(raw_sp(typeid, bytes([v]) + extra) + b'\x00')
            r = attempt(SignatureSP, buf)
            emit('flag', typeid, v, extra, sp_state(r[1]) if r[0] == 'ok' else r, bytes(buf))

# text subpackets
texts = [b'', b'abc', 'héllo wörld'.encode('utf-8'), '日本語'.encode('utf-8'), b'\xff\xfe\x80 latin',
         b'\xc3', b'a\x00b', b'https://example.com/\xe2\x82\xac']
for typeid in (6, 24, 26, 28):
    for t in texts:
        buf = bytearray(raw_sp(typeid, t))
        r = attempt(SignatureSP, buf)
        emit('text', typeid, t, sp_state(r[1]) if r[0] == 'ok' else r)
for t in texts:
    for code in (0, 1, 32, 99, 200):
        buf = bytearray(raw_sp(29, bytes([code]) + t))
        r = attempt(SignatureSP, buf)
        emit('reason', code, t, sp_state(r[1]) if r[0] == 'ok' else r)
    for fl in (0x80, 0x00, 0x81, 0xff):
        for name in (b'n@example.org', t):
            body = bytes([fl, 0, 0, 0]) + len(name).to_bytes(2, 'big') + len(t).to_bytes(2, 'big') + name + t
            buf = bytearray(raw_sp(20, body))
            r = attempt(SignatureSP, buf)
            emit('notation', fl, name, t, sp_state(r[1]) if r[0] == 'ok' else r)
for cls in (0x80, 0xC0, 0x00, 0xff, 0x41):
    for alg in (1, 17, 19, 22):
        buf = bytearray(raw_sp(12, bytes([cls, alg]) + pattern(20, cls)))
        r = attempt(SignatureSP, buf)
        emit('revkey', cls, alg, sp_state(r[1]) if r[0] == 'ok' else r)

# truncated / malformed single subpackets
for raw in (b'', b'\x01', b'\x05\x02\x00', b'\xff\x00\x00', b'\xc0', b'\x03\x1b', b'\x04\x0b\x09', b'\x02\x04', b'\xe0\x02\x00',
            b'\x06\x14\x80\x00\x00', b'\x00\x02'):
    buf = bytearray(raw)
    r = attempt(SignatureSP, buf)
    emit('trunc', raw, sp_state(r[1]) if r[0] == 'ok' else r, bytes(buf))


# 2. whole subpacket areas
def area(sps):
    b = b''.join(sps)
    return len(b).to_bytes(2, 'big') + b


def spk_state(spk):
    keys_h = list(spk._hashed_sp.keys())
    keys_u = list(spk._unhashed_sp.keys())
    names = sorted(set(k for k, _ in keys_h + keys_u))
    return (bytes(spk.__hashbytearray__()), bytes(spk.__unhashbytearray__()), bytes(spk.__bytearray__()),
            None if spk._hashed_raw is None else bytes(spk._hashed_raw), type(spk._hashed_raw).__name__,
            keys_h, keys_u, [type(s).__name__ for s in spk], type(iter(spk)).__name__,
            [(n, n in spk, 'h_' + n in spk, len(spk[n]), len(spk['h_' + n])) for n in names],
            'Nope' in spk, ('Issuer', 0) in spk, spk[('Issuer', 0)].__class__.__name__, spk['Nope'], spk['h_Nope'],
            attempt(len, spk), attempt(lambda: [1] in spk), attempt(lambda: None in spk))


pool = [
    raw_sp(2, b'\x5a\x00\x00\x00'),
    raw_sp(27, b'\xff'),
    raw_sp(27, b'\x03\x80'),
    raw_sp(30, b'\x07', critical=True),
    raw_sp(4, b'\x01'),
    raw_sp(7, b'\x05'),
    raw_sp(25, b'\x00'),
    raw_sp(16, b'\x01\x02\x03\x04\x05\x06\x07\x08'),
    raw_sp(16, b'\x11\x12\x13\x14\x15\x16\x17\x18', form=5),
    raw_sp(26, 'https://exämple/'.encode('utf-8')),
    raw_sp(26, b'\xff\x80'),
    raw_sp(24, b'hkp://keys', form=5),
    raw_sp(100, pattern(200, 3)),
    raw_sp(101, b'', critical=True),
    raw_sp(11, b'\x09\x08\x07\x03\x02'),
    raw_sp(21, b'\x08\x0a\x02'),
    raw_sp(22, b'\x02\x03\x01\x00'),
    raw_sp(23, b'\x80'),
    raw_sp(23, b'\x81\x00\x00\x01'),
    raw_sp(20, b'\x80\x00\x00\x00\x00\x01\x00\x02kvv'),
    raw_sp(28, b'Alice <a@example.org>'),
    raw_sp(33, b'\x04' + pattern(20, 9)),
    raw_sp(9, b'\x00\x01\x51\x80'),
    raw_sp(3, b'\x00\x00\x0e\x10'),
    raw_sp(5, b'\x01\x3c'),
]
for i in range(len(pool)):
    for width in (1, 2, 3, 5, 9):
        hsel = [pool[(i + j * 3) % len(pool)] for j in range(width)]
        usel = [pool[(i + 1 + j * 5) % len(pool)] for j in range(width // 2)]
        raw = area(hsel) + area(usel) + b'\xbe\xef'
        buf = bytearray(raw)
        spk = SubPackets()
        r = attempt(spk.parse, buf)
        emit('area', i, width, r[0] if r[0] == 'ok' else r, bytes(buf), spk_state(spk))
        c = copy.copy(spk)
        emit('area-copy', type(c).__name__, spk_state(c), c._hashed_sp is spk._hashed_sp, c._hashed_raw is spk._hashed_raw)
        emit('area-pickle', hashlib.sha256(pickle.dumps(spk, 2)).hexdigest())
        spk.addnew('Issuer', hashed=False, _issuer='00112233445566AA')
        emit('area+unhashed', spk_state(spk))
        spk.addnew('KeyFlags', hashed=True, flags={pgpy.constants.KeyFlags.Sign})
        emit('area+hashed', spk_state(spk))
        spk.addnew('Policy', True, uri='https://p/', nosuchattr=1)
        spk.update_hlen()
        emit('area+hashed2', spk_state(spk))
        emit('area-delitem', attempt(spk.__delitem__, 'Issuer'))

# declared length that ends inside a subpacket, empty areas, short input
for raw in (b'\x00\x00\x00\x00', b'\x00\x03\x02\x1b\x03\x04\x00\x00', b'\x00\x02\x02\x1b\x03\x00\x00', b'\x00\x05\x02\x1b',
            b'', b'\x00', b'\x00\x00', b'\x00\x03\x02\x1b\x03', b'\x00\x00\x00\x04\x02\x1b\x03'):
    buf = bytearray(raw)
    spk = SubPackets()
    r = attempt(spk.parse, buf)
    emit('area-odd', raw, r[0] if r[0] == 'ok' else r, bytes(buf), attempt(spk_state, spk))

spk = SubPackets()
spk.addnew('CreationTime', hashed=True, created=1500000000)
spk.addnew('Issuer', _issuer='AABBCCDDEEFF0011')
spk.addnew('Issuer', _issuer='0000000000000001')
spk[('Issuer', 7)] = spk['Issuer'][0]
spk[('h_Issuer', 0)] = spk['Issuer'][1]
emit('built', spk_state(spk))


# 3. generic header length codec
for n in list(range(0, 400)) + [8382, 8383, 8384, 8385, 65535, 65536, 2 ** 24, 2 ** 32 - 1]:
    emit('enc', n, attempt(BaseHeader.encode_length, n), attempt(BaseHeader.encode_length, n, True, 4),
         [attempt(BaseHeader.encode_length, n, False, ll) for ll in (0, 1, 2, 4)])
    for cls in (SPHeader,):
        for form in forms_for(n) if n < 2 ** 32 else ():
            h = cls()
            buf = bytearray(enc_len(n, form) + b'\x42tail')
            r = attempt(setattr, h, 'length', buf)
            emit('declen', n, form, r, h.length, h.llen, bytes(buf), len(h), attempt(lambda: bytes(h.__bytearray__())))
emit('enc-kw', BaseHeader.encode_length(length=5, nhf=False, llen=2), PktHeader().encode_length(300))
for first in range(0, 256):
    for tail in (b'', b'\x01', b'\x01\x02\x03\x04\x05\x06'):
        h = SPHeader()
        buf = bytearray(bytes([first]) + tail)
        r = attempt(setattr, h, 'length', buf)
        emit('declen-first', first, tail, r, h.length, h.llen, bytes(buf))
        h = SPHeader()
        r = attempt(setattr, h, 'length', bytes([first]) + tail)
        emit('declen-bytes', first, tail, r, h.length)
# partial body lengths (packet level)
for raw in (b'\xe1' + b'ab' + b'\x03xyz' + b'rest', b'\xe0a\xe0b\x00', b'\xe2abcd\xe1ef\xc0\x05' + b'q' * 197 + b'Z',
            b'\xe1ab', b'\xe3abc'):
    h = PktHeader()
    buf = bytearray(raw)
    r = attempt(setattr, h, 'length', buf)
    emit('partial', raw, r, h.length, h.llen, bytes(buf))
for lt in (0, 1, 2, 3):
    for raw in (b'', b'\x01', b'\x01\x02', b'\x01\x02\x03\x04\x05\x06'):
        h = PktHeader()
        h._lenfmt = 0
        h.llen = lt
        buf = bytearray(raw)
        r = attempt(setattr, h, 'length', buf)
        emit('oldlen', lt, raw, r, h.length, h.llen, bytes(buf))
        for n in (0, 255, 256, 65535, 65536, 2 ** 32):
            h.length = n
            emit('oldllen', lt, n, h.llen, attempt(BaseHeader.encode_length, n, False, h.llen))
for hv in (SPHeader(), ):
    for t in (0, 2, 127, 128, 255, 300, b'\x82', bytearray(b'\x1b'), b'', b'\x01\x82', True, False):
        r = attempt(setattr, hv, 'typeid', t)
        emit('typeid', repr(t), r, hv.typeid, hv.critical, attempt(lambda: bytes(hv.__bytearray__())))
    for c in (True, False, 1, None, 'x'):
        emit('critical', repr(c), attempt(setattr, hv, 'critical', c), hv.critical)


# 4. real signature packets and the hash input
td = os.path.join(os.getcwd(), 'tests', 'testdata')
for fn in sorted(glob.glob(os.path.join(td, 'packets', '02.*'))):
    with open(fn, 'rb') as f:
        raw = f.read()
    r = attempt(Packet, bytearray(raw))
    if r[0] == 'ok':
        p = r[1]
        st = (type(p).__name__, bytes(p) == raw, hashlib.sha256(bytes(p)).hexdigest())
        if hasattr(p, 'subpackets'):
            st += (spk_state(p.subpackets), hashlib.sha256(pickle.dumps(p.subpackets, 2)).hexdigest())
            sig = PGPSignature()
            sig |= p
            st += (hashlib.sha256(sig.hashdata(b'some\ntext\r\nhere')).hexdigest()
                   if sig.type in (0, 1, 2) else None,)
        emit('pkt', os.path.basename(fn), st)
    else:
        emit('pkt', os.path.basename(fn), r)

sd = os.path.join(td, 'signatures')
for base in ('debian-sid', 'ubuntu-precise', 'aptapproval-test'):
    key, _ = PGPKey.from_file(os.path.join(sd, base + '.key.asc'))
    sig = PGPSignature.from_file(os.path.join(sd, base + '.sig.asc'))
    with open(os.path.join(sd, base + '.subj'), 'rb') as f:
        subj = f.read()
    hd = sig.hashdata(subj)
    emit('hashdata', base, hashlib.sha256(hd).hexdigest(), len(hd), hd[-6:], bool(key.verify(subj, sig)),
         spk_state(sig._signature.subpackets))
    raw = bytes(sig)
    # flip single bits across the signature packet header + hashed region and re-verify
    hlen = len(sig._signature.subpackets.__hashbytearray__())
    start = len(sig._signature.header)
    for off in range(start, start + 4 + hlen):
        for bit in (0, 7):
            m = bytearray(raw)
            m[off] ^= (1 << bit)
            r = attempt(PGPSignature.from_blob, bytes(m))
            if r[0] == 'ok':
                v = attempt(lambda: bool(key.verify(subj, r[1])))
                emit('flip', base, off, bit, v, hashlib.sha256(attempt(r[1].hashdata, subj).__repr__().encode()).hexdigest())
            else:
                emit('flip', base, off, bit, r)

# keys: self-signatures (certifications, bindings) verify, and their hash inputs
for fn in sorted(glob.glob(os.path.join(td, 'keys', '*.pub.asc'))) + [os.path.join(td, 'blocks', 'rsapubkey.asc')]:
    key, _ = PGPKey.from_file(fn)
    for uid in key.userids:
        for s in uid._signatures:
            emit('selfsig', os.path.basename(fn), s.type, hashlib.sha256(s.hashdata(uid)).hexdigest(),
                 attempt(lambda: bool(key.verify(uid, s))) if s.signer == key.fingerprint.keyid else None,
                 hashlib.sha256(bytes(s)).hexdigest())
    for sk in key.subkeys.values():
        for s in sk._signatures:
            emit('subsig', os.path.basename(fn), s.type, hashlib.sha256(s.hashdata(sk)).hexdigest(),
                 attempt(lambda: bool(key.verify(sk, s))), hashlib.sha256(bytes(s)).hexdigest())

# revocations, direct-key signatures, user attribute certifications
for fn in sorted(glob.glob(os.path.join(td, 'keys', '*.pub.asc'))) + sorted(glob.glob(os.path.join(td, 'blocks', '*key*.asc'))) + \
        [os.path.join(td, 'blocks', 'revochiio.asc'), os.path.join(td, 'blocks', 'expyro.asc'), os.path.join(td, 'pubtest.asc')]:
    r = attempt(PGPKey.from_file, fn)
    if r[0] != 'ok':
        emit('keyload', os.path.basename(fn), r)
        continue
    key = r[1][0]
    for s in key._signatures:
        emit('keysig', os.path.basename(fn), s.type, attempt(lambda: hashlib.sha256(s.hashdata(key)).hexdigest()),
             hashlib.sha256(bytes(s)).hexdigest())
    for ua in key.userattributes:
        for s in ua._signatures:
            emit('uasig', os.path.basename(fn), s.type, attempt(lambda: hashlib.sha256(s.hashdata(ua)).hexdigest()))
    for uid in key.userids:
        for s in uid._signatures:
            emit('uidsig', os.path.basename(fn), s.type, attempt(lambda: hashlib.sha256(s.hashdata(uid)).hexdigest()))
    for sk in key.subkeys.values():
        for s in sk._signatures:
            emit('sksig', os.path.basename(fn), s.type, attempt(lambda: hashlib.sha256(s.hashdata(sk)).hexdigest()),
                 [attempt(lambda: hashlib.sha256(e.hashdata(sk)).hexdigest()) for e in s.embedded_sigs] if hasattr(s, 'embedded_sigs') else None)
    emit('keyverify', os.path.basename(fn), attempt(lambda: [(bool(v), v.issues) if hasattr(v, 'issues') else bool(v) for v in [key.verify(key)]]).__repr__()[:400])

# a freshly made signature (fixed creation time => fixed hash input)
from datetime import datetime, timezone  # noqa: E402
seckey, _ = PGPKey.from_file(os.path.join(td, 'keys', 'rsa.1.sec.asc'))
sig = seckey.sign('hello world', created=datetime(2020, 1, 2, 3, 4, 5, tzinfo=timezone.utc),
                  notation={'a@b.c': 'välue'}, policy_uri='https://pol/')
emit('newsig', hashlib.sha256(sig.hashdata('hello world')).hexdigest(), spk_state(sig._signature.subpackets)[:2],
     bool(seckey.pubkey.verify('hello world', sig)))
sig2 = PGPSignature.from_blob(bytes(sig))
emit('newsig-rt', sig2.hashdata('hello world') == sig.hashdata('hello world'), bytes(sig2) == bytes(sig),
     bool(seckey.pubkey.verify('hello world', sig2)))

print('items', COUNT[0])
print('digest', H.hexdigest())
