"""Deterministic probe for property C09 (primitive wire codecs).

Run as:  cd <tree> && PYTHONHASHSEED=0 /venv/bin/python equiv.py
Prints a transcript of codec facts; no randomness, no wall-clock values.
"""
import glob
import hashlib
import os
import sys
import warnings

sys.path.insert(0, os.getcwd())
warnings.simplefilter('ignore')

import pgpy  # noqa: E402
from pgpy.types import Header as BaseHeader  # noqa: E402
from pgpy.packet.types import Header as PHeader, VersionedHeader, MPI, MPIs  # noqa: E402
from pgpy.packet.subpackets.types import Header as SHeader  # noqa: E402
from pgpy.packet.fields import String2Key  # noqa: E402
from pgpy.packet.packets import PubKeyV4, LiteralData  # noqa: E402
from pgpy.packet.subpackets import signature as sigsub  # noqa: E402
from pgpy.packet import Packet  # noqa: E402

assert os.path.dirname(os.path.abspath(pgpy.__file__)) == os.path.join(os.getcwd(), 'pgpy'), pgpy.__file__


def out(*a):
    print(*a)


def exc_name(fn, *a, **kw):
    try:
        r = fn(*a, **kw)
        return 'ok:' + repr(r)
    except Exception as e:  # noqa
        return 'exc:' + type(e).__name__


BOUNDS = sorted({0, 1, 2, 127, 128, 190, 191, 192, 193, 254, 255, 256, 257, 447, 448, 8382, 8383, 8384, 8385,
                 16383, 16384, 32767, 32768, 65534, 65535, 65536, 65537, 70000, 2 ** 17 - 1, 2 ** 17, 2 ** 20,
                 2 ** 24 - 1, 2 ** 24, 2 ** 24 + 1, 2 ** 31 - 1, 2 ** 31, 2 ** 32 - 2, 2 ** 32 - 1})
ALL_LENGTHS = list(range(0, 70001)) + [b for b in BOUNDS if b > 70000]


# ---------------------------------------------------------------- new format
def new_format():
    out('== new-format packet header lengths')
    dig = hashlib.sha256()
    bad = 0
    for n in ALL_LENGTHS:
        h = PHeader()
        h.tag = 11
        h.length = n
        raw = bytes(h)
        dig.update(raw)
        if len(raw) != len(h) or len(h) != 1 + h.llen:
            bad += 1
        want = 1 if n < 192 else (2 if n < 8384 else 5)
        if h.llen != want:
            bad += 1
        # independent RFC decode
        o = raw[1:]
        if o[0] < 192:
            v = o[0]
        elif o[0] < 224:
            v = ((o[0] - 192) << 8) + o[1] + 192
        else:
            v = int.from_bytes(o[1:5], 'big')
        if v != n or raw[0] != 0xC0 | 11:
            bad += 1
        h2 = PHeader()
        buf = bytearray(raw) + bytearray(b'\xAA\xBB')
        h2.parse(buf)
        if h2.length != n or bytes(buf) != b'\xAA\xBB' or bytes(h2) != raw or h2.tag != 11 or h2._lenfmt != 1:
            bad += 1
        if n in BOUNDS:
            out('  n=%d hex=%s llen=%d len=%d' % (n, raw.hex(), h.llen, len(h)))
    out('  count=%d bad=%d sha=%s' % (len(ALL_LENGTHS), bad, dig.hexdigest()))

    out('== new-format: non-minimal five-octet / two-octet decodes')
    for n in (0, 1, 191, 192, 8383, 8384, 65535):
        buf = bytearray(b'\xCB\xFF' + n.to_bytes(4, 'big') + b'zz')
        h = PHeader()
        h.parse(buf)
        out('  five-octet n=%d -> length=%d rest=%s reenc=%s' % (n, h.length, bytes(buf).hex(), bytes(h).hex()))
    dig = hashlib.sha256()
    for first in range(0, 256):
        for second in (0, 1, 0x7F, 0x80, 0xFE, 0xFF):
            buf = bytearray([0xC2, first, second, 1, 2, 3, 4, 5])
            h = PHeader()
            try:
                h.parse(buf)
            except Exception as e:  # noqa  (partial chunk longer than the buffer)
                dig.update(('%d:%d:%s;' % (first, second, type(e).__name__)).encode())
                if second == 0x80 and first in (227, 254):
                    out('  first=%d second=%d -> %s' % (first, second, type(e).__name__))
                continue
            dig.update(('%d:%d:%d:%d:%s;' % (first, second, h.length, len(buf), bytes(h).hex())).encode())
            if second == 0x80 and first in (0, 191, 192, 223, 224, 225, 254, 255):
                out('  first=%d second=%d -> length=%d left=%d' % (first, second, h.length, len(buf)))
    out('  first-octet sweep sha=%s' % dig.hexdigest())

    out('== encode_length staticmethod')
    dig = hashlib.sha256()
    for n in ALL_LENGTHS:
        dig.update(BaseHeader.encode_length(n))
        dig.update(bytes(PHeader.encode_length(n, True)))
        dig.update(bytes(SHeader.encode_length(n, nhf=1, llen=4)))
    out('  new sha=%s' % dig.hexdigest())
    dig = hashlib.sha256()
    for llen in (0, 1, 2, 4):
        for n in BOUNDS + list(range(0, 70001, 7)):
            r = BaseHeader.encode_length(n, False, llen)
            dig.update(bytes([llen]) + r + b'|')
        out('  old llen=%d samples: %s' % (llen, ' '.join(BaseHeader.encode_length(n, 0, llen).hex() or '-'
                                                            for n in (0, 255, 256, 65535, 65536, 2 ** 32 - 1))))
    out('  old sha=%s' % dig.hexdigest())
    out('  types:', type(BaseHeader.encode_length(5)).__name__, type(BaseHeader.encode_length(500)).__name__,
        type(BaseHeader.encode_length(50000)).__name__, type(BaseHeader.encode_length(5, False, 0)).__name__,
        type(BaseHeader.encode_length(5, False, 2)).__name__)


# ---------------------------------------------------------------- old format
def old_format():
    out('== old-format packet header lengths')
    dig = hashlib.sha256()
    bad = 0
    widths = {0: 1, 1: 2, 2: 4}
    for lt, w in widths.items():
        top = min(2 ** (8 * w) - 1, 70000)
        vals = list(range(0, top + 1)) + [b for b in BOUNDS if top < b < 2 ** (8 * w)]
        for n in vals:
            raw = bytes([0x80 | (6 << 2) | lt]) + n.to_bytes(w, 'big')
            buf = bytearray(raw + b'\x01\x02\x03')
            h = PHeader()
            h.parse(buf)
            if (h.length != n or h.llen != w or len(h) != 1 + w or bytes(h) != raw
                    or bytes(buf) != b'\x01\x02\x03' or h.tag != 6 or h._lenfmt != 0):
                bad += 1
            dig.update(bytes(h))
        out('  lentype=%d width=%d tested=%d' % (lt, w, len(vals)))
    out('  bad=%d sha=%s' % (bad, dig.hexdigest()))

    out('== old-format indeterminate length')
    for body in (b'', b'a', b'x' * 300, b'y' * 70000):
        buf = bytearray(bytes([0x80 | (11 << 2) | 3]) + body)
        h = PHeader()
        h.parse(buf)
        out('  body=%d length=%d llen=%d len=%d hex=%s left=%d' % (len(body), h.length, h.llen, len(h), bytes(h).hex(), len(buf)))

    out('== old-format width transitions after parse')
    dig = hashlib.sha256()
    for lt, w in widths.items():
        for start in (0, 5, 255, 256, 65535, 65536):
            if start >= 2 ** (8 * w):
                continue
            raw = bytes([0x80 | (2 << 2) | lt]) + start.to_bytes(w, 'big')
            h = PHeader()
            h.parse(bytearray(raw))
            line = []
            for n in (0, 1, 254, 255, 256, 257, 65534, 65535, 65536, 65537, 70000, 2 ** 24, 2 ** 32 - 1, 300, 3, 65535, 255):
                h.length = n
                b = bytes(h)
                # re-parse what we emitted
                h3 = PHeader()
                h3.parse(bytearray(b))
                ok = (h3.length == n and len(b) == len(h) == 1 + h.llen and h.llen >= w
                      and n < 2 ** (8 * h.llen))
                line.append('%s%s' % (b.hex(), '' if ok else '!'))
                dig.update(b)
            out('  lt=%d start=%d: %s' % (lt, start, ' '.join(line)))
    # exhaustive sweep across the boundary regions for each parsed width
    bad = 0
    for lt, w in widths.items():
        h = PHeader()
        h.parse(bytearray(bytes([0x80 | (2 << 2) | lt]) + (7).to_bytes(w, 'big')))
        for n in list(range(0, 70001)) + [b for b in BOUNDS if b > 70000]:
            h.length = n
            b = bytes(h)
            need = 1 if n < 256 else (2 if n < 65536 else 4)
            if h.llen != max(w, need) or int.from_bytes(b[1:], 'big') != n or len(b) != 1 + h.llen:
                bad += 1
            if (b[0] & 3) != {1: 0, 2: 1, 4: 2}[h.llen]:
                bad += 1
            dig.update(b)
    out('  sweep bad=%d sha=%s' % (bad, dig.hexdigest()))

    out('== llen setter / defaults')
    h = BaseHeader.__new__(PHeader)
    PHeader.__init__(h)
    out('  defaults: length=%d llen=%d lenfmt=%d tag=%r' % (h.length, h.llen, h._lenfmt, int(h.tag)))
    h.llen = 2  # ignored for new format
    out('  new-format llen after set: %d _llen=%d' % (h.llen, h._llen))
    h._lenfmt = 0
    for code in (0, 1, 2, 3):
        h.llen = code
        out('  old-format code=%d -> _llen=%d llen(len=1)=%d' % (code, h._llen, h.llen))
    out('  bad code ->', exc_name(lambda: setattr(h, 'llen', 4)))
    out('  length=str ->', exc_name(lambda: setattr(h, 'length', 'abc')))
    out('  length=None ->', exc_name(lambda: setattr(h, 'length', None)))
    out('  length=b"" new ->', exc_name(lambda: setattr(PHeader(), 'length', bytearray())))
    out('  length=b"\\xff\\x00" new ->', exc_name(lambda: setattr(PHeader(), 'length', bytearray(b'\xff\x00'))))


# ---------------------------------------------------------------- partial
def chunkings(total):
    """deterministic family of partial chunkings of a body of `total` octets (first chunk >= 512 not enforced)"""
    res = []
    for p in range(0, 18):
        size = 1 << p
        if size > total:
            break
        # uniform chunks of size 2^p, as many as fit (at least one), final remainder definite
        for count in {1, 2, 3, max(1, total // size)}:
            if count * size <= total:
                res.append([size] * count)
    # descending and ascending powers
    for order in (range(17, -1, -1), range(0, 18)):
        seq, left = [], total
        for p in order:
            if (1 << p) <= left:
                seq.append(1 << p)
                left -= 1 << p
        if seq:
            res.append(seq)
            res.append(seq[:-1] if len(seq) > 1 else seq)
    uniq = []
    for r in res:
        if r and r not in uniq:
            uniq.append(r)
    return uniq


def final_len(n):
    if n < 192:
        return bytes([n])
    if n < 8384:
        n2 = n - 192
        return bytes([(n2 >> 8) + 192, n2 & 0xFF])
    return b'\xff' + n.to_bytes(4, 'big')


def partial():
    out('== partial body lengths')
    dig = hashlib.sha256()
    bad = 0
    cases = 0
    totals = [1, 2, 3, 191, 192, 193, 511, 512, 513, 1024, 8383, 8384, 8385, 65535, 65536, 65537, 70000,
              2 ** 17 - 1, 2 ** 17]
    for total in totals:
        body = bytes((i * 131 + total) & 0xFF for i in range(total))
        for finalform in (0, 1):
            for seq in chunkings(total):
                rest = total - sum(seq)
                wire = bytearray([0xC0 | 11])
                pos = 0
                for c in seq:
                    wire.append(224 + c.bit_length() - 1)
                    wire += body[pos:pos + c]
                    pos += c
                wire += (b'\xff' + rest.to_bytes(4, 'big')) if finalform else final_len(rest)
                wire += body[pos:]
                wire += b'TAIL'
                h = PHeader()
                h.parse(wire)
                cases += 1
                if h.length != total or bytes(wire) != body + b'TAIL':
                    bad += 1
                reenc = bytes(h)
                if reenc != b'\xcb' + final_len(total):
                    bad += 1
                dig.update(reenc + bytes([len(seq) & 0xFF]))
    out('  cases=%d bad=%d sha=%s' % (cases, bad, dig.hexdigest()))
    # every single partial octet value
    for fo in range(224, 255):
        c = 1 << (fo & 0x1F)
        if c > 2 ** 17:
            break
        wire = bytearray([0xCB, fo]) + bytearray(c) + bytearray(b'\x00')
        h = PHeader()
        h.parse(wire)
        out('  fo=%d chunk=%d length=%d left=%d' % (fo, c, h.length, len(wire)))
    # literal data packets with partial lengths through the real packet parser
    for total in (512, 1000, 70000, 2 ** 17):
        payload = bytes((i * 7) & 0xFF for i in range(total))
        lit = b'b' + b'\x01f' + (0).to_bytes(4, 'big') + payload
        first = 1 << ((len(lit)).bit_length() - 1)
        wire = bytearray([0xCB, 224 + first.bit_length() - 1]) + lit[:first] + final_len(len(lit) - first) + lit[first:]
        pkt = Packet(bytearray(wire))
        out('  literal total=%d cls=%s hlen=%d contents_ok=%s reenc_sha=%s' % (
            total, type(pkt).__name__, pkt.header.length, bytes(pkt.contents) == payload,
            hashlib.sha256(bytes(pkt)).hexdigest()[:16]))
    with open('tests/testdata/packets/11.partial.literal', 'rb') as f:
        raw = bytearray(f.read())
    pkt = Packet(raw)
    out('  11.partial.literal: cls=%s length=%d len=%d hdr=%s sha=%s left=%d' % (
        type(pkt).__name__, pkt.header.length, len(pkt), bytes(pkt.header).hex(),
        hashlib.sha256(bytes(pkt)).hexdigest()[:16], len(raw)))


# ---------------------------------------------------------------- subpackets
def subpackets():
    out('== subpacket header lengths')
    dig = hashlib.sha256()
    bad = 0
    for n in ALL_LENGTHS:
        for tid, crit in ((2, False), (27, True), (127, True), (0, False)):
            if n > 2000 and (tid, crit) != (2, False) and n not in BOUNDS:
                continue
            h = SHeader()
            h.typeid = tid
            h.critical = crit
            h.length = n
            raw = bytes(h)
            want = 1 if n < 192 else (2 if n < 8384 else 5)
            if h.llen != want or len(h) != want + 1 or len(raw) != want + 1:
                bad += 1
            if raw[-1] != (0x80 if crit else 0) | tid:
                bad += 1
            buf = bytearray(raw + b'QQ')
            h2 = SHeader()
            h2.parse(buf)
            if (h2.length, h2.typeid, h2.critical, bytes(buf), bytes(h2)) != (n, tid, crit, b'QQ', raw):
                bad += 1
            dig.update(raw)
            if n in BOUNDS and tid == 27:
                out('  n=%d hex=%s' % (n, raw.hex()))
    out('  bad=%d sha=%s' % (bad, dig.hexdigest()))
    for t in (0, 1, 0x7F, 0x80, 0x82, 0xFF):
        h = SHeader()
        h.parse(bytearray([5, t]))
        out('  type octet 0x%02x -> typeid=%d critical=%s reenc=%s' % (t, h.typeid, h.critical, bytes(h).hex()))
    h = SHeader()
    h.typeid = 0x1FF
    out('  typeid=0x1ff ->', h.typeid, 'default critical', h.critical, 'default len', h.length)
    out('  critical=int ->', exc_name(lambda: setattr(h, 'critical', 1)))
    # opaque subpackets of growing size through the dispatcher
    from pgpy.packet.subpackets import Signature as SigSub
    for n in (0, 1, 190, 191, 192, 8382, 8383, 8384, 70000):
        raw = final_len(n + 1) + bytes([100]) + bytes(i & 0xFF for i in range(n))
        sp = SigSub(bytearray(raw))
        sp.update_hlen()
        out('  opaque subpacket body=%d cls=%s hlen=%d len=%d roundtrip=%s' % (
            n, type(sp).__name__, sp.header.length, len(sp), bytes(sp) == raw))
    # a notation subpacket growing across width boundaries after being parsed
    nd = sigsub.NotationData()
    nd.name = 'n@example.com'
    nd.flags = [pgpy.constants.NotationDataFlags.HumanReadable]
    nd.value = 'v'
    nd.update_hlen()
    first = bytes(nd)
    nd2 = SigSub(bytearray(first))
    for vlen in (1, 160, 170, 175, 180, 8350, 8365, 8370, 65535, 70000, 3):
        nd2.value = 'v' * vlen
        nd2.update_hlen()
        b = bytes(nd2)
        nd3 = SigSub(bytearray(b))
        out('  notation vlen=%d hlen=%d llen=%d hdr=%s reparse_ok=%s' % (
            vlen, nd2.header.length, nd2.header.llen, b[:nd2.header.llen + 1].hex(),
            nd3.value == nd2.value and bytes(nd3) == b))


# ---------------------------------------------------------------- MPI
def mpis():
    out('== multiprecision integers')
    dig = hashlib.sha256()
    bad = 0
    n = 0
    for bits in range(0, 4201):
        vals = {0} if bits == 0 else {1 << (bits - 1), (1 << bits) - 1, (1 << (bits - 1)) | 1,
                                      (1 << (bits - 1)) | (((1 << bits) - 1) // 3)}
        for v in sorted(vals):
            m = MPI(v)
            raw = m.to_mpibytes()
            n += 1
            if (int(m) != v or m.bit_length() != bits or m.byte_length() != (bits + 7) // 8
                    or len(m) != 2 + (bits + 7) // 8 or len(raw) != len(m)
                    or int.from_bytes(raw[:2], 'big') != bits or int.from_bytes(raw[2:], 'big') != v):
                bad += 1
            buf = bytearray(raw + b'\x99')
            m2 = MPI(buf)
            if int(m2) != v or bytes(buf) != b'\x99' or m2.to_mpibytes() != raw or type(m2) is not MPI:
                bad += 1
            m3 = MPI(bytes(raw))
            if m3 != m:
                bad += 1
            dig.update(raw)
    out('  values=%d bad=%d sha=%s' % (n, bad, dig.hexdigest()))
    # declared bit counts with leading zero bits / zero octets: value is what the octets say, canonical re-encoding
    dig = hashlib.sha256()
    for declared in list(range(0, 80)) + [255, 256, 257, 2047, 2048, 4095, 4096, 4200, 65535]:
        nbytes = (declared + 7) // 8
        for pat in (b'\x00', b'\x01', b'\x7f', b'\x80', b'\xff'):
            body = (pat * nbytes)[:nbytes]
            buf = bytearray(declared.to_bytes(2, 'big') + body + b'\x42\x43')
            m = MPI(buf)
            ok = int(m) == int.from_bytes(body, 'big') and bytes(buf) == b'\x42\x43'
            dig.update(('%d:%s:%d:%s:%s;' % (declared, pat.hex(), m.bit_length(), ok, m.to_mpibytes().hex()[:12])).encode())
            if declared in (0, 1, 8, 9, 16, 17, 65535) and pat in (b'\x00', b'\x01', b'\xff'):
                out('  declared=%d pat=%s -> bits=%d bytes=%d enc=%s ok=%s' % (
                    declared, pat.hex(), m.bit_length(), m.byte_length(), m.to_mpibytes().hex()[:24], ok))
    out('  leading-zero sha=%s' % dig.hexdigest())
    # truncated input
    buf = bytearray(b'\x00\x20\xff\xff')
    m = MPI(buf)
    out('  truncated: value=%d left=%d' % (m, len(buf)))
    out('  empty:', exc_name(lambda: int(MPI(bytearray()))))
    out('  one octet:', exc_name(lambda: int(MPI(bytearray(b'\x07')))))
    out('  MPI(MPI(5)) =', int(MPI(MPI(5))), type(MPI(MPI(5))).__name__, ' MPI(True) =', int(MPI(True)))
    out('  MPI("12") ->', exc_name(lambda: int(MPI('12'))), ' MPI(None) ->', exc_name(lambda: MPI(None)),
        ' MPI(1.5) ->', exc_name(lambda: int(MPI(1.5))))
    out('  negative: bits=%d bytelen=%d enc=%s' % (MPI(-5).bit_length(), MPI(-5).byte_length(), exc_name(MPI(-5).to_mpibytes)))
    out('  arithmetic type:', type(MPI(5) + 1).__name__, ' repr:', repr(MPI(77)), ' str:', str(MPI(77)),
        ' fmt: {:x}'.format(MPI(255)), ' hash-eq:', hash(MPI(9)) == hash(9))
    out('  helpers:', MPIs.int_to_bytes(0).hex(), MPIs.int_to_bytes(0, 4).hex(), MPIs.int_to_bytes(256).hex(),
        MPIs.int_to_bytes(1, 0).hex(), MPIs.bytes_to_int(b''), MPIs.bytes_to_int(b'\x01\x00'), MPIs.int_byte_len(0),
        MPIs.int_byte_len(255), MPIs.int_byte_len(256))


# ---------------------------------------------------------------- timestamps
def timestamps():
    out('== four-octet timestamps')
    stamps = [0, 1, 59, 60, 86399, 86400, 951782400, 951868800, 2 ** 31 - 1, 2 ** 31, 2 ** 31 + 1, 1700000000,
              4102444800, 2 ** 32 - 2, 2 ** 32 - 1] + [i * 99991 * 431 for i in range(0, 99)] + \
             [(1 << b) - 1 for b in range(1, 33)] + [1 << b for b in range(0, 32)]
    dig = hashlib.sha256()
    bad = 0
    for t in stamps:
        four = t.to_bytes(4, 'big')
        # public key packet
        pk = PubKeyV4()
        pk.created = bytearray(four)
        pk2 = PubKeyV4()
        pk2.created = t
        pk3 = PubKeyV4()
        pk3.created = bytes(four)
        iso = pk.created.isoformat()
        if not (pk.created == pk2.created == pk3.created) or pk.created.utcoffset().total_seconds() != 0:
            bad += 1
        # creation time subpacket
        ct = sigsub.CreationTime()
        ct.created = bytearray(four)
        ct.update_hlen()
        raw = bytes(ct)
        if raw != b'\x05\x02' + four or ct.created != pk.created:
            bad += 1
        from pgpy.packet.subpackets import Signature as SigSub
        ct2 = SigSub(bytearray(raw))
        if ct2.created != ct.created or bytes(ct2) != raw:
            bad += 1
        # expiration offsets (seconds, four octets)
        se = sigsub.SignatureExpirationTime()
        se.expires = bytearray(four)
        se.update_hlen()
        ke = sigsub.KeyExpirationTime()
        ke.expires = bytearray(four)
        ke.update_hlen()
        if bytes(se) != b'\x05\x03' + four or bytes(ke) != b'\x05\x09' + four:
            bad += 1
        if int(se.expires.total_seconds()) != t or int(ke.expires.total_seconds()) != t:
            bad += 1
        dig.update((iso + '|' + raw.hex() + ';').encode())
        if t in (0, 1, 86400, 2 ** 31 - 1, 2 ** 31, 2 ** 32 - 1):
            out('  t=%d created=%s sub=%s' % (t, iso, raw.hex()))
    out('  stamps=%d bad=%d sha=%s' % (len(stamps), bad, dig.hexdigest()))
    out('  created=str ->', exc_name(lambda: setattr(PubKeyV4(), 'created', 'now')))
    ct = sigsub.CreationTime()
    ct.created = 2 ** 32
    out('  created=2**32 subpacket ->', ct.created.isoformat(), bytes(ct)[-5:].hex())

    # full public key packets: time field in situ
    for fn in sorted(glob.glob('tests/testdata/packets/06.*')) + sorted(glob.glob('tests/testdata/packets/05.v4.dsa*')):
        with open(fn, 'rb') as f:
            raw = f.read()
        pkt = Packet(bytearray(raw))
        out('  %s: %s created=%s hdr=%s roundtrip=%s' % (os.path.basename(fn), type(pkt).__name__, pkt.created.isoformat(),
                                                        bytes(pkt.header).hex(), bytes(pkt) == raw))
        for t in (0, 2 ** 31, 2 ** 32 - 1):
            pkt.created = t
            b = bytes(pkt)
            p2 = Packet(bytearray(b))
            out('     t=%d timefield=%s reparsed=%s' % (t, b[len(pkt.header):len(pkt.header) + 4].hex(), p2.created == pkt.created))


# ---------------------------------------------------------------- S2K count
def s2k():
    out('== S2K coded count')
    dig = hashlib.sha256()
    bad = 0
    line = []
    for c in range(256):
        s = String2Key()
        s.count = c
        want = (16 + (c & 15)) << ((c >> 4) + 6)
        if s.count != want or s._count != c:
            bad += 1
        s.usage = 254
        s.encalg = 9
        s.specifier = 3
        s.halg = 8
        s.salt = bytearray(b'saltsalt')
        s.iv = bytearray(range(16))
        raw = bytes(s)
        if raw[12] != c or len(s) != 29:
            bad += 1
        s2 = String2Key()
        buf = bytearray(raw + b'!!')
        s2.parse(buf)
        if s2.count != want or s2._count != c or bytes(s2) != raw or bytes(buf) != b'!!':
            bad += 1
        import copy
        s3 = copy.copy(s2)
        if s3.count != want or bytes(s3) != raw:
            bad += 1
        dig.update(('%d=%d;' % (c, s.count)).encode() + raw)
        if c in (0, 1, 15, 16, 96, 127, 128, 254, 255):
            line.append('%d->%d' % (c, s.count))
    out('  ' + ' '.join(line))
    out('  bad=%d sha=%s' % (bad, dig.hexdigest()))
    out('  count=-1 ->', exc_name(lambda: setattr(String2Key(), 'count', -1)).split(':')[1],
        ' count=256 ->', exc_name(lambda: setattr(String2Key(), 'count', 256)).split(':')[1],
        ' count="3" ->', exc_name(lambda: setattr(String2Key(), 'count', '3')).split(':')[1])
    for fn in sorted(glob.glob('tests/testdata/packets/05.v4.enc.*')):
        with open(fn, 'rb') as f:
            raw = f.read()
        pkt = Packet(bytearray(raw))
        sk = pkt.keymaterial.s2k
        out('  %s: spec=%s coded=%d count=%d roundtrip=%s' % (os.path.basename(fn), sk.specifier.name, sk._count, sk.count,
                                                             bytes(pkt) == raw))


# ---------------------------------------------------------------- real data
def realdata():
    out('== test-data packets: header round trip')
    for fn in sorted(glob.glob('tests/testdata/packets/*')):
        with open(fn, 'rb') as f:
            raw = f.read()
        buf = bytearray(raw)
        try:
            pkt = Packet(buf)
        except Exception as e:  # noqa
            out('  %s: exc %s' % (os.path.basename(fn), type(e).__name__))
            continue
        b = bytes(pkt)
        out('  %-32s %-22s fmt=%d tag=%2d llen=%d length=%6d hdr=%-12s len=%6d same=%s sha=%s' % (
            os.path.basename(fn), type(pkt).__name__, pkt.header._lenfmt, int(pkt.header.tag), pkt.header.llen,
            pkt.header.length, bytes(pkt.header).hex(), len(pkt), b == raw, hashlib.sha256(b).hexdigest()[:12]))

    out('== test-data keys / messages / signatures')
    files = sorted(glob.glob('tests/testdata/keys/*.asc')) + sorted(glob.glob('tests/testdata/signatures/*.key.asc')) + \
        ['tests/testdata/pubtest.asc', 'tests/testdata/sectest.asc']
    for fn in files:
        try:
            key, _ = pgpy.PGPKey.from_file(fn)
        except Exception as e:  # noqa
            out('  %s: exc %s' % (fn, type(e).__name__))
            continue
        b = bytes(key)
        # walk the serialisation and list packet headers
        hdrs = []
        buf = bytearray(b)
        while buf:
            p = Packet(buf)
            hdrs.append('%d/%d/%d' % (int(p.header.tag), p.header._lenfmt, p.header.length))
        k2 = pgpy.PGPKey()
        k2.parse(bytearray(b))
        out('  %s: fp=%s created=%s n=%d sha=%s stable=%s' % (
            os.path.basename(fn), key.fingerprint, key.created.isoformat(), len(hdrs), hashlib.sha256(b).hexdigest()[:16],
            bytes(k2) == b))
        out('     ' + ' '.join(hdrs))
        for uid in key.userids:
            for sig in uid._signatures:
                out('     sig %s created=%s hashed=%d' % (sig.type.name, sig.created.isoformat(),
                                                         len(sig._signature.subpackets.__hashbytearray__())))
                break
            break
    for fn in sorted(glob.glob('tests/testdata/messages/*.asc')) + sorted(glob.glob('tests/testdata/blocks/*.asc'))[:40]:
        try:
            msg = pgpy.PGPMessage.from_file(fn)
            b = bytes(msg)
            out('  %s: %s len=%d sha=%s' % (os.path.basename(fn), msg.type, len(b), hashlib.sha256(b).hexdigest()[:16]))
        except Exception as e:  # noqa
            out('  %s: exc %s' % (os.path.basename(fn), type(e).__name__))
    for fn in sorted(glob.glob('tests/testdata/signatures/*.sig.asc')):
        sig = pgpy.PGPSignature.from_file(fn)
        b = bytes(sig)
        out('  %s: created=%s hdr=%s len=%d sha=%s' % (os.path.basename(fn), sig.created.isoformat(),
                                                      bytes(sig._signature.header).hex(), len(b),
                                                      hashlib.sha256(b).hexdigest()[:16]))

    out('== literal message growing across width boundaries')
    for fmtname, mk in (('new', None), ('old', 'old')):
        for size in (0, 1, 180, 185, 186, 187, 200, 249, 250, 8370, 8378, 8379, 65529, 65530, 65540, 70000):
            lit = LiteralData()
            lit.filename = ''
            lit.mtime = 0
            lit._contents = bytearray(b'k' * 10)
            lit.update_hlen()
            wire = bytes(lit)
            if mk == 'old':
                body = wire[len(lit.header):]
                wire = bytes([0x80 | (11 << 2) | 0, len(body)]) + body
            p = Packet(bytearray(wire))
            p._contents = bytearray(b"k" * size)
            p.update_hlen()
            b = bytes(p)
            p2 = Packet(bytearray(b))
            out('  %s size=%d hdr=%s length=%d len=%d reparse=%s' % (
                fmtname, size, bytes(p.header).hex(), p.header.length, len(p),
                bytes(p2.contents) == bytes(p.contents) and bytes(p2) == b and len(b) == len(p)))


def main():
    out('pgpy probe C09')
    new_format()
    old_format()
    partial()
    subpackets()
    mpis()
    timestamps()
    s2k()
    realdata()
    out('done')


if __name__ == '__main__':
    main()
