"""Equivalence probe for the String2Key code (C12).

Run as:  cd <tree> && /venv/bin/python equiv.py
Prints a SHA-256 digest over all observable outputs (derived keys, decoded
counts, serialisations, parse results, copies, exception types and messages).
The digest must be the same on the unchanged and on the refactored tree.
"""
import copy
import hashlib
import os
import sys

sys.path.insert(0, os.getcwd())

import pgpy  # noqa: E402
from pgpy.constants import HashAlgorithm, String2KeyType, SymmetricKeyAlgorithm  # noqa: E402
from pgpy.packet.fields import String2Key  # noqa: E402

out = hashlib.sha256()
nrec = [0]


def rec(*items):
    nrec[0] += 1
    for it in items:
        if isinstance(it, (bytes, bytearray)):
            it = bytes(it).hex()
        out.update(repr(it).encode('utf-8'))
        out.update(b'|')
    out.update(b'\n')


def attempt(label, fn):
    try:
        rec(label, 'ok', fn())
    except Exception as e:  # noqa
        rec(label, 'exc', type(e).__name__, str(e), repr(e.__cause__), repr(e.__context__), e.__suppress_context__)


def state(s2k):
    return (int(s2k.usage), repr(s2k.encalg), repr(s2k.specifier), repr(s2k.halg), bytes(s2k.salt).hex(),
            type(s2k.salt).__name__, s2k._count, type(s2k._count).__name__, s2k.count,
            None if s2k.iv is None else bytes(s2k.iv).hex(), type(s2k.iv).__name__,
            repr(s2k.gnuext), None if s2k.scserial is None else bytes(s2k.scserial).hex(),
            bool(s2k), s2k.__nonzero__(), len(s2k), bytes(s2k.__bytearray__()).hex(), bytes(s2k.__bytes__()).hex())


halgs = []
for h in HashAlgorithm:
    try:
        h.hasher
    except Exception as e:  # noqa
        rec('nohash', repr(h), type(e).__name__, str(e))
        continue
    halgs.append(h)

encalgs = [SymmetricKeyAlgorithm.CAST5, SymmetricKeyAlgorithm.TripleDES, SymmetricKeyAlgorithm.AES128,
           SymmetricKeyAlgorithm.AES256, SymmetricKeyAlgorithm.Camellia192, SymmetricKeyAlgorithm.Twofish256,
           SymmetricKeyAlgorithm.IDEA, SymmetricKeyAlgorithm.Blowfish]

passphrases = ['a', 'correct horse battery staple', u'pässwörd ☃ \U0001f511', b'\x00\xff raw \x80 bytes',
               'x' * 1000, b'y' * 3001, 'QwertyUiop']
salts = [bytearray(range(8)), bytearray(b'\xff' * 8), bytearray(b'saltsalt')]
coded = [0, 1, 15, 16, 31, 65, 96, 97, 144]

# --- count decode for every coded value, through the setter
for c in range(256):
    s = String2Key()
    s.count = c
    rec('count', c, s._count, s.count, type(s.count).__name__)
s = String2Key()
rec('count-default', s._count, s.count)
s.count = True
rec('count-bool', s._count, s.count)
for bad in (-1, 256, 1 << 40, 'x', 3.0, None, b'\x01'):
    s = String2Key()
    attempt(('count-bad', repr(bad)), lambda: setattr(s, 'count', bad))
    rec('count-after-bad', s._count, s.count)

# --- key sizes / block sizes of every cipher (tables used by derive_key and parse)
for a in SymmetricKeyAlgorithm:
    attempt(('key_size', repr(a)), lambda: a.key_size)
    attempt(('block_size', repr(a)), lambda: a.block_size)
    attempt(('is_supported', repr(a)), lambda: a.is_supported)
for h in halgs:
    rec('digest_size', repr(h), h.digest_size)

# --- derive_key over the grid
for spec in (String2KeyType.Simple, String2KeyType.Salted, String2KeyType.Iterated):
    for h in halgs:
        for ea in encalgs:
            for pi, pw in enumerate(passphrases):
                salt = salts[pi % len(salts)]
                for c in (coded if spec == String2KeyType.Iterated else [0]):
                    if spec == String2KeyType.Iterated and (pi + c) % 3 and c not in (0, 96):
                        continue
                    s = String2Key()
                    s.usage = 254
                    s.encalg = ea
                    s.specifier = spec
                    s.halg = h
                    s.salt = bytearray(salt)
                    s.count = c
                    before = state(s)
                    k = s.derive_key(pw)
                    rec('dk', int(spec), int(h), int(ea), pi, c, type(k).__name__, len(k), k)
                    rec('dk-state-unchanged', before == state(s))
                    # a second call gives the same key (no hidden state)
                    rec('dk-again', s.derive_key(pw) == k)

# a few really large counts (multi-context)
for c, h, ea in ((200, HashAlgorithm.MD5, SymmetricKeyAlgorithm.AES256), (255, HashAlgorithm.SHA1, SymmetricKeyAlgorithm.AES256),
                 (238, HashAlgorithm.SHA256, SymmetricKeyAlgorithm.AES256)):
    s = String2Key()
    s.usage = 255
    s.encalg = ea
    s.specifier = 3
    s.halg = h
    s.salt = bytearray(b'12345678')
    s.count = c
    rec('dk-big', c, s.derive_key('passphrase'))

# salt given as bytes / longer-than-8 salt / empty salt
for salt in (b'abcdefgh', bytearray(b'0123456789abcdef'), bytearray(), b''):
    for spec in (0, 1, 3):
        s = String2Key()
        s.usage = 254
        s.encalg = SymmetricKeyAlgorithm.AES256
        s.specifier = spec
        s.halg = HashAlgorithm.SHA1
        s.salt = salt
        s.count = 10
        attempt(('dk-salt', bytes(salt).hex(), spec), lambda: s.derive_key('pw'))

# --- error cases of derive_key
def mk(**kw):
    s = String2Key()
    s.usage = 254
    s.encalg = SymmetricKeyAlgorithm.AES256
    s.specifier = 3
    s.halg = HashAlgorithm.SHA256
    s.salt = bytearray(b'saltsalt')
    s.count = 96
    for k, v in kw.items():
        setattr(s, k, v)
    return s


attempt('dk-empty-simple', lambda: mk(specifier=0).derive_key(''))
attempt('dk-empty-simple-bytes', lambda: mk(specifier=0).derive_key(b''))
attempt('dk-empty-salted', lambda: mk(specifier=1).derive_key(''))
attempt('dk-empty-iter', lambda: mk().derive_key(''))
attempt('dk-empty-iter-nosalt', lambda: mk(salt=bytearray()).derive_key(''))
attempt('dk-none', lambda: mk().derive_key(None))
attempt('dk-int', lambda: mk().derive_key(5))
attempt('dk-bytearray', lambda: mk().derive_key(bytearray(b'abc')))
attempt('dk-plaintext', lambda: mk(encalg=0).derive_key('abc'))
attempt('dk-invalid-hash', lambda: mk(halg=0).derive_key('abc'))
attempt('dk-reserved-hash', lambda: mk(halg=4).derive_key('abc'))
attempt('dk-gnu', lambda: mk(specifier=101).derive_key('abc'))
attempt('dk-reserved-spec', lambda: mk(specifier=2).derive_key('abc'))
attempt('dk-salt-str', lambda: mk(salt='saltsalt').derive_key('abc'))
attempt('dk-salt-none', lambda: mk(salt=None).derive_key('abc'))
attempt('dk-default', lambda: String2Key().derive_key('abc'))

# --- serialisation / parsing
def roundtrip(label, raw, iv=True):
    pkt = bytearray(raw)
    s = String2Key()

    def go():
        r = s.parse(pkt, iv=iv) if iv is not None else s.parse(pkt)
        return r
    attempt((label, 'parse', bytes(raw).hex(), iv), go)
    rec(label, 'left', bytes(pkt))
    attempt((label, 'state'), lambda: state(s))
    attempt((label, 'copy'), lambda: state(copy.copy(s)))
    attempt((label, 'deepcopy'), lambda: state(copy.deepcopy(s)))
    attempt((label, 'reparse'), lambda: state_of_reparse(s))


def state_of_reparse(s):
    t = String2Key()
    b = s.__bytearray__()
    t.parse(b, iv=s.iv is not None)
    return state(t), bytes(b)


trail = bytes(range(100, 140))
raws = {
    'unprot': b'\x00' + trail,
    'unprot-alg': b'\x09' + trail,
    'simple': b'\xfe\x09\x00\x02' + trail,
    'salted': b'\xfe\x07\x01\x08' + b'SALTsalt' + trail,
    'iter254': b'\xfe\x09\x03\x08' + b'SALTsalt' + b'\x60' + trail,
    'iter255': b'\xff\x03\x03\x02' + b'SALTsalt' + b'\xff' + trail,
    'iter-3des': b'\xfe\x02\x03\x0a' + b'SALTsalt' + b'\x00' + trail,
    'reserved2': b'\xfe\x09\x02\x08' + b'SALTsalt' + trail,
    'gnu1': b'\xfe\x00\x65\x00GNU\x01' + trail,
    'gnu2': b'\xff\x00\x65\x00GNU\x02\x06serial' + trail,
    'gnu2-long': b'\xff\x00\x65\x00GNU\x02\x14' + b'0123456789abcdefghij' + trail,
    'gnu2-empty': b'\xff\x00\x65\x00GNU\x02\x00' + trail,
    'gnu-badmagic': b'\xfe\x00\x65\x00GNX\x01' + trail,
    'gnu3': b'\xfe\x00\x65\x00GNU\x03' + trail,
    'bad-encalg': b'\xfe\x63\x03\x08' + b'SALTsalt' + b'\x60' + trail,
    'bad-spec': b'\xfe\x09\x07\x08' + b'SALTsalt' + b'\x60' + trail,
    'bad-halg': b'\xfe\x09\x03\x63' + b'SALTsalt' + b'\x60' + trail,
    'plaintext-alg': b'\xfe\x00\x03\x08' + b'SALTsalt' + b'\x60' + trail,
    'short0': b'',
    'short1': b'\xfe',
    'short2': b'\xfe\x09',
    'short3': b'\xfe\x09\x03',
    'short4': b'\xfe\x09\x03\x08',
    'short-salt': b'\xfe\x09\x03\x08' + b'SALT',
    'short-salt8': b'\xfe\x09\x03\x08' + b'SALTsalt',
    'short-iv': b'\xfe\x09\x03\x08' + b'SALTsalt' + b'\x60' + b'IV',
    'short-gnu': b'\xfe\x00\x65\x00GNU',
    'short-gnu2': b'\xfe\x00\x65\x00GNU\x02',
}
for name in sorted(raws):
    for iv in (True, False, None):
        roundtrip('rt-' + name, raws[name], iv)

# --- hand-built objects: serialisation, length, truthiness, copy
for usage in (0, 1, 9, 253, 254, 255):
    for spec in (0, 1, 2, 3, 101):
        for ivv in (None, bytearray(b'IVIVIVIVIVIVIVIV'), b'iviviviv'):
            s = String2Key()
            s.usage = usage
            s.encalg = 9
            s.specifier = spec
            s.halg = 8
            s.salt = bytearray(b'NaClNaCl')
            s.count = 0x60
            s.iv = ivv
            if spec == 101:
                s.gnuext = 2
                s.scserial = bytearray(b'card-serial')
            attempt(('hand', usage, spec), lambda: state(s))
            c = copy.copy(s)
            attempt(('hand-copy', usage, spec), lambda: state(c))
            rec('copy-salt-distinct', c.salt is not s.salt, c.iv is s.iv, c.scserial is s.scserial)

for bad_usage in (256, -1, 'x', None):
    s = String2Key()
    s.usage = bad_usage
    attempt(('bad-usage', repr(bad_usage)), lambda: bytes(s.__bytearray__()))
s = mk(salt='saltsalt')
attempt('bytearray-salt-str', lambda: bytes(s.__bytearray__()))
s = mk(iv='ivivivivivivivi')
attempt('bytearray-iv-str', lambda: bytes(s.__bytearray__()))
s = mk(specifier=101, scserial=bytearray(b'x' * 300))
attempt('bytearray-long-serial', lambda: bytes(s.__bytearray__()))

# --- real fixtures: unlock a passphrase-protected key and decrypt a passphrase-protected message
import glob  # noqa: E402
import warnings  # noqa: E402
warnings.simplefilter('ignore')
for fn in sorted(glob.glob('tests/testdata/keys/*.sec.asc')) + sorted(glob.glob('tests/testdata/keys/*.enc.asc')) + sorted(glob.glob('tests/testdata/blocks/*privkey*.asc')):
    try:
        key, _ = pgpy.PGPKey.from_file(fn)
    except Exception as e:  # noqa
        rec('key-load-fail', fn, type(e).__name__)
        continue
    for k in [key] + list(key.subkeys.values()):
        s2k = getattr(k._key.keymaterial, 's2k', None)
        if s2k is not None:
            rec('fixture-s2k', os.path.basename(fn), state(s2k), bytes(k._key.__bytearray__()) == bytes(k._key.__bytes__()))
            if s2k and s2k.specifier != 101:
                rec('fixture-dk', s2k.derive_key('QwertyUiop'))
    if key.is_protected:
        try:
            with key.unlock('QwertyUiop'):
                rec('unlock-ok', os.path.basename(fn), key.is_unlocked, bytes(key._key.keymaterial.__bytearray__()))
        except Exception as e:  # noqa
            rec('unlock-fail', os.path.basename(fn), type(e).__name__, str(e))

for fn in sorted(glob.glob('tests/testdata/messages/*pass*.asc')):
    try:
        msg = pgpy.PGPMessage.from_file(fn)
        dec = msg.decrypt('QwertyUiop')
        rec('msg', os.path.basename(fn), bytes(dec.message if isinstance(dec.message, (bytes, bytearray)) else dec.message.encode('utf-8')))
    except Exception as e:  # noqa
        rec('msg-fail', os.path.basename(fn), type(e).__name__, str(e))

print('records', nrec[0])
print('digest', out.hexdigest())
