"""Equivalence probe for the secret-key material codec refactoring (C08 ref3).

Run as: cd <tree> && /venv/bin/python equiv.py
Prints one digest; it must be identical on the unchanged and on the refactored tree.
"""
import copy
import glob
import hashlib
import os
import sys
import warnings

sys.path.insert(0, os.getcwd())
warnings.simplefilter('ignore')

import pgpy  # noqa: E402
from pgpy.packet import Packet  # noqa: E402
from pgpy.packet import fields  # noqa: E402

out = []


def rec(*items):
    out.append(repr(items))


TRAILER = b'\xde\xca\xff\xba\xdd'


def km_state(km):
    st = {}
    for k, v in sorted(vars(km).items()):
        if k == 's2k':
            v = sorted((a, repr(b)) for a, b in vars(v).items())
        elif k in ('p',) and isinstance(v, fields.ECPoint):
            v = sorted((a, repr(b)) for a, b in vars(v).items())
        elif k == 'kdf':
            v = sorted((a, repr(b)) for a, b in vars(v).items())
        st[k] = repr(v)
    return st


def probe_km(tag, km):
    for name, fn in (('bytes', lambda: bytes(km).hex()), ('len', lambda: len(km)), ('publen', lambda: km.publen()),
                     ('copy', lambda: bytes(copy.copy(km)).hex()), ('state', lambda: km_state(km))):
        try:
            rec(tag, name, fn())
        except Exception as e:
            rec(tag, name, type(e).__name__, str(e))


# 1. every packet fixture with trailing data
secret = {}
for fn in sorted(glob.glob('tests/testdata/packets/[0-9]*')):
    with open(fn, 'rb') as f:
        raw = f.read()
    buf = bytearray(raw) + TRAILER
    p = Packet(buf)
    rec(os.path.basename(fn), type(p).__name__, bytes(p).hex() == raw.hex(), bytes(buf).hex(), len(p), p.header.length)
    km = getattr(p, 'keymaterial', None)
    if km is not None:
        probe_km(os.path.basename(fn), km)
        if isinstance(km, fields.PrivKey):
            secret[os.path.basename(fn)] = (p, raw)
        p.update_hlen()
        rec('upd', p.header.length, bytes(p).hex() == raw.hex())

# 2. secret key material with every S2K usage, straight through the field codec
for name, (p, raw) in sorted(secret.items()):
    km = p.keymaterial
    cls = type(km)
    pub = bytes(km)[:km.publen()]
    if km.s2k:
        tails = {'asis': bytes(km)[km.publen():]}
    else:
        mpis = b''.join(getattr(km, f).to_mpibytes() for f in km.__privfields__)
        chk = (sum(mpis) % 65536).to_bytes(2, 'big')
        s2k_iter = b'\x09\x03\x02' + bytes(range(8)) + b'\x60' + bytes(range(16, 32))   # AES256, iterated, SHA1
        s2k_salt = b'\x03\x01\x08' + bytes(range(8)) + bytes(range(8))                 # CAST5, salted, SHA256
        s2k_simple = b'\x07\x00\x02' + bytes(range(16))
        gnu_dummy = b'\x00\x65\x02GNU\x01'
        tails = {
            'u0': b'\x00' + mpis + chk,
            'u0-nochk': b'\x00' + mpis,
            'u0-short': b'\x00' + mpis[:5],
            'u254-iter': b'\xfe' + s2k_iter + b'ciphertext-octets-0123456789',
            'u254-salt': b'\xfe' + s2k_salt + b'ciphertext',
            'u255-simple': b'\xff' + s2k_simple + b'ciphertext' + chk,
            'u254-gnu': b'\xfe' + gnu_dummy,
            'u255-empty': b'\xff' + s2k_iter,
            'u7-legacy': b'\x07' + bytes(16) + mpis + chk,
            'u9-legacy': b'\x09' + mpis,
            'none': b'',
        }
    for tname, tail in sorted(tails.items()):
        buf = bytearray(pub + tail + TRAILER)
        k2 = cls()
        try:
            k2.parse(buf)
        except Exception as e:
            rec(name, tname, 'EXC', type(e).__name__, str(e), bytes(buf).hex())
            probe_km((name, tname, 'partial'), k2)
            continue
        rec(name, tname, 'rest', bytes(buf).hex(), bool(k2.s2k), k2.s2k.usage)
        probe_km((name, tname), k2)
        # what the object emits must parse again to the same octets
        again = bytearray(bytes(k2))
        k3 = cls()
        try:
            k3.parse(again)
            rec(name, tname, 'again', bytes(k3) == bytes(k2), len(k3) == len(k2), bytes(again).hex())
        except Exception as e:
            rec(name, tname, 'again', type(e).__name__, str(e))
        # in-place mutation of the parsed object
        k2.s2k.usage = 0
        k2._compute_chksum()
        probe_km((name, tname, 'usage0'), k2)
        k2.clear()
        probe_km((name, tname, 'cleared'), k2)

# 3. whole-packet round trip through Packet() for re-headered secret keys (tag 5 and 7, old and new format)
for name, (p, raw) in sorted(secret.items()):
    body = bytes(p)[len(p.header):]
    for hdr in (bytes([0xc0 | p.header.tag, 0xff]) + len(body + b'\x04').to_bytes(4, 'big'),
                bytes([0x80 | (p.header.tag << 2) | 2]) + len(body + b'\x04').to_bytes(4, 'big')):
        buf = bytearray(hdr + b'\x04' + body + TRAILER)
        try:
            q = Packet(buf)
            rec(name, hdr.hex(), type(q).__name__, hashlib.sha256(bytes(q)).hexdigest(), len(q), q.header.length, bytes(buf).hex())
        except Exception as e:
            rec(name, hdr.hex(), type(e).__name__, str(e), len(buf))

# 4. key fixtures, including unlocking the protected ones
for fn in sorted(glob.glob('tests/testdata/keys/*.asc')) + sorted(glob.glob('tests/testdata/blocks/*seckey.asc')):
    key, _ = pgpy.PGPKey.from_file(fn)
    rec(fn, hashlib.sha256(bytes(key)).hexdigest(), key.is_public, key.is_protected)
    for k in [key] + list(key.subkeys.values()):
        km = k._key.keymaterial
        rec('  km', type(km).__name__, len(km), km.publen(), hashlib.sha256(bytes(km)).hexdigest())
    if not key.is_public and key.is_protected:
        try:
            with key.unlock('QwertyUiop'):
                for k in [key] + list(key.subkeys.values()):
                    km = k._key.keymaterial
                    rec('  unlocked', type(km).__name__, len(km), hashlib.sha256(bytes(km)).hexdigest(), bytes(km.chksum).hex(),
                        [int(getattr(km, f)) for f in km.__privfields__])
        except Exception as e:
            rec('  unlock', type(e).__name__, str(e))
        try:
            with key.unlock('wrong'):
                pass
        except Exception as e:
            rec('  unlock wrong', type(e).__name__, str(e))
        rec('  relocked', hashlib.sha256(bytes(key)).hexdigest())

# 5. blank objects
for cls in (fields.RSAPriv, fields.DSAPriv, fields.ElGPriv, fields.ECDSAPriv, fields.EdDSAPriv, fields.ECDHPriv, fields.OpaquePrivKey):
    probe_km(('blank', cls.__name__), cls())

print(hashlib.sha256('\n'.join(out).encode()).hexdigest(), len(out))
