"""Digest of everything observable about issuer / issuer-fingerprint / intended-recipient / recipient ids."""
import glob
import hashlib
import os
import sys
import warnings
from datetime import datetime, timezone

sys.path.insert(0, os.getcwd())
warnings.simplefilter('ignore')

import pgpy  # noqa: E402
from pgpy.packet.subpackets.signature import Issuer, IssuerFingerprint, IntendedRecipient  # noqa: E402
from pgpy.packet.packets import PKESessionKeyV3, OnePassSignatureV3  # noqa: E402

out = []


def rec(*a):
    out.append(repr(a))


def attempt(label, fn):
    try:
        rec(label, 'ok', fn())
    except Exception as e:  # the exception type and message are part of the behaviour
        rec(label, 'exc', type(e).__name__, str(e))


# 1. subpackets decoded from hand-made bodies (the subpacket header is parsed by the container, so set its length here)
def parse_sp(cls, hlen, body):
    sp = cls()
    sp.header.length = hlen
    buf = bytearray(body)
    sp.parse(buf)
    return (sp.header.length, getattr(sp, 'version', None),
            str(getattr(sp, 'issuer', '')) + str(getattr(sp, 'issuer_fingerprint', '')) + str(getattr(sp, 'intended_recipient', '')),
            bytes(buf), bytes(sp.__bytearray__()), len(sp))


fp20 = bytes(range(0xA0, 0xA0 + 20))
fp32 = bytes(range(0x10, 0x10 + 32))
for cls in (IssuerFingerprint, IntendedRecipient):
    attempt((cls.__name__, 'v4'), lambda: parse_sp(cls, 22, b'\x04' + fp20 + b'tail'))
    attempt((cls.__name__, 'v5'), lambda: parse_sp(cls, 34, b'\x05' + fp32 + b'tail'))
    attempt((cls.__name__, 'v3'), lambda: parse_sp(cls, 18, b'\x03' + fp20[:16] + b'tail'))
    attempt((cls.__name__, 'v6-long'), lambda: parse_sp(cls, 40, b'\x06' + fp32 + fp20))
    attempt((cls.__name__, 'v1-len2'), lambda: parse_sp(cls, 2, b'\x01' + fp20))
    attempt((cls.__name__, 'v1-len1'), lambda: parse_sp(cls, 1, b'\x01' + fp20))
    attempt((cls.__name__, 'v0-empty'), lambda: parse_sp(cls, 2, b''))
    attempt((cls.__name__, 'v4-short'), lambda: parse_sp(cls, 22, b'\x04' + fp20[:7]))
    attempt((cls.__name__, 'v4-wrong-hlen'), lambda: parse_sp(cls, 9, b'\x04' + fp20 + b'tail'))
    attempt((cls.__name__, 'v5-short'), lambda: parse_sp(cls, 34, b'\x05' + fp20))

attempt('issuer', lambda: parse_sp(Issuer, 9, b'\x00\x01\xab\xcd\xef\x99\xfe\xff' + b'zz'))
attempt('issuer-short', lambda: parse_sp(Issuer, 4, b'\x0a\x0b\x0c'))
attempt('issuer-empty', lambda: parse_sp(Issuer, 1, b''))
attempt('issuer-default', lambda: (Issuer().issuer, bytes(Issuer().__bytearray__())))
attempt('ifp-default', lambda: (IssuerFingerprint().version, IssuerFingerprint().issuer_fingerprint))
attempt('ifp-default-bytes', lambda: bytes(IssuerFingerprint().__bytearray__()))


def setter(cls, attr, val):
    sp = cls()
    setattr(sp, attr, val)
    v = getattr(sp, attr)
    return (type(v).__name__, str(v))


for val in ('abcd 0123 ABCD', pgpy.types.Fingerprint('00' * 20), bytearray(fp20), bytearray(), 'xyz', b'\x01\x02', 7, None):
    attempt(('ifp-set', repr(val)), lambda: setter(IssuerFingerprint, 'issuer_fingerprint', val))
    attempt(('ir-set', repr(val)), lambda: setter(IntendedRecipient, 'intended_recipient', val))
    attempt(('issuer-set', repr(val)), lambda: setter(Issuer, 'issuer', val))
    attempt(('pkesk-set', repr(val)), lambda: setter(PKESessionKeyV3, 'encrypter', val))
    attempt(('ops-set', repr(val)), lambda: setter(OnePassSignatureV3, 'signer', val))

# 2. fixture keys, signatures and messages
for path in sorted(glob.glob('tests/testdata/keys/*.asc') + glob.glob('tests/testdata/signatures/*.key.asc')):
    key, _ = pgpy.PGPKey.from_file(path)
    keys = [key] + list(key.subkeys.values())
    for k in keys:
        rec(path, str(k.fingerprint), k.fingerprint.keyid, k.fingerprint.shortid)
        for sig in k.__sig__:
            rec('sig', sig.signer, str(sig.signer_fingerprint), hashlib.sha256(bytes(sig)).hexdigest())
    for uid in key.userids:
        for sig in uid.__sig__:
            rec('uidsig', sig.signer, str(sig.signer_fingerprint), [str(r) for r in sig.intended_recipients],
                hashlib.sha256(bytes(sig)).hexdigest())
    rec(path, hashlib.sha256(bytes(key)).hexdigest())

for path in sorted(glob.glob('tests/testdata/signatures/*.sig.asc')):
    sig = pgpy.PGPSignature.from_file(path)
    rec(path, sig.signer, str(sig.signer_fingerprint), hashlib.sha256(bytes(sig)).hexdigest())

for path in sorted(glob.glob('tests/testdata/messages/*.asc')):
    msg = pgpy.PGPMessage.from_file(path)
    rec(path, sorted(msg.encrypters), sorted(msg.signers), [(s.signer, str(s.signer_fingerprint)) for s in msg.signatures],
        hashlib.sha256(bytes(msg)).hexdigest())

# 3. what PGPy emits: a deterministic (RSA, fixed time) signature with an intended recipient, and a PKESK
sec, _ = pgpy.PGPKey.from_file('tests/testdata/keys/rsa.1.sec.asc')
other, _ = pgpy.PGPKey.from_file('tests/testdata/keys/ecc.1.pub.asc')
when = datetime(2020, 2, 29, 12, 0, 0, tzinfo=timezone.utc)
sig = sec.sign('the quick brown fox', created=when, intended_recipients=[other, sec.pubkey])
rec('newsig', sig.signer, str(sig.signer_fingerprint), [str(r) for r in sig.intended_recipients], hashlib.sha256(bytes(sig)).hexdigest())
sig2 = pgpy.PGPSignature.from_blob(bytes(sig))
rec('newsig-reparsed', sig2.signer, str(sig2.signer_fingerprint), [str(r) for r in sig2.intended_recipients])
sig3 = sec.sign('the quick brown fox', created=when, include_issuer_fingerprint=False)
rec('newsig-nofpr', sig3.signer, str(sig3.signer_fingerprint), hashlib.sha256(bytes(sig3)).hexdigest())

signed = pgpy.PGPMessage.new('payload', compression=pgpy.constants.CompressionAlgorithm.Uncompressed)
signed |= sec.sign(signed, created=when)
rec('onepass', sorted(signed.signers), [bytes(p.__bytearray__()) for p in signed if isinstance(p, pgpy.PGPSignature) is False and hasattr(p, 'signer')])
enc = sec.pubkey.encrypt(pgpy.PGPMessage.new('payload'))
rec('pkesk', sorted(enc.encrypters), [bytes(sk.__bytearray__())[:13] for sk in enc._sessionkeys])
enc2 = pgpy.PGPMessage.from_blob(bytes(enc))
rec('pkesk-reparsed', sorted(enc2.encrypters), sec.decrypt(enc2).message)

if os.environ.get("EQUIV_DUMP"):
    print("\n".join(out))
print(hashlib.sha256('\n'.join(out).encode()).hexdigest(), len(out))
