"""Behavioural digest of the key import / export / copy / merge paths of PGPy.

Run as:  cd <tree> && /venv/bin/python equiv.py
Prints one sha256 digest (plus a few counters); it must be the same on the
unchanged and on the refactored tree.  Only fixture keys are used, nothing that
is digested depends on time, randomness or object addresses.
"""
import os
import sys

sys.path.insert(0, os.getcwd())

import copy
import glob
import hashlib
import warnings

import pgpy
from pgpy import PGPKey, PGPSignature, PGPUID
from pgpy.packet import Packet
from pgpy.types import SorteDeque

out = []


def emit(*parts):
    out.append(' | '.join(str(p) for p in parts))


def sigdesc(sig):
    return (sig.type.name, sig.signer, sig.created.isoformat(), sig.exportable, sig.embedded,
            hashlib.sha256(bytes(sig.__bytearray__())).hexdigest()[:16])


def keydesc(key):
    d = [('fpr', str(key.fingerprint), key.is_public, key.is_primary, key.key_algorithm.name)]
    d.append(('ownsigs', [sigdesc(s) for s in key._signatures]))
    for uid in key._uids:
        label = uid.name if uid.is_uid else 'UA:' + hashlib.sha256(bytes(uid._uid.__bytearray__())).hexdigest()[:12]
        d.append(('uid', label, uid.is_primary, uid.parent is key, [sigdesc(s) for s in uid._signatures]))
    for kid, sk in key._children.items():
        d.append(('subkey', kid, sk.parent is key, keydesc(sk)))
    d.append(('headers', list(key.ascii_headers.items())))
    return d


def exported(key):
    return (hashlib.sha256(bytes(key)).hexdigest(), hashlib.sha256(str(key).encode('latin-1')).hexdigest())


def guarded(label, fn):
    """run fn, record the result or the exception (type + message) and all warnings"""
    with warnings.catch_warnings(record=True) as caught:
        warnings.simplefilter('always')
        try:
            res = fn()
            emit(label, 'ok', res)
        except Exception as e:  # noqa
            emit(label, 'EXC', type(e).__name__, str(e))
    for w in caught:
        if w.category.__name__ == 'CryptographyDeprecationWarning':
            continue
        emit(label, 'WARN', w.category.__name__, str(w.message)[:40].split(' at 0x')[0])


keyfiles = sorted(glob.glob('tests/testdata/keys/*.asc')) + \
    sorted(glob.glob('tests/testdata/blocks/*key*.asc')) + \
    ['tests/testdata/pubtest.asc', 'tests/testdata/sectest.asc',
     'tests/testdata/blocks/expyro.asc', 'tests/testdata/blocks/revochiio.asc']
keyfiles = [f for f in keyfiles if os.path.exists(f)]

loaded = []
for kf in keyfiles:
    def _load(kf=kf):
        key, others = PGPKey.from_file(kf)
        loaded.append((kf, key))
        return (keydesc(key), exported(key), [(k, keydesc(v)) for k, v in others.items()])
    guarded('load ' + kf, _load)

# round trip: binary and armored re-import, copy
for kf, key in loaded:
    def _rt(key=key):
        k2, o2 = PGPKey.from_blob(bytes(key))
        k3, o3 = PGPKey.from_blob(str(key))
        kc = copy.copy(key)
        assert bytes(kc) == bytes(key)
        return (exported(k2), exported(k3), exported(kc), keydesc(k2) == keydesc(key), keydesc(kc), list(o2), list(o3))
    guarded('roundtrip ' + kf, _rt)

# concatenated blobs (several keys in one binary blob), with and without interleaved trust packets
TRUST = b'\xb0\x02\x00\x00'   # old format tag 12 (Trust), 2 byte body


def with_trust(blob):
    """insert a trust packet after every packet of blob"""
    data = bytearray(blob)
    res = bytearray()
    while data:
        before = bytes(data)
        Packet(data)
        used = len(before) - len(data)
        res += before[:used] + TRUST
    return bytes(res)


pubs = [k for _, k in loaded if k.is_public]
secs = [k for _, k in loaded if not k.is_public]
for label, group in (('pubs', pubs), ('secs', secs), ('mixed', pubs[:2] + secs[:2] + pubs[2:3])):
    blob = b''.join(bytes(k) for k in group)

    def _cat(blob=blob):
        key, others = PGPKey.from_blob(blob)
        return (exported(key), [(k, exported(v), keydesc(v)) for k, v in others.items()])
    guarded('concat ' + label, _cat)
    guarded('concat+trust ' + label, lambda blob=blob: PGPKey.from_blob(with_trust(blob))[0] and _cat(with_trust(blob)))

# parse through an existing instance, returned mapping
for kf, key in loaded[:4]:
    def _inst(key=key):
        k = PGPKey()
        res = k.parse(bytearray(bytes(key)))
        return (list(res), exported(k))
    guarded('instance-parse ' + kf, _inst)

# error paths
guarded('parse signature as key', lambda: PGPKey.from_file('tests/testdata/blocks/rsasignature.asc'))
guarded('parse message as key', lambda: PGPKey.from_file('tests/testdata/blocks/message.signed.asc'))
guarded('parse empty', lambda: PGPKey.from_blob(b''))
guarded('key | int', lambda: PGPKey() | 12)
guarded('key | str', lambda: PGPKey() | 'x')
guarded('uid | int', lambda: PGPUID() | 12)
guarded('uid | uid', lambda: PGPUID.new('a') | PGPUID.new('b')._uid)
guarded('sig | int', lambda: PGPSignature() | 12)
guarded('truncated blob', lambda: (lambda r: (exported(r[0]), keydesc(r[0]), list(r[1])))(PGPKey.from_blob(bytes(pubs[0])[:-7])))
guarded('truncated header', lambda: PGPKey.from_blob(bytes(pubs[0]) + b'\xc6'))
guarded('garbage after key', lambda: exported(PGPKey.from_blob(bytes(pubs[0]) + b'\xb0\x02\x00\x00' + b'\xb0\x02\x01\x01')[0]))
guarded('only trust', lambda: (lambda r: (r[0]._key, list(r[1])))(PGPKey.from_blob(b'\xb0\x02\x00\x00')))
guarded('orphan uid first', lambda: PGPKey.from_blob(bytes(pubs[0]._uids[0]._uid.__bytearray__()) + bytes(pubs[0])))

# non-exportable signature: attach to a copy of a key and to a user id, export, re-import
nonexp = PGPSignature.from_file('tests/testdata/blocks/signature.non-exportable.asc')
emit('nonexp', sigdesc(nonexp))
for kf, key in loaded[:6]:
    def _ne(key=key):
        kc = copy.copy(key)
        kc |= copy.copy(nonexp)
        if len(kc._uids):
            kc._uids[0] |= copy.copy(nonexp)
            kc._uids[-1] |= copy.copy(nonexp)
        k2, _ = PGPKey.from_blob(bytes(kc))
        return (len(kc._signatures), [len(u._signatures) for u in kc._uids], exported(kc), bytes(kc) == bytes(key),
                keydesc(k2) == keydesc(key), keydesc(copy.copy(kc)))
    guarded('nonexportable ' + kf, _ne)

# copies of the parts
for kf, key in loaded[:6]:
    def _cp(key=key):
        r = []
        for uid in key._uids:
            uc = copy.copy(uid)
            r.append((uc.parent is None, bytes(uc._uid.__bytearray__()) == bytes(uid._uid.__bytearray__()),
                      uc._uid is not uid._uid, [sigdesc(s) for s in uc._signatures]))
            for s in uid._signatures:
                sc = copy.copy(s)
                r.append((sigdesc(sc), sc._signature is not s._signature, list(sc.ascii_headers.items()), str(sc) == str(s)))
        return r
    guarded('partcopy ' + kf, _cp)

# SorteDeque on plain values (ordering of equal elements is visible through identity)


class V(object):
    def __init__(self, v, tag):
        self.v, self.tag = v, tag

    def __lt__(self, other):
        return self.v < other.v

    def __le__(self, other):
        return self.v <= other.v

    def __repr__(self):
        return '%d%s' % (self.v, self.tag)


sd = SorteDeque()
for i, v in enumerate([5, 1, 5, 3, 9, 1, 0, 9, 5, 7, 7, 2]):
    sd.insort(V(v, 'abcdefghijkl'[i]))
emit('sortedeque', list(sd))
x = sd[4]
x.v = 8
sd.resort(x)
emit('sortedeque resort', list(sd))
sd.resort(V(4, 'z'))
emit('sortedeque resort new', list(sd))
sd[0].v = 6
sd.check()
emit('sortedeque check', list(sd))
bd = SorteDeque(maxlen=3)
for v in (4, 2, 8, 6, 1):
    bd.insort(v)
emit('sortedeque bounded', list(bd))

digest = hashlib.sha256('\n'.join(out).encode('utf-8')).hexdigest()
print('lines=%d keys=%d digest=%s' % (len(out), len(loaded), digest))
if '-v' in sys.argv:
    print('\n'.join(out))
