"""C06 equivalence probe: passphrase protection of secret keys at rest.

Run as:  cd <tree> && PYTHONHASHSEED=0 /venv/bin/python equiv.py
Prints a deterministic transcript; it has to be byte-identical before/after the commit.
"""
import glob
import hashlib
import os
import struct
import sys
import warnings

sys.path.insert(0, os.getcwd())
warnings.simplefilter('ignore')

# ---------------------------------------------------------------- deterministic "randomness"
_ctr = [0]


def _fake_urandom(n):
    out = b''
    while len(out) < n:
        _ctr[0] += 1
        out += hashlib.sha256(b'C06-probe-%d' % _ctr[0]).digest()
    return out[:n]


os.urandom = _fake_urandom

import pgpy  # noqa: E402
from pgpy import PGPKey, PGPMessage  # noqa: E402
from pgpy.constants import (HashAlgorithm, SymmetricKeyAlgorithm, PubKeyAlgorithm,  # noqa: E402
                            String2KeyType, EllipticCurveOID)
from pgpy.errors import PGPError, PGPDecryptionError  # noqa: E402
from pgpy.packet.types import MPI  # noqa: E402

assert os.path.dirname(os.path.dirname(os.path.abspath(pgpy.__file__))) == os.getcwd(), pgpy.__file__

from cryptography.hazmat.primitives.ciphers import Cipher, modes  # noqa: E402
from cryptography.hazmat.primitives.ciphers import algorithms as _alg  # noqa: E402
try:
    from cryptography.hazmat.decrepit.ciphers import algorithms as _dalg  # noqa: E402
except ImportError:  # pragma: no cover
    _dalg = _alg


def out(*a):
    print(*a)
    sys.stdout.flush()


def h(b):
    return hashlib.sha256(bytes(b)).hexdigest()[:24]


def exc_name(fn):
    try:
        r = fn()
        return 'ok', r
    except BaseException as e:  # noqa
        return type(e).__name__, None


# ---------------------------------------------------------------- independent RFC 4880 reader
def _calg(name):
    return getattr(_dalg, name, None) or getattr(_alg, name)


CIPHERS = {  # id: (class name, key bytes, block bytes)
    1: ('IDEA', 16, 8), 2: ('TripleDES', 24, 8), 3: ('CAST5', 16, 8), 4: ('Blowfish', 16, 8),
    7: ('AES', 16, 16), 8: ('AES', 24, 16), 9: ('AES', 32, 16),
    11: ('Camellia', 16, 16), 12: ('Camellia', 24, 16), 13: ('Camellia', 32, 16),
}
HASHES = {1: 'md5', 2: 'sha1', 3: 'ripemd160', 8: 'sha256', 9: 'sha384', 10: 'sha512', 11: 'sha224'}


def ind_s2k(spec, halg, salt, coded, passphrase, keylen):
    if not isinstance(passphrase, bytes):
        passphrase = passphrase.encode('utf-8')
    name = HASHES[halg]
    key = b''
    n = 0
    while len(key) < keylen:
        ctx = hashlib.new(name)
        ctx.update(b'\x00' * n)
        if spec == 0:
            ctx.update(passphrase)
        elif spec == 1:
            ctx.update(salt + passphrase)
        elif spec == 3:
            count = (16 + (coded & 15)) << ((coded >> 4) + 6)
            data = salt + passphrase
            if count < len(data):
                count = len(data)
            reps, rem = divmod(count, len(data))
            # feed in large chunks
            big = data * 4096
            full, rest = divmod(reps, 4096)
            for _ in range(full):
                ctx.update(big)
            ctx.update(data * rest)
            ctx.update(data[:rem])
        else:
            raise ValueError(spec)
        key += ctx.digest()
        n += 1
    return key[:keylen]


def ind_cfb(calg, key, iv, data, decrypt):
    name, klen, bs = CIPHERS[calg]
    ecb = Cipher(_calg(name)(key), modes.ECB()).encryptor()
    fb = bytes(iv)
    res = bytearray()
    for i in range(0, len(data), bs):
        blk = bytes(data[i:i + bs])
        ks = ecb.update(fb)
        o = bytes(a ^ b for a, b in zip(blk, ks))
        res += o
        fb = (blk if decrypt else o)
        if len(fb) < bs:
            break
    return bytes(res)


def rd_mpi(buf, pos):
    bits = struct.unpack('>H', buf[pos:pos + 2])[0]
    n = (bits + 7) // 8
    return int.from_bytes(buf[pos + 2:pos + 2 + n], 'big'), pos + 2 + n


def packets(blob):
    blob = bytes(blob)
    pos = 0
    while pos < len(blob):
        t = blob[pos]
        pos += 1
        if t & 0x40:
            tag = t & 0x3f
            o = blob[pos]
            if o < 192:
                ln = o
                pos += 1
            elif o < 224:
                ln = ((o - 192) << 8) + blob[pos + 1] + 192
                pos += 2
            elif o == 255:
                ln = struct.unpack('>I', blob[pos + 1:pos + 5])[0]
                pos += 5
            else:
                raise ValueError('partial')
        else:
            tag = (t >> 2) & 0xf
            lt = t & 3
            if lt == 0:
                ln = blob[pos]
                pos += 1
            elif lt == 1:
                ln = struct.unpack('>H', blob[pos:pos + 2])[0]
                pos += 2
            elif lt == 2:
                ln = struct.unpack('>I', blob[pos:pos + 4])[0]
                pos += 4
            else:
                ln = len(blob) - pos
        yield tag, blob[pos:pos + ln]
        pos += ln


NPUB = {1: 2, 2: 2, 3: 2, 17: 4, 16: 3}
NSEC = {1: 4, 2: 4, 3: 4, 17: 1, 16: 1, 19: 1, 22: 1, 18: 1}


def ind_read_secret(body, passphrase):
    """-> dict(alg, s2k description, secrets or None, status)"""
    assert body[0] == 4
    alg = body[5]
    pos = 6
    if alg in NPUB:
        for _ in range(NPUB[alg]):
            _, pos = rd_mpi(body, pos)
    else:
        ol = body[pos]
        pos += 1 + ol
        _, pos = rd_mpi(body, pos)
        if alg == 18:
            kl = body[pos]
            pos += 1 + kl
    usage = body[pos]
    pos += 1
    info = {'alg': alg, 'usage': usage, 'publen': pos - 1}
    if usage == 0:
        sec = []
        start = pos
        for _ in range(NSEC[alg]):
            v, pos = rd_mpi(body, pos)
            sec.append(v)
        ck = struct.unpack('>H', body[pos:pos + 2])[0]
        info['secrets'] = sec
        info['status'] = 'clear chk=%s' % (ck == sum(body[start:pos]) % 65536)
        info['rest'] = len(body) - pos - 2
        return info
    if usage not in (254, 255):
        info['secrets'] = None
        info['status'] = 'legacy'
        return info
    calg = body[pos]
    spec = body[pos + 1]
    pos += 2
    info.update(calg=calg, spec=spec)
    if spec == 101:
        info['gnu'] = bytes(body[pos:pos + 5])
        info['secrets'] = None
        info['status'] = 'gnu-ext rest=%d' % (len(body) - pos - 5)
        return info
    halg = body[pos]
    pos += 1
    salt = b''
    coded = 0
    if spec in (1, 3):
        salt = body[pos:pos + 8]
        pos += 8
    if spec == 3:
        coded = body[pos]
        pos += 1
    name, klen, bs = CIPHERS[calg]
    iv = body[pos:pos + bs]
    pos += bs
    ct = body[pos:]
    info.update(halg=halg, coded=coded, ctlen=len(ct))
    if passphrase is None:
        info['secrets'] = None
        info['status'] = 'not-attempted'
        info['ct'] = ct
        return info
    key = ind_s2k(spec, halg, salt, coded, passphrase, klen)
    pt = ind_cfb(calg, key, iv, ct, True)
    if usage == 254:
        good = hashlib.sha1(pt[:-20]).digest() == pt[-20:]
        mp = pt[:-20]
    else:
        good = struct.unpack('>H', pt[-2:])[0] == sum(pt[:-2]) % 65536
        mp = pt[:-2]
    info['ct'] = ct
    if not good:
        info['secrets'] = None
        info['status'] = 'bad-passphrase'
        return info
    sec = []
    p = 0
    for _ in range(NSEC[alg]):
        v, p = rd_mpi(mp, p)
        sec.append(v)
    info['secrets'] = sec
    info['status'] = 'decrypted leftover=%d' % (len(mp) - p)
    return info


def ind_secrets_of_export(blob, passphrase):
    res = []
    for tag, body in packets(blob):
        if tag in (5, 7):
            res.append(ind_read_secret(body, passphrase))
    return res


# ---------------------------------------------------------------- helpers on pgpy objects
def allkeys(key):
    return [key] + list(key.subkeys.values())


def secrets_of(key):
    res = []
    for k in allkeys(key):
        km = k._key.keymaterial
        res.append([int(getattr(km, f)) for f in km.__privfields__])
    return res


def int_bytes(v):
    return v.to_bytes((v.bit_length() + 7) // 8 or 1, 'big')


def leaks(blob, secrets):
    blob = bytes(blob)
    n = 0
    for ks in secrets:
        for v in ks:
            if v and int_bytes(v) in blob:
                n += 1
    return n


def graph_holds(key, secrets):
    """walk the object graph of the key material looking for any of the secret integers"""
    want = set(v for ks in secrets for v in ks if v)
    wantb = [int_bytes(v) for v in want]
    seen = set()
    hits = 0
    stack = [k._key for k in allkeys(key)]
    while stack:
        o = stack.pop()
        if id(o) in seen:
            continue
        seen.add(id(o))
        if isinstance(o, bool):
            continue
        if isinstance(o, int):
            if int(o) in want:
                hits += 1
            continue
        if isinstance(o, (bytes, bytearray)):
            # encbytes is expected to be there, but must not contain the integers
            hits += sum(1 for w in wantb if w in bytes(o))
            continue
        if isinstance(o, str):
            continue
        if isinstance(o, dict):
            stack.extend(o.values())
            continue
        if isinstance(o, (list, tuple, set, frozenset)):
            stack.extend(o)
            continue
        d = getattr(o, '__dict__', None)
        if d and type(o).__module__.startswith('pgpy'):
            stack.extend(d.values())
    return hits


def state(key):
    return 'prot=%s unl=%s zero=%s' % (
        key.is_protected, key.is_unlocked,
        [all(v == 0 for v in ks) for ks in secrets_of(key)])


def sign_verdict(key, pub, text='probe text'):
    def go():
        sig = key.sign(text)
        return bool(pub.verify(text, sig))
    return exc_name(go)[0:2]


def roundtrip_sign_all(key, text='probe text'):
    """sign with primary (if it can) and report per (sub)key whether private op works"""
    res = []
    for k in allkeys(key):
        alg = k.key_algorithm
        if alg in (PubKeyAlgorithm.ECDH, PubKeyAlgorithm.ElGamal) or (alg == PubKeyAlgorithm.RSAEncryptOrSign and not k.is_primary):
            res.append('%s:%s' % (alg.name, exc_name(lambda: k._key.keymaterial.__privkey__() and 'privkey')[0]))
            continue

        def go():
            sig = k._key.sign(b'abc' * 11, getattr(__import__('cryptography.hazmat.primitives.hashes', fromlist=['x']), 'SHA256')())
            return len(sig) > 0
        res.append('%s:%s' % (alg.name, exc_name(go)))
    return res


def load(path):
    k, _ = PGPKey.from_file(path)
    return k


# ================================================================ 0. environment facts
out('== ciphers/hashes')
for a in SymmetricKeyAlgorithm:
    out(' ', a.name, exc_name(lambda: (a.key_size, a.block_size, a.is_supported, a.is_insecure)))
for hh in HashAlgorithm:
    out(' ', hh.name, exc_name(lambda: (hh.digest_size, hh.tuned_count)))

# ================================================================ 1. keys on file, checksums
KEYFILES = sorted(glob.glob('tests/testdata/keys/*.sec.asc') + glob.glob('tests/testdata/keys/*.sec.*.asc'))
out('== key files', KEYFILES)
for kf in KEYFILES:
    key = load(kf)
    out('--', kf, key.fingerprint, state(key))
    for k in allkeys(key):
        km = k._key.keymaterial
        before = bytes(km.chksum)
        km._compute_chksum()
        ind = sum(sum(bytes(getattr(km, f).to_mpibytes())) for f in km.__privfields__) % 65536
        out('   ', type(km).__name__, km.__privfields__, 'chk', before.hex(), bytes(km.chksum).hex(), ind == int.from_bytes(bytes(km.chksum), 'big'),
            'publen', km.publen(), 'len', len(km), len(bytes(km.__bytearray__())))
    ind = ind_secrets_of_export(bytes(key), None)
    out('    ind-clear', [(i['alg'], i['usage'], i['status'], i.get('rest')) for i in ind],
        [i['secrets'] for i in ind] == secrets_of(key))
    out('    export', h(bytes(key)), 'leaks', leaks(bytes(key), secrets_of(key)))

# ================================================================ 2. protect matrix (reduced iteration count)
out('== protect matrix (tuned_count lowered to 96 for speed)')
for hh in HashAlgorithm:
    if hh.name != 'Invalid':
        hh._tuned_count = 96

PASSES = ['QwertyUiop', 'pässwörd ☃ \U0001f511', 'x' * 300, b'raw \xff\xfe bytes', '', ' ']
CIPH = [SymmetricKeyAlgorithm.AES128, SymmetricKeyAlgorithm.AES192, SymmetricKeyAlgorithm.AES256,
        SymmetricKeyAlgorithm.CAST5, SymmetricKeyAlgorithm.TripleDES, SymmetricKeyAlgorithm.Blowfish,
        SymmetricKeyAlgorithm.Camellia128, SymmetricKeyAlgorithm.Camellia192, SymmetricKeyAlgorithm.Camellia256]
HSH = [HashAlgorithm.SHA1, HashAlgorithm.SHA256, HashAlgorithm.SHA512, HashAlgorithm.MD5,
       HashAlgorithm.RIPEMD160, HashAlgorithm.SHA224, HashAlgorithm.SHA384]

n = 0
for kf in KEYFILES:
    pubf = kf.replace('.sec.', '.pub.')
    for ci, c in enumerate(CIPH):
        for hi, hh in enumerate(HSH):
            # a diagonal-ish slice of the matrix to stay inside the time budget, all ciphers x all hashes get covered across key files
            if (ci + hi + n) % 3:
                continue
            pw = PASSES[(ci * 7 + hi) % len(PASSES)]
            key = load(kf)
            orig = secrets_of(key)
            r = exc_name(lambda: key.protect(pw, c, hh))[0]
            blob = bytes(key)
            line = [os.path.basename(kf), c.name, hh.name, 'pw%d' % PASSES.index(pw), r, state(key), h(blob),
                    'leaks', leaks(blob, orig), 'graph', graph_holds(key, orig)]
            if r == 'ok':
                ind = ind_secrets_of_export(blob, pw)
                line += ['ind', sorted(set(i['status'] for i in ind)), [i['secrets'] for i in ind] == orig,
                         'hdr', sorted(set((i['usage'], i['calg'], i['spec'], i['halg'], i['coded']) for i in ind))]
                wrong = ind_secrets_of_export(blob, 'wrong')
                line += ['indwrong', sorted(set(i['status'] for i in wrong))]
                # re-import the armored export and unlock
                k2, _ = PGPKey.from_blob(str(key))
                line += ['reimp', bytes(k2) == blob, state(k2)]
                with k2.unlock(pw):
                    line += ['unl', state(k2), secrets_of(k2) == orig]
                line += ['after', state(k2), 'graph', graph_holds(k2, orig)]
            out(' ', *line)
    n += 1

# ================================================================ 3. full-strength count (255) once per key file, sign/decrypt before and after
out('== default tuned_count round trips')
for hh in HashAlgorithm:
    if hh.name != 'Invalid':
        hh._tuned_count = 255

MSG = 'the quick brown fox — C06'
for kf in KEYFILES:
    key = load(kf)
    pub = key.pubkey
    orig = secrets_of(key)
    pw = 'Corrêct horse'
    out('--', os.path.basename(kf), [k.key_algorithm.name for k in allkeys(key)])
    out('   before', roundtrip_sign_all(key))
    key.protect(pw, SymmetricKeyAlgorithm.AES256, HashAlgorithm.SHA256)
    blob = bytes(key)
    out('   locked', state(key), h(blob), 'leaks', leaks(blob, orig), 'graph', graph_holds(key, orig))
    out('   locked-ops', roundtrip_sign_all(key))
    out('   locked-sign', exc_name(lambda: key.sign(MSG))[0])
    ind = ind_secrets_of_export(blob, pw)
    out('   ind', [i['status'] for i in ind], [i['secrets'] for i in ind] == orig,
        [(i['usage'], i['calg'], i['spec'], i['halg'], i['coded'], i['ctlen']) for i in ind])
    # wrong passphrase: raises, stays locked
    r = exc_name(lambda: key.unlock('nope').__enter__())[0]
    out('   wrong', r, state(key), 'graph', graph_holds(key, orig))
    r = exc_name(lambda: key.unlock(b'nope').__enter__())[0]
    out('   wrong-bytes', r, state(key))
    # right passphrase
    with key.unlock(pw) as uk:
        out('   unlocked', uk is key, state(key), secrets_of(key) == orig)
        out('   unlocked-ops', roundtrip_sign_all(key))
        if key.key_algorithm not in (PubKeyAlgorithm.ECDH,):
            out('   sign/verify', sign_verdict(key, pub, MSG))
        out('   export-while-unlocked', h(bytes(key)) == h(blob), bytes(key) == blob)
    out('   after', state(key), 'graph', graph_holds(key, orig), exc_name(lambda: key.sign(MSG))[0])
    # exception inside the scope
    try:
        with key.unlock(pw):
            inside = state(key)
            raise KeyError('boom')
    except KeyError as e:
        out('   exc-scope', inside, '->', state(key), 'graph', graph_holds(key, orig), type(e).__name__)
    # BaseException inside the scope
    try:
        with key.unlock(pw):
            raise KeyboardInterrupt()
    except KeyboardInterrupt:
        out('   kbd-scope', state(key), 'graph', graph_holds(key, orig))
    # generator-exit (scope abandoned through return)

    def early():
        with key.unlock(pw):
            return state(key)
    out('   return-scope', early(), '->', state(key))

    # decrypt with an encryption-capable (sub)key
    enc_target = None
    for k in allkeys(pub):
        if k.key_algorithm in (PubKeyAlgorithm.RSAEncryptOrSign, PubKeyAlgorithm.ECDH):
            enc_target = k
    if enc_target is not None:
        r, em = exc_name(lambda: enc_target.encrypt(PGPMessage.new(MSG), cipher=SymmetricKeyAlgorithm.AES128))
        out('   encrypt-to', enc_target.key_algorithm.name, r)
    else:
        em = None
    if em is not None:
        em = PGPMessage.from_blob(str(em))
        out('   decrypt-locked', exc_name(lambda: key.decrypt(em))[0])
        with key.unlock(pw):
            r, m = exc_name(lambda: key.decrypt(em))
            out('   decrypt-unlocked', r, None if m is None else m.message == MSG)
        out('   decrypt-after', exc_name(lambda: key.decrypt(em))[0], state(key))

    # re-protect with another passphrase inside the scope, export, import, unlock with new
    with key.unlock(pw):
        key.protect('second ü', SymmetricKeyAlgorithm.CAST5, HashAlgorithm.SHA1)
        mid = state(key)
    blob2 = bytes(key)
    out('   re-protect', mid, '->', state(key), h(blob2), 'leaks', leaks(blob2, orig))
    ind = ind_secrets_of_export(blob2, 'second ü')
    out('   ind2', [i['status'] for i in ind], [i['secrets'] for i in ind] == orig,
        sorted(set((i['usage'], i['calg'], i['spec'], i['halg'], i['coded']) for i in ind)))
    out('   ind2-oldpw', sorted(set(i['status'] for i in ind_secrets_of_export(blob2, pw))))
    out('   old-pw', exc_name(lambda: key.unlock(pw).__enter__())[0], state(key))
    k3, _ = PGPKey.from_blob(blob2)
    with k3.unlock('second ü'):
        out('   reimport-unlock', state(k3), secrets_of(k3) == orig)
        if k3.key_algorithm != PubKeyAlgorithm.ECDH:
            out('   reimport-sign', sign_verdict(k3, pub, MSG))
    out('   reimport-after', state(k3), 'graph', graph_holds(k3, orig))
    # protecting a locked key warns and changes nothing
    with warnings.catch_warnings(record=True) as w:
        warnings.simplefilter('always')
        k3.protect('third', SymmetricKeyAlgorithm.AES128, HashAlgorithm.SHA256)
    out('   protect-locked', [str(x.message)[:40] for x in w], bytes(k3) == blob2)

# ================================================================ 4. keys shipped already protected
out('== shipped protected keys')
for kf, pws in (('tests/testdata/keys/rsa.1.enc.asc', ['QwertyUiop', 'qwertyuiop', b'QwertyUiop']),
                ('tests/testdata/keys/dsa.1.enc.asc', ['QwertyUiop', '', 'QwertyUiop '])):
    key = load(kf)
    blob = bytes(key)
    out('--', kf, key.fingerprint, state(key), h(blob))
    for k in allkeys(key):
        s = k._key.keymaterial.s2k
        out('    s2k', int(s.usage), s.encalg.name, s.specifier.name, s.halg.name, s.count, bytes(s.salt).hex(), bytes(s.iv).hex(),
            len(k._key.keymaterial.encbytes), h(k._key.keymaterial.encbytes))
    for pw in pws:
        def go():
            with key.unlock(pw):
                sec = secrets_of(key)
                ind = ind_secrets_of_export(blob, pw)
                return state(key), [i['secrets'] for i in ind] == sec, h(repr(sec).encode()), sign_verdict(key, key.pubkey)
        out('    pw', repr(pw), exc_name(go), '->', state(key))

for pf in sorted(glob.glob('tests/testdata/packets/05.v4.enc.*.privkey')):
    from pgpy.packet import Packet
    data = bytearray(open(pf, 'rb').read())
    pkt = Packet(data)
    km = pkt.keymaterial
    s = km.s2k
    out('--', os.path.basename(pf), type(pkt).__name__, pkt.protected, pkt.unlocked, int(s.usage), s.encalg.name, s.specifier.name,
        s.halg.name, s.count, len(km.encbytes), h(pkt.__bytearray__()))
    for pw in ('QwertyUiop', 'wrong'):
        r = exc_name(lambda: pkt.unprotect(pw))[0]
        out('    unprotect', pw, r, pkt.unlocked, h(repr([int(getattr(km, f)) for f in km.__privfields__]).encode()))
        km.clear()
        out('    cleared', pkt.unlocked, [int(getattr(km, f)) for f in km.__privfields__])

# ================================================================ 5. foreign S2K forms built by the independent implementation
out('== foreign S2K forms')


def foreign(key, usage, spec, calg, halg, passphrase, coded=0x60):
    """rewrite an unprotected pgpy key into a protected one without using pgpy's encrypt path"""
    for k in allkeys(key):
        pkt = k._key
        km = pkt.keymaterial
        pt = b''.join(bytes(getattr(km, f).to_mpibytes()) for f in km.__privfields__)
        if usage == 254:
            pt += hashlib.sha1(pt).digest()
        else:
            pt += struct.pack('>H', sum(pt) % 65536)
        name, klen, bs = CIPHERS[int(calg)]
        salt = _fake_urandom(8) if spec in (1, 3) else b''
        iv = _fake_urandom(bs)
        sk = ind_s2k(spec, int(halg), salt, coded, passphrase, klen)
        km.s2k.usage = usage
        km.s2k.encalg = calg
        km.s2k.specifier = spec
        km.s2k.halg = halg
        km.s2k.salt = bytearray(salt)
        km.s2k.count = coded
        km.s2k.iv = bytearray(iv)
        km.encbytes = bytearray(ind_cfb(int(calg), sk, iv, pt, False))
        for f in km.__privfields__:
            setattr(km, f, MPI(0))
        if usage != 0:
            km.chksum = bytearray()
        pkt.update_hlen()
    return bytes(key)


FORMS = [(u, s) for u in (254, 255) for s in (0, 1, 3)]
fi = 0
for kf in KEYFILES:
    for (usage, spec) in FORMS:
        calg = CIPH[fi % len(CIPH)]
        halg = HSH[fi % len(HSH)]
        pw = PASSES[fi % 4]
        fi += 1
        src = load(kf)
        orig = secrets_of(src)
        pub = src.pubkey
        blob = foreign(src, usage, spec, calg, halg, pw)
        key, _ = PGPKey.from_blob(blob)
        line = [os.path.basename(kf), usage, String2KeyType(spec).name, calg.name, halg.name, 'pw%d' % PASSES.index(pw),
                h(blob), bytes(key) == blob, state(key), 'leaks', leaks(blob, orig)]
        line += ['wrong', exc_name(lambda: key.unlock('not it').__enter__())[0], state(key)]

        def go():
            with key.unlock(pw):
                res = [state(key), secrets_of(key) == orig]
                if key.key_algorithm != PubKeyAlgorithm.ECDH:
                    res.append(sign_verdict(key, pub))
                res.append(bytes(key) == blob)
                return res
        line += ['unlock', exc_name(go), 'after', state(key), 'graph', graph_holds(key, orig)]
        out(' ', *line)

# GNU dummy / smartcard stubs
out('== GNU extension stubs')
for kf in KEYFILES[:3]:
    for ext, serial in ((1, None), (2, b'\xd2\x76\x00\x01\x24\x01\x02\x00\x00\x05\x00\x00\x12\x34\x00\x00')):
        src = load(kf)
        orig = secrets_of(src)
        for k in allkeys(src):
            km = k._key.keymaterial
            km.s2k.usage = 254 if ext == 1 else 255
            km.s2k.encalg = 0
            km.s2k.specifier = 101
            km.s2k.gnuext = ext
            km.s2k.scserial = bytearray(serial) if serial else None
            km.s2k.iv = None
            km.encbytes = bytearray()
            km.chksum = bytearray()
            for f in km.__privfields__:
                setattr(km, f, MPI(0))
            k._key.update_hlen()
        blob = bytes(src)
        key, _ = PGPKey.from_blob(blob)
        ind = ind_secrets_of_export(blob, None)
        out(' ', os.path.basename(kf), ext, h(blob), bytes(key) == blob, state(key), 'leaks', leaks(blob, orig),
            [(i['usage'], i['calg'], i['spec'], i['status']) for i in ind],
            'unlock', exc_name(lambda: key.unlock('x').__enter__())[0], state(key),
            'sign', exc_name(lambda: key.sign('x'))[0],
            'protect', exc_name(lambda: key.protect('x', SymmetricKeyAlgorithm.AES128, HashAlgorithm.SHA1))[0], bytes(key) == blob)

# ================================================================ 6. freshly generated keys (random material: only consistency facts are printed)
out('== generated keys')
from pgpy.constants import KeyFlags  # noqa: E402
GEN = [(PubKeyAlgorithm.RSAEncryptOrSign, 1024), (PubKeyAlgorithm.DSA, 1024),
       (PubKeyAlgorithm.ECDSA, EllipticCurveOID.NIST_P256), (PubKeyAlgorithm.ECDSA, EllipticCurveOID.NIST_P521),
       (PubKeyAlgorithm.ECDSA, EllipticCurveOID.SECP256K1),
       (PubKeyAlgorithm.EdDSA, EllipticCurveOID.Ed25519)]
SUB = [(PubKeyAlgorithm.ECDH, EllipticCurveOID.Curve25519), (PubKeyAlgorithm.ECDH, EllipticCurveOID.NIST_P384),
       (PubKeyAlgorithm.RSAEncryptOrSign, 1024)]
for hh in HashAlgorithm:
    if hh.name != 'Invalid':
        hh._tuned_count = 16
for gi, (alg, param) in enumerate(GEN):
    def gen():
        key = PGPKey.new(alg, param)
        uid = pgpy.PGPUID.new('C06 probe %d' % gi)
        key.add_uid(uid, usage={KeyFlags.Sign}, hashes=[HashAlgorithm.SHA256], ciphers=[SymmetricKeyAlgorithm.AES256])
        salg, sparam = SUB[gi % len(SUB)]
        sub = PGPKey.new(salg, sparam)
        key.add_subkey(sub, usage={KeyFlags.EncryptCommunications})
        return key
    r, key = exc_name(gen)
    if key is None:
        out(' ', alg.name, getattr(param, 'name', param), r)
        continue
    orig = secrets_of(key)
    chk = []
    for k in allkeys(key):
        km = k._key.keymaterial
        ind = sum(sum(bytes(getattr(km, f).to_mpibytes())) for f in km.__privfields__) % 65536
        chk.append((type(km).__name__, len(km.chksum), int.from_bytes(bytes(km.chksum), 'big') == ind))
    clear = bytes(key)
    indc = ind_secrets_of_export(clear, None)
    pw = PASSES[gi % len(PASSES)]
    c = CIPH[gi % len(CIPH)]
    hh = HSH[gi % len(HSH)]
    key.protect(pw, c, hh)
    blob = bytes(key)
    ind = ind_secrets_of_export(blob, pw)
    line = [alg.name, getattr(param, 'name', param), chk, [i['status'] for i in indc], [i['secrets'] for i in indc] == orig,
            c.name, hh.name, state(key), 'leaks', leaks(blob, orig), 'graph', graph_holds(key, orig),
            'ind', [i['status'] for i in ind], [i['secrets'] for i in ind] == orig,
            'len', len(blob) - len(clear)]
    pub = key.pubkey
    em = pub.subkeys[list(pub.subkeys)[0]].encrypt(PGPMessage.new(MSG))
    with key.unlock(pw):
        line += ['unl', state(key), secrets_of(key) == orig, sign_verdict(key, pub)]
        r, m = exc_name(lambda: key.decrypt(em))
        line += ['dec', r, None if m is None else m.message == MSG]
    line += ['after', state(key), exc_name(lambda: key.sign('x'))[0], exc_name(lambda: key.decrypt(em))[0], 'graph', graph_holds(key, orig)]
    out(' ', *line)

# ================================================================ 7. argument handling around the scope (accepted inputs only)
out('== argument handling')


class MyStr(str):
    pass


for hh in HashAlgorithm:
    if hh.name != 'Invalid':
        hh._tuned_count = 16
for kf in KEYFILES:
    key = load(kf)
    pub = key.pubkey
    orig = secrets_of(key)
    with warnings.catch_warnings(record=True) as w:
        warnings.simplefilter('always')
        r1 = exc_name(lambda: pub.protect('pw', SymmetricKeyAlgorithm.AES128, HashAlgorithm.SHA256))[0]
        with pub.unlock('pw') as u:
            same = u is pub
        with key.unlock('pw') as u2:
            same2 = u2 is key
            st = state(key)
    out(' ', os.path.basename(kf), r1, same, same2, st, [(x.category.__name__, str(x.message)) for x in w],
        bytes(pub) == bytes(key.pubkey), state(key))
    # the same passphrase given as str, str subclass and utf-8 bytes is one passphrase
    text = 'sch\u00f6n \u2603'
    forms = [text, MyStr(text), text.encode('utf-8')]
    for i, f in enumerate(forms):
        k = load(kf)
        _ctr[0] = 1000
        k.protect(f, SymmetricKeyAlgorithm.AES128, HashAlgorithm.SHA256)
        blob = bytes(k)
        res = []
        for g in forms:
            def go():
                with k.unlock(g):
                    return secrets_of(k) == orig
            res.append(exc_name(go))
        res.append(exc_name(lambda: k.unlock(text.encode('utf-16-le')).__enter__())[0])
        ind = ind_secrets_of_export(blob, text)
        out('    form', i, h(blob), res, state(k), [x['secrets'] for x in ind] == orig, 'graph', graph_holds(k, orig))

out('== done')
