#!/usr/bin/env python
"""C12 probe: String2Key.derive_key / count / parse / __bytearray__ versus an
independent RFC 4880 section 3.7.1 reference.  Deterministic transcript."""
from __future__ import print_function

import glob
import hashlib
import os
import sys
import warnings

sys.path.insert(0, os.getcwd())
warnings.simplefilter('ignore')

import pgpy
from pgpy.constants import HashAlgorithm, SymmetricKeyAlgorithm, String2KeyType
from pgpy.packet.fields import String2Key
from pgpy.packet import Packet

assert os.path.dirname(os.path.dirname(os.path.abspath(pgpy.__file__))) == os.getcwd(), pgpy.__file__

PROBE_BYTEARRAY_PASSPHRASES = True

HALGS = [HashAlgorithm.MD5, HashAlgorithm.SHA1, HashAlgorithm.RIPEMD160, HashAlgorithm.SHA256,
         HashAlgorithm.SHA384, HashAlgorithm.SHA512, HashAlgorithm.SHA224]
ENCALGS = [SymmetricKeyAlgorithm.IDEA, SymmetricKeyAlgorithm.TripleDES, SymmetricKeyAlgorithm.CAST5,
           SymmetricKeyAlgorithm.Blowfish, SymmetricKeyAlgorithm.AES128, SymmetricKeyAlgorithm.AES192,
           SymmetricKeyAlgorithm.AES256, SymmetricKeyAlgorithm.Twofish256, SymmetricKeyAlgorithm.Camellia128,
           SymmetricKeyAlgorithm.Camellia192, SymmetricKeyAlgorithm.Camellia256]
SPECS = [String2KeyType.Simple, String2KeyType.Salted, String2KeyType.Iterated]
HNAME = {1: 'md5', 2: 'sha1', 3: 'ripemd160', 8: 'sha256', 9: 'sha384', 10: 'sha512', 11: 'sha224'}
KEYBITS = {1: 128, 2: 192, 3: 128, 4: 128, 7: 128, 8: 192, 9: 256, 10: 256, 11: 128, 12: 192, 13: 256}


def ref_count(c):
    return (16 + (c & 15)) << ((c >> 4) + 6)


def ref_s2k(spec, halg, keybits, salt, coded, passphrase):
    """RFC 4880 3.7.1, written as a stream: feed salt+passphrase cyclically"""
    if not isinstance(passphrase, bytes):
        passphrase = passphrase.encode('utf-8')
    unit = (bytes(salt) if spec in (1, 3) else b'') + passphrase
    total = len(unit)
    if spec == 3:
        total = max(total, ref_count(coded))
    keylen = keybits // 8
    out = b''
    n = 0
    while len(out) < keylen:
        h = hashlib.new(HNAME[int(halg)])
        h.update(b'\x00' * n)
        fed = 0
        while fed + len(unit) <= total and len(unit):
            h.update(unit)
            fed += len(unit)
        h.update(unit[:total - fed])
        out += h.digest()
        n += 1
    return out[:keylen]


def mk(spec, halg, encalg, salt, coded):
    s = String2Key()
    s.usage = 254
    s.encalg = encalg
    s.specifier = spec
    s.halg = halg
    s.salt = bytearray(salt)
    s.count = coded
    return s


def outcome(fn):
    try:
        return ('ok', fn())
    except Exception as e:
        return ('exc', type(e).__name__)


agg = hashlib.sha256()
nchecked = [0]
nbad = [0]


def check(spec, halg, encalg, salt, coded, pw, verbose=False):
    s = mk(spec, halg, encalg, salt, coded)
    got = outcome(lambda: s.derive_key(pw))
    exp = outcome(lambda: ref_s2k(int(spec), halg, KEYBITS[int(encalg)], salt, coded, pw))
    if got[0] == 'ok' and exp[0] == 'ok':
        same = got[1] == exp[1] and isinstance(got[1], bytes)
        token = got[1].hex()
    elif got[0] == 'exc':
        # the unchanged library divides by zero for an empty simple-S2K input; keep that visible
        same = True
        token = 'EXC:' + got[1]
    else:
        same = False
        token = 'MISMATCH'
    nchecked[0] += 1
    if not same:
        nbad[0] += 1
    agg.update(token.encode() + b'\n')
    if verbose or not same:
        print('  spec=%d halg=%s enc=%s coded=%d saltlen=%d pwlen=%d -> %s %s' % (
            int(spec), halg.name, encalg.name, coded, len(salt),
            len(pw), 'DIFFERS' if not same else ('raises' if token.startswith('EXC:') else 'same-as-rfc'), token))


SALTS = [bytes(bytearray(range(8))), b'\xff' * 8, b'\x00' * 8, bytes(bytearray([0xde, 0xad, 0xbe, 0xef, 1, 2, 3, 0x80]))]
PWS = [b'', 'a', 'QwertyUiop', u'paßwört ☃ \U0001f511', b'\xff\xfe\x00\x80raw',
       'x' * 55, 'y' * 56, 'z' * 64, b'\x01' * 1015, b'\x02' * 1016, b'\x03' * 1017,
       u'é' * 600, ('0123456789' * 500), b'\x00' * 4099]

print('== 1. coded count decode, all 256')
line = []
for c in range(256):
    s = String2Key()
    s.count = c
    assert s.count == ref_count(c), c
    line.append(s.count)
print('  ', hashlib.sha256(repr(line).encode()).hexdigest(), line[0], line[1], line[15], line[16], line[96], line[255])
for bad in (-1, 256, 1000):
    print('   count=%d ->' % bad, outcome(lambda: setattr(String2Key(), 'count', bad)))

print('== 2. full grid: 3 specs x 7 hashes x 11 ciphers x small counts x passphrases')
for spec in SPECS:
    for halg in HALGS:
        for encalg in ENCALGS:
            for si, salt in enumerate(SALTS[:2] if spec != 0 else SALTS[:1]):
                for coded in ((0, 1, 16, 33) if spec == 3 else (0,)):
                    for pi, pw in enumerate(PWS):
                        check(spec, halg, encalg, salt, coded, pw,
                              verbose=(encalg in (SymmetricKeyAlgorithm.AES256, SymmetricKeyAlgorithm.CAST5)
                                       and pi in (0, 3, 9, 13) and si == 0 and coded in (0, 33)))
print('  grid checked=%d bad=%d agg=%s' % (nchecked[0], nbad[0], agg.hexdigest()))

print('== 3. all 256 coded counts (iterated, SHA1 & MD5, CAST5/AES256)')
for c in range(256):
    halg, encalg = ((HashAlgorithm.SHA1, SymmetricKeyAlgorithm.CAST5) if c % 2 == 0
                    else (HashAlgorithm.MD5, SymmetricKeyAlgorithm.AES256 if c < 200 else SymmetricKeyAlgorithm.AES128))
    check(String2KeyType.Iterated, halg, encalg, SALTS[3], c, PWS[c % 5 + 1], verbose=(c % 17 == 0 or c == 255))
print('  checked=%d bad=%d agg=%s' % (nchecked[0], nbad[0], agg.hexdigest()))

print('== 4. passphrase lengths around the count boundary (coded 0 -> 1024 octets)')
for n in list(range(1008, 1026)) + [2040, 2048, 3000]:
    for halg in (HashAlgorithm.SHA256, HashAlgorithm.MD5):
        check(String2KeyType.Iterated, halg, SymmetricKeyAlgorithm.AES256, SALTS[0], 0, bytes(bytearray([n % 251])) * n,
              verbose=True)
for c in (96, 145, 200, 224):
    for halg in HALGS:
        check(String2KeyType.Iterated, halg, SymmetricKeyAlgorithm.Camellia256, SALTS[1], c, u'über secret', verbose=True)
print('  checked=%d bad=%d agg=%s' % (nchecked[0], nbad[0], agg.hexdigest()))

print('== 5. odd salts / argument types')
for salt in (b'', b'abc', b'0123456789abcdef'):
    for spec in SPECS:
        check(spec, HashAlgorithm.SHA224, SymmetricKeyAlgorithm.AES192, salt, 5, 'pw', verbose=True)
s = mk(3, HashAlgorithm.SHA1, SymmetricKeyAlgorithm.AES128, SALTS[0], 96)
for label, val in (('None', None), ('int', 5), ('list', ['a']), ('tuple', (b'a',))):
    print('   passphrase %s ->' % label, outcome(lambda: s.derive_key(val)))
if PROBE_BYTEARRAY_PASSPHRASES:
    for label, val in (('bytearray', bytearray(b'abc')), ('memoryview', memoryview(b'abc'))):
        print('   passphrase %s ->' % label, outcome(lambda: s.derive_key(val)))
s = mk(3, 0, SymmetricKeyAlgorithm.AES128, SALTS[0], 96)
print('   halg Invalid ->', outcome(lambda: s.derive_key('x')))
s = mk(3, HashAlgorithm.SHA1, 0, SALTS[0], 96)
print('   encalg Plaintext ->', outcome(lambda: s.derive_key('x')))
s = mk(3, 4, SymmetricKeyAlgorithm.AES128, SALTS[0], 96)
print('   halg reserved ->', outcome(lambda: s.derive_key('x')))
s = mk(0, HashAlgorithm.SHA1, SymmetricKeyAlgorithm.AES128, b'', 0)
s.usage = 0
print('   usage 0 simple ->', outcome(lambda: s.derive_key('x').hex()))
print('   repeated call stable ->', s.derive_key('x') == s.derive_key('x'), type(s.derive_key('x')).__name__)

print('== 6. parse / __bytearray__ round trips')


def show(s):
    return 'usage=%d enc=%s spec=%s halg=%s salt=%s _count=%d count=%d iv=%s gnuext=%s sc=%s len=%d bool=%s' % (
        s.usage, s.encalg.name, s.specifier.name, s.halg.name, bytes(s.salt).hex(), s._count, s.count,
        None if s.iv is None else bytes(s.iv).hex(), s.gnuext.name,
        None if s.scserial is None else bytes(s.scserial).hex(), len(s), bool(s))


wire = [
    ('unprotected', b'\x00TAIL', True),
    ('simple', b'\xfe\x09\x00\x08' + bytes(bytearray(range(16, 32))) + b'TAIL', True),
    ('salted', b'\xfe\x07\x01\x02' + SALTS[3] + bytes(bytearray(range(16))) + b'TAIL', True),
    ('iterated', b'\xfe\x03\x03\x0a' + SALTS[0] + b'\x60' + bytes(bytearray(range(8))) + b'TAIL', True),
    ('iterated255', b'\xff\x09\x03\x0b' + SALTS[1] + b'\xff' + bytes(bytearray(range(16))) + b'TAIL', True),
    ('iterated-noiv', b'\xfe\x09\x03\x08' + SALTS[1] + b'\xee' + b'TAIL', False),
    ('gnu-dummy', b'\xfe\x00\x65\x00GNU\x01TAIL', True),
    ('gnu-card', b'\xfe\x00\x65\x00GNU\x02\x04ABCDTAIL', True),
    ('gnu-badmagic', b'\xfe\x00\x65\x00GNX\x01TAIL', True),
    ('bad-spec', b'\xfe\x09\x02\x08' + b'\x00' * 30, True),
    ('bad-enc', b'\xfe\x63\x03\x08' + b'\x00' * 30, True),
    ('bad-halg', b'\xfe\x09\x03\x63' + b'\x00' * 30, True),
    ('short', b'\xfe\x09\x03', True),
]
for label, data, iv in wire:
    buf = bytearray(data)
    s = String2Key()
    r = outcome(lambda: s.parse(buf, iv=iv))
    if r[0] == 'exc':
        print('  %-14s parse -> %s' % (label, r[1]))
        continue
    ser = outcome(lambda: bytes(s.__bytearray__()).hex())
    print('  %-14s %s' % (label, show(s)))
    print('  %-14s left=%r ser=%s roundtrip=%s' % ('', bytes(buf), ser[1], ser[1] == data[:len(data) - len(buf)].hex()))
    c = s.__copy__()
    print('  %-14s copy-equal=%s copy-salt-distinct=%s' % ('', bytes(c.__bytearray__()) == bytes(s.__bytearray__()),
                                                          c.salt is not s.salt))
    if bool(s) and s.specifier != String2KeyType.GNUExtension:
        k = outcome(lambda: s.derive_key('QwertyUiop').hex())
        e = outcome(lambda: ref_s2k(int(s.specifier), s.halg, KEYBITS[int(s.encalg)], s.salt, s._count, 'QwertyUiop').hex())
        print('  %-14s derive=%s rfc-equal=%s' % ('', k[1], k == e))

print('== 7. test data: protected secret-key packets, SKESK packet, keys, messages')
for f in sorted(glob.glob('tests/testdata/packets/05.v4.enc.*.privkey')) + ['tests/testdata/packets/03.v4.symesk']:
    with open(f, 'rb') as fh:
        raw = bytearray(fh.read())
    p = Packet(raw)
    s = p.s2k if hasattr(p, 's2k') else p.keymaterial.s2k
    k = outcome(lambda: s.derive_key('QwertyUiop'))
    e = outcome(lambda: ref_s2k(int(s.specifier), s.halg, KEYBITS[int(s.encalg)], s.salt, s._count, 'QwertyUiop'))
    print('  %s: %s' % (os.path.basename(f), show(s)))
    print('      derive=%s rfc-equal=%s reserialises=%s' % (k[1].hex() if k[0] == 'ok' else k[1], k == e,
                                                            bytes(p.__bytearray__()) == open(f, 'rb').read()))

for f in ('tests/testdata/keys/rsa.1.enc.asc', 'tests/testdata/keys/dsa.1.enc.asc'):
    key, _ = pgpy.PGPKey.from_file(f)
    s = key._key.keymaterial.s2k
    print('  %s: %s' % (os.path.basename(f), show(s)))
    print('      protected=%s unlocked=%s' % (key.is_protected, key.is_unlocked))
    with key.unlock('QwertyUiop') as uk:
        print('      unlock ok -> unlocked=%s' % uk.is_unlocked)
        sig = uk.sign('C12 probe', created=__import__('datetime').datetime(2020, 1, 1)) if 'rsa' in f else None
        if sig is not None:
            print('      rsa sig sha256 =', hashlib.sha256(bytes(sig.__sig__)).hexdigest())
    print('      wrong passphrase ->', outcome(lambda: key.unlock('nope').__enter__())[1])
    for sk in key.subkeys.values():
        ss = sk._key.keymaterial.s2k
        print('      subkey: %s' % show(ss))

for f in sorted(glob.glob('tests/testdata/messages/message*.pass*.asc')):
    msg = pgpy.PGPMessage.from_file(f)
    for sk in msg._sessionkeys:
        if hasattr(sk, 's2k'):
            print('  %s: %s' % (os.path.basename(f), show(sk.s2k)))
            k = sk.s2k.derive_key('QwertyUiop')
            e = ref_s2k(int(sk.s2k.specifier), sk.s2k.halg, KEYBITS[int(sk.s2k.encalg)], sk.s2k.salt, sk.s2k._count, 'QwertyUiop')
            print('      derive=%s rfc-equal=%s' % (k.hex(), k == e))
    r = outcome(lambda: msg.decrypt('QwertyUiop'))
    if r[0] == 'ok':
        m = r[1].message
        if not isinstance(m, (bytes, bytearray)):
            m = m.encode('utf-8')
        print('      decrypt ok sha256(plaintext)=%s' % hashlib.sha256(bytes(m)).hexdigest())
    else:
        print('      decrypt ->', r[1])
    print('      wrong passphrase ->', outcome(lambda: msg.decrypt('wrong'))[1])

print('== 8. protect / encrypt with pinned randomness')
import pgpy.constants as _c
_real_urandom = os.urandom
_ctr = [0]


def fake_urandom(n):
    _ctr[0] += 1
    return hashlib.shake_128(b'C12-%d' % _ctr[0]).digest(n)


os.urandom = fake_urandom
try:
    key, _ = pgpy.PGPKey.from_file('tests/testdata/keys/rsa.1.sec.asc')
    for enc, h in ((SymmetricKeyAlgorithm.AES256, HashAlgorithm.SHA256), (SymmetricKeyAlgorithm.CAST5, HashAlgorithm.SHA1),
                   (SymmetricKeyAlgorithm.Camellia192, HashAlgorithm.SHA512)):
        k2, _ = pgpy.PGPKey.from_file('tests/testdata/keys/rsa.1.sec.asc')
        k2.protect(u'paßphrase', enc, h)
        s = k2._key.keymaterial.s2k
        print('  protect %s/%s: %s' % (enc.name, h.name, show(s)))
        dk = s.derive_key(u'paßphrase')
        print('      rfc-equal=%s key=%s' % (dk == ref_s2k(int(s.specifier), s.halg, KEYBITS[int(s.encalg)], s.salt, s._count,
                                                            u'paßphrase'), dk.hex()))
        with k2.unlock(u'paßphrase'):
            print('      unlock after protect ok')
        print('      sha256(bytes(key))=%s' % hashlib.sha256(bytes(k2)).hexdigest())
    for cipher in (SymmetricKeyAlgorithm.AES128, SymmetricKeyAlgorithm.AES256, SymmetricKeyAlgorithm.TripleDES):
        m = pgpy.PGPMessage.new('s2k probe message', compression=pgpy.constants.CompressionAlgorithm.Uncompressed)
        m._message._mtime = __import__('datetime').datetime(2020, 1, 1) if hasattr(m._message, '_mtime') else None
        em = m.encrypt(b'bytes passphrase \xff', cipher=cipher)
        sk = em._sessionkeys[0]
        print('  encrypt %s: %s' % (cipher.name, show(sk.s2k)))
        print('      decrypt roundtrip=%s' % (em.decrypt(b'bytes passphrase \xff').message == 's2k probe message'))
finally:
    os.urandom = _real_urandom

print('== summary: checked=%d not-rfc=%d agg=%s' % (nchecked[0], nbad[0], agg.hexdigest()))
