"""Digest of everything observable about EC points inside key material (what the fingerprint hashes for EC keys)."""
import copy
import glob
import hashlib
import os
import sys
import warnings

sys.path.insert(0, os.getcwd())
warnings.simplefilter('ignore')

import pgpy  # noqa: E402
from pgpy.constants import ECPointFormat  # noqa: E402
from pgpy.packet.fields import ECPoint  # noqa: E402
from pgpy.packet.types import MPI  # noqa: E402

out = []


def rec(*a):
    out.append(repr(a))


def attempt(label, fn):
    try:
        rec(label, 'ok', fn())
    except Exception as e:  # the exception type and message are part of the behaviour
        rec(label, 'exc', type(e).__name__, str(e))


def describe(pt):
    d = dict(vars(pt))
    return (sorted((k, type(v).__name__, repr(v)) for k, v in d.items()))


def roundtrip(pt):
    cp = copy.copy(pt)
    return (describe(pt), len(pt), bytes(pt.to_mpibytes()), bytes(pt.__bytearray__()), describe(cp), bytes(cp.to_mpibytes()))


def mpi(body):
    # MPI framing of a big-endian octet string with a non-zero leading octet
    bits = (len(body) - 1) * 8 + body[0].bit_length() if body else 0
    return bytes([bits >> 8, bits & 0xFF]) + body


def parse(raw):
    buf = bytearray(raw)
    pt = ECPoint(buf)
    return roundtrip(pt) + (bytes(buf),)


x32 = bytes(range(1, 33))
y32 = bytes(range(0x81, 0x81 + 32))
attempt('std-p256', lambda: parse(mpi(b'\x04' + x32 + y32) + b'tail'))
attempt('std-leading-zero-x', lambda: parse(mpi(b'\x04' + b'\x00\x00' + x32[2:] + y32)))
attempt('std-leading-zero-y', lambda: parse(mpi(b'\x04' + x32 + b'\x00' + y32[1:])))
attempt('std-odd', lambda: parse(mpi(b'\x04' + x32 + y32[:-1])))
attempt('std-empty-coords', lambda: parse(mpi(b'\x04')))
attempt('native-25519', lambda: parse(mpi(b'\x40' + x32) + b'tail'))
attempt('native-zero-tail', lambda: parse(mpi(b'\x40' + x32[:-2] + b'\x00\x00')))
attempt('native-empty', lambda: parse(mpi(b'\x40')))
attempt('only-x', lambda: parse(mpi(b'\x41' + x32)))
attempt('only-y', lambda: parse(mpi(b'\x42' + x32)))
attempt('unknown-format', lambda: parse(mpi(b'\x07' + x32)))
attempt('zero-mpi', lambda: parse(b'\x00\x00'))
attempt('empty-buffer', lambda: parse(b''))
attempt('none', lambda: describe(ECPoint()))
attempt('none-len', lambda: len(ECPoint()))
attempt('none-bytes', lambda: ECPoint().to_mpibytes())

attempt('fv-std', lambda: roundtrip(ECPoint.from_values(256, ECPointFormat.Standard, MPI(5), MPI(7))))
attempt('fv-std-521', lambda: roundtrip(ECPoint.from_values(521, ECPointFormat.Standard, MPI(1 << 520), MPI(3))))
attempt('fv-std-too-big', lambda: roundtrip(ECPoint.from_values(8, ECPointFormat.Standard, MPI(1 << 20), MPI(3))))
attempt('fv-std-no-y', lambda: roundtrip(ECPoint.from_values(256, ECPointFormat.Standard, MPI(5))))
attempt('fv-std-neg', lambda: roundtrip(ECPoint.from_values(256, ECPointFormat.Standard, MPI(5), -1)))
attempt('fv-native', lambda: roundtrip(ECPoint.from_values(255, ECPointFormat.Native, x32)))
attempt('fv-native-bytearray', lambda: roundtrip(ECPoint.from_values(255, ECPointFormat.Native, bytearray(x32))))
attempt('fv-native-str', lambda: roundtrip(ECPoint.from_values(255, ECPointFormat.Native, 'abc')))
attempt('fv-native-none', lambda: roundtrip(ECPoint.from_values(255, ECPointFormat.Native, None)))
attempt('fv-onlyx', lambda: roundtrip(ECPoint.from_values(256, ECPointFormat.OnlyX, MPI(5))))
attempt('fv-onlyx-len', lambda: len(ECPoint.from_values(256, ECPointFormat.OnlyX, MPI(5))))
attempt('fv-onlyy-bytes', lambda: ECPoint.from_values(256, ECPointFormat.OnlyY, MPI(5)).to_mpibytes())
attempt('fv-rawint-format', lambda: roundtrip(ECPoint.from_values(256, 4, MPI(5), MPI(7))))
attempt('fv-bad-format', lambda: roundtrip(ECPoint.from_values(256, 'x', MPI(5), MPI(7))))
attempt('fv-big-format', lambda: ECPoint.from_values(256, 999, MPI(5), MPI(7)).to_mpibytes())

# fixture keys: fingerprints, key ids and exported octets of every key and subkey, private / public twin / copy
for path in sorted(glob.glob('tests/testdata/keys/*.asc')):
    key, _ = pgpy.PGPKey.from_file(path)
    for k in [key] + list(key.subkeys.values()):
        km = k._key.keymaterial
        rec(path, str(k.fingerprint), k.fingerprint.keyid, str(k.pubkey.fingerprint), str(copy.copy(k._key).fingerprint),
            km.publen(), len(km), hashlib.sha256(bytes(km.__bytearray__())).hexdigest())
        if isinstance(getattr(km, 'p', None), ECPoint):
            rec(path, 'point', roundtrip(km.p))
    rec(path, hashlib.sha256(bytes(key)).hexdigest(), hashlib.sha256(bytes(key.pubkey)).hexdigest())

if os.environ.get("EQUIV_DUMP"):
    print("\n".join(out))
print(hashlib.sha256('\n'.join(out).encode()).hexdigest(), len(out))
