"""Digest of the observable verification verdicts on fixed fixture inputs.

Run as:  cd <tree> && /venv/bin/python equiv.py
"""
import os
import sys
sys.path.insert(0, os.getcwd())

import copy
import hashlib
import pickle
import re
import warnings

import pgpy
from pgpy import PGPKey, PGPMessage, PGPSignature
from pgpy.constants import SecurityIssues, PubKeyAlgorithm, EllipticCurveOID
from pgpy.errors import PGPError
from pgpy.types import SignatureVerification

out = []


def rec(*a):
    # object addresses in reprs are the only run-dependent part; mask them
    out.append(re.sub(r'0x[0-9A-Fa-f]{8,16}>', '0xADDR>', ' '.join(str(x) for x in a)))


def rd(p, mode='r'):
    with open(p, mode) as f:
        return f.read()


def describe(tag, fn):
    with warnings.catch_warnings(record=True) as w:
        warnings.simplefilter('always')
        try:
            sv = fn()
        except Exception as e:  # noqa
            rec(tag, 'EXC', type(e).__name__, str(e))
            return None
    good = [(int(s.issues), type(s.issues).__name__, s.by.fingerprint, bytes(s.signature).hex()[:32], type(s.subject).__name__)
            for s in sv.good_signatures]
    bad = [(int(s.issues), type(s.issues).__name__, s.by.fingerprint, bytes(s.signature).hex()[:32], type(s.subject).__name__)
           for s in sv.bad_signatures]
    rec(tag, bool(sv), len(sv), repr(sv), good, bad, [str(x.message) for x in w])
    return sv


# ---- SecurityIssues: the whole bit-set
for v in range(0, 1 << 11):
    x = SecurityIssues(v)
    rec('SI', v, x.causes_signature_verify_to_fail, type(x.causes_signature_verify_to_fail).__name__, bool(x))
rec('SI-members', [(m.name, m.value) for m in SecurityIssues], sorted(SecurityIssues.__members__))
rec('SI-pickle', pickle.dumps(SecurityIssues.Expired | SecurityIssues.Revoked, 2).hex())

# ---- validate_params
for alg in PubKeyAlgorithm:
    for size in (0, 512, 1024, 2047, 2048, 4096) + tuple(EllipticCurveOID):
        try:
            r = alg.validate_params(size)
            rec('VP', alg.name, getattr(size, 'name', size), int(r), type(r).__name__)
        except Exception as e:  # noqa
            rec('VP', alg.name, getattr(size, 'name', size), type(e).__name__, str(e))

# ---- real verifications
K = 'tests/testdata/keys/'
keys = {}
for n in ('rsa.1', 'dsa.1', 'ecc.1', 'ecc.2', 'mixed.1', ):
    keys[n], _ = PGPKey.from_file(K + n + '.pub.asc')
targette, _ = PGPKey.from_file(K + 'targette.pub.rsa.asc')
keys['targette'] = targette

for n, k in sorted(keys.items()):
    with warnings.catch_warnings(record=True) as w:
        warnings.simplefilter('always')
        rec('CHK', n, int(k.check_primitives()), int(k.check_management()), int(k.check_management(True)),
            int(k.check_soundness()), int(k.check_soundness(True)), int(k.check_soundness(self_verifying=True)),
            int(k.is_considered_insecure()), type(k.check_soundness()).__name__, len(w))
    describe('SELF ' + n, lambda: k.verify(k))
    for uid in k.userids:
        describe('UID ' + n, lambda: k.verify(uid))
    for fp, sk in k.subkeys.items():
        describe('SUB ' + n, lambda: k.verify(sk))
    for o in keys.values():
        if o is not k:
            describe('CROSS ' + n, lambda: k.verify(o))

S = 'tests/testdata/signatures/'
for n in ('aptapproval-test', 'debian-sid', 'ubuntu-precise'):
    k, _ = PGPKey.from_file(S + n + '.key.asc')
    sig = PGPSignature.from_file(S + n + '.sig.asc')
    subj = rd(S + n + '.subj')
    describe('DET ' + n, lambda: k.verify(subj, sig))
    describe('DET-wrong ' + n, lambda: k.verify(subj + 'x', sig))
    describe('DET-none ' + n, lambda: k.verify(None, sig))
    describe('DET-wrongkey ' + n, lambda: keys['rsa.1'].verify(subj, sig))
    describe('DET-nosig ' + n, lambda: k.verify(subj))
    describe('DET-type ' + n, lambda: k.verify(12, sig))
    describe('DET-type2 ' + n, lambda: k.verify(subj, 12))

sig = PGPSignature.from_file(S + 'ecc.2.sig.asc')
describe('ECC2', lambda: keys['ecc.2'].verify("This is a test message.", sig))
describe('ECC2b', lambda: keys['ecc.2'].verify(b"something else", sig))

for mf in ('tests/testdata/messages/message.signed.asc', 'tests/testdata/messages/cleartext.signed.asc',
           'tests/testdata/messages/message.signed.ecdsa.asc', 'tests/testdata/blocks/cleartext.twosigs.asc',
           'tests/testdata/blocks/message.two_onepass.asc', 'tests/testdata/blocks/message.signed.asc'):
    try:
        msg = PGPMessage.from_file(mf)
    except Exception as e:  # noqa
        rec('MSG-load', mf, type(e).__name__)
        continue
    for n, k in sorted(keys.items()):
        describe('MSG %s %s' % (os.path.basename(mf), n), lambda: k.verify(msg))
for kf in ('tests/testdata/blocks/rsapubkey.asc', 'tests/testdata/blocks/dsapubkey.asc', 'tests/testdata/blocks/eccpubkey.asc',
           'tests/testdata/blocks/expyro.asc', 'tests/testdata/blocks/revochiio.asc', 'tests/testdata/blocks/openpgp.js.pubkey.asc',
           'tests/testdata/pubtest.asc'):
    try:
        k, _ = PGPKey.from_file(kf)
    except Exception as e:  # noqa
        rec('KEY-load', kf, type(e).__name__)
        continue
    describe('BLK ' + kf, lambda: k.verify(k))
    for mf in ('tests/testdata/blocks/cleartext.twosigs.asc', 'tests/testdata/blocks/message.two_onepass.asc',
               'tests/testdata/blocks/message.signed.asc', 'tests/testdata/blocks/cleartext.asc'):
        msg = PGPMessage.from_file(mf)
        describe('BLKMSG %s %s' % (kf, mf), lambda: k.verify(msg))
    with warnings.catch_warnings(record=True) as w:
        warnings.simplefilter('always')
        rec('BLKCHK', kf, int(k.check_soundness()), int(k.is_considered_insecure()), k.is_expired, [str(x.message) for x in w])

# ---- SignatureVerification on its own
sv = SignatureVerification()
rec('SV0', bool(sv), len(sv), list(sv.good_signatures), list(sv.bad_signatures), repr(sv), sorted(sv.__slots__),
    hasattr(sv, '__dict__'))
sv2 = SignatureVerification()
r = sv & sv2
rec('SVand-empty', r is sv, len(sv), bool(sv), sv._subjects == [], sv._subjects is not sv2._subjects)
for bad in (12, None, 'x', []):
    try:
        sv & bad
    except Exception as e:  # noqa
        rec('SVand-bad', type(e).__name__, str(e))
for v in (0, 1, 2, 8, 64, 256, 512, 1024, 0x48, 0x49, 0x7ff):
    t = SignatureVerification()
    t.add_sigsubj('sig%d' % v, 'key', 'subj', SecurityIssues(v))
    rec('SV1', v, bool(t), len(t), [tuple(s) for s in t.good_signatures], [tuple(s) for s in t.bad_signatures],
        'sig%d' % v in t, 'subj' in t, 'zz' in t, repr(t))
    before = list(sv._subjects)
    r = sv & t
    rec('SVacc', r is sv, len(sv), bool(sv), sv._subjects == before + t._subjects,
        [int(s.issues) for s in sv.good_signatures], [int(s.issues) for s in sv.bad_signatures])
t = SignatureVerification()
t.add_sigsubj('s', 'k')
rec('SVdefault', bool(t), [tuple(s) for s in t.good_signatures], [tuple(s) for s in t.bad_signatures], int(t._subjects[0].issues))
t = SignatureVerification()
t.add_sigsubj('s', 'k', 'x', 0)
try:
    rec('SVint0', bool(t), [tuple(s) for s in t.good_signatures], [tuple(s) for s in t.bad_signatures])
except Exception as e:  # noqa
    rec('SVint0', type(e).__name__, str(e))
t = SignatureVerification()
t.add_sigsubj('s', 'k', 'x', 5)
for what in ('bool', 'good', 'bad'):
    try:
        rec('SVint5', what, {'bool': lambda: bool(t), 'good': lambda: list(t.good_signatures), 'bad': lambda: list(t.bad_signatures)}[what]())
    except Exception as e:  # noqa
        rec('SVint5', what, type(e).__name__, str(e))
t = SignatureVerification()
t.add_sigsubj('a', 'k', 'x', SecurityIssues.OK)
t &= t
rec('SVself', len(t), bool(t))
c = copy.copy(sv)
d = copy.deepcopy(sv)
rec('SVcopy', len(c), len(d), c._subjects is sv._subjects, d._subjects == sv._subjects,
    pickle.dumps(SignatureVerification(), 2).hex())

print(hashlib.sha256('\n'.join(out).encode('utf-8')).hexdigest(), len(out))
if '-v' in sys.argv:
    print('\n'.join(out))
