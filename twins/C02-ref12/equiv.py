"""Equivalence probe for property C02 (signature creation / hash input / serialisation).

Run as:  cd <tree> && /venv/bin/python equiv.py
Prints one digest over every observable output; the digest must be identical on the
unchanged and on the refactored tree.
"""
import hashlib
import os
import sys
import warnings

sys.path.insert(0, os.getcwd())

from datetime import datetime, timedelta, timezone

import pgpy
from pgpy import PGPKey, PGPMessage, PGPSignature, PGPUID
from pgpy.constants import (CompressionAlgorithm, HashAlgorithm, KeyFlags, KeyServerPreferences,
                            PubKeyAlgorithm, RevocationReason, SignatureType, SymmetricKeyAlgorithm)

CREATED = datetime(2020, 1, 2, 3, 4, 5, tzinfo=timezone.utc)
DETERMINISTIC = {PubKeyAlgorithm.RSAEncryptOrSign, PubKeyAlgorithm.EdDSA}

out = hashlib.sha256()
lines = []


def emit(label, value):
    if isinstance(value, (bytes, bytearray)):
        value = hashlib.sha256(bytes(value)).hexdigest()
    line = '{}={}'.format(label, value)
    lines.append(line)
    out.update(line.encode('utf-8') + b'\n')


def load(name):
    key, _ = PGPKey.from_file(os.path.join('tests', 'testdata', name))
    return key


def attempt(label, fn):
    """run fn, emit its outcome (value or exception type+message) and every warning it raised"""
    with warnings.catch_warnings(record=True) as caught:
        warnings.simplefilter('always')
        try:
            res = fn()
        except Exception as exc:  # noqa
            emit(label + '.exc', '{}:{}'.format(type(exc).__name__, exc))
            res = None
    for w in caught:
        emit(label + '.warn', '{}:{}'.format(w.category.__name__, w.message))
    return res


def record(label, key, pub, subject, sig, vsubject=None):
    if sig is None:
        return
    vsubject = subject if vsubject is None else vsubject
    emit(label + '.type', sig.type.name)
    emit(label + '.halg', sig.hash_algorithm.name)
    emit(label + '.hashdata', sig.hashdata(subject))
    emit(label + '.hash2', bytes(sig.hash2))
    emit(label + '.hashedsp', sig._signature.subpackets.__hashbytearray__())
    if key.key_algorithm in DETERMINISTIC:
        emit(label + '.bytes', bytes(sig))
        emit(label + '.canon', sig._signature.canonical_bytes())
        emit(label + '.armor', str(sig))
    else:
        emit(label + '.len_hdr', bytes(sig)[:1])
    # round trip through export / import, then verify
    rt = PGPSignature.from_blob(bytes(sig))
    emit(label + '.rt_same', bytes(rt) == bytes(sig))
    emit(label + '.rt_hashdata', rt.hashdata(subject) == sig.hashdata(subject))
    if vsubject is not False:
        ver = attempt(label + '.verify', lambda: pub.verify(vsubject, rt))
        if ver is not None:
            emit(label + '.verified', bool(ver))


keys = {
    'rsa': load('keys/rsa.1.sec.asc'),
    'eddsa': load('keys/ecc.2.sec.asc'),
    'dsa': load('keys/dsa.1.sec.asc'),
    'ecdsa': load('keys/ecc.1.sec.asc'),
}
other = load('keys/targette.sec.rsa.asc')
other_pub = other.pubkey
uattr_key = load('pubtest.asc')

subjects = [
    ('empty', b''),
    ('bin', bytes(bytearray(range(256))) * 3),
    ('crlf', b'line one\r\nline two\nline three\rline four\n\n'),
    ('text', u'grüß dich ☃\nzweite zeile\r\n'),
    ('barray', bytearray(b'some bytearray\n')),
]

for kname, key in sorted(keys.items()):
    pub = key.pubkey
    hashes = [None, HashAlgorithm.SHA256, HashAlgorithm.SHA512, HashAlgorithm.SHA1]
    if kname == 'dsa':
        hashes = [None, HashAlgorithm.SHA256]

    # document signatures
    for sname, subj in subjects:
        for halg in hashes:
            label = '{}.sign.{}.{}'.format(kname, sname, getattr(halg, 'name', 'default'))
            sig = attempt(label, lambda: key.sign(subj, hash=halg, created=CREATED))
            record(label, key, pub, subj, sig)

    # cleartext (canonical document) and timestamp / standalone
    for sname, subj in subjects[2:4]:
        text = subj.decode('latin-1') if isinstance(subj, bytes) else subj
        msg = PGPMessage.new(text, cleartext=True)
        label = '{}.cleartext.{}'.format(kname, sname)
        sig = attempt(label, lambda: key.sign(msg, created=CREATED, hash=HashAlgorithm.SHA256))
        record(label, key, pub, msg._signed_data, sig, vsubject=False)
        if sig is not None:
            msg |= sig
            ver = attempt(label + '.verify', lambda: pub.verify(msg))
            emit(label + '.verified', bool(ver))

    label = kname + '.timestamp'
    sig = attempt(label, lambda: key.sign(None, created=CREATED, hash=HashAlgorithm.SHA256))
    record(label, key, pub, None, sig, vsubject=False)

    label = kname + '.standalone'
    sig = attempt(label, lambda: key.sign(None, created=CREATED, hash=HashAlgorithm.SHA256,
                                          notation={'who@example.com': 'me'}))
    record(label, key, pub, None, sig, vsubject=False)

    # every generic option at once, and each on its own
    opts = [
        ('expires_td', dict(expires=timedelta(days=30))),
        ('expires_dt', dict(expires=CREATED + timedelta(days=400))),
        ('notation', dict(notation={'a@b.c': 'value', 'bin@b.c': bytearray(b'\x00\x01\x02')})),
        ('policy', dict(policy_uri='https://example.com/policy/é')),
        ('nonrevocable', dict(revocable=False)),
        ('user', dict(user=key.userids[0].name)),
        ('recipients', dict(intended_recipients=[other.pubkey, pub.fingerprint, 'bogus'])),
        ('nofpr', dict(include_issuer_fingerprint=False)),
        ('all', dict(expires=timedelta(hours=1), notation={'x@y.z': 'v'}, policy_uri='urn:p', revocable=False,
                     user=key.userids[0].name, intended_recipients=[other.pubkey])),
    ]
    for oname, kw in opts:
        label = '{}.opt.{}'.format(kname, oname)
        sig = attempt(label, lambda: key.sign(b'optional subpackets', created=CREATED, hash=HashAlgorithm.SHA256, **kw))
        record(label, key, pub, b'optional subpackets', sig)

    # certifications: self, third party, direct key
    uid = key.userids[0]
    for level in (SignatureType.Generic_Cert, SignatureType.Persona_Cert, SignatureType.Casual_Cert,
                  SignatureType.Positive_Cert):
        label = '{}.selfcert.{}'.format(kname, level.name)
        sig = attempt(label, lambda: key.certify(
            uid, level, created=CREATED, hash=HashAlgorithm.SHA256,
            usage={KeyFlags.Sign, KeyFlags.Certify},
            ciphers=[SymmetricKeyAlgorithm.AES256, SymmetricKeyAlgorithm.AES128],
            hashes=[HashAlgorithm.SHA512, HashAlgorithm.SHA256],
            compression=[CompressionAlgorithm.ZLIB, CompressionAlgorithm.Uncompressed],
            key_expiration=timedelta(days=365), keyserver='hkp://keys.example.com',
            keyserver_flags={KeyServerPreferences.NoModify}, primary=True, exportable=True))
        record(label, key, pub, uid, sig)

    ouid = other_pub.userids[0]
    label = kname + '.thirdparty'
    sig = attempt(label, lambda: key.certify(ouid, SignatureType.Casual_Cert, created=CREATED,
                                             hash=HashAlgorithm.SHA256, trust=(1, 60),
                                             regex='<[^>]+[@.]example\\.com>$', exportable=False))
    record(label, key, pub, ouid, sig)

    # error path: a user id whose parent key has been garbage collected
    label = kname + '.orphan_uid'
    orphan = other.pubkey.userids[0]
    attempt(label, lambda: key.certify(orphan, created=CREATED, hash=HashAlgorithm.SHA256))

    label = kname + '.thirdparty_uattr'
    uat = uattr_key.userattributes[0]
    sig = attempt(label, lambda: key.certify(uat, created=CREATED, hash=HashAlgorithm.SHA256))
    record(label, key, pub, uat, sig)

    label = kname + '.directkey'
    sig = attempt(label, lambda: key.certify(key, created=CREATED, hash=HashAlgorithm.SHA256,
                                             usage={KeyFlags.Certify}))
    record(label, key, pub, key, sig, vsubject=pub)

    label = kname + '.attest'
    tp = attempt(label + '.tp', lambda: other.certify(uid, created=CREATED, hash=HashAlgorithm.SHA256))
    sig = attempt(label, lambda: key.certify(uid, SignatureType.Attestation, created=CREATED,
                                             hash=HashAlgorithm.SHA256,
                                             attested_certifications=[tp, b'\x01' * 32, b'short']))
    record(label, key, pub, uid, sig, vsubject=False)
    if sig is not None and tp is not None:
        emit(label + '.attests_to', sig.attests_to(tp))

    # revocations
    label = kname + '.revoke_uid'
    sig = attempt(label, lambda: key.revoke(uid, created=CREATED, hash=HashAlgorithm.SHA256,
                                            reason=RevocationReason.UserID, comment=u'no longer välid'))
    record(label, key, pub, uid, sig)

    label = kname + '.revoke_key'
    sig = attempt(label, lambda: key.revoke(key, created=CREATED, hash=HashAlgorithm.SHA256,
                                            reason=RevocationReason.Retired, comment=''))
    record(label, key, pub, key, sig, vsubject=pub)

    for i, (skid, sk) in enumerate(sorted(key.subkeys.items())):
        label = '{}.revoke_subkey{}'.format(kname, i)
        sig = attempt(label, lambda: key.revoke(sk, created=CREATED, hash=HashAlgorithm.SHA256))
        record(label, key, pub, sk, sig, vsubject=pub.subkeys[skid])

        label = '{}.bind{}'.format(kname, i)
        sig = attempt(label, lambda: key.bind(sk, created=CREATED, hash=HashAlgorithm.SHA256,
                                              usage={KeyFlags.EncryptCommunications}, crosssign=False,
                                              key_expiration=timedelta(days=10)))
        record(label, key, pub, sk, sig, vsubject=pub.subkeys[skid])

        if sk.key_algorithm.can_sign:
            label = '{}.crossbind{}'.format(kname, i)
            sig = attempt(label, lambda: sk.bind(key, created=CREATED, hash=HashAlgorithm.SHA256))
            record(label, sk, pub.subkeys[skid], key, sig, vsubject=False)

    label = kname + '.revoker'
    sig = attempt(label, lambda: key.revoker(other.pubkey, created=CREATED, hash=HashAlgorithm.SHA256,
                                             sensitive=True))
    record(label, key, pub, key, sig, vsubject=pub)

# fixture signatures made by other implementations: parse, re-serialise, hash input
sigdir = os.path.join('tests', 'testdata', 'signatures')
for fn in sorted(os.listdir(sigdir)):
    path = os.path.join(sigdir, fn)
    sig = attempt('fixture.' + fn, lambda: PGPSignature.from_file(path))
    if sig is None:
        continue
    emit('fixture.{}.bytes'.format(fn), bytes(sig))
    emit('fixture.{}.canon'.format(fn), sig._signature.canonical_bytes())
    if sig.type in (SignatureType.BinaryDocument, SignatureType.CanonicalDocument):
        emit('fixture.{}.hashdata'.format(fn), sig.hashdata(b'fixed subject\nline\r\n'))

# every self-signature / binding signature embedded in the fixture keys: hash input over its real subject
for kname, key in sorted(keys.items()):
    pub = key.pubkey
    for uid in pub.userids:
        for i, s in enumerate(uid._signatures):
            emit('{}.embedded.uid{}.hashdata'.format(kname, i), s.hashdata(uid))
            emit('{}.embedded.uid{}.bytes'.format(kname, i), bytes(s))
    for skid, sk in sorted(pub.subkeys.items()):
        for i, s in enumerate(sk._signatures):
            emit('{}.embedded.sub{}.{}.hashdata'.format(kname, skid, i), s.hashdata(sk))
    ver = attempt(kname + '.selfverify', lambda: pub.verify(pub))
    emit(kname + '.selfverify', bool(ver))

if '-v' in sys.argv:
    print('\n'.join(lines))
print('records', len(lines))
print('digest', out.hexdigest())
