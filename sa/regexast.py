"""E7 - facts about regular expressions, read from their AST (re._parser), never by running them on inputs."""
import re

try:
    import re._parser as sre_parse
    import re._constants as sre_c
except ImportError:  # pragma: no cover  (python < 3.11)
    import sre_parse
    import sre_constants as sre_c


def parse(pattern, flags=0):
    return sre_parse.parse(pattern, flags)


def _chr(pattern_is_bytes, code):
    return bytes([code]) if pattern_is_bytes else chr(code)


def finite_language(pattern, flags=0, limit=64):
    """The exact set of strings a pattern matches if that set is finite and small; else None."""
    isb = isinstance(pattern, (bytes, bytearray))
    try:
        p = parse(pattern, flags)
    except Exception:
        return None
    empty = b'' if isb else ''

    def seq(items):
        langs = [empty]
        for op, av in items:
            sub = one(op, av)
            if sub is None:
                return None
            langs = [a + b for a in langs for b in sub]
            if len(langs) > limit:
                return None
        return langs

    def one(op, av):
        name = str(op)
        if name == 'LITERAL':
            return [_chr(isb, av)]
        if name == 'IN':
            out = []
            for o2, a2 in av:
                if str(o2) == 'LITERAL':
                    out.append(_chr(isb, a2))
                elif str(o2) == 'RANGE' and a2[1] - a2[0] < limit:
                    out.extend(_chr(isb, c) for c in range(a2[0], a2[1] + 1))
                else:
                    return None
            return out
        if name in ('MAX_REPEAT', 'MIN_REPEAT'):
            lo, hi, sub = av
            if hi is sre_c.MAXREPEAT or hi > 4:
                return None
            base = seq(list(sub))
            if base is None:
                return None
            out = []
            for n in range(lo, hi + 1):
                cur = [empty]
                for _ in range(n):
                    cur = [a + b for a in cur for b in base]
                out.extend(cur)
            return out
        if name == 'SUBPATTERN':
            return seq(list(av[3]))
        if name == 'BRANCH':
            out = []
            for br in av[1]:
                s = seq(list(br))
                if s is None:
                    return None
                out.extend(s)
            return out
        return None
    r = seq(list(p))
    return None if r is None else set(r)


def matches_exactly_line_endings(pattern):
    """True iff the pattern matches exactly LF and CR LF."""
    lang = finite_language(pattern)
    if lang is None:
        return False
    isb = isinstance(pattern, (bytes, bytearray))
    lf, crlf = (b'\n', b'\r\n') if isb else ('\n', '\r\n')
    # a lone CR is not a line ending for other implementations (GnuPG): converting it would change what is signed
    return lang == {lf, crlf}


def summary(pattern, flags=0):
    """Flat list of (op name, argument) for the top-level sequence - used for anchors/literals queries."""
    p = parse(pattern, flags)
    return [(str(op), av) for op, av in p]


def starts_with_bol(pattern, flags=0):
    s = summary(pattern, flags)
    return bool(s) and s[0][0] == 'AT' and str(s[0][1]) in ('AT_BEGINNING', 'AT_BEGINNING_LINE')


def literal_after_bol(pattern, flags=0):
    """The literal string that follows a leading ^ (the whole remaining pattern must be literals); else None."""
    s = summary(pattern, flags)
    if not s or s[0][0] != 'AT':
        return None
    out = ''
    for op, av in s[1:]:
        if op != 'LITERAL':
            return None
        out += chr(av)
    return out


def find_groups(pattern, flags=0):
    p = parse(pattern, flags)
    return dict(p.state.groupdict)


def walk(pattern, flags=0):
    """Yield every (op, av) in the regex AST, depth first."""
    def rec(items):
        for op, av in items:
            yield str(op), av
            name = str(op)
            if name in ('MAX_REPEAT', 'MIN_REPEAT'):
                for x in rec(list(av[2])):
                    yield x
            elif name == 'SUBPATTERN':
                for x in rec(list(av[3])):
                    yield x
            elif name == 'BRANCH':
                for br in av[1]:
                    for x in rec(list(br)):
                        yield x
            elif name in ('ASSERT', 'ASSERT_NOT'):
                for x in rec(list(av[1])):
                    yield x
    return rec(list(parse(pattern, flags)))


def subpattern(pattern, group, flags=0):
    """The item list of a named group."""
    p = parse(pattern, flags)
    gid = p.state.groupdict.get(group)
    if gid is None:
        return None

    def rec(items):
        for op, av in items:
            name = str(op)
            if name == 'SUBPATTERN':
                if av[0] == gid:
                    return list(av[3])
                r = rec(list(av[3]))
                if r is not None:
                    return r
            elif name in ('MAX_REPEAT', 'MIN_REPEAT'):
                r = rec(list(av[2]))
                if r is not None:
                    return r
            elif name == 'BRANCH':
                for br in av[1]:
                    r = rec(list(br))
                    if r is not None:
                        return r
            elif name in ('ASSERT', 'ASSERT_NOT'):
                r = rec(list(av[1]))
                if r is not None:
                    return r
        return None
    return rec(list(p))


def charclass(items):
    """Set of characters of an IN item list (ranges expanded) or None."""
    out = set()
    for o2, a2 in items:
        n = str(o2)
        if n == 'LITERAL':
            out.add(chr(a2))
        elif n == 'RANGE':
            out.update(chr(c) for c in range(a2[0], a2[1] + 1))
        else:
            return None
    return out
