"""E7 - facts about regular expressions, read from their AST (re._parser), never by running them on inputs."""
import re

try:
    import re._parser as sre_parse
    import re._constants as sre_c
except ImportError:  # pragma: no cover  (python < 3.11)
    import sre_parse
    import sre_constants as sre_c


def parse(pattern, flags=0):
    return sre_parse.parse(pattern, flags)


def _chr(pattern_is_bytes, code):
    return bytes([code]) if pattern_is_bytes else chr(code)


def finite_language(pattern, flags=0, limit=64):
    """The exact set of strings a pattern matches if that set is finite and small; else None."""
    isb = isinstance(pattern, (bytes, bytearray))
    try:
        p = parse(pattern, flags)
    except Exception:
        return None
    empty = b'' if isb else ''

    def seq(items):
        langs = [empty]
        for op, av in items:
            sub = one(op, av)
            if sub is None:
                return None
            langs = [a + b for a in langs for b in sub]
            if len(langs) > limit:
                return None
        return langs

    def one(op, av):
        name = str(op)
        if name == 'LITERAL':
            return [_chr(isb, av)]
        if name == 'IN':
            out = []
            for o2, a2 in av:
                if str(o2) == 'LITERAL':
                    out.append(_chr(isb, a2))
                elif str(o2) == 'RANGE' and a2[1] - a2[0] < limit:
                    out.extend(_chr(isb, c) for c in range(a2[0], a2[1] + 1))
                else:
                    return None
            return out
        if name in ('MAX_REPEAT', 'MIN_REPEAT'):
            lo, hi, sub = av
            if hi is sre_c.MAXREPEAT or hi > 4:
                return None
            base = seq(list(sub))
            if base is None:
                return None
            out = []
            for n in range(lo, hi + 1):
                cur = [empty]
                for _ in range(n):
                    cur = [a + b for a in cur for b in base]
                out.extend(cur)
            return out
        if name == 'SUBPATTERN':
            return seq(list(av[3]))
        if name == 'BRANCH':
            out = []
            for br in av[1]:
                s = seq(list(br))
                if s is None:
                    return None
                out.extend(s)
            return out
        return None
    r = seq(list(p))
    return None if r is None else set(r)


def matches_exactly_line_endings(pattern):
    """True iff the pattern matches exactly LF and CR LF."""
    lang = finite_language(pattern)
    if lang is None:
        return False
    isb = isinstance(pattern, (bytes, bytearray))
    lf, crlf = (b'\n', b'\r\n') if isb else ('\n', '\r\n')
    # a lone CR is not a line ending for other implementations (GnuPG): converting it would change what is signed
    return lang == {lf, crlf}


def summary(pattern, flags=0):
    """Flat list of (op name, argument) for the top-level sequence - used for anchors/literals queries."""
    p = parse(pattern, flags)
    return [(str(op), av) for op, av in p]


def starts_with_bol(pattern, flags=0):
    s = summary(pattern, flags)
    return bool(s) and s[0][0] == 'AT' and str(s[0][1]) in ('AT_BEGINNING', 'AT_BEGINNING_LINE')


def literal_after_bol(pattern, flags=0):
    """The literal string that follows a leading ^ (the whole remaining pattern must be literals); else None."""
    s = summary(pattern, flags)
    if not s or s[0][0] != 'AT':
        return None
    out = ''
    for op, av in s[1:]:
        if op != 'LITERAL':
            return None
        out += chr(av)
    return out


def find_groups(pattern, flags=0):
    p = parse(pattern, flags)
    return dict(p.state.groupdict)


def walk(pattern, flags=0):
    """Yield every (op, av) in the regex AST, depth first."""
    def rec(items):
        for op, av in items:
            yield str(op), av
            name = str(op)
            if name in ('MAX_REPEAT', 'MIN_REPEAT'):
                for x in rec(list(av[2])):
                    yield x
            elif name == 'SUBPATTERN':
                for x in rec(list(av[3])):
                    yield x
            elif name == 'BRANCH':
                for br in av[1]:
                    for x in rec(list(br)):
                        yield x
            elif name in ('ASSERT', 'ASSERT_NOT'):
                for x in rec(list(av[1])):
                    yield x
    return rec(list(parse(pattern, flags)))


def subpattern(pattern, group, flags=0):
    """The item list of a named group."""
    p = parse(pattern, flags)
    gid = p.state.groupdict.get(group)
    if gid is None:
        return None

    def rec(items):
        for op, av in items:
            name = str(op)
            if name == 'SUBPATTERN':
                if av[0] == gid:
                    return list(av[3])
                r = rec(list(av[3]))
                if r is not None:
                    return r
            elif name in ('MAX_REPEAT', 'MIN_REPEAT'):
                r = rec(list(av[2]))
                if r is not None:
                    return r
            elif name == 'BRANCH':
                for br in av[1]:
                    r = rec(list(br))
                    if r is not None:
                        return r
            elif name in ('ASSERT', 'ASSERT_NOT'):
                r = rec(list(av[1]))
                if r is not None:
                    return r
        return None
    return rec(list(p))


def charclass(items):
    """Set of characters of an IN item list (ranges expanded) or None."""
    out = set()
    for o2, a2 in items:
        n = str(o2)
        if n == 'LITERAL':
            out.add(chr(a2))
        elif n == 'RANGE':
            out.update(chr(c) for c in range(a2[0], a2[1] + 1))
        else:
            return None
    return out


# ------------------------------------------------------------------------------------------------ normal form and languages
# Rules compare regular expressions by what they match, not by how they are spelled: `norm` gives a spelling-independent
# tree ((?:x) == x, [a] == a, x{1} == x, \d == [0-9] under re.ASCII ...), `Lang` is the regular language of an anchor-free
# sub-expression as a finite automaton (equality / inclusion / membership are decided on the automaton, nothing is run
# against the expression itself).

OTHER = 256          # stands for every code point above 255 (no pattern analysed here distinguishes them)
_ALL = frozenset(range(257))


class Unsupported(Exception):
    """The expression uses a construct the language model does not cover (look-around, back-reference, anchor ...)."""


def _category(name, flags, isb):
    ascii_only = isb or bool(flags & re.ASCII)
    table = {'CATEGORY_DIGIT': r'\d', 'CATEGORY_SPACE': r'\s', 'CATEGORY_WORD': r'\w',
             'CATEGORY_NOT_DIGIT': r'\D', 'CATEGORY_NOT_SPACE': r'\S', 'CATEGORY_NOT_WORD': r'\W'}
    if name not in table:
        raise Unsupported('category %s' % name)
    if not ascii_only:
        raise Unsupported('unicode category %s (needs re.ASCII to be a finite table here)' % name)
    probe = re.compile(table[name], re.ASCII)       # the stdlib's own table of the category, read off per code point
    s = frozenset(c for c in range(128) if probe.fullmatch(chr(c)))
    if name.startswith('CATEGORY_NOT_'):
        s = s | frozenset(range(128, 257))
    return s


def _fold(s, flags):
    if not (flags & re.IGNORECASE):
        return s
    out = set(s)
    for c in s:
        if c < 256:
            ch = chr(c)
            for v in (ch.lower(), ch.upper()):
                if len(v) == 1 and ord(v) < 256:
                    out.add(ord(v))
    return frozenset(out)


def _cp(c):
    return c if c < 256 else OTHER


def charset_of(op, av, flags=0, isb=False):
    """Set of code points (0..255 and OTHER) a single-character item matches, or None if it is not a single-character item."""
    n = str(op)
    if n == 'LITERAL':
        return _fold(frozenset([_cp(av)]), flags)
    if n == 'NOT_LITERAL':
        return _ALL - _fold(frozenset([_cp(av)]), flags)
    if n == 'ANY':
        return _ALL if (flags & re.DOTALL) else _ALL - frozenset([10])
    if n == 'IN':
        neg = False
        s = set()
        for o2, a2 in av:
            m = str(o2)
            if m == 'NEGATE':
                neg = True
            elif m == 'LITERAL':
                s.add(_cp(a2))
            elif m == 'RANGE':
                lo, hi = a2
                s.update(range(lo, min(hi, 255) + 1))
                if hi > 255:
                    s.add(OTHER)
            elif m == 'CATEGORY':
                s.update(_category(str(a2), flags, isb))
            else:
                raise Unsupported('class item %s' % m)
        s = _fold(frozenset(s), flags)
        return (_ALL - s) if neg else s
    return None


def norm(items, flags=0, isb=False):
    """Spelling-independent tree of an item list:
       ('set', frozenset) ('rep', lo, hi|None, greedy, seq) ('grp', gid, seq) ('alt', (seq, ..)) ('at', name)
       ('look', direction, negated, seq) ('ref', gid); a seq is a tuple of nodes."""
    out = []
    for op, av in items:
        n = str(op)
        cs = charset_of(op, av, flags, isb)
        if cs is not None:
            out.append(('set', cs))
        elif n in ('MAX_REPEAT', 'MIN_REPEAT', 'POSSESSIVE_REPEAT'):
            lo, hi, sub = av
            hi = None if hi is sre_c.MAXREPEAT else int(hi)
            inner = norm(list(sub), flags, isb)
            if (int(lo), hi) == (1, 1):
                out.extend(inner)
            elif hi == 0:
                pass
            else:
                out.append(('rep', int(lo), hi, n == 'MAX_REPEAT', inner))
        elif n == 'SUBPATTERN':
            gid, add, dele, sub = av
            f2 = (flags | add) & ~dele
            inner = norm(list(sub), f2, isb)
            if gid is None:
                out.extend(inner)
            else:
                out.append(('grp', gid, inner))
        elif n == 'ATOMIC_GROUP':
            raise Unsupported('atomic group')
        elif n == 'BRANCH':
            alts = tuple(norm(list(br), flags, isb) for br in av[1])
            if all(len(a) == 1 and a[0][0] == 'set' for a in alts):
                u = frozenset()
                for a in alts:
                    u = u | a[0][1]
                out.append(('set', u))
            else:
                out.append(('alt', alts))
        elif n == 'AT':
            a = str(av)
            if flags & re.MULTILINE:
                a = {'AT_BEGINNING': 'AT_BEGINNING_LINE', 'AT_END': 'AT_END_LINE'}.get(a, a)
            out.append(('at', a))
        elif n in ('ASSERT', 'ASSERT_NOT'):
            out.append(('look', av[0], n == 'ASSERT_NOT', norm(list(av[1]), flags, isb)))
        elif n == 'GROUPREF':
            out.append(('ref', av))
        else:
            raise Unsupported('regex item %s' % n)
    return tuple(out)


def norm_pattern(pattern, flags=0):
    p = parse(pattern, flags)
    return norm(list(p), p.state.flags, isinstance(pattern, (bytes, bytearray))), p


def strip_groups(seq):
    """The tree with capture groups dissolved (what is matched, not what is captured)."""
    out = []
    for nd in seq:
        k = nd[0]
        if k == 'grp':
            out.extend(strip_groups(nd[2]))
        elif k == 'rep':
            out.append(('rep', nd[1], nd[2], nd[3], strip_groups(nd[4])))
        elif k == 'alt':
            out.append(('alt', tuple(strip_groups(a) for a in nd[1])))
        elif k == 'look':
            out.append(('look', nd[1], nd[2], strip_groups(nd[3])))
        else:
            out.append(nd)
    return tuple(out)


def find_group(seq, gid):
    """(node, enclosing sequence, index in it) of the capture group gid in a normalised tree, else None."""
    for i, nd in enumerate(seq):
        k = nd[0]
        if k == 'grp':
            if nd[1] == gid:
                return nd, seq, i
            r = find_group(nd[2], gid)
            if r:
                return r
        elif k == 'rep':
            r = find_group(nd[4], gid)
            if r:
                return r
        elif k == 'alt':
            for a in nd[1]:
                r = find_group(a, gid)
                if r:
                    return r
        elif k == 'look':
            r = find_group(nd[3], gid)
            if r:
                return r
    return None


def iter_nodes(seq):
    for nd in seq:
        yield nd
        k = nd[0]
        if k == 'grp':
            for x in iter_nodes(nd[2]):
                yield x
        elif k == 'rep':
            for x in iter_nodes(nd[4]):
                yield x
        elif k == 'alt':
            for a in nd[1]:
                for x in iter_nodes(a):
                    yield x
        elif k == 'look':
            for x in iter_nodes(nd[3]):
                yield x


class Lang(object):
    """Regular language of an anchor-free normalised sequence (Thompson automaton; decisions by subset construction)."""

    def __init__(self, seq):
        self.eps = {}        # state -> set(states)
        self.trans = {}      # state -> [(frozenset, state)]
        self.n = 0
        self.start = self._new()
        self.final = self._seq(strip_groups(seq), self.start)

    @classmethod
    def of(cls, pattern, flags=0):
        return cls(norm_pattern(pattern, flags)[0])

    def _new(self):
        self.n += 1
        self.eps[self.n] = set()
        self.trans[self.n] = []
        return self.n

    def _seq(self, seq, cur):
        for nd in seq:
            cur = self._node(nd, cur)
        return cur

    def _node(self, nd, cur):
        k = nd[0]
        if k == 'set':
            nxt = self._new()
            self.trans[cur].append((nd[1], nxt))
            return nxt
        if k == 'alt':
            end = self._new()
            for a in nd[1]:
                s = self._new()
                self.eps[cur].add(s)
                self.eps[self._seq(a, s)].add(end)
            return end
        if k == 'rep':
            lo, hi, inner = nd[1], nd[2], nd[4]
            for _ in range(lo):
                cur = self._seq(inner, cur)
            if hi is None:
                s = self._new()
                self.eps[cur].add(s)
                e = self._seq(inner, s)
                self.eps[e].add(s)
                return s
            end = self._new()
            self.eps[cur].add(end)
            for _ in range(hi - lo):
                cur = self._seq(inner, cur)
                self.eps[cur].add(end)
            return end
        raise Unsupported('%s inside a language' % k)

    def _close(self, states):
        todo, seen = list(states), set(states)
        while todo:
            s = todo.pop()
            for t in self.eps[s]:
                if t not in seen:
                    seen.add(t)
                    todo.append(t)
        return frozenset(seen)

    def _step(self, states, c):
        nxt = set()
        for s in states:
            for cs, t in self.trans[s]:
                if c in cs:
                    nxt.add(t)
        return self._close(nxt)

    def _sets(self):
        return set(cs for lst in self.trans.values() for cs, _ in lst)

    def accepts(self, text):
        cur = self._close([self.start])
        for ch in text:
            cur = self._step(cur, _cp(ch if isinstance(ch, int) else ord(ch)))
            if not cur:
                return False
        return self.final in cur

    def is_empty_language(self):
        return _search(self, None, lambda a, b: a) is None

    def witness_not_in(self, other):
        """A string (list of code points) in self but not in other, or None if self is included in other."""
        return _search(self, other, lambda a, b: a and not b)


def _alphabet(*langs):
    sets = set()
    for l in langs:
        if l is not None:
            sets |= l._sets()
    sets = list(sets)
    classes = {}
    for c in range(257):
        classes.setdefault(tuple(c in s for s in sets), c)
    return sorted(classes.values())


def _search(a, b, bad):
    """Breadth-first search of the product automaton for a word on which bad(in a, in b) holds."""
    sigma = _alphabet(a, b)
    sa0 = a._close([a.start])
    sb0 = b._close([b.start]) if b is not None else frozenset()
    seen = {(sa0, sb0): None}
    queue = [(sa0, sb0)]
    while queue:
        cur = queue.pop(0)
        sa, sb = cur
        if bad(a.final in sa, b is not None and b.final in sb):
            word = []
            while seen[cur] is not None:
                cur, c = seen[cur]
                word.append(c)
            return list(reversed(word))
        for c in sigma:
            na = a._step(sa, c)
            if not na:
                continue                  # every question asked here needs the word to be in `a`
            nb = b._step(sb, c) if b is not None else frozenset()
            key = (na, nb)
            if key not in seen:
                seen[key] = (cur, c)
                queue.append(key)
    return None


def lang_subset(sub, sup):
    """Every word of `sub` is a word of `sup` (both Lang)."""
    return sub.witness_not_in(sup) is None


def lang_equal(a, b):
    return lang_subset(a, b) and lang_subset(b, a)


def show_word(word):
    return ''.join(chr(c) if c < 256 else 'Ā' for c in (word or []))


def replacement_for(template, matched):
    """Result of expanding a re.sub replacement template for a match of the whole-pattern text `matched` when the pattern has
    no groups other than group 0 (\\g<0>); None if the template refers to other groups."""
    out = ''
    i = 0
    while i < len(template):
        ch = template[i]
        if ch != '\\':
            out += ch
            i += 1
            continue
        m = re.match(r'\\g<0>', template[i:])
        if m:
            out += matched
            i += m.end()
            continue
        if i + 1 < len(template) and template[i + 1] in '\\':
            out += '\\'
            i += 2
            continue
        esc = {'n': '\n', 'r': '\r', 't': '\t'}
        if i + 1 < len(template) and template[i + 1] in esc:
            out += esc[template[i + 1]]
            i += 2
            continue
        return None
    return out


def group_is_mandatory(seq, gid):
    """Does the capture group take part in every match (no optional repeat / alternative / look-around around it)?"""
    for nd in seq:
        k = nd[0]
        if k == 'grp':
            if nd[1] == gid:
                return True
            if find_group(nd[2], gid):
                return group_is_mandatory(nd[2], gid)
        elif k == 'rep':
            if find_group(nd[4], gid):
                return nd[1] >= 1 and group_is_mandatory(nd[4], gid)
        elif k in ('alt', 'look'):
            inner = nd[1] if k == 'alt' else (nd[3],)
            if any(find_group(a, gid) for a in inner):
                return False
    return False


# ------------------------------------------------------------------------------------------------ reference matcher on witness words
# Which of several decompositions a regular expression picks (greedy / lazy, alternatives in order) is not a property of its language.
# Rules that must know what a GROUP CAPTURES on a given witness text use this small backtracking matcher over the normalised tree
# (leftmost match, alternatives and repetitions tried in the order the expression prescribes).  It works on the checker's own tree; the
# expression object of the analysed program is never built or run.

def _with(d, k, v):
    d = dict(d)
    d[k] = v
    return d


def tree_search(seq, text, budget=400000):
    """Group spans {gid: (start, end)} (0 = whole match) of the leftmost match of the normalised sequence in `text`, or None."""
    import sys
    n = len(text)
    steps = [0]

    def cp(i):
        c = ord(text[i]) if isinstance(text, str) else text[i]
        return c if c < 256 else OTHER

    def at(name, pos):
        if name == 'AT_BEGINNING_LINE':
            return pos == 0 or text[pos - 1] in ('\n', 10)
        if name in ('AT_BEGINNING', 'AT_BEGINNING_STRING'):
            return pos == 0
        if name == 'AT_END_LINE':
            return pos == n or text[pos] in ('\n', 10)
        if name == 'AT_END':
            return pos == n or (pos == n - 1 and text[pos] in ('\n', 10))
        if name == 'AT_END_STRING':
            return pos == n
        raise Unsupported('anchor %s' % name)

    def run(seq, i, pos, caps, k):
        steps[0] += 1
        if steps[0] > budget:
            raise Unsupported('matching budget exhausted')
        if i == len(seq):
            return k(pos, caps)
        nd = seq[i]
        kind = nd[0]
        if kind == 'set':
            if pos < n and cp(pos) in nd[1]:
                return run(seq, i + 1, pos + 1, caps, k)
            return None
        if kind == 'at':
            return run(seq, i + 1, pos, caps, k) if at(nd[1], pos) else None
        if kind == 'grp':
            def after(p2, c2, _start=pos, _gid=nd[1]):
                c3 = dict(c2)
                c3[_gid] = (_start, p2)
                return run(seq, i + 1, p2, c3, k)
            return run(nd[2], 0, pos, caps, after)
        if kind == 'alt':
            for a in nd[1]:
                r = run(a, 0, pos, caps, lambda p2, c2: run(seq, i + 1, p2, c2, k))
                if r is not None:
                    return r
            return None
        if kind == 'rep':
            lo, hi, greedy, inner = nd[1], nd[2], nd[3], nd[4]

            def rep(count, p, c):
                def more():
                    if hi is not None and count >= hi:
                        return None
                    return run(inner, 0, p, c, lambda p2, c2: None if (p2 == p and count >= lo) else rep(count + 1, p2, c2))

                def stop():
                    return run(seq, i + 1, p, c, k) if count >= lo else None
                if greedy:
                    r = more()
                    return r if r is not None else stop()
                r = stop()
                return r if r is not None else more()
            return rep(0, pos, caps)
        if kind == 'look':
            if nd[1] != 1:
                raise Unsupported('look-behind')
            hit = run(nd[3], 0, pos, caps, lambda p2, c2: c2)
            if (hit is not None) != bool(nd[2]):
                return run(seq, i + 1, pos, hit if (hit is not None and not nd[2]) else caps, k)
            return None
        if kind == 'ref':
            if nd[1] not in caps:
                return None
            a, b = caps[nd[1]]
            sub = text[a:b]
            if text[pos:pos + len(sub)] == sub:
                return run(seq, i + 1, pos + len(sub), caps, k)
            return None
        raise Unsupported('node %s' % kind)

    old = sys.getrecursionlimit()
    sys.setrecursionlimit(max(old, 60000))
    try:
        for start in range(n + 1):
            r = run(tuple(seq), 0, start, {}, lambda p2, c2, _s=start: _with(c2, 0, (_s, p2)))
            if r is not None:
                return r
        return None
    finally:
        sys.setrecursionlimit(old)
