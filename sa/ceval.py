"""E8 - finite-point evaluator: the checker's own evaluation of small codec functions at chosen input points.

The numeric codecs of C09 (length octets, bit counts, tag octets, coded counts) are total functions over small integer
domains whose RFC definition is a formula.  Whether the source spells such a function with closures, methods, temporaries,
class constants, conditional expressions or guard clauses is irrelevant; what matters is the value it denotes at the RFC
boundary points and how many octets it consumes there.  This module walks the (canonicalised) AST of a function of the
analysed program over *checker-side values* and returns that value:

  * integers, booleans, bytes, str, None, tuples, lists, dicts           - the checker's own Python values
  * VBuf                                                                 - model of a bytearray (run-length encoded, so a
                                                                           2**30 octet partial body costs nothing); records what
                                                                           `del buf[a:b]` removes
  * Obj                                                                  - an instance of a class of the analysed program:
                                                                           class table entry + attribute dict (+ an integer
                                                                           value for int subclasses such as MPI)
  * ClassRef / Func / Builtin / Ext                                      - callables

No repository code runs and nothing is imported from it: names are resolved through the loader's class / module tables,
`obj.prop = v` is dispatched through the sdproperty overload table on the model type of v, `super()` through the C3 MRO.
The integer / bytes primitives (`int.to_bytes`, `int.from_bytes`, `bit_length`, slicing, `bytearray +=` ...) are modelled
here.  Anything outside the modelled subset raises NoEval (-> AnalysisError, exit 2, never a verdict); an exception the
evaluated code raises itself is reported to the caller as Raised; a loop that does not finish within the step budget as
Diverged.

This is constant evaluation over a finite set of points chosen by the rule.  It does not claim anything about inputs the
rule did not evaluate.
"""
import ast
import struct as _struct
import math as _math

from .loader import ClassInfo, FunctionInfo, dotted


class NoEval(Exception):
    """Construct outside the modelled subset."""


class Raised(Exception):
    """The evaluated code raises."""
    def __init__(self, name, detail='', cls=None, sure=False):
        Exception.__init__(self, '%s(%s)' % (name, detail))
        self.name = name
        self.detail = detail
        self.cls = cls          # ClassInfo when the exception class is defined in the analysed program
        self.sure = sure        # raised by a `raise` statement of the analysed code or by a faithfully modelled dispatch


class Diverged(Exception):
    """Step budget exhausted (a loop that does not terminate at this input)."""


# modelling gaps look like these; behavioural errors of codec code look like the others
GAP_ERRORS = ('AttributeError', 'NameError', 'TypeError', 'UnboundLocalError', 'NotImplementedError')

EXC_PARENTS = {'IndexError': 'LookupError', 'KeyError': 'LookupError', 'LookupError': 'Exception', 'ValueError': 'Exception',
               'TypeError': 'Exception', 'OverflowError': 'ArithmeticError', 'ZeroDivisionError': 'ArithmeticError',
               'ArithmeticError': 'Exception', 'AttributeError': 'Exception', 'NotImplementedError': 'RuntimeError',
               'RuntimeError': 'Exception', 'AssertionError': 'Exception', 'NameError': 'Exception', 'StopIteration': 'Exception',
               'UnicodeDecodeError': 'ValueError', 'UnicodeEncodeError': 'ValueError', 'Exception': 'BaseException',
               'UnboundLocalError': 'NameError'}


# ------------------------------------------------------------------------------------------------------- values
class VBuf(object):
    """bytearray model: run-length encoded octets [(value, count)...]."""
    __slots__ = ('runs',)

    def __init__(self, data=b''):
        self.runs = []
        if isinstance(data, VBuf):
            self.runs = [list(r) for r in data.runs]
        else:
            self.extend(data)

    @classmethod
    def fill(cls, value, count):
        b = cls()
        if count > 0:
            b.runs.append([value & 0xFF, count])
        return b

    def __len__(self):
        return sum(n for _, n in self.runs)

    def _push(self, v, n):
        if n <= 0:
            return
        if self.runs and self.runs[-1][0] == v:
            self.runs[-1][1] += n
        else:
            self.runs.append([v, n])

    def append(self, v):
        if not isinstance(v, int):
            raise Raised('TypeError', 'an integer is required')
        if not 0 <= int(v) <= 255:
            raise Raised('ValueError', 'byte must be in range(0, 256)')
        self._push(int(v), 1)

    def extend(self, data):
        if isinstance(data, VBuf):
            for v, n in [tuple(r) for r in data.runs]:
                self._push(v, n)
        elif isinstance(data, (bytes, bytearray)):
            for v in data:
                self._push(v, 1)
        elif isinstance(data, (list, tuple)):
            for v in data:
                self.append(v)
        else:
            raise Raised('TypeError', 'cannot extend a bytearray with %s' % type(data).__name__)

    def _bounds(self, lo, hi):
        n = len(self)
        lo, hi, _ = slice(lo, hi).indices(n)
        return lo, max(lo, hi)

    def get(self, i):
        n = len(self)
        if i < 0:
            i += n
        if not 0 <= i < n:
            raise Raised('IndexError', 'bytearray index out of range')
        for v, c in self.runs:
            if i < c:
                return v
            i -= c

    def slice(self, lo, hi):
        lo, hi = self._bounds(lo, hi)
        out = VBuf()
        pos = 0
        for v, c in self.runs:
            a, b = max(lo, pos), min(hi, pos + c)
            if a < b:
                out._push(v, b - a)
            pos += c
            if pos >= hi:
                break
        return out

    def delete(self, lo, hi):
        lo, hi = self._bounds(lo, hi)
        left, right = self.slice(0, lo), self.slice(hi, None)
        self.runs = []
        self.extend(left)
        self.extend(right)

    def delete_at(self, i):
        n = len(self)
        if i < 0:
            i += n
        if not 0 <= i < n:
            raise Raised('IndexError', 'bytearray index out of range')
        self.delete(i, i + 1)

    def tobytes(self, limit=1 << 17):
        if len(self) > limit:
            raise NoEval('buffer of %d octets is too large to materialise' % len(self))
        return b''.join(bytes([v]) * c for v, c in self.runs)

    def __eq__(self, o):
        if isinstance(o, VBuf):
            return [tuple(r) for r in self.runs] == [tuple(r) for r in o.runs]
        if isinstance(o, (bytes, bytearray)):
            return self == VBuf(bytes(o))
        return NotImplemented

    def __ne__(self, o):
        r = self.__eq__(o)
        return r if r is NotImplemented else not r

    __hash__ = None

    def __repr__(self):
        parts = []
        for v, c in self.runs:
            parts.append('%02x' % v if c == 1 else '%02x*%d' % (v, c))
        return 'buf[%s]' % ' '.join(parts)


class Obj(object):
    """Instance of a class of the analysed program."""
    def __init__(self, cls, attrs=None, ival=None):
        self.cls = cls
        self.attrs = dict(attrs or {})
        self.ival = ival

    def __repr__(self):
        return '<%s %s%s>' % (self.cls.name, self.attrs, '' if self.ival is None else ' int=%d' % self.ival)


class ClassRef(object):
    def __init__(self, ci):
        self.ci = ci

    def __repr__(self):
        return '<class %s>' % self.ci.name


class Func(object):
    def __init__(self, fi, selfv=None, closure=None):
        self.fi = fi
        self.selfv = selfv
        self.closure = closure


class Builtin(object):
    def __init__(self, name, recv=None):
        self.name = name
        self.recv = recv

    def __repr__(self):
        return '<builtin %s>' % self.name


class Ext(object):
    """Name of something outside the analysed package (module, function)."""
    def __init__(self, name):
        self.name = name


class SuperV(object):
    def __init__(self, after, selfv):
        self.after = after
        self.selfv = selfv


class ExcV(object):
    def __init__(self, name, args=(), cls=None):
        self.name = name
        self.args = args
        self.cls = cls


class _Return(Exception):
    def __init__(self, value):
        self.value = value


class _Break(Exception):
    pass


class _Continue(Exception):
    pass


BUILTIN_TYPES = ('int', 'bool', 'bytes', 'bytearray', 'str', 'tuple', 'list', 'dict', 'set', 'frozenset', 'object', 'float', 'type',
                 'memoryview', 'complex')      # the last two only as isinstance targets: no modelled value has these types
BUILTIN_FUNCS = ('len', 'max', 'min', 'range', 'abs', 'divmod', 'isinstance', 'sum', 'ord', 'chr', 'reversed', 'enumerate', 'zip',
                 'any', 'all', 'hex', 'pow', 'sorted', 'super', 'iter', 'next', 'callable', 'repr', 'issubclass', 'hasattr', 'getattr',
                 'setattr', 'vars', 'format', 'bin', 'oct', 'round', 'map', 'staticmethod', 'classmethod')
BUILTIN_EXCS = tuple(EXC_PARENTS) + ('BaseException',)

EXT_PURE = {
    'struct.pack': _struct.pack, 'struct.unpack': _struct.unpack, 'struct.calcsize': _struct.calcsize, 'struct.unpack_from': _struct.unpack_from,
    'math.ceil': _math.ceil, 'math.floor': _math.floor,
}


def _is_static(fi):
    return any(dotted(d) == 'staticmethod' for d in fi.node.decorator_list)


def _is_classmethod(fi):
    return any(dotted(d) == 'classmethod' for d in fi.node.decorator_list)


def is_int_enum(ci):
    for c in ci.mro():
        for b in c.bases:
            bn = b if isinstance(b, str) else b.name
            if bn.split('.')[-1] in ('IntEnum', 'IntFlag'):
                return True
    return False


def is_enum(ci):
    for c in ci.mro():
        for b in c.bases:
            bn = b if isinstance(b, str) else b.name
            if bn.split('.')[-1] in ('IntEnum', 'IntFlag', 'Enum', 'Flag'):
                return True
    return False


def _demangled(c, name):
    """`_K__x` seen from class K is the private name `__x` written inside K's body."""
    pre = '_%s__' % c.name.lstrip('_')
    if name.startswith(pre) and not name.endswith('__'):
        return '__' + name[len(pre):]
    return None


_OPERATOR_INT = {'or_': lambda a, b: a | b, 'and_': lambda a, b: a & b, 'xor': lambda a, b: a ^ b, 'add': lambda a, b: a + b,
                 'sub': lambda a, b: a - b, 'mul': lambda a, b: a * b, 'lshift': lambda a, b: a << b if 0 <= b <= 64 else 0,
                 'rshift': lambda a, b: a >> b if b >= 0 else 0}


def _num(v):
    if isinstance(v, Obj) and v.ival is not None:
        return v.ival
    return v


def type_names(v):
    """Model type of a value as the names singledispatch / isinstance would see, most specific first."""
    if isinstance(v, bool):
        return ['bool', 'int', 'object']
    if isinstance(v, int):
        return ['int', 'object']
    if isinstance(v, VBuf):
        return ['bytearray', 'object']
    if isinstance(v, bytes):
        return ['bytes', 'object']
    if isinstance(v, str):
        return ['str', 'object']
    if v is None:
        return ['NoneType', 'object']
    if isinstance(v, tuple):
        return ['tuple', 'object']
    if isinstance(v, list):
        return ['list', 'object']
    if isinstance(v, dict):
        return ['dict', 'object']
    if isinstance(v, (set, frozenset)):
        return [type(v).__name__, 'object']
    if isinstance(v, float):
        return ['float', 'object']
    if isinstance(v, Obj):
        names = [c.name for c in v.cls.mro()]
        for b in v.cls.external_bases():
            names.append(str(b).split('.')[-1])
        if v.ival is not None:
            names += ['int', 'long']
        return names + ['object']
    if isinstance(v, ClassRef):
        return ['type', 'object']
    return ['object']


class Evaluator(object):
    def __init__(self, prog, budget=400000, max_depth=24):
        self.prog = prog
        self.budget = budget
        self.max_depth = max_depth
        self.steps = 0
        self.depth = 0
        self.touched = set()      # qualnames of the functions evaluated (evidence)
        self._gen = {}            # id(function node) -> is a generator
        self.class_state = {}     # (class key, attribute) -> value: class attributes evaluated once / stored through cls.x = v

    # ------------------------------------------------------------------------------------------- public API
    def reset(self):
        self.steps = 0

    def new(self, ci, *args, **kwargs):
        """Construct an instance the way `K(*args)` would: __new__ is not modelled for plain classes, __init__ is evaluated."""
        self.reset()
        return self._construct(ci, list(args), dict(kwargs))

    def call(self, fi, selfv=None, args=(), kwargs=None):
        self.reset()
        return self._call_func(Func(fi, selfv), list(args), dict(kwargs or {}))

    def method(self, obj, name, *args, **kwargs):
        self.reset()
        f = self._getattr(obj, name)
        return self._call(f, list(args), dict(kwargs))

    def get(self, obj, name):
        self.reset()
        return self._getattr(obj, name)

    def set(self, obj, name, value):
        self.reset()
        self._setattr(obj, name, value)

    def length(self, obj):
        self.reset()
        return self._len(obj)

    def tobytes(self, v):
        if isinstance(v, VBuf):
            return v.tobytes()
        if isinstance(v, (bytes, bytearray)):
            return bytes(v)
        raise NoEval('not an octet string: %r' % (v,))

    # ------------------------------------------------------------------------------------------- objects
    def _construct(self, ci, args, kwargs):
        if is_int_enum(ci):
            if len(args) != 1:
                raise NoEval('enum call %s with %d arguments' % (ci.name, len(args)))
            v = _num(args[0])
            members = ci.enum_members()
            if isinstance(v, int) and any(isinstance(m, int) and m == v for m in members.values()):
                return int(v)
            raise Raised('ValueError', '%r is not a valid %s' % (v, ci.name))
        if is_enum(ci):
            # plain Enum: members are modelled by their values
            if len(args) != 1:
                raise NoEval('enum call %s with %d arguments' % (ci.name, len(args)))
            v = _num(args[0])
            try:
                if any(m == v and type(m) is type(v) for m in ci.enum_members().values()):
                    return v
            except Exception:
                raise NoEval('enum call %s(%r)' % (ci.name, v))
            raise Raised('ValueError', '%r is not a valid %s' % (v, ci.name))
        new = ci.find_method('__new__')
        if new is not None:
            obj = self._call_func(Func(new, None), [ClassRef(ci)] + args, kwargs)
            if not (isinstance(obj, Obj) and obj.cls is ci):
                return obj
        else:
            obj = Obj(ci)
        init = ci.find_method('__init__')
        if init is not None:
            self._call_func(Func(init, obj), args, kwargs)
        return obj

    def _prop(self, ci, name):
        """(getter, {typename: setter}) merged through the MRO, or None."""
        getter, setters, found = None, {}, False
        for c in ci.mro():
            p = c.props.get(name)
            if p is None:
                if found and name in c.methods:
                    break
                continue
            found = True
            if getter is None and p.getter is not None:
                getter = p.getter
            for tn, f in p.setter_order:
                setters.setdefault((tn or 'object').split('.')[-1], f)
        return (getter, setters) if found else None

    def _getattr(self, obj, name):
        if isinstance(obj, Obj):
            if name in obj.attrs:
                return obj.attrs[name]
            ci = obj.cls
            # the most derived definition wins: a class-level assignment (`__headercls__ = Header`) in a subclass shadows an
            # (abstract) property of the same name further down the MRO
            first = next((c for c in ci.mro() if name in c.attrs or name in c.methods or name in c.props or name in c.plain_props), None)
            shadowed = first is not None and name in first.attrs and name not in first.methods and name not in first.props and name not in first.plain_props
            p = None if shadowed else self._prop(ci, name)
            if p is not None and p[0] is not None:
                # the most derived definition wins: a plain method/property overriding the sdproperty further down the MRO
                owner = next((c for c in ci.mro() if name in c.methods), None)
                if owner is None or name in owner.props:
                    return self._call_func(Func(p[0], obj), [], {})
            pp = None if shadowed else ci.find_plain_prop(name)
            if pp is not None and pp.get('get') is not None:
                owner = next((c for c in ci.mro() if name in c.methods), None)
                if owner is None or name in owner.plain_props:
                    return self._call_func(Func(pp['get'], obj), [], {})
            if shadowed:
                return self._class_lookup(ci, name)[1]
            f = self._find_method(ci, name)
            if f is not None:
                if _is_static(f):
                    return Func(f, None)
                if _is_classmethod(f):
                    return Func(f, ClassRef(ci))
                return Func(f, obj)
            found, v = self._class_lookup(ci, name)
            if found:
                return v
            if name == '__class__':
                return ClassRef(ci)
            if name == '__dict__':
                return obj.attrs
            if obj.ival is not None:
                return self._native_attr(obj.ival, name)
            raise Raised('AttributeError', '%s has no attribute %s' % (ci.name, name))
        if isinstance(obj, ClassRef):
            ci = obj.ci
            if any((c.key, name) in self.class_state for c in ci.mro()):
                return self._class_lookup(ci, name)[1]
            f = self._find_method(ci, name)
            if f is not None and ci.find_prop(name) is None and ci.find_plain_prop(name) is None:
                if _is_classmethod(f):
                    return Func(f, obj)
                return Func(f, None)
            found, v = self._class_lookup(ci, name)
            if found:
                return v
            if name == '__name__':
                return ci.name
            raise Raised('AttributeError', 'class %s has no attribute %s' % (ci.name, name))
        if isinstance(obj, SuperV):
            start = obj.selfv.cls if isinstance(obj.selfv, Obj) else (obj.selfv.ci if isinstance(obj.selfv, ClassRef) else obj.after)
            if obj.after not in start.mro():
                start = obj.after
            f = start.find_method(name, after=obj.after)
            if f is not None:
                return Func(f, None if _is_static(f) or name == '__new__' else obj.selfv)
            if name == '__init__':
                return Builtin('noop')
            if name == '__new__':
                return Builtin('int_subclass_new')
            raise NoEval('super().%s resolves outside the analysed package' % name)
        if isinstance(obj, Builtin) and obj.recv is None:
            if obj.name == 'int' and name == 'from_bytes':
                return Builtin('int.from_bytes')
            if obj.name in ('bytes', 'bytearray') and name == 'fromhex':
                return Builtin('%s.fromhex' % obj.name)
            if (obj.name, name) in (('dict', 'fromkeys'), ('str', 'maketrans'), ('bytes', 'maketrans'), ('bytearray', 'maketrans')):
                return Builtin('%s.%s' % (obj.name, name))
            if obj.name in ('int', 'bytes', 'bytearray', 'str', 'list', 'dict') and not name.startswith('_'):
                return Builtin('unbound:' + name)
            raise NoEval('attribute %s of builtin %s' % (name, obj.name))
        if isinstance(obj, Ext):
            full = '%s.%s' % (obj.name, name)
            if full in EXT_PURE:
                return Builtin('ext:' + full)
            return Ext(full)
        if isinstance(obj, ExcV):
            if name == 'args':
                return tuple(obj.args)
            raise NoEval('attribute %s of an exception' % name)
        return self._native_attr(obj, name)

    def _native_attr(self, v, name):
        if isinstance(v, (int, bytes, str, VBuf, list, dict, tuple, set, frozenset)) or v is None:
            if isinstance(v, bool) and name in ('bit_length', 'to_bytes'):
                return Builtin('m:' + name, int(v))
            ok = {
                int: ('bit_length', 'to_bytes', 'real', 'numerator', 'value'),
                bytes: ('join', 'hex', 'startswith', 'endswith', 'decode', 'index', 'find', 'count', 'rjust', 'ljust', 'lstrip', 'translate',
                        'maketrans', 'rstrip', 'strip', 'split', 'replace', 'upper', 'lower'),
                VBuf: ('append', 'extend', 'pop', 'hex', 'insert', 'clear', 'copy', 'decode', 'startswith', 'endswith', 'ljust', 'rjust', 'translate'),
                str: ('format', 'encode', 'join', 'upper', 'lower', 'startswith', 'endswith', 'replace', 'strip', 'split', 'translate', 'maketrans',
                      'lstrip', 'rstrip', 'splitlines', 'find', 'index', 'count', 'isdigit', 'zfill', 'rjust', 'ljust'),
                list: ('append', 'extend', 'pop', 'index', 'insert', 'reverse', 'copy', 'count'),
                dict: ('get', 'keys', 'values', 'items', 'pop', 'setdefault'),
                tuple: ('index', 'count'),
            }
            if name == 'value' and isinstance(v, (str, bytes, tuple)):
                return v                # value of an enum member modelled by its value
            for t, names in ok.items():
                if isinstance(v, t) and name in names:
                    if t is int and name in ('real', 'numerator', 'value'):
                        return int(v)
                    return Builtin('m:' + name, v)
            raise Raised('AttributeError', '%s object has no attribute %s' % (type(v).__name__, name)) \
                if not isinstance(v, VBuf) else NoEval('bytearray.%s is not modelled' % name)
        raise NoEval('attribute %s of %r' % (name, v))

    def _class_attr(self, ci, name, expr, busy=()):
        key = (ci.key, name)
        if key in self.class_state:
            return self.class_state[key]
        fr = _Frame(self, FunctionInfo(_CLASSBODY, ci.module, ci), {}, None)
        fr.classbody = ci
        fr.class_scope = ci
        fr.class_scope_busy = tuple(busy) + (name,)
        if is_int_enum(ci):
            members = ci.enum_members()
            if name in members and isinstance(members[name], int):
                return members[name]
        v = fr.ev(expr)
        self.class_state[key] = v          # evaluated once, like the class body: a table filled later keeps its identity
        return v

    def _class_lookup(self, ci, name):
        """(found, value) of a class-level attribute through the MRO: stored values first, then class-body assignments (a private
        name `__x` of class K is reachable as `_K__x`)."""
        for c in ci.mro():
            if (c.key, name) in self.class_state:
                return True, self.class_state[(c.key, name)]
            if name in c.attrs:
                return True, self._class_attr(c, name, c.attrs[name])
            d = _demangled(c, name)
            if d is not None and d in c.attrs:
                return True, self._class_attr(c, name, c.attrs[d])
        return False, None

    def _find_method(self, ci, name):
        f = ci.find_method(name)
        if f is None:
            for c in ci.mro():
                d = _demangled(c, name)
                if d is not None and d in c.methods:
                    return c.methods[d]
        return f

    def _setattr(self, obj, name, value):
        if isinstance(obj, ClassRef):
            self.class_state[(obj.ci.key, name)] = value
            return
        if not isinstance(obj, Obj):
            raise NoEval('attribute store on %r' % (obj,))
        p = self._prop(obj.cls, name)
        if p is not None:
            setters = p[1]
            for tn in type_names(value):
                if tn in setters:
                    self._call_func(Func(setters[tn], obj), [value], {})
                    return
            raise Raised('TypeError', '%s.%s has no setter for %s' % (obj.cls.name, name, type_names(value)[0]), sure=True)
        pp = obj.cls.find_plain_prop(name)
        if pp is not None:
            if pp.get('set') is None:
                raise Raised('AttributeError', "can't set attribute %s" % name)
            self._call_func(Func(pp['set'], obj), [value], {})
            return
        obj.attrs[name] = value

    def _len(self, v):
        if isinstance(v, Obj):
            f = v.cls.find_method('__len__')
            if f is None:
                raise Raised('TypeError', 'object of type %s has no len()' % v.cls.name)
            r = self._call_func(Func(f, v), [], {})
            return _num(r)
        if isinstance(v, (VBuf, bytes, str, tuple, list, dict, set, frozenset, range)):
            return len(v)
        raise Raised('TypeError', 'object of type %s has no len()' % type_names(v)[0])

    # ------------------------------------------------------------------------------------------- calls
    def _call(self, f, args, kwargs):
        if isinstance(f, Func):
            return self._call_func(f, args, kwargs)
        if isinstance(f, ClassRef):
            return self._construct(f.ci, args, kwargs)
        if isinstance(f, Builtin):
            return self._call_builtin(f, args, kwargs)
        if isinstance(f, Ext) and f.name in ('collections.deque', 'deque'):
            # deque(iterable, maxlen=n): the last n elements (modelled as a list: [0], [-1], pop(), iteration)
            items = list(self._iter(args[0])) if args else []
            maxlen = args[1] if len(args) > 1 else kwargs.get('maxlen')
            maxlen = _num(maxlen) if maxlen is not None else None
            if maxlen is not None:
                if not isinstance(maxlen, int) or maxlen < 0:
                    raise Raised('ValueError', 'maxlen must be non-negative')
                items = items[len(items) - maxlen:] if maxlen else []
            return items
        if isinstance(f, Ext) and f.name.startswith('operator.') and f.name[9:] in _OPERATOR_INT and len(args) == 2 and not kwargs and \
                all(isinstance(_num(a), int) for a in args):
            return _OPERATOR_INT[f.name[9:]](_num(args[0]), _num(args[1]))        # operator.or_(a, b) on integers is a | b
        if isinstance(f, Ext):
            if f.name in ('logging.getLogger', 'logging.Logger.getChild', 'logging.LoggerAdapter') or \
                    (f.name.startswith('logging.Logger') and f.name.split('.')[-1] == 'getChild'):
                return Ext('logging.Logger')     # a logger handle (module / class attribute): its methods are diagnostics
            if f.name.split('.')[0] in ('warnings', 'logging') or f.name.split('.')[-1] in ('debug', 'info', 'warning', 'warn', 'error', 'exception',
                                                                                             'critical', 'log'):
                return None          # diagnostics do not contribute to any value computed here
            raise NoEval('call of %s (outside the analysed package) is not modelled' % f.name)
        if isinstance(f, Obj):
            c = f.cls.find_method('__call__')
            if c is not None:
                return self._call_func(Func(c, f), args, kwargs)
        raise NoEval('call of %r' % (f,))

    def _call_func(self, f, args, kwargs):
        fi = f.fi
        node = fi.node
        gen = self._gen.get(id(node))
        if gen is None:
            gen = self._gen[id(node)] = 'async' if isinstance(node, ast.AsyncFunctionDef) else \
                any(isinstance(n, (ast.Yield, ast.YieldFrom)) for n in _own_nodes(node))
        if gen == 'async':
            raise NoEval('%s is a coroutine' % fi.qualname)
        if self.depth >= self.max_depth:
            raise NoEval('call depth %d exceeded at %s' % (self.max_depth, fi.qualname))
        a = node.args
        params = [x.arg for x in a.posonlyargs + a.args]
        env = {}
        args = list(args)
        if f.selfv is not None:
            args = [f.selfv] + args
        if len(args) > len(params):
            if a.vararg is None:
                raise Raised('TypeError', '%s takes %d positional arguments but %d were given' % (fi.qualname, len(params), len(args)))
            env[a.vararg.arg] = tuple(args[len(params):])
            args = args[:len(params)]
        elif a.vararg is not None:
            env[a.vararg.arg] = ()
        for name, v in zip(params, args):
            env[name] = v
        kw = dict(kwargs)
        for name in params[len(args):]:
            if name in kw:
                env[name] = kw.pop(name)
        defaults = a.defaults
        dparams = params[len(params) - len(defaults):] if defaults else []
        for name, d in zip(dparams, defaults):
            if name not in env:
                dfr = _Frame(self, fi, {}, None)
                dfr.class_scope = fi.cls             # a default is evaluated where the def stands: in the class body for a method
                env[name] = dfr.ev(d)
        for ka, kd in zip(a.kwonlyargs, a.kw_defaults):
            if ka.arg in kw:
                env[ka.arg] = kw.pop(ka.arg)
            elif kd is not None:
                env[ka.arg] = _Frame(self, fi, {}, None).ev(kd)
            else:
                raise Raised('TypeError', '%s missing keyword argument %s' % (fi.qualname, ka.arg))
        if kw:
            if a.kwarg is None:
                raise Raised('TypeError', '%s got an unexpected keyword argument %s' % (fi.qualname, sorted(kw)[0]))
            env[a.kwarg.arg] = kw
        elif a.kwarg is not None:
            env[a.kwarg.arg] = {}
        missing = [p for p in params if p not in env]
        if missing:
            raise Raised('TypeError', '%s missing argument %s' % (fi.qualname, missing[0]))
        self.touched.add(fi.qualname)
        fr = _Frame(self, fi, env, f.closure)
        if gen:
            # a generator is evaluated eagerly to the list of the values it yields (pure codec / table code: laziness is not observable;
            # one that never finishes runs into the step budget)
            fr.yields = []
        self.depth += 1
        try:
            fr.block(node.body)
        except _Return as r:
            return fr.yields if gen else r.value
        finally:
            self.depth -= 1
        return fr.yields if gen else None

    def _call_builtin(self, f, args, kwargs):
        n = f.name
        try:
            return self._builtin(n, f.recv, args, kwargs)
        except (NoEval, Raised, Diverged, _Return, _Break, _Continue):
            raise
        except RecursionError:
            raise NoEval('recursion')
        except Exception as ex:          # the checker's own primitive rejects these operands exactly as Python would
            raise Raised(type(ex).__name__, str(ex))

    def _native(self, v, big=False):
        """Checker-side Python value for a primitive call (VBuf -> bytes)."""
        v = _num(v)
        if isinstance(v, VBuf):
            return v.tobytes()
        if isinstance(v, (Obj, ClassRef, Func, Builtin, Ext, SuperV)):
            raise NoEval('program object %r passed to a primitive' % (v,))
        if isinstance(v, (list, tuple)):
            return type(v)(self._native(x) for x in v)
        return v

    def _builtin(self, n, recv, args, kwargs):
        if n == 'noop':
            return None
        if n == 'int_subclass_new':
            if len(args) == 2 and isinstance(args[0], ClassRef):
                v = _num(args[1])
                if isinstance(v, int):
                    return Obj(args[0].ci, ival=int(v))
            raise NoEval('__new__ of an external base with %r' % (args,))
        if n.startswith('ext:'):
            return EXT_PURE[n[4:]](*[self._native(a) for a in args], **{k: self._native(v) for k, v in kwargs.items()})
        if n.startswith('exc:'):
            return ExcV(n[4:], tuple(args))
        if n == 'int.from_bytes':
            b = self._native(args[0])
            order = self._native(args[1]) if len(args) > 1 else kwargs.get('byteorder', 'big')
            return int.from_bytes(b, order, signed=bool(kwargs.get('signed', False)))
        if n == 'dict.fromkeys' and 1 <= len(args) <= 2 and not kwargs:
            return dict.fromkeys([self._native(x) for x in self._iter(args[0])], *[self._native(a) for a in args[1:]])
        if n == 'str.maketrans' and not kwargs:
            return str.maketrans(*[self._native(a) for a in args])
        if n in ('bytes.maketrans', 'bytearray.maketrans') and len(args) == 2 and not kwargs:
            return bytes.maketrans(*[bytes(self._native(a)) for a in args])
        if n in ('bytes.fromhex', 'bytearray.fromhex'):
            r = bytes.fromhex(args[0])
            return r if n.startswith('bytes.') else VBuf(r)
        if n.startswith('m:'):
            return self._method(n[2:], recv, args, kwargs)
        if n.startswith('unbound:'):
            if not args:
                raise Raised('TypeError', 'unbound method needs a receiver')
            return self._call(self._native_attr(_num(args[0]), n[8:]), args[1:], kwargs)
        if n == 'type':
            if len(args) == 1 and isinstance(args[0], Obj):
                return ClassRef(args[0].cls)
            if len(args) == 1 and type_names(args[0])[0] in BUILTIN_TYPES:
                return Builtin(type_names(args[0])[0])
            raise NoEval('type(%r)' % (args,))
        if n == 'len':
            return self._len(args[0])
        if n == 'isinstance':
            return self._isinstance(args[0], args[1])
        if n in ('bytearray', 'bytes'):
            if kwargs or len(args) > 1:
                if len(args) == 2 and isinstance(args[0], str):
                    r = args[0].encode(args[1])
                    return VBuf(r) if n == 'bytearray' else r
                raise NoEval('%s(...) with encoding arguments' % n)
            if not args:
                return VBuf() if n == 'bytearray' else b''
            a = args[0]
            if isinstance(a, Obj) and a.ival is None:
                m = a.cls.find_method('__bytearray__' if n == 'bytearray' else '__bytes__') or a.cls.find_method('__bytearray__')
                if m is None:
                    raise NoEval('%s(%s)' % (n, a.cls.name))
                a = self._call_func(Func(m, a), [], {})
            a = _num(a)
            if isinstance(a, bool) or isinstance(a, int):
                if a < 0:
                    raise Raised('ValueError', 'negative count')
                return VBuf.fill(0, a) if n == 'bytearray' else VBuf.fill(0, a).tobytes()
            if isinstance(a, str):
                raise Raised('TypeError', 'string argument without an encoding')
            if n == 'bytearray':
                return VBuf(a if isinstance(a, (VBuf, bytes)) else [_num(x) for x in a])
            if isinstance(a, VBuf):
                return a.tobytes()
            if isinstance(a, bytes):
                return a
            return bytes([_num(x) for x in a])
        if n == 'int':
            if not args:
                return 0
            a = _num(args[0])
            if len(args) == 2 or 'base' in kwargs:
                return int(self._native(a), self._native(args[1] if len(args) == 2 else kwargs['base']))
            if isinstance(a, (int, float, str, bytes)):
                return int(a)
            raise NoEval('int(%r)' % (a,))
        if n == 'bool':
            return self.truth(args[0]) if args else False
        if n == 'str':
            a = _num(args[0]) if args else ''
            if isinstance(a, (int, str)):
                return str(a)
            raise NoEval('str(%r)' % (a,))
        if n in ('tuple', 'list', 'set', 'frozenset'):
            seq = self._iter(args[0]) if args else []
            return {'tuple': tuple, 'list': list, 'set': set, 'frozenset': frozenset}[n](seq)
        if n == 'dict':
            if not args:
                return dict(kwargs)
            if isinstance(args[0], dict):
                d = dict(args[0])
                d.update(kwargs)
                return d
            return dict(self._iter(args[0]))
        if n in ('max', 'min'):
            if kwargs:
                raise NoEval('%s with key=' % n)
            vals = [_num(x) for x in (self._iter(args[0]) if len(args) == 1 else args)]
            return max(vals) if n == 'max' else min(vals)
        if n == 'range':
            return range(*[_num(a) for a in args])
        if n == 'abs':
            return abs(_num(args[0]))
        if n == 'divmod':
            return divmod(_num(args[0]), _num(args[1]))
        if n == 'pow':
            return pow(*[_num(a) for a in args])
        if n == 'sum':
            tot = _num(args[1]) if len(args) > 1 else 0
            for x in self._iter(args[0]):
                tot = self.binop(ast.Add(), tot, x)
            return tot
        if n == 'ord':
            return ord(self._native(args[0]))
        if n == 'chr':
            return chr(_num(args[0]))
        if n == 'hex':
            return hex(_num(args[0]))
        if n in ('bin', 'oct'):
            return (bin if n == 'bin' else oct)(_num(args[0]))
        if n == 'round':
            return round(*[_num(a) for a in args])
        if n == 'repr':
            return repr(self._native(args[0]))
        if n == 'reversed':
            return list(reversed(list(self._iter(args[0]))))
        if n == 'sorted':
            if kwargs:
                raise NoEval('sorted with key=')
            return sorted(_num(x) for x in self._iter(args[0]))
        if n == 'enumerate':
            return list(enumerate(self._iter(args[0]), *[_num(a) for a in args[1:]]))
        if n == 'zip':
            return list(zip(*[list(self._iter(a)) for a in args]))
        if n in ('staticmethod', 'classmethod') and len(args) == 1 and not kwargs and isinstance(args[0], Func):
            return args[0]
        if n == 'iter' and len(args) == 1 and not kwargs:
            return list(self._iter(args[0]))        # one pass over a finite sequence: a list iterates the same
        if n == 'map' and len(args) >= 2 and not kwargs:
            return [self._call(args[0], list(xs), {}) for xs in zip(*[list(self._iter(a)) for a in args[1:]])]
        if n == 'any':
            return any(self.truth(x) for x in self._iter(args[0]))
        if n == 'all':
            return all(self.truth(x) for x in self._iter(args[0]))
        if n == 'callable':
            return isinstance(args[0], (Func, Builtin, ClassRef))
        if n == 'hasattr':
            try:
                self._getattr(args[0], args[1])
                return True
            except Raised as ex:
                if ex.name == 'AttributeError':
                    return False
                raise
        if n == 'setattr':
            self._setattr(args[0], args[1], args[2])
            return None
        if n == 'vars' and len(args) == 1 and isinstance(args[0], Obj):
            return args[0].attrs
        if n == 'format':
            return format(self._native(args[0]), *[self._native(a) for a in args[1:]])
        if n == 'getattr':
            try:
                return self._getattr(args[0], args[1])
            except Raised as ex:
                if ex.name == 'AttributeError' and len(args) > 2:
                    return args[2]
                raise
        raise NoEval('builtin %s is not modelled' % n)

    def _method(self, name, recv, args, kwargs):
        if isinstance(recv, bool):
            recv = int(recv)
        if isinstance(recv, int):
            if name == 'bit_length':
                return recv.bit_length()
            if name == 'to_bytes':
                ln = _num(args[0]) if args else kwargs.get('length', 1)
                order = args[1] if len(args) > 1 else kwargs.get('byteorder', 'big')
                if not isinstance(ln, int) or ln > (1 << 16):
                    raise NoEval('to_bytes width %r' % (ln,))
                return recv.to_bytes(ln, order, signed=bool(kwargs.get('signed', False)))
        if isinstance(recv, VBuf) and name == 'translate' and not kwargs and 1 <= len(args) <= 2:
            nat = [None if a is None else bytes(self._native(a)) for a in args]
            return VBuf(recv.tobytes().translate(*nat))
        if isinstance(recv, bytes) and name == 'translate' and not kwargs and 1 <= len(args) <= 2:
            return recv.translate(*[None if a is None else bytes(self._native(a)) for a in args])
        if isinstance(recv, VBuf):
            if name == 'append':
                recv.append(_num(args[0]))
                return None
            if name == 'extend':
                a = args[0]
                recv.extend(a if isinstance(a, (VBuf, bytes)) else [_num(x) for x in self._iter(a)])
                return None
            if name == 'pop':
                i = _num(args[0]) if args else -1
                v = recv.get(i)
                recv.delete_at(i)
                return v
            if name == 'insert':
                i, v = _num(args[0]), _num(args[1])
                tail = recv.slice(i, None)
                recv.delete(i, None)
                recv.append(v)
                recv.extend(tail)
                return None
            if name == 'clear':
                recv.runs = []
                return None
            if name == 'copy':
                return VBuf(recv)
            if name == 'hex':
                return recv.tobytes().hex()
            if name in ('startswith', 'endswith'):
                return getattr(recv.tobytes(), name)(self._native(args[0]))
            if name == 'decode':
                return recv.tobytes().decode(*[self._native(a) for a in args])
            if name == 'translate':
                return VBuf(recv.tobytes().translate(*[self._native(a) for a in args], **{k: self._native(v) for k, v in kwargs.items()}))
            if name in ('ljust', 'rjust'):
                return VBuf(getattr(recv.tobytes(), name)(*[self._native(a) for a in args]))       # a new bytearray, padded
        if isinstance(recv, bytes):
            if name == 'join':
                parts = [self._native(x) for x in self._iter(args[0])]
                return recv.join(parts)
            return getattr(recv, name)(*[self._native(a) for a in args])
        if isinstance(recv, str):
            if name == 'format':
                return recv.format(*[self._native(a) for a in args], **{k: self._native(v) for k, v in kwargs.items()})
            if name == 'join':
                return recv.join([self._native(x) for x in self._iter(args[0])])
            return getattr(recv, name)(*[self._native(a) for a in args])
        if isinstance(recv, list):
            if name in ('append', 'extend', 'pop', 'insert', 'reverse', 'copy', 'index', 'count'):
                if name == 'extend':
                    recv.extend(list(self._iter(args[0])))
                    return None
                return getattr(recv, name)(*args)
        if isinstance(recv, dict):
            if name in ('keys', 'values', 'items'):
                return list(getattr(recv, name)())
            key = [_num(a) for a in args]
            return getattr(recv, name)(*key)
        if isinstance(recv, tuple):
            return getattr(recv, name)(*[_num(a) for a in args])
        raise NoEval('method %s of %r' % (name, recv))

    def _isinstance(self, v, t):
        if isinstance(t, tuple):
            return any(self._isinstance(v, x) for x in t)
        have = type_names(v)
        if isinstance(t, Builtin) and t.recv is None:
            if t.name == 'object':
                return True
            return t.name in have
        if isinstance(t, ClassRef):
            if isinstance(v, Obj):
                return t.ci in v.cls.mro()
            if is_int_enum(t.ci):
                return False      # enum members are modelled as plain integers; their class membership is not tracked
            return False
        if isinstance(t, Ext):
            base = t.name.split('.')[-1]
            return base in have
        raise NoEval('isinstance against %r' % (t,))

    def _iter(self, v):
        v = _num(v) if not isinstance(v, Obj) else v
        if isinstance(v, ClassRef) and is_int_enum(v.ci):
            return [m for m in v.ci.enum_members().values() if isinstance(m, int)]
        if isinstance(v, (list, tuple, range, set, frozenset, bytes, str)):
            if len(v) > 70000:
                raise NoEval('iteration over %d elements' % len(v))
            return list(v)
        if isinstance(v, dict):
            return list(v)
        if isinstance(v, VBuf):
            return list(v.tobytes())
        if isinstance(v, Obj):
            it = v.cls.find_method('__iter__')
            if it is not None:
                return list(self._iter(self._call_func(Func(it, v), [], {})))
        raise NoEval('iteration over %r' % (v,))

    def truth(self, v):
        v = _num(v)
        if isinstance(v, (bool, int, float, str, bytes, tuple, list, dict, set, frozenset, range)) or v is None:
            return bool(v)
        if isinstance(v, VBuf):
            return len(v) > 0
        if isinstance(v, Obj):
            for nm in ('__bool__', '__len__'):
                f = v.cls.find_method(nm)
                if f is not None:
                    return self.truth(self._call_func(Func(f, v), [], {}))
            return True
        if isinstance(v, (Func, Builtin, ClassRef, Ext)):
            return True
        raise NoEval('truth of %r' % (v,))

    # ------------------------------------------------------------------------------------------- operators
    def binop(self, op, l, r):
        l, r = _num(l), _num(r)
        t = type(op)
        if isinstance(l, Obj) or isinstance(r, Obj):
            raise NoEval('operator on program objects %r %r' % (l, r))
        if isinstance(l, VBuf) or isinstance(r, VBuf):
            if t is ast.Add:
                if not isinstance(l, (VBuf, bytes)) or not isinstance(r, (VBuf, bytes)):
                    raise Raised('TypeError', "can't concat %s to %s" % (type_names(r)[0], type_names(l)[0]))
                out = VBuf(l)
                out.extend(r)
                if isinstance(l, bytes):
                    return out.tobytes()
                return out
            if t is ast.Mult:
                buf, k = (l, r) if isinstance(l, VBuf) else (r, l)
                if isinstance(k, int) and len(buf.runs) <= 1:
                    return VBuf.fill(buf.runs[0][0], buf.runs[0][1] * k) if buf.runs else VBuf()
                if isinstance(k, int) and 0 <= k * len(buf) <= (1 << 16):
                    return VBuf(buf.tobytes() * k)
            raise NoEval('operator %s on a bytearray' % t.__name__)
        if t is ast.Mult and (isinstance(l, bytes) and isinstance(r, int) or isinstance(r, bytes) and isinstance(l, int)):
            b, k = (l, r) if isinstance(l, bytes) else (r, l)
            if len(b) * max(k, 0) > (1 << 16):
                if len(b) == 1:
                    return VBuf.fill(b[0], k).tobytes()      # raises NoEval: too large to materialise as bytes
                raise NoEval('large bytes repetition')
        if t in (ast.LShift, ast.Pow) and isinstance(r, int) and r > 4096:
            raise NoEval('shift / power by %d' % r)
        fn = _PYOPS.get(t)
        if fn is None:
            raise NoEval('operator %s' % t.__name__)
        try:
            return fn(l, r)
        except Exception as ex:
            raise Raised(type(ex).__name__, str(ex))

    def compare(self, op, a, b):
        a, b = _num(a), _num(b)
        t = type(op)
        if t in (ast.Is, ast.IsNot):
            if a is None or b is None or isinstance(a, bool) or isinstance(b, bool):
                same = a is b
            elif isinstance(a, (Obj, VBuf, list, dict, ClassRef)) or isinstance(b, (Obj, VBuf, list, dict, ClassRef)):
                same = a is b
            else:
                raise NoEval('identity of values %r %r' % (a, b))
            return same if t is ast.Is else not same
        if t in (ast.In, ast.NotIn):
            if isinstance(b, VBuf):
                b = b.tobytes()
            if isinstance(b, ClassRef) and is_int_enum(b.ci):
                b = self._iter(b)
            if isinstance(b, (Obj, ClassRef, Func)):
                raise NoEval('membership in %r' % (b,))
            if isinstance(a, VBuf):
                a = a.tobytes()
            try:
                r = a in b
            except Exception as ex:
                raise Raised(type(ex).__name__, str(ex))
            return r if t is ast.In else not r
        if isinstance(a, VBuf) or isinstance(b, VBuf):
            if t in (ast.Eq, ast.NotEq):
                if isinstance(a, VBuf):
                    r = a.__eq__(b)
                else:
                    r = b.__eq__(a)
                r = False if r is NotImplemented else r
                return r if t is ast.Eq else not r
            a = a.tobytes() if isinstance(a, VBuf) else a
            b = b.tobytes() if isinstance(b, VBuf) else b
        if isinstance(a, (Obj, ClassRef, Func)) or isinstance(b, (Obj, ClassRef, Func)):
            if t in (ast.Eq, ast.NotEq) and not (isinstance(a, Obj) and a.cls.find_method('__eq__')):
                r = a is b
                return r if t is ast.Eq else not r
            raise NoEval('comparison of program objects')
        fn = _PYCMP.get(t)
        try:
            return fn(a, b)
        except Exception as ex:
            raise Raised(type(ex).__name__, str(ex))


_PYOPS = {ast.Add: lambda a, b: a + b, ast.Sub: lambda a, b: a - b, ast.Mult: lambda a, b: a * b, ast.FloorDiv: lambda a, b: a // b,
          ast.Mod: lambda a, b: a % b, ast.LShift: lambda a, b: a << b, ast.RShift: lambda a, b: a >> b, ast.BitOr: lambda a, b: a | b,
          ast.BitAnd: lambda a, b: a & b, ast.BitXor: lambda a, b: a ^ b, ast.Pow: lambda a, b: a ** b, ast.Div: lambda a, b: a / b}
_PYCMP = {ast.Lt: lambda a, b: a < b, ast.LtE: lambda a, b: a <= b, ast.Gt: lambda a, b: a > b, ast.GtE: lambda a, b: a >= b,
          ast.Eq: lambda a, b: a == b, ast.NotEq: lambda a, b: a != b}


def _own_nodes(fn):
    """Nodes of a function body without nested function / class bodies."""
    stack = list(fn.body)
    while stack:
        n = stack.pop()
        yield n
        for ch in ast.iter_child_nodes(n):
            if isinstance(ch, (ast.FunctionDef, ast.AsyncFunctionDef, ast.ClassDef, ast.Lambda)):
                continue
            stack.append(ch)


_CLASSBODY = ast.parse('def __classbody__(): pass').body[0]


class _Frame(object):
    classbody = None
    yields = None

    def __init__(self, ev, fi, env, closure):
        self.E = ev
        self.fi = fi
        self.module = fi.module
        self.env = env
        self.closure = closure
        f = fi
        while f is not None and f.cls is None:
            f = f.outer
        self.lexcls = f.cls if f is not None else None       # lexically enclosing class: private names are mangled with it

    def mangle(self, attr):
        if self.lexcls is not None and attr.startswith('__') and not attr.endswith('__'):
            return '_%s%s' % (self.lexcls.name.lstrip('_'), attr)
        return attr

    def tick(self):
        self.E.steps += 1
        if self.E.steps > self.E.budget:
            raise Diverged('more than %d evaluation steps' % self.E.budget)

    # --------------------------------------------------------------------------------------- statements
    def block(self, stmts):
        for s in stmts:
            self.stmt(s)

    def stmt(self, node):
        self.tick()
        m = getattr(self, 'st_' + type(node).__name__, None)
        if m is None:
            raise NoEval('statement %s in %s' % (type(node).__name__, self.fi.qualname))
        m(node)

    def st_Pass(self, node):
        pass

    st_Import = st_ImportFrom = st_Pass

    def st_Expr(self, node):
        if isinstance(node.value, ast.Constant):
            return
        self.ev(node.value)

    def st_Return(self, node):
        raise _Return(self.ev(node.value) if node.value is not None else None)

    def st_Break(self, node):
        raise _Break()

    def st_Continue(self, node):
        raise _Continue()

    def st_Assert(self, node):
        if not self.E.truth(self.ev(node.test)):
            raise Raised('AssertionError', '')

    def st_Raise(self, node):
        if node.exc is None:
            raise NoEval('bare raise')
        v = self.ev(node.exc)
        if isinstance(v, Builtin) and v.name.startswith('exc:'):
            raise Raised(v.name[4:], '', sure=True)
        if isinstance(v, ExcV):
            raise Raised(v.name, ', '.join(str(a) for a in v.args)[:120], v.cls, sure=True)
        if isinstance(v, ClassRef):
            raise Raised(v.ci.name, '', v.ci, sure=True)
        if isinstance(v, Obj):
            raise Raised(v.cls.name, '', v.cls, sure=True)
        raise NoEval('raise of %r' % (v,))

    def st_Assign(self, node):
        v = self.ev(node.value)
        for t in node.targets:
            self.assign(t, v)

    def st_AnnAssign(self, node):
        if node.value is not None:
            self.assign(node.target, self.ev(node.value))

    def st_AugAssign(self, node):
        cur = self.ev(_as_load(node.target))
        rhs = self.ev(node.value)
        if isinstance(cur, VBuf) and isinstance(node.op, ast.Add):
            if not isinstance(rhs, (VBuf, bytes)):
                if isinstance(rhs, (list, tuple)):
                    cur.extend([_num(x) for x in rhs])
                    return
                raise Raised('TypeError', "can't concat %s to bytearray" % type_names(rhs)[0])
            cur.extend(VBuf(rhs) if rhs is cur else rhs)        # in place: aliases see it
            return
        if isinstance(cur, list) and isinstance(node.op, ast.Add):
            cur.extend(list(self.E._iter(rhs)))
            return
        self.assign(node.target, self.E.binop(node.op, cur, rhs))

    def assign(self, t, v):
        if isinstance(t, ast.Name):
            self.env[t.id] = v
        elif isinstance(t, (ast.Tuple, ast.List)):
            vals = self.E._iter(v)
            if any(isinstance(e, ast.Starred) for e in t.elts):
                raise NoEval('starred assignment')
            if len(vals) != len(t.elts):
                raise Raised('ValueError', 'cannot unpack %d values into %d targets' % (len(vals), len(t.elts)))
            for e, x in zip(t.elts, vals):
                self.assign(e, x)
        elif isinstance(t, ast.Attribute):
            self.E._setattr(self.ev(t.value), self.mangle(t.attr), v)
        elif isinstance(t, ast.Subscript):
            base = self.ev(t.value)
            if isinstance(t.slice, ast.Slice):
                if isinstance(base, VBuf) and t.slice.step is None:
                    lo = _num(self.ev(t.slice.lower)) if t.slice.lower is not None else None
                    hi = _num(self.ev(t.slice.upper)) if t.slice.upper is not None else None
                    lo, hi = base._bounds(lo, hi)
                    tail = base.slice(hi, None)
                    base.delete(lo, None)
                    base.extend(v if isinstance(v, (VBuf, bytes)) else [_num(x) for x in self.E._iter(v)])
                    base.extend(tail)
                    return
                raise NoEval('slice assignment')
            k = _num(self.ev(t.slice))
            if isinstance(base, (list, dict)):
                try:
                    base[k] = v
                except Exception as ex:
                    raise Raised(type(ex).__name__, str(ex))
            elif isinstance(base, VBuf):
                old = base.get(k)
                if not isinstance(_num(v), int) or not 0 <= _num(v) <= 255:
                    raise Raised('ValueError', 'byte must be in range(0, 256)')
                n = len(base)
                k = k + n if k < 0 else k
                tail = base.slice(k + 1, None)
                base.delete(k, None)
                base.append(_num(v))
                base.extend(tail)
            else:
                raise NoEval('item assignment on %r' % (base,))
        else:
            raise NoEval('assignment target %s' % type(t).__name__)

    def st_Delete(self, node):
        for t in node.targets:
            if isinstance(t, ast.Name):
                if t.id not in self.env:
                    raise Raised('NameError', t.id)
                del self.env[t.id]
            elif isinstance(t, ast.Subscript):
                base = self.ev(t.value)
                if isinstance(base, bytes):
                    raise Raised('TypeError', "'bytes' object does not support item deletion")
                if isinstance(t.slice, ast.Slice):
                    if t.slice.step is not None:
                        raise NoEval('extended slice deletion')
                    lo = _num(self.ev(t.slice.lower)) if t.slice.lower is not None else None
                    hi = _num(self.ev(t.slice.upper)) if t.slice.upper is not None else None
                    for x in (lo, hi):
                        if x is not None and not isinstance(x, int):
                            raise Raised('TypeError', 'slice indices must be integers')
                    if isinstance(base, VBuf):
                        base.delete(lo, hi)
                    elif isinstance(base, list):
                        del base[lo:hi]
                    else:
                        raise NoEval('slice deletion on %r' % (base,))
                else:
                    k = _num(self.ev(t.slice))
                    if isinstance(base, VBuf):
                        if not isinstance(k, int):
                            raise Raised('TypeError', 'bytearray indices must be integers')
                        base.delete_at(k)
                    elif isinstance(base, (list, dict)):
                        try:
                            del base[k]
                        except Exception as ex:
                            raise Raised(type(ex).__name__, str(ex))
                    else:
                        raise NoEval('item deletion on %r' % (base,))
            elif isinstance(t, ast.Attribute):
                o = self.ev(t.value)
                if isinstance(o, Obj) and self.mangle(t.attr) in o.attrs:
                    del o.attrs[self.mangle(t.attr)]
                else:
                    raise NoEval('attribute deletion')
            else:
                raise NoEval('deletion target')

    def st_If(self, node):
        if self.E.truth(self.ev(node.test)):
            self.block(node.body)
        else:
            self.block(node.orelse)

    def st_While(self, node):
        while self.E.truth(self.ev(node.test)):
            self.tick()
            try:
                self.block(node.body)
            except _Break:
                return
            except _Continue:
                continue
        self.block(node.orelse)

    def st_For(self, node):
        for v in self.E._iter(self.ev(node.iter)):
            self.tick()
            self.assign(node.target, v)
            try:
                self.block(node.body)
            except _Break:
                return
            except _Continue:
                continue
        self.block(node.orelse)

    def st_Try(self, node):
        try:
            try:
                self.block(node.body)
            except Raised as ex:
                for h in node.handlers:
                    if self._handles(h, ex):
                        if h.name:
                            self.env[h.name] = ExcV(ex.name, (ex.detail,), ex.cls)
                        self.block(h.body)
                        break
                else:
                    raise
            else:
                self.block(node.orelse)
        finally:
            if node.finalbody:
                self.block(node.finalbody)

    def _handles(self, h, ex):
        if h.type is None:
            return True
        types = h.type.elts if isinstance(h.type, ast.Tuple) else [h.type]
        for t in types:
            v = self.ev(t)
            if isinstance(v, Builtin) and v.name.startswith('exc:'):
                want = v.name[4:]
                n = ex.name
                if ex.cls is not None:
                    # program-defined exception: walk its external bases
                    names = [c.name for c in ex.cls.mro()] + [str(b).split('.')[-1] for b in ex.cls.external_bases()]
                    seen = set(names)
                    for x in list(names):
                        while x in EXC_PARENTS:
                            x = EXC_PARENTS[x]
                            seen.add(x)
                    if want in seen:
                        return True
                    continue
                while n is not None:
                    if n == want:
                        return True
                    n = EXC_PARENTS.get(n)
            elif isinstance(v, ClassRef):
                if ex.cls is not None and v.ci in ex.cls.mro():
                    return True
            else:
                raise NoEval('except clause type %r' % (v,))
        return False

    def st_FunctionDef(self, node):
        self.env[node.name] = Func(FunctionInfo(node, self.module, None, outer=self.fi), None, closure=self)

    def st_With(self, node):
        raise NoEval('with statement in %s' % self.fi.qualname)

    def st_Global(self, node):
        raise NoEval('global statement')

    st_Nonlocal = st_Global

    # --------------------------------------------------------------------------------------- expressions
    def ev(self, node):
        self.tick()
        m = getattr(self, 'ev_' + type(node).__name__, None)
        if m is None:
            raise NoEval('expression %s in %s' % (type(node).__name__, self.fi.qualname))
        return m(node)

    def ev_Constant(self, node):
        if node.value is Ellipsis:
            raise NoEval('Ellipsis')
        return node.value

    def lookup(self, name):
        fr = self
        while fr is not None:
            if name in fr.env:
                return fr.env[name]
            fr = fr.closure
        raise KeyError(name)

    def ev_Name(self, node):
        n = node.id
        try:
            return self.lookup(n)
        except KeyError:
            pass
        cb = self.classbody
        fr = self.closure
        while cb is None and fr is not None:
            cb, fr = fr.classbody, fr.closure
        if cb is not None:
            # evaluating a class-level expression: names of the class body
            busy = tuple(getattr(self, 'class_scope_busy', ()))
            if n in cb.attrs and n not in busy:
                return self.E._class_attr(cb, n, cb.attrs[n], busy=busy + (n,))
            if n in cb.methods and n not in cb.props and n not in cb.plain_props:
                return Func(cb.methods[n], None)
        r = self.E.prog.lookup(self.module, n)
        if isinstance(r, ClassInfo):
            return ClassRef(r)
        if isinstance(r, FunctionInfo):
            return Func(r, None)
        if n in self.module.assigns:
            sub = _Frame(self.E, FunctionInfo(ast.parse('def __module__(): pass').body[0], self.module, None), {}, None)
            return sub.ev(self.module.assigns[n])
        if isinstance(r, tuple) and r[0] == 'ext' and n in self.module.imports:
            return Ext(r[1])
        if isinstance(r, tuple) and r[0] == 'module':
            raise NoEval('module object %s' % n)
        if n in BUILTIN_TYPES or n in BUILTIN_FUNCS:
            return Builtin(n)
        if n in BUILTIN_EXCS:
            return Builtin('exc:' + n)
        if n == 'NotImplemented':
            raise NoEval('NotImplemented')
        ci = getattr(self, 'class_scope', None)
        if ci is not None:
            # an expression of the class body (class-level assignment, parameter default): names of the class body are in scope
            if n in ci.methods:
                return Func(ci.methods[n], None)
            if n in ci.attrs and n not in getattr(self, 'class_scope_busy', ()):
                return self.E._class_attr(ci, n, ci.attrs[n], busy=tuple(getattr(self, 'class_scope_busy', ())) + (n,))
        raise Raised('NameError', n)

    def ev_Attribute(self, node):
        return self.E._getattr(self.ev(node.value), self.mangle(node.attr))

    def ev_Tuple(self, node):
        return tuple(self._elts(node.elts))

    def ev_List(self, node):
        return list(self._elts(node.elts))

    def ev_Set(self, node):
        return set(_num(x) for x in self._elts(node.elts))

    def _elts(self, elts):
        out = []
        for e in elts:
            if isinstance(e, ast.Starred):
                out.extend(self.E._iter(self.ev(e.value)))
            else:
                out.append(self.ev(e))
        return out

    def ev_Dict(self, node):
        d = {}
        for k, v in zip(node.keys, node.values):
            if k is None:
                d.update(self.ev(v))
            else:
                d[_num(self.ev(k))] = self.ev(v)
        return d

    def ev_JoinedStr(self, node):
        parts = []
        for v in node.values:
            if isinstance(v, ast.Constant):
                parts.append(str(v.value))
            elif isinstance(v, ast.FormattedValue):
                val = self.E._native(self.ev(v.value))
                if v.conversion == ord('r'):
                    val = repr(val)
                elif v.conversion == ord('s'):
                    val = str(val)
                elif v.conversion == ord('a'):
                    val = ascii(val)
                spec = self.ev_JoinedStr(v.format_spec) if v.format_spec is not None else ''
                try:
                    parts.append(format(val, spec))
                except Exception as ex:
                    raise Raised(type(ex).__name__, str(ex))
            else:
                raise NoEval('f-string part %s' % type(v).__name__)
        return ''.join(parts)

    def ev_IfExp(self, node):
        return self.ev(node.body) if self.E.truth(self.ev(node.test)) else self.ev(node.orelse)

    def ev_BoolOp(self, node):
        v = None
        for x in node.values:
            v = self.ev(x)
            t = self.E.truth(v)
            if isinstance(node.op, ast.And) and not t:
                return v
            if isinstance(node.op, ast.Or) and t:
                return v
        return v

    def ev_UnaryOp(self, node):
        v = self.ev(node.operand)
        if isinstance(node.op, ast.Not):
            return not self.E.truth(v)
        v = _num(v)
        if not isinstance(v, (int, float)):
            raise Raised('TypeError', 'bad operand type for unary operator')
        if isinstance(node.op, ast.USub):
            return -v
        if isinstance(node.op, ast.UAdd):
            return +v
        return ~v

    def ev_BinOp(self, node):
        return self.E.binop(node.op, self.ev(node.left), self.ev(node.right))

    def _enum_member_node(self, n):
        """`Enum.Member` written out: enum members are singletons modelled by their values, so `x is Enum.Member` is value equality."""
        if isinstance(n, ast.Attribute) and isinstance(n.value, (ast.Name, ast.Attribute)):
            try:
                base = self.ev(n.value)
            except (NoEval, Raised):
                return False
            return isinstance(base, ClassRef) and is_enum(base.ci) and n.attr in base.ci.enum_members()
        return False

    def ev_Compare(self, node):
        left = self.ev(node.left)
        lnode = node.left
        for op, c in zip(node.ops, node.comparators):
            right = self.ev(c)
            if isinstance(op, (ast.Is, ast.IsNot)) and (self._enum_member_node(lnode) or self._enum_member_node(c)) and \
                    not isinstance(_num(left), (Obj, VBuf, list, dict)) and not isinstance(_num(right), (Obj, VBuf, list, dict)):
                same = type(_num(left)) is type(_num(right)) and _num(left) == _num(right)
                res = same if isinstance(op, ast.Is) else not same
            else:
                res = self.E.truth(self.E.compare(op, left, right))
            if not res:
                return False
            left, lnode = right, c
        return True

    def _yield_frame(self):
        fr = self
        while fr is not None and fr.yields is None:
            fr = fr.closure if fr.fi is self.fi else None     # comprehension sub-frames share the function of their owner
        if fr is None:
            raise NoEval('yield outside an evaluated generator')
        return fr

    def ev_Yield(self, node):
        self._yield_frame().yields.append(self.ev(node.value) if node.value is not None else None)
        return None

    def ev_YieldFrom(self, node):
        self._yield_frame().yields.extend(self.E._iter(self.ev(node.value)))
        return None

    def ev_NamedExpr(self, node):
        v = self.ev(node.value)
        self.assign(node.target, v)
        return v

    def ev_Subscript(self, node):
        base = self.ev(node.value)
        if isinstance(base, Obj) and base.ival is None:
            gi = base.cls.find_method('__getitem__')
            if gi is None:
                raise Raised('TypeError', '%s is not subscriptable' % base.cls.name)
            if isinstance(node.slice, ast.Slice):
                raise NoEval('slice through __getitem__')
            return self.E._call_func(Func(gi, base), [self.ev(node.slice)], {})
        base = _num(base)
        if isinstance(node.slice, ast.Slice):
            lo = _num(self.ev(node.slice.lower)) if node.slice.lower is not None else None
            hi = _num(self.ev(node.slice.upper)) if node.slice.upper is not None else None
            st = _num(self.ev(node.slice.step)) if node.slice.step is not None else None
            for x in (lo, hi, st):
                if x is not None and not isinstance(x, int):
                    raise Raised('TypeError', 'slice indices must be integers')
            if isinstance(base, VBuf):
                if st is not None:
                    return VBuf(base.tobytes()[lo:hi:st])
                return base.slice(lo, hi)
            if isinstance(base, (bytes, str, tuple, list, range)):
                return base[lo:hi:st]
            raise NoEval('slice of %r' % (base,))
        k = _num(self.ev(node.slice))
        if isinstance(base, VBuf):
            if not isinstance(k, int):
                raise Raised('TypeError', 'bytearray indices must be integers')
            return base.get(k)
        if isinstance(base, (bytes, str, tuple, list, dict, range)):
            try:
                return base[k]
            except Exception as ex:
                raise Raised(type(ex).__name__, str(ex))
        raise NoEval('subscript of %r' % (base,))

    def _comp(self, node, gens, emit):
        if not gens:
            emit()
            return
        g = gens[0]
        if g.is_async:
            raise NoEval('async comprehension')
        for v in self.E._iter(self.ev(g.iter)):
            self.tick()
            self.assign(g.target, v)
            if all(self.E.truth(self.ev(c)) for c in g.ifs):
                self._comp(node, gens[1:], emit)

    def ev_ListComp(self, node):
        sub = _Frame(self.E, self.fi, {}, self)
        out = []
        sub._comp(node, node.generators, lambda: out.append(sub.ev(node.elt)))
        return out

    ev_GeneratorExp = ev_ListComp

    def ev_SetComp(self, node):
        return set(_num(x) for x in self.ev_ListComp(node))

    def ev_DictComp(self, node):
        sub = _Frame(self.E, self.fi, {}, self)
        out = {}

        def emit():
            out[_num(sub.ev(node.key))] = sub.ev(node.value)
        sub._comp(node, node.generators, emit)
        return out

    def ev_Lambda(self, node):
        fn = ast.FunctionDef(name='<lambda>', args=node.args, body=[ast.Return(value=node.body, lineno=node.lineno, col_offset=0)],
                             decorator_list=[], returns=None, lineno=node.lineno, col_offset=0)
        return Func(FunctionInfo(fn, self.module, None, outer=self.fi), None, closure=self)

    def ev_Call(self, node):
        fnode = node.func
        if isinstance(fnode, ast.Name) and fnode.id == 'super':
            try:
                self.lookup('super')
            except KeyError:
                return self._super(node)
        f = self.ev(fnode)
        args = self._elts(node.args)
        kwargs = {}
        for k in node.keywords:
            if k.arg is None:
                kwargs.update(self.ev(k.value))
            else:
                kwargs[k.arg] = self.ev(k.value)
        return self.E._call(f, args, kwargs)

    def _super(self, node):
        params = self.fi.params
        if node.args:
            k = self.ev(node.args[0])
            selfv = self.ev(node.args[1]) if len(node.args) > 1 else None
            if not isinstance(k, ClassRef) or selfv is None:
                raise NoEval('super(%s)' % ast.unparse(node))
            return SuperV(k.ci, selfv)
        fi = self.fi
        while fi is not None and fi.cls is None:
            fi = fi.outer
        if fi is None or not params:
            raise NoEval('super() outside a method')
        fr = self
        while fr is not None and fr.fi is not fi:
            fr = fr.closure
        selfv = (fr or self).env.get(fi.params[0]) if fi.params else None
        if selfv is None:
            raise NoEval('super(): receiver not found')
        return SuperV(fi.cls, selfv)


def _as_load(t):
    import copy
    n = copy.copy(t)
    n.ctx = ast.Load()
    return n
