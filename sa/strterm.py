"""Value terms of the interpreter read back as trees, and text-producing terms as *piece sequences*.

The interpreter (sa/interp.py) renders every value as a normalised text in which locals are already replaced by what they
denote.  Rules that have to say something about a *text the code builds* (an armor block, a header line, a label) must not depend
on how the text is put together: `'{a}: {b}\\n'.format(a=x, b=y)`, `x + ': ' + y + '\\n'`, `'%s: %s\\n' % (x, y)` and an f-string
are the same text.  This module

  * parses a rendered value back into a tree (`parse_term`; python `ast` nodes, bound variables `$k` become names `_Bk`),
  * flattens a text-valued term into pieces (`pieces`):  ('L', literal)  ('V', node)  ('J', separator, vars, collection, [pieces])
    where J is `separator.join(<pieces> for vars in collection)` - loop, comprehension and generator forms coincide,
  * matches a term against a pattern with holes (`match`) and prints a term in one canonical spelling (`show`).

Nothing here looks at the source of the analysed program; it is pure post-processing of interpreter values.
"""
import ast
import re
import string

_OPAQUE = re.compile(r'<(?:new|fn|raises|localclass|unbound)\b[^<>]*>')
_BOUND = re.compile(r'\$(\d+(?:\.\d+)?)((?:_\d+)*)')
_CHEX = re.compile(r'C\(([0-9a-f]*)\)')


def _to_python(text):
    out = []
    i, n = 0, len(text)
    stack = []
    while i < n:
        ch = text[i]
        if ch in '\'"':
            j = i + 1
            while j < n and text[j] != ch:
                j += 2 if text[j] == '\\' else 1
            out.append(text[i:j + 1])
            i = j + 1
            continue
        if ch == '$':
            m = _BOUND.match(text, i)
            if m:
                out.append('_B' + m.group(1).replace('.', 'd') + m.group(2))
                i = m.end()
                continue
        if ch == '<':
            m = _OPAQUE.match(text, i)
            if m:
                out.append('_O_' + re.sub(r'\W', '_', m.group(0)))
                i = m.end()
                continue
        if ch == 'C' and (i == 0 or not (text[i - 1].isalnum() or text[i - 1] in '_.')):
            m = _CHEX.match(text, i)
            if m:
                out.append("C('%s')" % m.group(1))
                i = m.end()
                continue
        if ch == '*' and text.startswith('**=', i):
            out.append('**')              # the interpreter's spelling of f(**mapping)
            i += 3
            continue
        if ch in '([{':
            hdr = ch == '(' and text[max(0, i - 4):i] == 'EACH' and (i < 5 or not (text[i - 5].isalnum() or text[i - 5] in '_.'))
            stack.append('hdr' if hdr else '')
        elif ch in ')]}':
            if stack:
                stack.pop()
        elif ch == ';':
            if stack and stack[-1] == 'hdrw':
                out.append(')')
            if stack and stack[-1] in ('hdr', 'hdrw'):
                stack[-1] = ''
            out.append(',')
            i += 1
            if i < n and text[i] in ';)':
                out.append(' None')       # an open slice bound: SLICE(x;;-1)
            continue
        elif ch == ' ' and stack and stack[-1] == 'hdr' and text.startswith(' in while ', i):
            out.append(' in WHILE(')          # summarised while loop: EACH(_ in while <test>;...)
            stack[-1] = 'hdrw'
            i += 10
            continue
        elif ch == ' ' and stack and stack[-1] == 'hdr' and text.startswith(' if ', i):
            out.append(' and ')
            i += 4
            continue
        out.append(ch)
        i += 1
    return ''.join(out)


def parse_term(text):
    """python `ast` expression node of a rendered value, or None if the text is not a term this reader understands."""
    if isinstance(text, ast.AST):
        return text
    try:
        return ast.parse(_to_python(text), mode='eval').body
    except (SyntaxError, ValueError, RecursionError, MemoryError):
        return None


# ------------------------------------------------------------------------------------------------ canonical spelling
class _Alpha(ast.NodeTransformer):
    def __init__(self):
        self.map = {}

    def visit_Name(self, node):
        m = re.match(r'^_B([\dd]+)((?:_\d+)*)$', node.id)
        if m:
            k = m.group(1)
            if k not in self.map:
                self.map[k] = '$%d' % (len(self.map) + 1)
            return ast.copy_location(ast.Name(id=self.map[k] + m.group(2), ctx=node.ctx), node)
        return node


def show(node):
    """Canonical text of a term: bound variables renumbered by first appearance, one spelling for literals."""
    if node is None:
        return None
    if isinstance(node, str):
        n = parse_term(node)
        if n is None:
            return node
        node = n
    import copy
    return ast.unparse(_Alpha().visit(copy.deepcopy(node)))


def same(a, b):
    return show(a) == show(b)


def fold(node):
    """Constant folding of a term: a lookup of a literal key in a literal mapping ({'a': x}.get('a', d) / {'a': x}['a'])."""
    if node is None:
        return None

    class F(ast.NodeTransformer):
        def visit_Call(self, n):
            self.generic_visit(n)
            if isinstance(n.func, ast.Attribute) and n.func.attr == 'get' and isinstance(n.func.value, ast.Dict) and 1 <= len(n.args) <= 2 and \
                    not n.keywords and isinstance(n.args[0], ast.Constant) and all(isinstance(k, ast.Constant) for k in n.func.value.keys):
                for k, v in zip(n.func.value.keys, n.func.value.values):
                    if type(k.value) is type(n.args[0].value) and k.value == n.args[0].value:
                        return v
                return n.args[1] if len(n.args) == 2 else ast.Constant(value=None)
            return n

        def visit_Subscript(self, n):
            self.generic_visit(n)
            if isinstance(n.value, ast.Dict) and isinstance(n.slice, ast.Constant) and all(isinstance(k, ast.Constant) for k in n.value.keys):
                for k, v in zip(n.value.keys, n.value.values):
                    if type(k.value) is type(n.slice.value) and k.value == n.slice.value:
                        return v
            return n
    import copy
    return F().visit(copy.deepcopy(node))


# ------------------------------------------------------------------------------------------------ matching
def match(node, pattern, binds=None):
    """Unify a term with a pattern (python source; names made of an underscore and capitals, e.g. `_X`, are holes).
    Returns {hole: node} or None.  A hole that occurs twice must stand for the same term."""
    if isinstance(node, str):
        node = parse_term(node)
    if node is None:
        return None
    pat = ast.parse(pattern, mode='eval').body if isinstance(pattern, str) else pattern
    binds = {} if binds is None else binds
    return binds if _unify(node, pat, binds) else None


def _is_hole(p):
    return isinstance(p, ast.Name) and re.match(r'^_[A-Z][A-Z0-9]*$', p.id) is not None


def _unify(n, p, b):
    if _is_hole(p):
        if p.id in b:
            return ast.dump(b[p.id]) == ast.dump(n)
        b[p.id] = n
        return True
    if type(n) is not type(p):
        return False
    if isinstance(p, ast.Constant):
        return type(n.value) is type(p.value) and n.value == p.value
    for f in p._fields:
        if f in ('ctx', 'kind', 'type_comment'):
            continue
        pv, nv = getattr(p, f, None), getattr(n, f, None)
        if isinstance(pv, list):
            if not isinstance(nv, list) or len(pv) != len(nv):
                return False
            for x, y in zip(nv, pv):
                if isinstance(y, ast.AST):
                    if not isinstance(x, ast.AST) or not _unify(x, y, b):
                        return False
                elif x != y:
                    return False
        elif isinstance(pv, ast.AST):
            if not isinstance(nv, ast.AST) or not _unify(nv, pv, b):
                return False
        elif pv != nv:
            return False
    return True


def match_any(node, patterns):
    for p in patterns:
        m = match(node, p)
        if m is not None:
            return m
    return None


# ------------------------------------------------------------------------------------------------ loops / comprehensions
def each(node):
    """(vars node, collection node, [filter nodes], [element nodes]) of an EACH(..) term, looking through a one-element list
    (the append loop) and the order-preserving wrappers iter/list/tuple; else None."""
    if isinstance(node, str):
        node = parse_term(node)
    while True:
        if isinstance(node, (ast.List, ast.Tuple)) and len(node.elts) == 1:
            node = node.elts[0]
        elif isinstance(node, ast.Call) and isinstance(node.func, ast.Name) and node.func.id in ('iter', 'list', 'tuple') and \
                len(node.args) == 1 and not node.keywords:
            node = node.args[0]
        else:
            break
    if isinstance(node, (ast.GeneratorExp, ast.ListComp)) and len(node.generators) == 1:
        g = node.generators[0]
        return g.target, g.iter, list(g.ifs), [node.elt]
    if not (isinstance(node, ast.Call) and isinstance(node.func, ast.Name) and node.func.id == 'EACH' and len(node.args) >= 2):
        return None
    hd = node.args[0]
    conds = []
    if isinstance(hd, ast.BoolOp) and isinstance(hd.op, ast.And):
        conds = list(hd.values[1:])
        hd = hd.values[0]
    if not (isinstance(hd, ast.Compare) and len(hd.ops) == 1 and isinstance(hd.ops[0], ast.In)):
        return None
    return hd.left, hd.comparators[0], conds, list(node.args[1:])


def collection_of(node):
    """For a term that denotes the elements `f(v) for v in coll` possibly wrapped in set/sorted/list/tuple/frozenset/iter (wrappers
    that keep the set of elements): (vars, coll, filters, element, [wrapper names outermost first]); else None."""
    if isinstance(node, str):
        node = parse_term(node)
    wrappers = []
    while True:
        if isinstance(node, ast.Call) and isinstance(node.func, ast.Name) and node.func.id in ('set', 'sorted', 'list', 'tuple', 'frozenset', 'iter') and \
                len(node.args) == 1 and not node.keywords:
            wrappers.append(node.func.id)
            node = node.args[0]
            continue
        break
    if isinstance(node, ast.SetComp) and len(node.generators) == 1:
        g = node.generators[0]
        return g.target, g.iter, list(g.ifs), node.elt, wrappers + ['set']
    e = each(node)
    if e is None or len(e[3]) != 1:
        return None
    return e[0], e[1], e[2], e[3][0], wrappers


# ------------------------------------------------------------------------------------------------ pieces
def _lit(s):
    return ('L', s)


def _merge(ps):
    out = []
    for p in ps:
        if p[0] == 'L':
            if not p[1]:
                continue
            if out and out[-1][0] == 'L':
                out[-1] = ('L', out[-1][1] + p[1])
                continue
        out.append(p)
    return out


def _value_pieces(node, spec='', conv=None):
    """Pieces of a value substituted into a template with the given format spec / conversion."""
    if spec in ('', 's') and conv in (None, 's'):
        if isinstance(node, ast.Constant) and not isinstance(node.value, str):
            if isinstance(node.value, int) and not isinstance(node.value, bool) and spec == '':
                return [_lit(str(node.value))]
            return [('V', node)]
        return pieces(node)
    if isinstance(node, ast.Constant) and isinstance(node.value, (int, str)) and not isinstance(node.value, bool) and conv is None:
        try:
            return [_lit(format(node.value, spec))]
        except (ValueError, TypeError):
            pass
    wrapped = ast.Call(func=ast.Name(id='format', ctx=ast.Load()),
                       args=[node, ast.Constant(value=('!%s' % conv if conv else '') + (':%s' % spec if spec else ''))], keywords=[])
    return [('V', wrapped)]


def _format_call(tmpl, args, kwargs):
    out = []
    auto = 0
    try:
        fields = list(string.Formatter().parse(tmpl))
    except ValueError:
        return None
    for lit, field, spec, conv in fields:
        if lit:
            out.append(_lit(lit))
        if field is None:
            continue
        if spec and ('{' in spec):
            return None
        if field == '':
            key = auto
            auto += 1
        elif field.isdigit():
            key = int(field)
        elif re.match(r'^[A-Za-z_]\w*$', field):
            key = field
        else:
            fm = re.match(r'^(\d*|[A-Za-z_]\w*)((?:\[\d+\])+)$', field)
            if not fm:
                return None
            key = fm.group(1)
            if key == '':
                key = auto
                auto += 1
            elif key.isdigit():
                key = int(key)
        if isinstance(key, int):
            if key >= len(args):
                return None
            v = args[key]
        else:
            if key not in kwargs:
                return None
            v = kwargs[key]
        fm = re.match(r'^(?:\d*|[A-Za-z_]\w*)((?:\[\d+\])+)$', field)
        if fm:
            for ix in re.findall(r'\[(\d+)\]', fm.group(1)):      # '{0[1]}': item lookups on the argument
                v = ast.Subscript(value=v, slice=ast.Constant(value=int(ix)), ctx=ast.Load())
        out.extend(_value_pieces(v, spec or '', conv))
    return out


def _percent(tmpl, arg):
    parts = re.split(r'(%(?:\([A-Za-z_]\w*\))?[sd%])', tmpl)
    vals = list(arg.elts) if isinstance(arg, ast.Tuple) else [arg]
    named = isinstance(arg, ast.Dict)
    nspec = len([p for p in parts if re.match(r'^%[sd]$', p or '')])
    if not named and not isinstance(arg, ast.Tuple) and nspec > 1:
        # '%s: %s' % pair  - the operand must be a tuple of that many items: pair[0], pair[1]
        vals = [ast.Subscript(value=arg, slice=ast.Constant(value=i), ctx=ast.Load()) for i in range(nspec)]
    out = []
    k = 0
    for p in parts:
        if p == '%%':
            out.append(_lit('%'))
        elif re.match(r'^%(?:\([A-Za-z_]\w*\))?[sd]$', p or ''):
            if p[1] == '(':
                if not named:
                    return None
                key = p[2:-2]
                hit = [v for kk, v in zip(arg.keys, arg.values) if isinstance(kk, ast.Constant) and kk.value == key]
                if len(hit) != 1:
                    return None
                out.extend(_value_pieces(hit[0], 's' if p[-1] == 's' else ''))
            else:
                if named or k >= len(vals):
                    return None
                out.extend(_value_pieces(vals[k], 's' if p[-1] == 's' else ''))
                k += 1
        elif '%' in (p or ''):
            return None
        elif p:
            out.append(_lit(p))
    if not named and k != len(vals):
        return None
    return out


def pieces(node):
    """Piece sequence of a text-valued term (see module docstring).  A term that is not built from literals is one V piece."""
    if isinstance(node, str):
        n = parse_term(node)
        if n is None:
            return [('V', ast.Name(id='_O_unparsed_' + re.sub(r'\W', '_', node)[:40], ctx=ast.Load()))]
        node = n
    if isinstance(node, ast.Constant) and isinstance(node.value, str):
        return _merge([_lit(node.value)])
    if isinstance(node, ast.BinOp) and isinstance(node.op, ast.Add):
        l, r = pieces(node.left), pieces(node.right)
        if any(p[0] != 'V' for p in l + r) or len(l) > 1 or len(r) > 1:
            return _merge(l + r)
        return [('V', node)]
    if isinstance(node, ast.BinOp) and isinstance(node.op, ast.Mod) and isinstance(node.left, ast.Constant) and isinstance(node.left.value, str):
        r = _percent(node.left.value, node.right)
        if r is not None:
            return _merge(r)
    if isinstance(node, ast.JoinedStr):
        out = []
        for v in node.values:
            if isinstance(v, ast.Constant):
                out.append(_lit(str(v.value)))
            elif isinstance(v, ast.FormattedValue):
                spec = ''
                if v.format_spec is not None:
                    if not all(isinstance(x, ast.Constant) for x in v.format_spec.values):
                        return [('V', node)]
                    spec = ''.join(str(x.value) for x in v.format_spec.values)
                out.extend(_value_pieces(v.value, spec, chr(v.conversion) if v.conversion and v.conversion > 0 else None))
        return _merge(out)
    if isinstance(node, ast.Call) and isinstance(node.func, ast.Attribute) and isinstance(node.func.value, ast.Constant) and \
            isinstance(node.func.value.value, str):
        recv = node.func.value.value
        if node.func.attr in ('format', 'format_map') and not any(isinstance(a, ast.Starred) for a in node.args):
            kw, args, ok = {}, list(node.args), True
            if node.func.attr == 'format_map':
                ok = len(args) == 1 and not node.keywords
                maps, args = (args if ok else []), []
            else:
                maps = [k.value for k in node.keywords if k.arg is None]
                kw = {k.arg: k.value for k in node.keywords if k.arg is not None}
            for mp in maps:          # format(**{'a': x}) / format_map({'a': x}) with a literal mapping == format(a=x)
                if isinstance(mp, ast.Dict) and all(isinstance(k, ast.Constant) and isinstance(k.value, str) for k in mp.keys):
                    kw.update({k.value: v for k, v in zip(mp.keys, mp.values)})
                else:
                    ok = False
            r = _format_call(recv, args, kw) if ok else None
            if r is not None:
                return _merge(r)
        if node.func.attr == 'join' and len(node.args) == 1 and not node.keywords:
            a = node.args[0]
            e = each(a)
            if e is not None and len(e[3]) == 1 and not e[2]:
                return [('J', recv, e[0], e[1], pieces(e[3][0]))]
            mm = match(a, 'map(_F, _C)')
            if mm is not None and isinstance(mm['_F'], ast.Attribute) and mm['_F'].attr == 'format' and isinstance(mm['_F'].value, ast.Constant):
                # sep.join(map(template.format, coll)) == sep.join(template.format(x) for x in coll)
                var = ast.Name(id='_B0', ctx=ast.Load())
                call = ast.Call(func=mm['_F'], args=[var], keywords=[])
                return [('J', recv, var, mm['_C'], pieces(call))]
            if isinstance(a, (ast.List, ast.Tuple)) and not any(isinstance(x, ast.Starred) for x in a.elts) and \
                    not any(each(x) is not None for x in a.elts):
                out = []
                for i, x in enumerate(a.elts):
                    if i:
                        out.append(_lit(recv))
                    out.extend(_value_pieces(x, 's'))
                return _merge(out)
    return [('V', node)]


def show_pieces(ps):
    out = []
    for p in ps:
        if p[0] == 'L':
            out.append(repr(p[1]))
        elif p[0] == 'V':
            out.append('<%s>' % show(p[1]))
        else:
            out.append('%r.join(%s for %s in %s)' % (p[1], show_pieces(p[4]), show(p[2]), show(p[3])))
    return ' '.join(out)


PH0 = 0xE000


def layout(ps):
    """(string, table): the piece sequence as one string in which every non-literal piece is a single private-use character
    (table maps the character to the piece) - rules describe a layout by a regular expression over that string."""
    s = ''
    table = {}
    for p in ps:
        if p[0] == 'L':
            s += p[1]
        else:
            ch = chr(PH0 + len(table))
            table[ch] = p
            s += ch
    return s, table


PH = '[\ue000-\uf8ff]'


# ------------------------------------------------------------------------------------------------ constants of a class body
class NotConstant(Exception):
    pass


_BINOPS = {ast.Add: lambda a, b: a + b, ast.Sub: lambda a, b: a - b, ast.Mult: lambda a, b: a * b, ast.FloorDiv: lambda a, b: a // b,
           ast.Mod: lambda a, b: a % b, ast.LShift: lambda a, b: a << b, ast.RShift: lambda a, b: a >> b, ast.BitOr: lambda a, b: a | b,
           ast.BitAnd: lambda a, b: a & b, ast.BitXor: lambda a, b: a ^ b}


def const_eval(node, env=None, owners=()):
    """Value of a closed literal expression (ints, str, bytes, tuples, ranges; bytes()/bytearray()/range()/len()/chr()/ord()/
    str.encode()), by the checker's own evaluator.  `env` maps names (and, for attribute reads on a name in `owners`, attribute names)
    to values.  Raises NotConstant."""
    env = env or {}
    if isinstance(node, ast.Constant):
        return node.value
    if isinstance(node, ast.Name):
        if node.id in env:
            return env[node.id]
        raise NotConstant(node.id)
    if isinstance(node, ast.Attribute) and isinstance(node.value, ast.Name) and node.value.id in owners and node.attr in env:
        return env[node.attr]
    if isinstance(node, (ast.Tuple, ast.List)):
        return tuple(const_eval(e, env, owners) for e in node.elts)
    if isinstance(node, ast.UnaryOp) and isinstance(node.op, (ast.USub, ast.Invert, ast.UAdd)):
        v = const_eval(node.operand, env, owners)
        if type(v) is not int:
            raise NotConstant('unary')
        return -v if isinstance(node.op, ast.USub) else ~v if isinstance(node.op, ast.Invert) else v
    if isinstance(node, ast.JoinedStr):
        out = ''
        for v in node.values:
            if isinstance(v, ast.Constant):
                out += str(v.value)
            elif isinstance(v, ast.FormattedValue) and v.conversion in (-1, 115) and v.format_spec is None:
                x = const_eval(v.value, env, owners)
                if not isinstance(x, (str, int)) or isinstance(x, bool):
                    raise NotConstant('f-string value')
                out += str(x)
            else:
                raise NotConstant('f-string')
        return out
    if isinstance(node, ast.BinOp) and isinstance(node.op, ast.Mod):
        a, b = const_eval(node.left, env, owners), const_eval(node.right, env, owners)
        if isinstance(a, (str, bytes)):
            try:
                return a % b
            except Exception:
                raise NotConstant('%')
    if isinstance(node, ast.Call) and isinstance(node.func, ast.Attribute) and node.func.attr == 'format' and \
            all(k.arg is not None for k in node.keywords):
        recv = const_eval(node.func.value, env, owners)
        if isinstance(recv, str):
            try:
                return recv.format(*[const_eval(a, env, owners) for a in node.args], **{k.arg: const_eval(k.value, env, owners) for k in node.keywords})
            except NotConstant:
                raise
            except Exception:
                raise NotConstant('format')
    if isinstance(node, ast.BinOp) and type(node.op) in _BINOPS:
        a, b = const_eval(node.left, env, owners), const_eval(node.right, env, owners)
        try:
            r = _BINOPS[type(node.op)](a, b)
        except Exception:
            raise NotConstant('binop')
        if isinstance(r, (bytes, str, tuple)) and len(r) > 100000:
            raise NotConstant('too large')
        return r
    if isinstance(node, ast.Call) and not node.keywords:
        fn = ast.unparse(node.func)
        args = [const_eval(a, env, owners) for a in node.args]
        try:
            if fn == 'C' and len(args) == 1 and isinstance(args[0], str):
                return bytes.fromhex(args[0])
            if fn == 'range' and 1 <= len(args) <= 3 and all(type(a) is int for a in args) and len(range(*args)) <= 100000:
                return tuple(range(*args))
            if fn in ('bytes', 'bytearray') and len(args) == 1 and isinstance(args[0], (bytes, bytearray, tuple)):
                return bytes(args[0])
            if fn in ('tuple', 'list', 'sorted') and len(args) == 1 and isinstance(args[0], (tuple, bytes, str)):
                return tuple(sorted(args[0])) if fn == 'sorted' else tuple(args[0])
            if fn == 'len' and len(args) == 1 and isinstance(args[0], (tuple, bytes, str)):
                return len(args[0])
            if fn == 'chr' and len(args) == 1 and type(args[0]) is int:
                return chr(args[0])
            if fn == 'ord' and len(args) == 1 and isinstance(args[0], str) and len(args[0]) == 1:
                return ord(args[0])
        except (ValueError, TypeError, OverflowError):
            raise NotConstant(fn)
        if isinstance(node.func, ast.Attribute) and node.func.attr == 'encode' and len(args) <= 1:
            recv = const_eval(node.func.value, env, owners)
            if isinstance(recv, str):
                try:
                    return recv.encode(*args)
                except Exception:
                    raise NotConstant('encode')
        if isinstance(node.func, ast.Attribute) and node.func.attr == 'join' and len(args) == 1 and isinstance(args[0], tuple):
            recv = const_eval(node.func.value, env, owners)
            try:
                return recv.join(args[0])
            except Exception:
                raise NotConstant('join')
    raise NotConstant(type(node).__name__)


def class_constants(ci):
    """{attribute name: value} of the class-level assignments of a class (and its bases) that are closed literal expressions,
    later ones may refer to earlier ones."""
    env = {}
    for c in reversed(ci.mro()):
        for _ in range(3):
            for name, node in getattr(c, 'attrs', {}).items():
                if name in env:
                    continue
                try:
                    env[name] = const_eval(node, env, owners=(c.name,))
                except NotConstant:
                    pass
    return env


def subst_class_constants(node, env, owners):
    """The term with reads of known class constants (self.NAME / Class.NAME) replaced by their values (ints, str, bytes as C('hex'))."""
    class S(ast.NodeTransformer):
        def visit_Attribute(self, n):
            self.generic_visit(n)
            if isinstance(n.value, ast.Name) and n.value.id in owners and n.attr in env and isinstance(env[n.attr], (int, str, bytes)) and \
                    not isinstance(env[n.attr], bool):
                v = env[n.attr]
                if isinstance(v, bytes):
                    return ast.Call(func=ast.Name(id='C', ctx=ast.Load()), args=[ast.Constant(value=v.hex())], keywords=[])
                return ast.Constant(value=v)
            return n
    import copy
    return S().visit(copy.deepcopy(node))
