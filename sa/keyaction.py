"""KeyAction decorator: precondition table of every key operation, order of checks, usage scan (shared by C06, C07, C16)."""
import ast

from .loader import AnalysisError, dotted
from .cfg import CFG, calls_in
from .interp import Interp, Scenario, Sym, Const, render

# the policy, from the property statements (C16 / C07 / C06): operation -> (required flags, conditions)
POLICY = {
    'sign': ({'KeyFlags.Sign'}, {'is_unlocked': True, 'is_public': False}),
    'certify': ({'KeyFlags.Certify'}, {'is_unlocked': True, 'is_public': False}),
    'revoke': ({'KeyFlags.Certify'}, {'is_unlocked': True, 'is_public': False}),
    'revoker': (set(), {'is_unlocked': True, 'is_public': False}),
    'bind': (set(), {'is_unlocked': True, 'is_public': False}),
    'decrypt': (set(), {'is_unlocked': True, 'is_public': False}),
    'encrypt': ({'KeyFlags.EncryptCommunications', 'KeyFlags.EncryptStorage'}, {'is_public': True}),
}


def decorator_table(prog):
    ci = prog.cls('pgpy.pgp', 'PGPKey')
    out = {}
    for name, f in ci.methods.items():
        for d in f.node.decorator_list:
            if isinstance(d, ast.Call) and dotted(d.func) == 'KeyAction':
                flags = set(dotted(a) or ast.unparse(a) for a in d.args)
                conds = {}
                for k in d.keywords:
                    try:
                        conds[k.arg] = ast.literal_eval(k.value)
                    except Exception:
                        conds[k.arg] = ast.unparse(k.value)
                out[name] = (flags, conds, f)
    return out


def check_table(rep, prog, rid):
    tbl = decorator_table(prog)
    for op, (flags, conds) in POLICY.items():
        if op not in tbl:
            rep.violation(rid, 'PGPKey.%s' % op, 'no KeyAction decorator', 'operation %s runs without its preconditions' % op,
                          where=prog.cls('pgpy.pgp', 'PGPKey').where, scenario=op)
            continue
        gf, gc, f = tbl[op]
        rep.check(gf == flags, rid, 'PGPKey.%s' % op, 'required flags %s' % sorted(gf),
                  '%s must require the capability %s' % (op, sorted(flags) or 'none'), where=f.where, expected=sorted(flags), found=sorted(gf), scenario=op)
        rep.check(gc == conds, rid, 'PGPKey.%s' % op, 'conditions %s' % gc, '%s must run only when %s' % (op, conds), where=f.where,
                  expected=conds, found=gc, scenario=op)
    for op in tbl:
        if op not in POLICY:
            rep.violation(rid, 'PGPKey.%s' % op, 'unreviewed KeyAction operation', 'a new key operation is not in the reviewed policy table',
                          where=tbl[op][2].where)


def check_private_ops(rep, prog, rid):
    tbl = decorator_table(prog)
    for op in ('sign', 'certify', 'revoke', 'revoker', 'bind', 'decrypt'):
        if op not in tbl:
            rep.violation(rid, 'PGPKey.%s' % op, 'no KeyAction decorator', 'private operation %s is not guarded at all' % op,
                          where=prog.cls('pgpy.pgp', 'PGPKey').where, scenario=op)
            continue
        gf, gc, f = tbl[op]
        rep.check(gc.get('is_public') is False, rid, 'PGPKey.%s' % op, 'is_public=%r' % gc.get('is_public'),
                  'objects holding only public material must refuse %s' % op, where=f.where, expected='is_public=False', found=gc, scenario=op)


def check_call_order(rep, prog, rid):
    """KeyAction.__call__: refusals first, check_attributes before the action, action receives the selected component."""
    ka = prog.cls('pgpy.decorators', 'KeyAction')
    call = ka.methods.get('__call__')
    if call is None:
        raise AnalysisError('KeyAction.__call__ vanished')
    inner = [n for n in call.node.body if isinstance(n, ast.FunctionDef)]
    if len(inner) != 1:
        raise AnalysisError('KeyAction.__call__: wrapper function not found')
    w = inner[0]
    g = CFG(w)

    def has_call(node, pred):
        return node.ast is not None and any(pred(c) for e in __import__('sa.cfg', fromlist=['own_exprs']).own_exprs(node.ast)
                                            for c in calls_in(e))
    act = [n for n in g.nodes if n.kind in ('stmt', 'test') and has_call(n, lambda c: isinstance(c.func, ast.Name) and c.func.id == 'action')]
    chk = [n for n in g.nodes if n.kind in ('stmt', 'test') and has_call(n, lambda c: isinstance(c.func, ast.Attribute) and c.func.attr == 'check_attributes')]
    if len(act) != 1:
        raise AnalysisError('KeyAction wrapper: expected one call of the wrapped action, found %d' % len(act))
    where = '%s:%d' % (call.module.relpath, w.lineno)
    ok = bool(chk) and g.must_pass([c.id for c in chk], g.entry.id, act[0].id)
    rep.check(ok, rid, 'KeyAction.__call__', 'check_attributes before action', 'the precondition check must run on every path before the operation',
              where=where, expected='self.check_attributes(key) dominates action(...)')
    for c in chk:
        args = [ast.unparse(a) for cc in calls_in(c.ast) if isinstance(cc.func, ast.Attribute) and cc.func.attr == 'check_attributes' for a in cc.args]
        rep.check(args == ['key'], rid, 'KeyAction.__call__', 'check_attributes(%s)' % args, 'the conditions are those of the key the caller addressed',
                  where=where)
    # refusals: no key material / no user id (except the first self-certification)
    raises = [n for n in g.nodes if n.kind == 'stmt' and isinstance(n.ast, ast.Raise)]
    tests = [n for n in g.nodes if n.kind == 'test']
    t_nokey = [t for t in tests if ast.unparse(t.ast.test).replace(' ', '') == 'key._keyisNone']
    t_nouid = [t for t in tests if 'notkey._uids' in ast.unparse(t.ast.test).replace(' ', '')]
    for label, ts in (('no key material', t_nokey), ('no user id', t_nouid)):
        ok = len(ts) == 1 and g.dominates(ts[0].id, act[0].id)
        if ok:
            tbranch = [m for m, lab in g.succ[ts[0].id] if lab == 'T']
            ok = all(g.exit.id not in g.reachable(m) and act[0].id not in g.reachable(m) for m in tbranch)
        rep.check(ok, rid, 'KeyAction.__call__', 'refusal: %s' % label, 'a key with %s must refuse before anything else happens' % label, where=where)
    if t_nouid:
        tt = ast.unparse(t_nouid[0].ast.test).replace(' ', '').replace('(', '').replace(')', '')
        rep.check(tt == 'notkey._uidsandkey.is_primaryandactionisnotkey.certify.__wrapped__', rid, 'KeyAction.__call__',
                  'identity-less exemption %s' % ast.unparse(t_nouid[0].ast.test),
                  'only the first self-certification may run on a primary key without an identity', where=where)
    # the action receives the component chosen by usage()
    for c in calls_in(act[0].ast):
        if isinstance(c.func, ast.Name) and c.func.id == 'action':
            rep.check(bool(c.args) and ast.unparse(c.args[0]) == '_key', rid, 'KeyAction.__call__', 'action(%s, ...)' % (ast.unparse(c.args[0]) if c.args else None),
                      'the operation must run on the component that usage() selected', where=where)
    withs = [n for n in ast.walk(w) if isinstance(n, ast.With)]
    ok = any(ast.unparse(i.context_expr).replace(' ', '') == "self.usage(key,kwargs.get('user'))" and
             i.optional_vars is not None and ast.unparse(i.optional_vars) == '_key' for n in withs for i in n.items)
    rep.check(ok, rid, 'KeyAction.__call__', 'with self.usage(key, user) as _key', 'the component is selected by the usage scan for the addressed key',
              where=where)
    # check_attributes: loops over all conditions, raises on mismatch
    ca = ka.methods.get('check_attributes')
    gg = CFG(ca.node)
    loops = [n for n in gg.nodes if n.kind == 'loop']
    tests = [n for n in gg.nodes if n.kind == 'test']
    ok = len(loops) == 1 and ast.unparse(loops[0].ast.iter) == 'self.conditions.items()' and len(tests) == 1 and \
        ast.unparse(tests[0].ast.test).replace(' ', '') == 'getattr(key,attr)!=expected'
    if ok:
        tb = [m for m, lab in gg.succ[tests[0].id] if lab == 'T']
        ok = all(gg.exit.id not in gg.reachable(m, skip_nodes={loops[0].id}) and isinstance(gg.nodes[m].ast, ast.Raise) for m in tb)
    rep.check(ok, rid, 'KeyAction.check_attributes', 'for attr, expected in conditions: if getattr(key, attr) != expected: raise',
              'every declared condition must be compared and any mismatch must raise', where=ca.where)


def check_usage_scan(rep, prog, rid):
    ka = prog.cls('pgpy.decorators', 'KeyAction')
    u = ka.methods.get('usage')
    if u is None:
        raise AnalysisError('KeyAction.usage vanished')
    g = CFG(u.node)
    loops = [n for n in g.nodes if n.kind == 'loop' and isinstance(n.ast, ast.For)]
    main = [l for l in loops if '_get_key_flags' in ast.unparse(l.ast)]
    if len(main) != 1:
        raise AnalysisError('KeyAction.usage: scan loop not found')
    L = main[0]
    it = ast.unparse(L.ast.iter).replace(' ', '')
    rep.check(it == '_preiter(key,key.subkeys.values())' and ast.unparse(L.ast.target) == '_key', rid, 'KeyAction.usage', 'scan order %s' % it,
              'the scan must try the addressed key first and then each of its subkeys', where=u.where)
    # selection = intersection of required flags with the component's effective flags; break only on its true edge
    tests = [n for n in g.nodes if n.kind == 'test' and '_get_key_flags' in ast.unparse(n.ast.test)]
    ok = len(tests) == 1 and ast.unparse(tests[0].ast.test).replace(' ', '') == 'self.flags&set(_key._get_key_flags(user))'
    rep.check(ok, rid, 'KeyAction.usage', 'selection test %s' % [ast.unparse(t.ast.test) for t in tests],
              'a component qualifies iff its effective flags intersect the required ones', where=u.where,
              expected='self.flags & set(_key._get_key_flags(user))')
    breaks = [n for n in g.nodes if n.kind == 'stmt' and isinstance(n.ast, ast.Break)]
    if tests:
        tedge = [(tests[0].id, m, 'T') for m, lab in g.succ[tests[0].id] if lab == 'T']
        for b in breaks:
            r = g.reachable(L.id, skip_edges=tedge)
            rep.check(b.id not in r, rid, 'KeyAction.usage', 'break at line %d' % b.lineno,
                      'a component may only be selected through the capability test (no other way to leave the scan with a component)',
                      where='%s:%d' % (u.module.relpath, b.lineno))
        # an exception raised while asking a component for its flags must not select it
        for h in [n for n in g.nodes if n.kind == 'handler']:
            rep.violation(rid, 'KeyAction.usage', 'except %s in the scan' % ast.unparse(h.ast.type) if h.ast.type is not None else 'bare except',
                          'errors while determining a component\'s capability are swallowed inside the usage scan', where='%s:%d' % (u.module.relpath, h.lineno))
    # for-else: raise unless enforcement is disabled
    else_start = [m for m, lab in g.succ[L.id] if lab == 'F']
    et = [n for n in g.nodes if n.kind == 'test' and '_require_usage_flags' in ast.unparse(n.ast.test)]
    ok = len(et) == 1 and ast.unparse(et[0].ast.test).replace(' ', '') == 'key._require_usage_flags'
    if ok:
        tb = [m for m, lab in g.succ[et[0].id] if lab == 'T']
        ok = all(isinstance(g.nodes[m].ast, ast.Raise) for m in tb) and bool(tb)
        ok = ok and all(et[0].id in g.reachable(m) or m == et[0].id for m in else_start)
    rep.check(ok, rid, 'KeyAction.usage', 'no component qualifies -> raise if key._require_usage_flags',
              'when no component has the capability the operation must refuse unless the caller disabled enforcement', where=u.where)
    # only scanned when flags are required; otherwise the addressed key itself
    ft = [n for n in g.nodes if n.kind == 'test' and ast.unparse(n.ast.test).replace(' ', '') == 'len(self.flags)']
    rep.check(len(ft) == 1, rid, 'KeyAction.usage', 'flag-less operations use the addressed key', 'operations without a capability requirement run on the addressed key',
              where=u.where)
    ys = [n for n in g.nodes if n.kind == 'stmt' and isinstance(n.ast, ast.Expr) and isinstance(n.ast.value, ast.Yield)]
    rep.check(len(ys) == 1 and ast.unparse(ys[0].ast.value.value) == '_key', rid, 'KeyAction.usage', 'yields _key', 'the selected component is what the operation receives',
              where=u.where)
