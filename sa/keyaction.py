"""KeyAction decorator: precondition table of every key operation, order of checks, usage scan (shared by C06, C07, C16).

Nothing here compares source text, local names or statement shapes:
  * the wrapper of KeyAction.__call__ is *the function __call__ returns*; its behaviour is read off the interpreter's paths as a
    truth table over the atoms of the decisions taken (refusals, precondition check before the action, component passed on)
  * check_attributes: the raise is reached exactly when the compared pair (attribute of the key, declared value) differs
  * usage(): interpreted under finite scenarios (key with two subkeys, every assignment of "has the capability" to the three
    components, flags required or not, enforcement on or off); the decisions are answered by an oracle that recognises the
    capability test *as a relation* (required flags intersect the component's effective flags), the outcome (what is yielded /
    raised) is compared with the policy.  Iterator expressions, loop shapes, temporaries do not matter.
"""
import ast
import itertools
import re

from .loader import AnalysisError, dotted
from .interp import Interp, Scenario, Sym, Const, FuncV, render
from .guards import eval_skel, atoms as skel_atoms

# the policy, from the property statements (C16 / C07 / C06): operation -> (required flags, conditions)
POLICY = {
    'sign': ({'KeyFlags.Sign'}, {'is_unlocked': True, 'is_public': False}),
    'certify': ({'KeyFlags.Certify'}, {'is_unlocked': True, 'is_public': False}),
    'revoke': ({'KeyFlags.Certify'}, {'is_unlocked': True, 'is_public': False}),
    'revoker': (set(), {'is_unlocked': True, 'is_public': False}),
    'bind': (set(), {'is_unlocked': True, 'is_public': False}),
    'decrypt': (set(), {'is_unlocked': True, 'is_public': False}),
    'encrypt': ({'KeyFlags.EncryptCommunications', 'KeyFlags.EncryptStorage'}, {'is_public': True}),
}

noinline = lambda f: False  # noqa: E731


# ------------------------------------------------------------------------------------------------ decorator table
def _lit(node):
    try:
        return ast.literal_eval(node)
    except Exception:
        return ast.unparse(node)


def decorator_table(prog):
    """operation -> (flags, conditions, FunctionInfo) from the @KeyAction(...) decorators of PGPKey (any argument spelling:
    positional / *(...) flags, keyword / **{...} conditions)."""
    ci = prog.cls('pgpy.pgp', 'PGPKey')
    out = {}
    for name, f in ci.methods.items():
        for d in f.node.decorator_list:
            if isinstance(d, ast.Call) and (dotted(d.func) or '').split('.')[-1] == 'KeyAction':
                flags = set()
                for a in d.args:
                    if isinstance(a, ast.Starred) and isinstance(a.value, (ast.Tuple, ast.List, ast.Set)):
                        flags.update(dotted(e) or ast.unparse(e) for e in a.value.elts)
                    else:
                        flags.add(dotted(a) or ast.unparse(a))
                conds = {}
                for k in d.keywords:
                    if k.arg is None and isinstance(k.value, ast.Dict) and all(isinstance(x, ast.Constant) for x in k.value.keys):
                        for kk, vv in zip(k.value.keys, k.value.values):
                            conds[kk.value] = _lit(vv)
                    elif k.arg is None and isinstance(k.value, ast.Call) and dotted(k.value.func) == 'dict' and not k.value.args:
                        for kw in k.value.keywords:
                            conds[kw.arg] = _lit(kw.value)
                    else:
                        conds[k.arg] = _lit(k.value)
                out[name] = (flags, conds, f)
    return out


def check_table(rep, prog, rid):
    tbl = decorator_table(prog)
    for op, (flags, conds) in POLICY.items():
        if op not in tbl:
            rep.violation(rid, 'PGPKey.%s' % op, 'no KeyAction decorator', 'operation %s runs without its preconditions' % op,
                          where=prog.cls('pgpy.pgp', 'PGPKey').where, scenario=op)
            continue
        gf, gc, f = tbl[op]
        rep.check(gf == flags, rid, 'PGPKey.%s' % op, 'required flags %s' % sorted(gf),
                  '%s must require the capability %s' % (op, sorted(flags) or 'none'), where=f.where, expected=sorted(flags), found=sorted(gf), scenario=op)
        rep.check(gc == conds, rid, 'PGPKey.%s' % op, 'conditions %s' % gc, '%s must run only when %s' % (op, conds), where=f.where,
                  expected=conds, found=gc, scenario=op)
    for op in tbl:
        if op not in POLICY:
            rep.violation(rid, 'PGPKey.%s' % op, 'unreviewed KeyAction operation', 'a new key operation is not in the reviewed policy table',
                          where=tbl[op][2].where)
    _check_init(rep, prog, rid)


def _check_init(rep, prog, rid):
    """The decorator arguments are what usage() / check_attributes() later read: all flags, all conditions."""
    ka = prog.cls('pgpy.decorators', 'KeyAction')
    init = ka.methods.get('__init__')
    if init is None:
        raise AnalysisError('KeyAction.__init__ vanished')
    va, kw = init.node.args.vararg, init.node.args.kwarg
    if va is None or kw is None:
        raise AnalysisError('KeyAction.__init__: flags / conditions are no longer variadic arguments')
    me = init.params[0]
    for s in Interp(prog, Scenario(inline=noinline)).run(init):
        for attr, src, what, expected in (('flags', '*' + va.arg, 'every capability named in the decorator is a required flag', 'all positional arguments'),
                                          ('conditions', kw.arg, 'every condition named in the decorator is kept', 'all keyword arguments')):
            path = '%s.%s' % (me, attr)
            # everything that flows into the attribute: what is stored, and the arguments of calls made on it (update / add ...)
            texts = [v for p, v, l, _ in s.stores if p == path]
            texts += [a for c in s.calls if any(c[0].startswith(t + '.') for t in [path] + texts) for a in list(c[1]) + list(c[2].values())]
            if not texts:
                raise AnalysisError('KeyAction.__init__: %s is never set' % path)
            whole = re.compile(r'(?<![\w])%s(?![\w\[])' % re.escape(src))
            uses_all = any(whole.search(t) and 'SLICE(' + src not in t for t in texts)
            partial = any((src + '[') in t or ('SLICE(' + src) in t for t in texts)
            rep.check(uses_all and not partial, rid, 'KeyAction.__init__', '%s <- %s' % (attr, texts), what, where=init.where,
                      expected=expected, found=texts)


def check_private_ops(rep, prog, rid):
    tbl = decorator_table(prog)
    for op in ('sign', 'certify', 'revoke', 'revoker', 'bind', 'decrypt'):
        if op not in tbl:
            rep.violation(rid, 'PGPKey.%s' % op, 'no KeyAction decorator', 'private operation %s is not guarded at all' % op,
                          where=prog.cls('pgpy.pgp', 'PGPKey').where, scenario=op)
            continue
        gf, gc, f = tbl[op]
        rep.check(gc.get('is_public') is False, rid, 'PGPKey.%s' % op, 'is_public=%r' % gc.get('is_public'),
                  'objects holding only public material must refuse %s' % op, where=f.where, expected='is_public=False', found=gc, scenario=op)


# ------------------------------------------------------------------------------------------------ truth tables over path facts
def atom_key(a):
    """(key, positive): one key per *relation* - `x == y`, `y == x`, `x != y`, `not x is y` share a key; positive tells
    whether the atom being true means the relation holds."""
    if a[0] == 'cmp':
        op, l, r = a[1], a[2], a[3]
        if op in ('==', 'is', '!=', 'is not'):
            return ('eq', frozenset((l, r))), op in ('==', 'is')
        if op == 'not in':
            return ('cmp', 'in', l, r), False
        flip = {'<': '>', '>': '<', '<=': '>=', '>=': '<='}
        if op in ('>', '>='):               # keep one orientation
            return ('cmp', flip[op], r, l), True
        return ('cmp', op, l, r), True
    if a[0] == 'call':
        return ('call', a[1], tuple(a[2])), True
    return (a[0], a[1]), True


def _fact_atoms(s, alias=None):
    out = []
    for text, value, sk in s.facts:
        if sk is None:
            out.append(('opaque', text))
        else:
            for a in skel_atoms(sk):
                if a[0] != 'const':
                    out.append(_aliased(atom_key(a), alias)[0])
    return out


def _fact_atoms_all(states, alias=None):
    out = []
    for s in states:
        for k in _fact_atoms(s, alias):
            if k not in out:
                out.append(k)
    return out


def _aliased(kp, alias):
    """alias(key) -> (other key, same polarity?) lets a rule state that two differently built tests decide the same relation."""
    k, pos = kp
    m = alias(k) if alias is not None else None
    if m is None:
        return k, pos
    return m[0], (pos if m[1] else not pos)


def consistent(s, assign, alias=None):
    """Does the path's list of decisions agree with the assignment of truth values to relations?"""
    for text, value, sk in s.facts:
        if sk is None:
            if assign.get(('opaque', text), True) is not True:
                return False
            continue

        def val(a):
            if a[0] == 'const':
                return a[1]
            k, pos = _aliased(atom_key(a), alias)
            v = assign.get(k)
            return None if v is None else (v if pos else not v)
        ev = eval_skel(sk, val)
        if ev is not None and ev != value:
            return False
    return True


def assignments(states, limit=12, alias=None):
    keys = []
    for s in states:
        for k in _fact_atoms(s, alias):
            if k not in keys:
                keys.append(k)
    if len(keys) > limit:
        raise AnalysisError('decision table too large (%d independent conditions)' % len(keys))
    for vals in itertools.product((True, False), repeat=len(keys)):
        yield dict(zip(keys, vals))


def _show(assign):
    def one(k, v):
        if k[0] == 'eq':
            return '%s %s %s' % (sorted(k[1])[0], '==' if v else '!=', sorted(k[1])[-1])
        if k[0] == 'cmp':
            return '%s(%s %s %s)' % ('' if v else 'not ', k[2], k[1], k[3])
        if k[0] == 'call':
            return '%s%s(%s)' % ('' if v else 'not ', k[1], ', '.join(k[2]))
        return '%s%s' % ('' if v else 'not ', k[1])
    return ', '.join(one(k, v) for k, v in assign.items())


_LEN = re.compile(r'^len\((.+)\)$')


def skel_from_text(text):
    """Boolean skeleton (the format of the interpreter's path facts) of a rendered condition: and / or / not / all([..]) /
    any([..]) / `False not in (..)` / non-short-circuit & | over comparisons; anything else is an opaque atom."""
    src = re.sub(r'\$(\d+)(?:\.(\d+))?', lambda m: 'B_%s_%s' % (m.group(1), m.group(2) or ''), text)
    try:
        tree = ast.parse(src, mode='eval').body
    except SyntaxError:
        return ('expr', text)

    def un(n):
        return re.sub(r'B_(\d+)_(\d*)', lambda m: '$%s%s' % (m.group(1), '.' + m.group(2) if m.group(2) else ''), ast.unparse(n))

    def boolish(n):
        return isinstance(n, (ast.Compare, ast.BoolOp)) or (isinstance(n, ast.UnaryOp) and isinstance(n.op, ast.Not)) or \
            (isinstance(n, ast.BinOp) and isinstance(n.op, (ast.BitAnd, ast.BitOr)) and boolish(n.left) and boolish(n.right))

    def build(n):
        if isinstance(n, ast.BoolOp):
            return ('and' if isinstance(n.op, ast.And) else 'or', [build(v) for v in n.values])
        if isinstance(n, ast.UnaryOp) and isinstance(n.op, ast.Not):
            return ('not', build(n.operand))
        if isinstance(n, ast.BinOp) and isinstance(n.op, (ast.BitAnd, ast.BitOr)) and boolish(n.left) and boolish(n.right):
            return ('and' if isinstance(n.op, ast.BitAnd) else 'or', [build(n.left), build(n.right)])
        if isinstance(n, ast.Call) and dotted(n.func) in ('all', 'any') and len(n.args) == 1 and isinstance(n.args[0], (ast.List, ast.Tuple)):
            return ('and' if dotted(n.func) == 'all' else 'or', [build(v) for v in n.args[0].elts])
        if isinstance(n, ast.Call) and dotted(n.func) == 'bool' and len(n.args) == 1:
            return build(n.args[0])
        if isinstance(n, ast.Constant) and isinstance(n.value, bool):
            return ('const', n.value)
        if isinstance(n, ast.Compare) and len(n.ops) == 1:
            l, r, op = n.left, n.comparators[0], n.ops[0]
            if isinstance(op, (ast.In, ast.NotIn)) and isinstance(l, ast.Constant) and isinstance(l.value, bool) and isinstance(r, (ast.Tuple, ast.List)):
                inner = ('or', [build(v) if l.value else ('not', build(v)) for v in r.elts])       # True in (..) / False in (..)
                return inner if isinstance(op, ast.In) else ('not', inner)
            ops = {ast.Eq: '==', ast.NotEq: '!=', ast.Is: 'is', ast.IsNot: 'is not', ast.In: 'in', ast.NotIn: 'not in', ast.Lt: '<', ast.LtE: '<=',
                   ast.Gt: '>', ast.GtE: '>='}
            return ('cmp', ops[type(op)], un(l), un(r))
        if isinstance(n, ast.Call):
            return ('call', un(n.func), [un(a) for a in n.args])
        return ('expr', un(n))
    return build(tree)


def truthiness(key, subject):
    """If the relation `key` is about the collection `subject` being non-empty return its polarity
    (True: relation true <=> non-empty), else None.  Spellings: x, len(x), len(x) != 0, len(x) > 0, len(x) >= 1, len(x) == 0, len(x) < 1."""
    ln = 'len(%s)' % subject
    if key in (('expr', subject), ('call', 'len', (subject,)), ('call', 'bool', (subject,))):
        return True
    if key[0] == 'eq' and key[1] == frozenset((ln, '0')):
        return False
    if key[0] == 'cmp':
        op, l, r = key[1], key[2], key[3]
        table = {('<', '0', ln): True, ('<=', '1', ln): True, ('<', ln, '1'): False, ('<=', ln, '0'): False}
        return table.get((op, l, r))
    return None


# ------------------------------------------------------------------------------------------------ __call__ / check_attributes
def wrapper_function(prog, call, rep=None, rid=None):
    """The function KeyAction.__call__ hands back (by value: whatever it is called, however it is decorated)."""
    cands = []
    for s in Interp(prog, Scenario(inline=noinline)).run(call):
        if s.raised is not None:
            continue
        if rep is not None and s.ret is not None and render(s.ret) == call.params[1]:
            rep.violation(rid, 'KeyAction.__call__', 'returns the operation itself under %s' % [f[0] for f in s.facts],
                          'the decorator hands the operation back unguarded on some path: refusals and preconditions are skipped', where=call.where,
                          expected='the guarding wrapper on every path', found=render(s.ret))
            continue
        if isinstance(s.ret, FuncV):
            fi = s.ret.fi
        else:
            fs = [v.fi for v in s.env.values() if isinstance(v, FuncV) and v.fi.outer is call]
            if len(fs) != 1:
                raise AnalysisError('KeyAction.__call__: cannot tell which function is returned (%s)' % (render(s.ret) if s.ret is not None else None))
            fi = fs[0]
        if fi not in cands:
            cands.append(fi)
    if len(cands) != 1:
        raise AnalysisError('KeyAction.__call__: wrapper function not found')
    return cands[0]


def check_call_order(rep, prog, rid):
    """KeyAction.__call__: refusals first, check_attributes before the action, action receives the selected component."""
    ka = prog.cls('pgpy.decorators', 'KeyAction')
    call = ka.methods.get('__call__')
    if call is None or len(call.params) != 2:
        raise AnalysisError('KeyAction.__call__ vanished')
    me, act = call.params
    w = wrapper_function(prog, call, rep, rid)
    if not w.params or w.node.args.kwarg is None:
        raise AnalysisError('KeyAction wrapper: no key parameter / keyword arguments')
    kp, kw = w.params[0], w.node.args.kwarg.arg
    where = '%s:%d' % (call.module.relpath, w.node.lineno)
    sc = Scenario(bind={me: Sym(me, cls=ka, nonnull=True), act: Sym(act, nonnull=True)}, inline=noinline)
    outs = Interp(prog, sc).run(w)

    def ev_calls(s, pred):
        return [(i, e) for i, e in enumerate(s.events) if e[0] == 'call' and pred(e)]

    def action_calls(s):
        return ev_calls(s, lambda e: e[1] == act)

    reaching = [s for s in outs if action_calls(s)]
    if not reaching:
        raise AnalysisError('KeyAction wrapper: the wrapped operation is never called')
    # (1) the precondition check runs, for the addressed key, before the operation on every path that performs it
    users = ("%s.get('user')" % kw, "(%s['user'] if ('user' in %s) else None)" % (kw, kw))
    selected = ['%s.usage(%s, %s)' % (me, kp, u_) for u_ in users]
    usage_text = 'with(%s)' % selected[0]

    def is_selected(a0):
        """the context manager's value: `with U as x` or `stack.enter_context(U)`, U = self.usage(<addressed key>, <caller's identity>)"""
        if a0 is None:
            return False
        return any(a0 == 'with(%s)' % u_ or (a0.endswith('.enter_context(%s)' % u_) and a0.startswith('with(')) for u_ in selected)
    for s in reaching:
        ac = action_calls(s)
        first = ac[0][0]
        chk = ev_calls(s, lambda e: e[1] == '%s.check_attributes' % me)
        before = [e for i, e in chk if i < first]
        rep.check(bool(before), rid, 'KeyAction.__call__', 'check_attributes before action', 'the precondition check must run on every path before the operation',
                  where=where, expected='%s.check_attributes(%s) precedes %s(...)' % (me, kp, act), found=[e[1] for e in s.events if e[0] == 'call'])
        for e in before:
            rep.check(e[2] == [kp] and not e[3], rid, 'KeyAction.__call__', 'check_attributes(%s)' % e[2], 'the conditions are those of the key the caller addressed',
                      where=where, expected=[kp], found=e[2])
        # (3) the operation runs once, on the component usage() selected for the addressed key and the caller's identity
        rep.check(len(ac) == 1, rid, 'KeyAction.__call__', '%d calls of the operation' % len(ac), 'the operation is carried out exactly once', where=where)
        for i, e in ac:
            a0 = e[2][0] if e[2] else None
            m_ = re.match(r'^(?:with\(|.*\.enter_context\()%s\.usage\((.*)\)\)$' % re.escape(me), a0 or '')
            if not is_selected(a0) and m_ is not None:
                uargs = _top_args(m_.group(1))
                if len(uargs) == 2 and uargs[0] == kp and re.search(r'(?<![\w.])%s\b' % re.escape(kw), uargs[1]):
                    # the addressed key and SOME reading of the caller's `user` keyword, in a spelling the rule does not know
                    raise AnalysisError('KeyAction wrapper: identity handed to usage() not understood: %s' % uargs[1])
            rep.check(is_selected(a0), rid, 'KeyAction.__call__', 'action(%s, ...)' % a0,
                      'the operation must run on the component that usage() selected for the addressed key and the chosen identity', where=where,
                      expected=usage_text, found=a0)
    # (2) refusals: no key material / no user id (except the first self-certification) - as a truth table over the decisions
    nokey_k = ('eq', frozenset(('%s._key' % kp, 'None')))
    cert_k = ('eq', frozenset((act, '%s.certify.__wrapped__' % kp)))
    prim_k = ('expr', '%s.is_primary' % kp)
    seen = {'nokey': False, 'uids': False, 'primary': False, 'certify': False}
    bad = {}
    n = 0
    for assign in assignments(outs):
        has_uids = None
        for k, v in assign.items():
            pol = truthiness(k, '%s._uids' % kp)
            if pol is not None:
                seen['uids'] = True
                hv = v if pol else not v
                if has_uids is not None and has_uids != hv:
                    has_uids = 'contradiction'
                    break
                has_uids = hv
        if has_uids == 'contradiction':
            continue
        nokey = assign.get(nokey_k)
        primary = assign.get(prim_k)
        certify = assign.get(cert_k)
        seen['nokey'] |= nokey is not None
        seen['primary'] |= primary is not None
        seen['certify'] |= certify is not None
        # a relation that is not decided anywhere in the wrapper counts as "not tested": the refusal cannot depend on it
        refuse = bool(nokey) or (has_uids is False and bool(primary) and certify is False)
        paths = [s for s in outs if consistent(s, assign)]
        if not paths:
            continue
        n += 1
        for s in paths:
            acts = bool(action_calls(s))
            if refuse and (acts or s.raised is None):
                bad.setdefault('refuse', (assign, s))
            if not refuse and (not acts or s.raised is not None):
                bad.setdefault('perform', (assign, s))
    for label, k in (('no key material', 'nokey'), ('no user id', 'uids')):
        ok = seen[k] and 'refuse' not in bad
        rep.check(ok, rid, 'KeyAction.__call__', 'refusal: %s' % label, 'a key with %s must refuse before anything else happens' % label, where=where,
                  found=None if ok else ('not tested' if not seen[k] else 'under [%s] the operation is %s' % (
                      _show(bad['refuse'][0]), 'carried out' if action_calls(bad['refuse'][1]) else 'skipped without an error')))
    ok = seen['primary'] and seen['certify'] and not bad
    rep.check(ok, rid, 'KeyAction.__call__', 'identity-less exemption',
              'only the first self-certification may run on a primary key without an identity', where=where,
              expected='refuse iff no key material, or no identity on a primary key unless the operation is its own certify',
              found=None if ok else '; '.join('%s: [%s]' % (k, _show(v[0])) for k, v in sorted(bad.items())) or 'is_primary / certify not tested')
    check_attributes(rep, prog, rid)


def check_attributes(rep, prog, rid):
    """check_attributes raises exactly when some declared (attribute, value) pair does not hold for the key."""
    ka = prog.cls('pgpy.decorators', 'KeyAction')
    ca = ka.methods.get('check_attributes')
    if ca is None or len(ca.params) != 2:
        raise AnalysisError('KeyAction.check_attributes vanished')
    me, kp = ca.params
    outs = Interp(prog, Scenario(inline=noinline)).run(ca)
    raising = [s for s in outs if s.raised is not None]
    quiet = [s for s in outs if s.raised is None]

    def pair_relation(s):
        """key of the relation `getattr(key, <name>) == <declared value>` with <name>/<value> ranging over self.conditions"""
        conds = '%s.conditions' % me
        for b, coll in s.bound.items():
            if coll.replace(' ', '') in (conds + '.items()', 'list(%s.items())' % conds, 'iter(%s.items())' % conds):
                return ('eq', frozenset(('getattr(%s, %s_0)' % (kp, b), '%s_1' % b)))
            if coll.replace(' ', '') in (conds, conds + '.keys()', 'list(%s)' % conds, 'iter(%s)' % conds):
                return ('eq', frozenset(('getattr(%s, %s)' % (kp, b), '%s[%s]' % (conds, b))))
        return None
    for s in raising:
        # `for a, e in filter(<mismatch test>, conditions.items()): raise` - the fused filter is the decision taken
        for b, f in getattr(s, 'filters', {}).items():
            if b in s.bound and not any(t == f for t, v, sk in s.facts):
                others = set(re.findall(r'\$\d+(?:\.\d+)?', f)) - {b}
                f2 = f.replace(others.pop(), b) if len(others) == 1 else f          # the filter's own variable is the loop's element
                f2 = f2.replace(b + '[0]', b + '_0').replace(b + '[1]', b + '_1')
                s.facts.append((f, True, skel_from_text(f2)))
    rel = None
    for s in raising:
        rel = rel or pair_relation(s)

    def alias(k):
        """`[.. for a, e in conditions.items() if getattr(key, a) != e]` non-empty / any(..) / not all(..): some pair differs"""
        t = None
        if k[0] == 'expr' and k[1].startswith('EACH('):
            m = re.match(r'^EACH\(.+? in .+? if \((.+) != (.+?)\);', k[1])
            t = (m.group(1), m.group(2), False) if m else None
        elif k[0] == 'eq' and 'None' in k[1] and len(k[1]) == 2:
            x = [y for y in k[1] if y != 'None'][0]          # next((pair for pair in .. if differs), None) is None: no pair differs
            m = re.match(r'^next\(EACH\(.+? in .+? if \((.+) != (.+?)\);.*\), None\)$', x)
            t = (m.group(1), m.group(2), True) if m else None
        elif k[0] == 'call' and k[1] in ('operator.ne', 'operator.eq', 'ne', 'eq') and len(k[2]) == 2:
            t = (k[2][0], k[2][1], k[1].endswith('eq'))
        elif k[0] == 'call' and k[1] in ('any', 'all') and len(k[2]) == 1:
            m = re.match(r'^EACH\(.+? in [^;]+;\((.+) (!=|==) (.+)\)\)$', k[2][0])
            if m and (k[1], m.group(2)) in (('any', '!='), ('all', '==')):
                t = (m.group(1), m.group(3), k[1] == 'all')
        if t is not None and rel is not None and frozenset(t[:2]) == rel[1]:
            return rel, t[2]
        return None
    ok = rel is not None and bool(quiet)
    detail = 'no comparison of getattr(%s, <attr>) with the declared value found' % kp
    if rel is not None and raising:
        ks = [k for k in _fact_atoms_all(raising, alias)]
        declared = [x for x in rel[1] if not x.startswith('getattr(')][0]
        if rel not in ks and not any(declared in str(k) for k in ks):
            # a raise exists but its condition does not compare the declared value in any form the rule reads
            raise AnalysisError('KeyAction.check_attributes: mismatch test not understood: %s' % [f[0] for f in raising[0].facts][:3])
    if ok:
        n_mis = 0
        for assign in assignments(raising, alias=alias):
            if any(k[0] == 'opaque' and k[1].startswith('in loop over') and not v for k, v in assign.items()):
                continue
            hit = [s for s in raising if consistent(s, assign, alias)]
            if assign.get(rel) is False:
                n_mis += 1
                if not hit:
                    ok, detail = False, 'a mismatch does not raise under [%s]' % _show(assign)
            elif assign.get(rel) is True and hit:
                ok, detail = False, 'raises although the condition holds under [%s]' % _show(assign)
        ok = ok and n_mis > 0
    # the scan of the conditions only ends early by raising (the interpreter summarises the loop, so look at its exits)
    for loop in [n for n in ast.walk(ca.node) if isinstance(n, (ast.For, ast.While))]:
        early = [n for b in loop.body for n in ast.walk(b) if isinstance(n, (ast.Break, ast.Return))]
        if ok and early:
            ok, detail = False, 'the loop over the conditions is left at line %d before every condition was compared' % early[0].lineno
    rep.check(ok, rid, 'KeyAction.check_attributes', 'for attr, expected in conditions: if getattr(key, attr) != expected: raise',
              'every declared condition must be compared and any mismatch must raise', where=ca.where,
              expected='raise iff getattr(%s, attr) != expected for some (attr, expected) in %s.conditions' % (kp, me), found=None if ok else detail)


# ------------------------------------------------------------------------------------------------ usage scan
COMPONENTS = ('SK1', 'SK2')


def _unwrap_truth(t):
    """(inner text, polarity) for the usual spellings of "this collection is non-empty"."""
    t = t.strip()
    while t.startswith('(') and t.endswith(')') and _balanced(t[1:-1]):
        t = t[1:-1].strip()
    m = re.match(r'^(?:len|bool)\((.+)\)$', t)
    if m and _balanced(m.group(1)):
        return _unwrap_truth(m.group(1))
    m = re.match(r'^len\((.+)\) (==|!=|>|>=|<|<=) (\d+)$', t)
    if m and _balanced(m.group(1)):
        op, nv = m.group(2), int(m.group(3))
        pol = {('!=', 0): True, ('>', 0): True, ('>=', 1): True, ('==', 0): False, ('<', 1): False, ('<=', 0): False}.get((op, nv))
        if pol is not None:
            inner, p2 = _unwrap_truth(m.group(1))
            return inner, (pol if p2 else not pol)
    return t, True


def _top_args(t):
    out, depth, cur = [], 0, ''
    for ch in t:
        if ch in '([{':
            depth += 1
        elif ch in ')]}':
            depth -= 1
        if ch == ',' and depth == 0:
            out.append(cur.strip())
            cur = ''
        else:
            cur += ch
    if cur.strip():
        out.append(cur.strip())
    return out


def _balanced(s):
    d = 0
    for ch in s:
        if ch == '(':
            d += 1
        elif ch == ')':
            d -= 1
            if d < 0:
                return False
    return d == 0


class UsageOracle(object):
    """Answers the decisions of KeyAction.usage under one scenario and records what it was asked."""
    def __init__(self, me, kp, up, flags, require, caps):
        self.me, self.kp, self.up = me, kp, up
        self.flags, self.require, self.caps = flags, require, caps
        self.asked = []          # components whose capability was asked, in order
        self.wrong = []          # capability tests that are a different relation than "the sets intersect"
        self.unknown = []        # tests of a component's effective flags that are not understood
        self.unknown_flags = []  # other tests of the required flags that are not understood
        self.wrong_user = []

    def _effective(self, t):
        """component and identity argument if t is `set(C._get_key_flags(U))` / `C._get_key_flags(U)`"""
        m = re.match(r'^(?:(?:set|frozenset)\()?([\w$.]+)\._get_key_flags\((.*?)\)\)?$', t)
        if not m:
            return None
        return m.group(1), m.group(2)

    def _capability(self, t):
        F = '%s.flags' % self.me
        pats = (r'^(?P<a>.+?) & (?P<b>.+)$', r'^(?P<a>.+)\.intersection\((?P<b>.+)\)$')
        for p in pats:
            m = re.match(p, t)
            if m:
                a, b = m.group('a').strip(), m.group('b').strip()
                for x, y in ((a, b), (b, a)):
                    if x in (F, 'set(%s)' % F, 'frozenset(%s)' % F) and self._effective(y):
                        return self._effective(y) + (True,)
        m = re.match(r'^(?P<a>.+)\.isdisjoint\((?P<b>.+)\)$', t)
        if m:
            a, b = m.group('a').strip(), m.group('b').strip()
            for x, y in ((a, b), (b, a)):
                if x in (F, 'set(%s)' % F, 'frozenset(%s)' % F) and self._effective(y):
                    return self._effective(y) + (False,)
        return None

    def __call__(self, text):
        t, pol = _unwrap_truth(text)
        F = '%s.flags' % self.me
        if t == F:
            return self.flags if pol else not self.flags
        if t.replace(' ', '') in ('%s==set()' % F, 'set()==%s' % F):
            return (not self.flags) if pol else self.flags
        if t.replace(' ', '') in ('%s!=set()' % F, 'set()!=%s' % F):
            return self.flags if pol else not self.flags
        if t == '%s._require_usage_flags' % self.kp:
            return self.require if pol else not self.require
        m = re.match(r'^%s\._require_usage_flags (is|is not|==|!=) (True|False)$' % re.escape(self.kp), t)
        if m:
            v = self.require == (m.group(2) == 'True')
            v = v if m.group(1) in ('is', '==') else not v
            return v if pol else not v
        m = re.match(r'^([\w$.]+) (is|is not|==|!=) ([\w$.]+)$', t)
        comps = (self.kp,) + COMPONENTS
        if m and m.group(1) in comps and m.group(3) in comps:
            v = (m.group(1) == m.group(3)) == (m.group(2) in ('is', '=='))
            return v if pol else not v
        cap = self._capability(t)
        if cap is not None:
            comp, user, positive = cap
            if comp not in comps:
                raise AnalysisError('KeyAction.usage: the candidates of the scan cannot be enumerated (capability asked of %s)' % comp)
            if user != self.up:
                self.wrong_user.append(text)
            self.asked.append(comp)
            v = self.caps[comp] if positive else not self.caps[comp]
            return v if pol else not v
        if '_get_key_flags' in t:
            if F in t:
                self.wrong.append(text)
            else:
                self.unknown.append(text)
        elif F in t:
            self.unknown_flags.append(text)
        return None


def check_usage_scan(rep, prog, rid):
    ka = prog.cls('pgpy.decorators', 'KeyAction')
    u = ka.methods.get('usage')
    if u is None or len(u.params) < 3 or len(u.node.args.defaults) < len(u.params) - 3:
        raise AnalysisError('KeyAction.usage vanished')
    me, kp, up = u.params[:3]
    extra = {}                        # further parameters take their declared defaults (the wrapper's call is checked by C16.2)
    for name, d in zip(u.params[len(u.params) - len(u.node.args.defaults):], u.node.args.defaults):
        if name in u.params[3:]:
            try:
                extra[name] = Const(ast.literal_eval(d))
            except Exception:
                raise AnalysisError('KeyAction.usage: default of %s is not a literal' % name)
    comps = (kp,) + COMPONENTS
    subs = [Sym(c, nonnull=True) for c in COMPONENTS]
    unroll = {'%s.subkeys.values()' % kp: subs, '%s._children.values()' % kp: subs}
    verdicts = {'order': [], 'select': [], 'refuse': [], 'noflags': [], 'yield': []}
    wrong, unknown, unknown_flags, wrong_user = [], [], [], []
    n = 0
    for flags in (True, False):
        for require in (True, False):
            for capv in itertools.product((False, True), repeat=3) if flags else ((False, False, False),):
                caps = dict(zip(comps, capv))
                orc = UsageOracle(me, kp, up, flags, require, caps)
                sc = Scenario(args=dict(extra, **{kp: Sym(kp, nonnull=True)}), unroll=unroll, oracle=orc, inline=lambda f: f.cls is ka and f is not u)
                outs = Interp(prog, sc).run(u)
                wrong += [t for t in orc.wrong if t not in wrong]
                unknown += [t for t in orc.unknown if t not in unknown]
                unknown_flags += [t for t in orc.unknown_flags if t not in unknown_flags]
                wrong_user += [t for t in orc.wrong_user if t not in wrong_user]
                n += 1
                label = 'flags required=%s, enforcement=%s, capable=%s' % (flags, require, [c for c in comps if caps[c]])
                for s in outs:
                    ys = [render(y) for y in s.yields]
                    if any(y not in comps and y != 'None' for y in ys):      # None is no component at all: judged below
                        raise AnalysisError('KeyAction.usage yields %s under %s: not one of the scanned components' % (ys, label))
                    und = [f[0] for f in s.facts]
                    if not flags:
                        if s.raised is not None or ys != [kp]:
                            verdicts['noflags'].append((label, ys, s.raised, und))
                        continue
                    first = next((c for c in comps if caps[c]), None)
                    if first is not None:
                        if s.raised is not None or ys != [first]:
                            kind = 'order' if (ys and ys[0] in comps and caps.get(ys[0])) else 'select'
                            verdicts[kind].append((label, ys, s.raised, und))
                    elif require:
                        if s.raised is None or ys:
                            verdicts['refuse' if not ys or not und else 'select'].append((label, ys, s.raised, und))
                    else:
                        if s.raised is not None:
                            verdicts['refuse'].append((label, ys, s.raised, und))
                        elif len(ys) != 1 or ys[0] not in comps:
                            verdicts['yield'].append((label, ys, s.raised, und))
    if unknown and not wrong:
        raise AnalysisError('KeyAction.usage: capability test not understood: %s' % unknown[:2])
    if unknown_flags and verdicts['noflags'] and not any(v for k, v in verdicts.items() if k != 'noflags'):
        raise AnalysisError('KeyAction.usage: test of the required flags not understood: %s' % unknown_flags[:2])

    def first(kind):
        v = verdicts[kind]
        return None if not v else 'under [%s] the scan yields %s%s%s' % (v[0][0], v[0][1], ', raises' if v[0][2] else '',
                                                                           (' (taking %s)' % v[0][3]) if v[0][3] else '')
    rep.check(not verdicts['order'], rid, 'KeyAction.usage', 'scan order', 'the scan must try the addressed key first and then each of its subkeys',
              where=u.where, expected='first capable component of [key, subkey 1, subkey 2, ...]', found=first('order'))
    rep.check(not wrong, rid, 'KeyAction.usage', 'selection test %s' % (wrong[:1] or ''),
              'a component qualifies iff its effective flags intersect the required ones', where=u.where,
              expected='%s.flags & set(<component>._get_key_flags(%s))' % (me, up), found=wrong[:1])
    rep.check(not wrong_user, rid, 'KeyAction.usage', 'flags of the chosen identity %s' % wrong_user[:1],
              'the capability is the one granted through the identity the caller chose', where=u.where, expected='_get_key_flags(%s)' % up, found=wrong_user[:1])
    rep.check(not verdicts['select'], rid, 'KeyAction.usage', 'selection only through the capability test',
              'a component may only be selected through the capability test (no other way to leave the scan with a component)',
              where=u.where, found=first('select'))
    rep.check(not verdicts['refuse'], rid, 'KeyAction.usage', 'no component qualifies -> raise if key._require_usage_flags',
              'when no component has the capability the operation must refuse unless the caller disabled enforcement', where=u.where,
              found=first('refuse'))
    rep.check(not verdicts['noflags'], rid, 'KeyAction.usage', 'flag-less operations use the addressed key',
              'operations without a capability requirement run on the addressed key', where=u.where, found=first('noflags'))
    rep.check(not verdicts['yield'], rid, 'KeyAction.usage', 'yields the selected component', 'the selected component is what the operation receives',
              where=u.where, found=first('yield'))
