"""Truth tables over rendered conditions.

The interpreter renders the filter of a summarised loop / comprehension into the collection text of the EACH term
(`EACH($1 in coll if c1 if c2;...)`); path decisions are rendered the same way.  Rules must not compare such condition texts
(`a and b` / `b and a` / `not (not a or not b)` / two guard clauses are the same filter): they split the filter off with
`split_filter`, and compare `table(...)` - the truth table over the opaque atoms of the condition - with the table they expect.
Nothing is executed: a condition is parsed (ast) and its boolean skeleton is evaluated over assignments to its atoms.
"""
import ast
import itertools
import re


def split_filter(colltext):
    """'coll if c1 if c2' -> ('coll', ['c1', 'c2'])   (only top-level ' if ' separators count)."""
    parts, depth, last, i = [], 0, 0, 0
    while i < len(colltext):
        ch = colltext[i]
        if ch in '([{':
            depth += 1
        elif ch in ')]}':
            depth -= 1
        elif depth == 0 and colltext.startswith(' if ', i):
            parts.append(colltext[last:i])
            last = i + 4
            i += 3
        i += 1
    parts.append(colltext[last:])
    return parts[0], parts[1:]


def _enc(text):
    t = re.sub(r'\$(\d+)\.(\d+)', r'__B\1d\2', text)
    return t.replace('$', '__B')


def _dec(text):
    t = re.sub(r'__B(\d+)d(\d+)', r'$\1.\2', text)
    return t.replace('__B', '$')


NEG = {ast.NotEq: ast.Eq, ast.NotIn: ast.In, ast.IsNot: ast.Is}


def skeleton(text):
    """Boolean skeleton of a rendered condition: ('and', [..]) ('or', [..]) ('not', s) ('atom', text).
    Negative comparisons are the negation of the positive atom (`a != b` is `not (a == b)`); bool(x) is x."""
    try:
        tree = ast.parse(_enc(text.strip()), mode='eval').body
    except SyntaxError:
        return ('atom', text.strip())

    def rec(n):
        if isinstance(n, ast.BoolOp):
            return ('and' if isinstance(n.op, ast.And) else 'or', [rec(v) for v in n.values])
        if isinstance(n, ast.UnaryOp) and isinstance(n.op, ast.Not):
            return ('not', rec(n.operand))
        if isinstance(n, ast.Compare) and len(n.ops) == 1 and isinstance(n.ops[0], (ast.Eq, ast.NotEq, ast.Is, ast.IsNot)):
            # symmetric comparisons: operands in text order (`a == b` is `b == a`)
            a, b = sorted([n.left, n.comparators[0]], key=ast.unparse)
            n = ast.Compare(left=a, ops=n.ops, comparators=[b])
        if isinstance(n, ast.Compare) and len(n.ops) == 1 and isinstance(n.ops[0], (ast.In, ast.NotIn)) and \
                isinstance(n.comparators[0], (ast.Tuple, ast.List, ast.Set)) and 1 <= len(n.comparators[0].elts) <= 6:
            # membership in a displayed collection is the disjunction of the equalities
            alts = ('or', [rec(ast.Compare(left=n.left, ops=[ast.Eq()], comparators=[e])) for e in n.comparators[0].elts])
            return alts if isinstance(n.ops[0], ast.In) else ('not', alts)
        if isinstance(n, ast.Compare) and len(n.ops) == 1 and type(n.ops[0]) in NEG:
            pos = ast.Compare(left=n.left, ops=[NEG[type(n.ops[0])]()], comparators=n.comparators)
            return ('not', ('atom', _dec(ast.unparse(pos))))
        if isinstance(n, ast.Call) and isinstance(n.func, ast.Name) and n.func.id == 'bool' and len(n.args) == 1 and not n.keywords:
            return rec(n.args[0])
        if isinstance(n, ast.Constant) and isinstance(n.value, bool):
            return ('const', n.value)
        return ('atom', _dec(ast.unparse(n)))
    return rec(tree)


def atom_name(text):
    """Canonical spelling of an atom given as text (None when the text is not a single positive atom)."""
    sk = skeleton(text)
    return sk[1] if sk[0] == 'atom' else None


def atoms(sk):
    if sk[0] == 'atom':
        return {sk[1]}
    if sk[0] == 'not':
        return atoms(sk[1])
    if sk[0] in ('and', 'or'):
        out = set()
        for x in sk[1]:
            out |= atoms(x)
        return out
    return set()


def evaluate(sk, assign):
    k = sk[0]
    if k == 'atom':
        return assign[sk[1]]
    if k == 'const':
        return sk[1]
    if k == 'not':
        return not evaluate(sk[1], assign)
    if k == 'and':
        return all(evaluate(x, assign) for x in sk[1])
    return any(evaluate(x, assign) for x in sk[1])


def conj(conds):
    """Skeleton of the conjunction of condition texts (the ' if ' segments of a filter; [] is True)."""
    return ('and', [skeleton(c) for c in conds])


def table(sk, over=None):
    """{assignment (tuple of bools in the order of sorted atom names): value}, atom names.  `over` adds atoms to range over."""
    names = sorted(atoms(sk) | set(over or ()))
    if len(names) > 10:
        raise ValueError('condition over %d atoms' % len(names))
    out = {}
    for vals in itertools.product((False, True), repeat=len(names)):
        out[vals] = bool(evaluate(sk, dict(zip(names, vals))))
    return out, names


def same(sk, expected, over=None):
    """Do two skeletons denote the same boolean function (over the union of their atoms)?"""
    names = set(atoms(sk)) | set(atoms(expected)) | set(over or ())
    return table(sk, names)[0] == table(expected, names)[0]


def from_fact(text, sk):
    """Skeleton of one path decision.  The interpreter's own skeleton of the test (('not', s) ('and', [..]) ('or', [..])
    ('cmp', op, l, r) ('call', f, [args]) ('expr', text) ('const', b)) has the sub-tests the scenario decided folded to
    constants; its leaves are re-read through `skeleton` so that atoms are spelled as everywhere else."""
    if sk is None:
        return skeleton(text)
    k = sk[0]
    if k in ('and', 'or'):
        return (k, [from_fact(None, x) for x in sk[1]])
    if k == 'not':
        return ('not', from_fact(None, sk[1]))
    if k == 'const':
        return ('const', bool(sk[1]))
    if k == 'cmp':
        return skeleton('%s %s %s' % (sk[2], sk[1], sk[3]))
    if k == 'call':
        return skeleton('%s(%s)' % (sk[1], ', '.join(sk[2])))
    if k == 'expr':
        return skeleton(sk[1])
    return skeleton(text) if text is not None else ('atom', repr(sk))
