"""E0 - loader / resolved program.

Parses every module of the pgpy package under <root>/pgpy with `ast` (never imports it) and builds:
  * module table with import maps (local name -> (module, original name))
  * class table with C3 MRO computed from ClassDef bases
  * method table, sdproperty overload table (@x.register(T) chains), decorator table
  * enum member tables (class-level NAME = constant assignments)
Everything a rule needs to resolve `self.m()`, `super(K, self).m()`, `K.m(self)` and `obj.prop = v` statically.
"""
import ast
import hashlib
import os


class AnalysisError(Exception):
    """The checker cannot see (vanished anchor, unmodelled construct).  Mapped to exit 2, never a violation."""


class FunctionInfo(object):
    def __init__(self, node, module, cls=None, outer=None):
        self.node = node
        self.name = node.name
        self.module = module
        self.cls = cls
        self.outer = outer
        self.decorators = node.decorator_list

    @property
    def qualname(self):
        if self.cls is not None:
            return '%s.%s' % (self.cls.name, self.name)
        if self.outer is not None:
            return '%s.<locals>.%s' % (self.outer.qualname, self.name)
        return self.name

    @property
    def where(self):
        return '%s:%d' % (self.module.relpath, self.node.lineno)

    @property
    def params(self):
        a = self.node.args
        return [x.arg for x in a.posonlyargs + a.args]

    def __repr__(self):
        return '<fn %s @%s>' % (self.qualname, self.where)


class SDProp(object):
    """An sdproperty: getter + setters keyed by the registered type name."""
    def __init__(self, name, getter):
        self.name = name
        self.getter = getter
        self.setters = {}        # type name (str) -> FunctionInfo
        self.setter_order = []   # (typename, FunctionInfo) in source order


class ClassInfo(object):
    def __init__(self, node, module):
        self.node = node
        self.name = node.name
        self.module = module
        self.base_exprs = node.bases
        self.bases = []          # resolved ClassInfo or str (external)
        self.methods = {}        # name -> FunctionInfo (last definition wins, as in Python)
        self.all_defs = {}       # name -> [FunctionInfo] every def with that name in the class body
        self.props = {}          # name -> SDProp  (sdproperty)
        self.plain_props = {}    # name -> {'get': fn, 'set': fn}
        self.attrs = {}          # class-level NAME = expr
        self._mro = None

    @property
    def key(self):
        return (self.module.name, self.name)

    @property
    def qualname(self):
        return '%s.%s' % (self.module.name, self.name)

    @property
    def where(self):
        return '%s:%d' % (self.module.relpath, self.node.lineno)

    def __repr__(self):
        return '<class %s>' % self.qualname

    # ---- C3 linearisation over resolved bases (external bases are kept as strings at the end)
    def mro(self):
        if self._mro is not None:
            return self._mro
        seqs = []
        for b in self.bases:
            if isinstance(b, ClassInfo):
                seqs.append(list(b.mro()))
        seqs.append([b for b in self.bases if isinstance(b, ClassInfo)])
        res = [self]
        seqs = [s for s in seqs if s]
        while seqs:
            for s in seqs:
                cand = s[0]
                if not any(cand in t[1:] for t in seqs):
                    break
            else:
                raise AnalysisError('inconsistent MRO for %s' % self.qualname)
            res.append(cand)
            seqs = [[x for x in s if x is not cand] for s in seqs]
            seqs = [s for s in seqs if s]
        self._mro = res
        return res

    def is_subclass_of(self, other):
        if isinstance(other, ClassInfo):
            return other in self.mro()
        return any(c.name == other for c in self.mro()) or other in self.external_bases()

    def external_bases(self):
        out = []
        for c in self.mro():
            for b in c.bases:
                if not isinstance(b, ClassInfo):
                    out.append(b)
        return out

    def find_method(self, name, after=None):
        """Resolve `name` through the MRO; with `after`, start after that class (super())."""
        mro = self.mro()
        start = 0
        if after is not None:
            if after not in mro:
                return None
            start = mro.index(after) + 1
        for c in mro[start:]:
            if name in c.methods:
                return c.methods[name]
        return None

    def find_prop(self, name):
        for c in self.mro():
            if name in c.props:
                return c.props[name]
        return None

    def find_plain_prop(self, name):
        for c in self.mro():
            if name in c.plain_props:
                return c.plain_props[name]
        return None

    def find_attr(self, name):
        for c in self.mro():
            if name in c.attrs:
                return c.attrs[name]
        return None

    def defines(self, name):
        return name in self.methods

    def enum_members(self):
        """NAME -> constant value for class-level constant assignments (ints, tuples...)."""
        out = {}
        for k, v in self.attrs.items():
            try:
                out[k] = ast.literal_eval(v)
            except Exception:
                if isinstance(v, ast.BinOp) and isinstance(v.op, ast.LShift):
                    try:
                        out[k] = ast.literal_eval(v.left) << ast.literal_eval(v.right)
                    except Exception:
                        pass
        return out


class Module(object):
    def __init__(self, name, path, relpath, source):
        self.name = name
        self.path = path
        self.relpath = relpath
        self.source = source
        self.tree = ast.parse(source, filename=path)
        self.imports = {}     # local name -> (module name, original name or None for module import)
        self.classes = {}     # name -> ClassInfo
        self.functions = {}   # name -> FunctionInfo
        self.assigns = {}     # module-level NAME = expr
        self.digest = hashlib.sha256(source.encode('utf-8')).hexdigest()[:16]
        self.lines = source.splitlines()


def _dotted(node):
    if isinstance(node, ast.Name):
        return node.id
    if isinstance(node, ast.Attribute):
        b = _dotted(node.value)
        return None if b is None else b + '.' + node.attr
    return None


class Program(object):
    PKG = 'pgpy'

    def __init__(self, root='/repo', overlay=None, canon=True):
        """overlay: relpath -> source text replacing the file on disk (used by the sensitivity self-test; in memory only)."""
        self.root = root
        self.overlay = overlay or {}
        self.modules = {}
        self.classes_by_name = {}
        pkgdir = os.path.join(root, self.PKG)
        if not os.path.isdir(pkgdir):
            raise AnalysisError('package directory %s not found' % pkgdir)
        for dirpath, dirnames, filenames in os.walk(pkgdir):
            dirnames[:] = sorted(d for d in dirnames if d != '__pycache__')
            for fn in sorted(filenames):
                if not fn.endswith('.py'):
                    continue
                path = os.path.join(dirpath, fn)
                rel = os.path.relpath(path, root)
                modname = rel[:-3].replace(os.sep, '.')
                if modname.endswith('.__init__'):
                    modname = modname[:-len('.__init__')]
                if rel in self.overlay:
                    src = self.overlay[rel]
                else:
                    with open(path, encoding='utf-8') as fh:
                        src = fh.read()
                try:
                    self.modules[modname] = Module(modname, path, rel, src)
                except SyntaxError as ex:
                    raise AnalysisError('cannot parse %s: %s' % (rel, ex))
        for m in self.modules.values():
            self._index_module(m)
        for m in self.modules.values():
            self._resolve_star(m)
        for m in self.modules.values():
            for c in m.classes.values():
                self._resolve_bases(c)
        for m in self.modules.values():
            for c in m.classes.values():
                c.mro()
        self.canon_stats = None
        if canon:
            from .canon import canonicalise
            canonicalise(self)

    # ------------------------------------------------------------------ indexing
    def _abs_module(self, m, level, name):
        if level == 0:
            return name
        is_pkg = m.path.endswith('__init__.py')
        parts = m.name.split('.')
        if not is_pkg:
            parts = parts[:-1]
        if level > 1:
            parts = parts[:len(parts) - (level - 1)]
        if name:
            parts = parts + name.split('.')
        return '.'.join(parts)

    def _index_module(self, m):
        def visit_body(body):
            for st in body:
                if isinstance(st, ast.Import):
                    for a in st.names:
                        m.imports[a.asname or a.name.split('.')[0]] = (a.name if a.asname else a.name.split('.')[0], None)
                elif isinstance(st, ast.ImportFrom):
                    mod = self._abs_module(m, st.level, st.module or '')
                    for a in st.names:
                        if a.name == '*':
                            m.imports.setdefault('*', []).append(mod)
                        else:
                            m.imports[a.asname or a.name] = (mod, a.name)
                elif isinstance(st, ast.ClassDef):
                    ci = ClassInfo(st, m)
                    m.classes[st.name] = ci
                    self.classes_by_name.setdefault(st.name, []).append(ci)
                    self._index_class(ci)
                elif isinstance(st, (ast.FunctionDef, ast.AsyncFunctionDef)):
                    m.functions[st.name] = FunctionInfo(st, m)
                elif isinstance(st, ast.Assign):
                    for t in st.targets:
                        if isinstance(t, ast.Name):
                            m.assigns[t.id] = st.value
                elif isinstance(st, ast.Try):
                    visit_body(st.body)
                    for h in st.handlers:
                        visit_body(h.body)
                elif isinstance(st, ast.If):
                    visit_body(st.body)
                    visit_body(st.orelse)
        visit_body(m.tree.body)

    def _index_class(self, ci):
        for st in ci.node.body:
            if isinstance(st, (ast.FunctionDef, ast.AsyncFunctionDef)):
                fi = FunctionInfo(st, ci.module, ci)
                ci.all_defs.setdefault(st.name, []).append(fi)
                kind = None
                for d in st.decorator_list:
                    dn = _dotted(d)
                    if dn == 'sdproperty':
                        kind = ('sdget',)
                    elif dn in ('property', 'abc.abstractproperty', 'classproperty'):
                        kind = ('get',)
                    elif isinstance(d, ast.Attribute) and d.attr == 'setter' and isinstance(d.value, ast.Name):
                        kind = ('set', d.value.id)
                    elif isinstance(d, ast.Call) and isinstance(d.func, ast.Attribute) and d.func.attr == 'register' \
                            and isinstance(d.func.value, ast.Name):
                        tn = _dotted(d.args[0]) if d.args else None
                        kind = kind or ('sdset', d.func.value.id, [])
                        if kind[0] == 'sdset':
                            kind[2].append(tn)
                if kind is None:
                    ci.methods[st.name] = fi
                elif kind[0] == 'sdget':
                    ci.props[st.name] = SDProp(st.name, fi)
                    ci.methods[st.name] = fi
                elif kind[0] == 'get':
                    ci.plain_props.setdefault(st.name, {})['get'] = fi
                    ci.methods[st.name] = fi
                elif kind[0] == 'set':
                    pname = kind[1]
                    if pname in ci.props:          # sdproperty .setter == register(object)
                        ci.props[pname].setters['object'] = fi
                        ci.props[pname].setter_order.append(('object', fi))
                    else:
                        ci.plain_props.setdefault(pname, {})['set'] = fi
                    ci.methods.setdefault('%s.setter' % pname, fi)
                elif kind[0] == 'sdset':
                    pname = kind[1]
                    prop = ci.props.get(pname)
                    if prop is None:
                        # property inherited: create a shadow entry extended from the base at resolve time
                        prop = ci.props.setdefault(pname, SDProp(pname, None))
                    for tn in kind[2]:
                        prop.setters[tn] = fi
                        prop.setter_order.append((tn, fi))
                    ci.methods[st.name] = fi
            elif isinstance(st, ast.Assign):
                for t in st.targets:
                    if isinstance(t, ast.Name):
                        ci.attrs[t.id] = st.value
            elif isinstance(st, ast.AnnAssign) and isinstance(st.target, ast.Name) and st.value is not None:
                ci.attrs[st.target.id] = st.value

    def _resolve_star(self, m, seen=None):
        seen = seen or set()
        if m.name in seen:
            return
        seen.add(m.name)
        for mod in m.imports.get('*', []):
            src = self.modules.get(mod)
            if src is None:
                continue
            self._resolve_star(src, seen)
            names = list(src.classes) + list(src.functions) + list(src.assigns) + [k for k in src.imports if k != '*']
            for n in names:
                if n.startswith('_'):
                    continue
                if n not in m.imports and n not in m.classes and n not in m.functions:
                    m.imports[n] = (mod, n)

    def lookup(self, module, name, depth=0):
        """Resolve a (possibly dotted) name as seen from `module` to ClassInfo / FunctionInfo / ('ext', dotted)."""
        if depth > 8:
            return ('ext', name)
        head, _, rest = name.partition('.')
        if head in module.classes and not rest:
            return module.classes[head]
        if head in module.functions and not rest:
            return module.functions[head]
        if head in module.classes and rest:
            return ('classattr', module.classes[head], rest)
        if head in module.imports:
            mod, orig = module.imports[head]
            target = self.modules.get(mod)
            if orig is None:
                # plain module import
                if target is not None and rest:
                    return self.lookup(target, rest, depth + 1)
                return ('ext', (mod + ('.' + rest if rest else '')))
            if target is not None:
                full = orig + ('.' + rest if rest else '')
                return self.lookup(target, full, depth + 1)
            # maybe `from .packet import fields` style: orig is a submodule
            sub = self.modules.get(mod + '.' + orig)
            if sub is not None:
                if rest:
                    return self.lookup(sub, rest, depth + 1)
                return ('module', sub)
            return ('ext', mod + '.' + orig + ('.' + rest if rest else ''))
        # submodule reachable as attribute of package
        sub = self.modules.get(module.name + '.' + head)
        if sub is not None and rest:
            return self.lookup(sub, rest, depth + 1)
        return ('ext', name)

    def _resolve_bases(self, ci):
        for b in ci.base_exprs:
            dn = _dotted(b)
            if dn is None:
                ci.bases.append(ast.unparse(b))
                continue
            r = self.lookup(ci.module, dn)
            if isinstance(r, ClassInfo):
                ci.bases.append(r)
            elif isinstance(r, tuple) and r[0] == 'ext':
                ci.bases.append(r[1])
            else:
                ci.bases.append(dn)

    # ------------------------------------------------------------------ queries
    def module(self, name):
        m = self.modules.get(name)
        if m is None:
            raise AnalysisError('module %s vanished' % name)
        return m

    def cls(self, module, name):
        m = self.module(module)
        c = m.classes.get(name)
        if c is None:
            raise AnalysisError('anchor class %s.%s vanished' % (module, name))
        return c

    def method(self, module, clsname, meth, inherited=True):
        c = self.cls(module, clsname)
        f = c.find_method(meth) if inherited else c.methods.get(meth)
        if f is None:
            raise AnalysisError('anchor method %s.%s.%s vanished' % (module, clsname, meth))
        return f

    def function(self, module, name):
        m = self.module(module)
        f = m.functions.get(name)
        if f is None:
            raise AnalysisError('anchor function %s.%s vanished' % (module, name))
        return f

    def all_classes(self):
        for m in self.modules.values():
            for c in m.classes.values():
                yield c

    def all_functions(self):
        """Every def in the package, including nested ones."""
        for m in self.modules.values():
            for f in m.functions.values():
                yield f
                for g in self._nested(f):
                    yield g
            for c in m.classes.values():
                for defs in c.all_defs.values():
                    for f in defs:
                        yield f
                        for g in self._nested(f):
                            yield g

    def _nested(self, f):
        for st in ast.walk(f.node):
            if st is f.node:
                continue
            if isinstance(st, (ast.FunctionDef, ast.AsyncFunctionDef)):
                yield FunctionInfo(st, f.module, None, outer=f)

    def subclasses(self, base):
        return [c for c in self.all_classes() if c is not base and base in c.mro()]

    def resolve_class_expr(self, module, expr):
        dn = _dotted(expr) if not isinstance(expr, str) else expr
        if dn is None:
            return None
        r = self.lookup(module, dn)
        return r if isinstance(r, ClassInfo) else None

    def digest(self):
        h = hashlib.sha256()
        for k in sorted(self.modules):
            h.update(k.encode())
            h.update(self.modules[k].digest.encode())
        return h.hexdigest()[:16]

    def src(self, module, node):
        try:
            return ast.get_source_segment(module.source, node) or ast.unparse(node)
        except Exception:
            return ast.unparse(node)


def norm(node):
    """Normalised statement/expression text: independent of layout, comments and quoting."""
    if isinstance(node, str):
        return node
    return ast.unparse(node)


def dotted(node):
    return _dotted(node)
